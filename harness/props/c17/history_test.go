package c17

// Part 4: request SEQUENCES on one long-lived execution engine. The engine caches plans by the
// normalised operation, and after normalisation every includeDeprecated value is a variable:
// `fields(includeDeprecated: true)`, `(includeDeprecated: false)` and `(includeDeprecated: $v)`
// hit the same cached plan. Anything request-specific that is remembered inside a plan leaks
// from one request into the next. Oracle: every answer of the long-lived engine equals the
// answer a fresh engine gives for that request alone (history independence), and the reference
// introspection's answer.

import (
	"fmt"
	"reflect"
	"strings"

	gast "github.com/vektah/gqlparser/v2/ast"
	gparser "github.com/vektah/gqlparser/v2/parser"
	gvalidator "github.com/vektah/gqlparser/v2/validator"
	"pgregory.net/rapid"

	"verif/harness/pbt"
)

type histReq struct {
	Query string `json:"query"`
	Vars  string `json:"vars,omitempty"`
	Tpl   int    `json:"tpl"` // index of the operation template this request instantiates, -1 = unrelated operation
}

type historyCase struct {
	SDL      string    `json:"sdl"`
	Requests []histReq `json:"requests"`
}

// allSitesTemplate reaches every place where includeDeprecated is evaluated, on every schema.
const allSitesTemplate = headMark + "{ __schema { types { name " +
	"fields(includeDeprecated: §0§) { name args(includeDeprecated: §1§) { name } } " +
	"enumValues(includeDeprecated: §2§) { name } inputFields(includeDeprecated: §3§) { name } } " +
	"directives { name args(includeDeprecated: §4§) { name } } } }"

// siteForm: how one includeDeprecated site is written in one request.
const (
	formLiteral     = 0 // true / false
	formVarNullable = 1 // $dK: Boolean, value given
	formVarNonNull  = 2 // $dK: Boolean!, value given
	formVarDefault  = 3 // $dK: Boolean = <value>, no value given
)

// instantiate fills the placeholders of a template.
func instantiate(tpl string, nSites int, forms []int, vals []bool, opName string) (string, string) {
	var defs []string
	vars := map[string]any{}
	q := tpl
	for k := 0; k < nSites; k++ {
		lit := fmt.Sprint(vals[k])
		name := fmt.Sprintf("d%d", k)
		switch forms[k] {
		case formVarNullable:
			defs = append(defs, "$"+name+": Boolean")
			vars[name] = vals[k]
			lit = "$" + name
		case formVarNonNull:
			defs = append(defs, "$"+name+": Boolean!")
			vars[name] = vals[k]
			lit = "$" + name
		case formVarDefault:
			defs = append(defs, "$"+name+": Boolean = "+lit)
			lit = "$" + name
		}
		q = strings.ReplaceAll(q, siteMark(k), lit)
	}
	head := ""
	switch {
	case len(defs) > 0:
		if opName == "" {
			opName = "H"
		}
		head = "query " + opName + "(" + strings.Join(defs, ", ") + ") "
	case opName != "":
		head = "query " + opName + " "
	}
	q = strings.Replace(q, headMark, head, 1)
	v := ""
	if len(vars) > 0 {
		v = marshalSorted(vars)
	}
	return q, v
}

// typesWithDeprecations lists the types whose fields / args / values / input fields carry a
// deprecation (those are the types on which includeDeprecated makes a difference).
func (m *model) typesWithDeprecations() []string {
	var out []string
	for _, td := range m.types {
		has := false
		for _, f := range td.Fields {
			if f.Dep.On {
				has = true
			}
			for _, a := range f.Args {
				if a.Dep.On {
					has = true
				}
			}
		}
		for _, f := range td.Inputs {
			if f.Dep.On {
				has = true
			}
		}
		for _, v := range td.Values {
			if v.Dep.On {
				has = true
			}
		}
		if has {
			out = append(out, td.Name)
		}
	}
	return out
}

func genHistoryCase(t *rapid.T) historyCase {
	sdl, m := genSDL(t)
	var names []string
	for _, td := range m.types {
		names = append(names, td.Name)
	}
	// the types on which the argument matters, several times as likely
	for _, n := range m.typesWithDeprecations() {
		names = append(names, n, n, n, n)
	}
	c := historyCase{SDL: sdl}
	nTpl := rapid.IntRange(1, 2).Draw(t, "n-templates")
	var reqs []histReq
	for ti := 0; ti < nTpl; ti++ {
		tpl, nSites := allSitesTemplate, 5
		if !chance(t, 35, "all-sites-template") {
			qc, n := genQueryOrTemplate(t, names, m.query, false, true)
			if n > 0 {
				tpl, nSites = qc.Query, n
			}
		}
		// the way each site is written: mostly the same in every request of the template (literal
		// everywhere, or a variable everywhere), sometimes per request
		baseForms := make([]int, nSites)
		style := rapid.IntRange(0, 9).Draw(t, "site-style")
		for k := range baseForms {
			switch {
			case style < 4:
				baseForms[k] = formLiteral
			case style < 6:
				baseForms[k] = formVarNullable
			case style < 7:
				baseForms[k] = formVarNonNull
			default:
				baseForms[k] = rapid.IntRange(0, 3).Draw(t, "site-form")
			}
		}
		opName := rapid.SampledFrom([]string{"", "Q", "Intro"}).Draw(t, "op-name")
		nInst := rapid.IntRange(2, 4).Draw(t, "n-instances")
		for i := 0; i < nInst; i++ {
			forms := append([]int{}, baseForms...)
			vals := make([]bool, nSites)
			for k := range vals {
				vals[k] = rapid.Bool().Draw(t, "site-value")
				if chance(t, 10, "site-form-varies") {
					forms[k] = rapid.IntRange(0, 3).Draw(t, "site-form-now")
				}
			}
			q, v := instantiate(tpl, nSites, forms, vals, opName)
			reqs = append(reqs, histReq{Query: q, Vars: v, Tpl: ti})
		}
	}
	nOther := rapid.IntRange(0, 2).Draw(t, "n-other")
	for i := 0; i < nOther; i++ {
		qc := genQuery(t, names, m.query, false)
		reqs = append(reqs, histReq{Query: qc.Query, Vars: qc.Vars, Tpl: -1})
	}
	if len(reqs) > 1 && chance(t, 70, "interleave") {
		reqs = rapid.Permutation(reqs).Draw(t, "order")
	}
	c.Requests = reqs
	return c
}

var historyPart = pbt.Part[historyCase]{Name: "engine-request-history", Quick: 2500, Thorough: 40000, Gen: genHistoryCase, Check: checkHistoryCase}

func checkHistoryCase(c historyCase, o *pbt.Rec) pbt.Verdict {
	v, bad := evalHistoryCase(c, o)
	if v == nil {
		return bad
	}
	return v.verdict("SDL:\n" + c.SDL)
}

type answer struct {
	resp jobj
	raw  string
	err  error
}

func (a answer) String() string {
	if a.err != nil {
		return "error " + a.err.Error()
	}
	if len(a.raw) > 400 {
		return a.raw[:400] + "…"
	}
	return a.raw
}

func sameAnswer(a, b answer) bool {
	if (a.err != nil) != (b.err != nil) {
		return false
	}
	if a.err != nil {
		return a.err.Error() == b.err.Error()
	}
	return reflect.DeepEqual(a.resp, b.resp)
}

func evalHistoryCase(c historyCase, o *pbt.Rec) (*verdictBuilder, pbt.Verdict) {
	l, why := load(c.SDL, o)
	if l == nil {
		o.Discard(why)
		return nil, pbt.OK
	}
	truth2, err := loadTruthWithRepoBase(c.SDL)
	if err != nil {
		return nil, pbt.Bad("gqlparser cannot load the SDL together with the repo's base schema: %v\nSDL:\n%s", err, c.SDL)
	}
	long, err := newEngine(l.schema, l.truth)
	if err != nil {
		return nil, pbt.Bad("engine cannot be built over a valid schema: %v\nSDL:\n%s", err, c.SDL)
	}
	defer long.close()
	v := newVerdict(o)

	fresh := make([]answer, len(c.Requests))
	valid := make([]bool, len(c.Requests))
	var history []string
	for i, rq := range c.Requests {
		tag := fmt.Sprintf("request #%d (template %d) %s", i, rq.Tpl, rq.Query)
		if rq.Vars != "" {
			tag += " variables " + rq.Vars
		}
		doc, perr := gparser.ParseQuery(&gast.Source{Input: rq.Query})
		if perr != nil {
			o.Label("query:unparsable-by-reference")
			continue
		}
		if errs := gvalidator.Validate(truth2, doc); len(errs) > 0 {
			o.Label("query:invalid-by-reference")
			continue
		}
		vars, verr := decodeVars(rq.Vars)
		if verr != nil {
			o.Label("query:bad-variables")
			continue
		}
		want, rerr := refIntrospect(truth2, doc, vars, staticData)
		if rerr != nil {
			o.Label("query:reference-cannot-answer")
			continue
		}
		valid[i] = true
		qf := analyseQuery(doc)
		shapeFinding := qf.finding(l.truth.Query.Name)
		errFinding := shapeFinding
		if errFinding == "" && l.shape.clash[l.truth.Query.Name] {
			errFinding = "C17-engine-fails-when-query-type-shares-name-with-directive"
		}

		// the same request on an engine that has seen nothing else
		fe, ferr := newEngine(l.schema, l.truth)
		if ferr != nil {
			return nil, pbt.Bad("engine cannot be built over a valid schema: %v", ferr)
		}
		fresh[i].resp, fresh[i].raw, fresh[i].err = fe.run(rq.Query, rq.Vars)
		fe.close()

		var got answer
		got.resp, got.raw, got.err = long.run(rq.Query, rq.Vars)

		// (1) history independence
		if !sameAnswer(fresh[i], got) {
			v.add("", fmt.Sprintf("%s: the long-lived engine's answer depends on earlier requests.\n  after the history:\n    %s\n  it answers: %s\n  a fresh engine answers: %s",
				tag, strings.Join(history, "\n    "), got, fresh[i]))
		}
		history = append(history, rq.Query+" "+rq.Vars)

		// (2) the reference model, on the long-lived engine's answer
		if got.err != nil {
			v.add(errFinding, fmt.Sprintf("%s: engine fails on a valid introspection operation: %v", tag, got.err))
			continue
		}
		if errs, has := got.resp["errors"]; has {
			v.add(shapeFinding, fmt.Sprintf("%s: engine answers with errors: %s", tag, short(errs)))
			continue
		}
		explainable = func(d introDiff) bool { return classifyIntroDiff(d, l.shape) != "" }
		diffs := cmpIntro(want, got.resp["data"], "data")
		explainable = nil
		for _, d := range diffs {
			id := shapeFinding
			if id == "" {
				id = classifyIntroDiff(d, l.shape)
			}
			v.add(id, tag+": "+d.String())
		}
		if rq.Tpl >= 0 {
			o.Label("history:template-request")
			if qf.varIncludeDeprecated {
				o.Label("history:includeDeprecated-by-variable")
			}
			if qf.includeDeprecatedArg["true"] || qf.includeDeprecatedArg["false"] {
				o.Label("history:includeDeprecated-literal")
			}
		} else {
			o.Label("history:unrelated-request")
		}
	}

	// non-trivial: two requests of one template whose (fresh) answers differ, i.e. the different
	// includeDeprecated values matter on this schema; sharper: the later one follows the earlier
	// one directly or with other requests in between
	effective, interleaved := false, false
	for i := range c.Requests {
		for j := i + 1; j < len(c.Requests); j++ {
			if !valid[i] || !valid[j] || c.Requests[i].Tpl < 0 || c.Requests[i].Tpl != c.Requests[j].Tpl {
				continue
			}
			if fresh[i].err == nil && fresh[j].err == nil && !reflect.DeepEqual(fresh[i].resp, fresh[j].resp) {
				effective = true
				if j > i+1 {
					interleaved = true
				}
			}
		}
	}
	if effective {
		o.Label("history:same-operation-different-answers")
		o.NonTrivial(c.SDL + "\x00" + fmt.Sprint(c.Requests))
	}
	if interleaved {
		o.Label("history:same-operation-different-answers-with-requests-in-between")
	}
	return v, pbt.OK
}
