package c11

import (
	"context"
	"errors"
	"fmt"
	"os"
	"sort"
	"strings"
	"time"

	"pgregory.net/rapid"

	"verif/harness/pbt"
)

const (
	f17        = "C11-late-follower-double-close"
	f18Inbound = "C11-inbound-leader-cancel-leak"
	f18Sub     = "C11-subgraph-leader-cancel-leak"
)

// Participant is one concurrent client request.
type Participant struct {
	Key    int      `json:"key"`            // index into Case.Keys
	Alt    bool     `json:"alt,omitempty"`  // the second client operation that issues the identical subgraph fetch
	Script string   `json:"script"`         // normal | cancel | deadline | fail-load | fail-hard
	Park   []string `json:"park,omitempty"` // windows at which this participant parks on first arrival
	// WriteFail: this client's connection fails when the response is written to it (after the
	// park at "write", if any: the write hangs, then fails). Private to this participant.
	WriteFail bool `json:"write_fail,omitempty"`
}

// Case is one scenario: the requests, their scripts, and the schedule.
type Case struct {
	Layer      string `json:"layer"`   // inbound | subgraph | both
	OpType     string `json:"op_type"` // query | mutation | subscription
	HardCancel bool   `json:"hard_cancel,omitempty"`
	// MaxConc is ResolverOptions.MaxConcurrency (0: 64, never the bottleneck; 1-2: the
	// participants themselves saturate the resolver and queue for a slot).
	MaxConc int `json:"max_conc,omitempty"`
	// Transport "opaque": the data source / pre-fetch hook report a call aborted by the end of
	// the caller's context with an error that does not wrap the context error (gRPC status style).
	Transport string `json:"transport,omitempty"`
	// DataSources is the number of entries of GraphQLResponse.DataSources on the plans (what
	// postprocess.CollectDataSourceInfo() records): 0-4, the fetched subgraph first.
	DataSources int `json:"data_sources,omitempty"`
	// HdrMode "" (uniform): every subgraph receives the client's header set (equal per-subgraph
	// hashes); "rotate": subgraph i receives set ((hdr-1+i) mod 3)+1 (different per-subgraph hashes).
	HdrMode string        `json:"hdr_mode,omitempty"`
	Keys    []Key         `json:"keys"`
	Parts     []Participant `json:"parts"`
	// Sched drives the harness: at every step the i-th number picks (mod n) among the enabled
	// actions [start(p)…, cancel(p)…, resume(p)…, poison]; when exhausted the first enabled
	// action is taken until none is left.
	Sched []int `json:"sched"`
}

func (c Case) text() string {
	var b strings.Builder
	fmt.Fprintf(&b, "%s/%s hard=%v maxconc=%d transport=%s datasources=%d hdrmode=%s keys=%v", c.Layer, c.OpType, c.HardCancel, c.MaxConc, c.Transport, c.DataSources, c.HdrMode, c.Keys)
	for i, p := range c.Parts {
		wf := ""
		if p.WriteFail {
			wf = " write-fails"
		}
		fmt.Fprintf(&b, " p%d{k%d alt=%v %s%s park=%v}", i, p.Key, p.Alt, p.Script, wf, p.Park)
	}
	fmt.Fprintf(&b, " sched=%v", c.Sched)
	return b.String()
}

func layerWindows(layer string) []string {
	switch layer {
	case layerInbound:
		return []string{"prefetch", "load", "write", "before_add", "finish_ok", "before_close", "finish_err"}
	case layerSubgraph:
		return []string{"prefetch", "load", "write", "joined", "loaded"}
	}
	return []string{"prefetch", "load", "write", "before_add", "finish_ok", "before_close", "finish_err", "joined", "loaded"}
}

func genKeys(t *rapid.T) []Key {
	n := rapid.SampledFrom([]int{1, 1, 2, 2, 3}).Draw(t, "nkeys")
	keys := []Key{{
		Op:  rapid.IntRange(0, 1).Draw(t, "op"),
		Var: rapid.IntRange(0, 1).Draw(t, "var"),
		Hdr: rapid.IntRange(0, 3).Draw(t, "hdr"),
	}}
	for len(keys) < n {
		// mostly near misses: differ from an existing key in exactly one component
		base := keys[rapid.IntRange(0, len(keys)-1).Draw(t, "base")]
		k := base
		switch rapid.IntRange(0, 3).Draw(t, "diff") {
		case 0:
			k.Op = 1 - k.Op
		case 1:
			k.Var = 1 - k.Var
		case 2:
			k.Hdr = (k.Hdr + rapid.IntRange(1, 3).Draw(t, "dh")) % 4
		default:
			k = Key{rapid.IntRange(0, 1).Draw(t, "op2"), rapid.IntRange(0, 1).Draw(t, "var2"), rapid.IntRange(0, 3).Draw(t, "hdr2")}
		}
		dup := false
		for _, e := range keys {
			if e == k {
				dup = true
			}
		}
		if !dup {
			keys = append(keys, k)
		} else {
			n-- // keeps the draw count bounded
		}
	}
	return keys
}

func genCase(layer string) func(t *rapid.T) Case {
	return func(t *rapid.T) Case {
		c := Case{Layer: layer}
		c.OpType = rapid.SampledFrom([]string{"query", "query", "query", "query", "query", "query", "query", "query", "mutation", "subscription"}).Draw(t, "optype")
		c.HardCancel = rapid.IntRange(0, 3).Draw(t, "hardcancel") == 0
		c.MaxConc = rapid.SampledFrom([]int{0, 0, 0, 0, 1, 1, 1, 2}).Draw(t, "maxconc")
		if rapid.IntRange(0, 2).Draw(t, "opaque") == 0 {
			c.Transport = "opaque"
		}
		c.DataSources = rapid.SampledFrom([]int{0, 0, 1, 2, 2, 3, 4}).Draw(t, "datasources")
		if rapid.IntRange(0, 2).Draw(t, "rotate") == 0 {
			c.HdrMode = "rotate"
		}
		c.Keys = genKeys(t)
		n := rapid.IntRange(2, 6).Draw(t, "nparts")
		wins := layerWindows(layer)
		scripts := []string{scNormal, scNormal, scNormal, scNormal, scNormal, scCancel, scCancel, scDeadline, scFailLoad, scFailLoad, scFailHard}
		if c.MaxConc != 0 {
			// a saturated resolver is interesting when somebody gives up while queued
			scripts = []string{scNormal, scNormal, scNormal, scCancel, scCancel, scDeadline, scFailLoad, scFailHard}
		}
		for i := 0; i < n; i++ {
			var p Participant
			// most participants on key 0 so that sharing actually happens
			if len(c.Keys) > 1 && rapid.IntRange(0, 2).Draw(t, "otherkey") == 0 {
				p.Key = rapid.IntRange(1, len(c.Keys)-1).Draw(t, "key")
			}
			if layer != layerInbound {
				p.Alt = rapid.Bool().Draw(t, "alt")
			}
			p.Script = rapid.SampledFrom(scripts).Draw(t, "script")
			p.WriteFail = rapid.IntRange(0, 5).Draw(t, "writefail") == 0
			for _, w := range wins {
				pr := 4
				switch w {
				case "load":
					pr = 2 // a leader held in its load is what lets others join
				case "write", "prefetch":
					pr = 5
				}
				if rapid.IntRange(0, pr-1).Draw(t, "park:"+w) == 0 {
					p.Park = append(p.Park, w)
				}
			}
			c.Parts = append(c.Parts, p)
		}
		c.Sched = rapid.SliceOfN(rapid.IntRange(0, 11), 0, 48).Draw(t, "sched")
		return c
	}
}

func assumeFixed() bool { return os.Getenv("VERIF_C11_ASSUME_FIXED") == "1" }

type runOpts struct {
	steer17, steer18 bool
	watchdog         time.Duration
}

func defaultOpts() runOpts {
	fixed := assumeFixed()
	return runOpts{
		steer17:  !fixed && pbt.IsKnown(f17),
		steer18:  !fixed && (pbt.IsKnown(f18Inbound) || pbt.IsKnown(f18Sub)),
		watchdog: 20 * time.Second,
	}
}

type rec struct{ o *pbt.Rec }

func (r rec) label(f string, a ...any) {
	if r.o != nil {
		r.o.Labelf(f, a...)
	}
}

func (c *Case) sanitize() string {
	switch c.Layer {
	case layerInbound, layerSubgraph, layerBoth:
	default:
		return "unknown layer " + c.Layer
	}
	switch c.OpType {
	case "query", "mutation", "subscription":
	default:
		return "unknown op type " + c.OpType
	}
	if len(c.Keys) == 0 || len(c.Parts) == 0 {
		return "empty case"
	}
	if c.MaxConc < 0 || c.MaxConc > 64 {
		return "max_conc out of range"
	}
	switch c.Transport {
	case "", "plain", "opaque":
	default:
		return "unknown transport " + c.Transport
	}
	if c.DataSources < 0 || c.DataSources > len(subgraphNames) {
		return "data_sources out of range"
	}
	switch c.HdrMode {
	case "", "rotate":
	default:
		return "unknown hdr_mode " + c.HdrMode
	}
	for _, k := range c.Keys {
		if k.Hdr < 0 || k.Hdr > 3 {
			return "header set out of range"
		}
	}
	for i := range c.Keys {
		for j := 0; j < i; j++ {
			if c.Keys[i] == c.Keys[j] {
				return "duplicate key"
			}
		}
	}
	for _, p := range c.Parts {
		if p.Key < 0 || p.Key >= len(c.Keys) {
			return "participant key out of range"
		}
		switch p.Script {
		case scNormal, scCancel, scDeadline, scFailLoad, scFailHard:
		default:
			return "unknown script " + p.Script
		}
		for _, w := range p.Park {
			if _, ok := shortToPoint[w]; !ok {
				return "unknown window " + w
			}
		}
	}
	return ""
}

// problem is one oracle complaint; finding != "" when a narrow recogniser attributes it.
type problem struct {
	msg     string
	finding string
}

func checkScheduled(c Case, o *pbt.Rec) pbt.Verdict {
	v, _ := runScheduled(c, rec{o}, defaultOpts())
	return v
}

// runScheduled executes the scenario under the case's schedule and applies the oracle.
func runScheduled(c Case, o rec, opts runOpts) (pbt.Verdict, *sched) {
	if msg := c.sanitize(); msg != "" {
		return pbt.Bad("invalid case: %s", msg), nil
	}
	if opts.watchdog <= 0 {
		opts.watchdog = 20 * time.Second
	}
	if o.o != nil {
		o.o.Journal() // a panic in an engine-spawned goroutine would kill the process
	}
	o.label("layer:%s", c.Layer)
	o.label("optype:%s", c.OpType)
	o.label("participants:%d", len(c.Parts))
	o.label("keys:%d", len(c.Keys))
	o.label("maxconc:%d", c.MaxConc)
	if c.Transport == "opaque" {
		o.label("transport:opaque")
	}
	o.label("datasources:%d", c.DataSources)
	hm := "uniform"
	if c.HdrMode != "" {
		hm = c.HdrMode
	}
	// two requests in the case that differ only in their forwarded headers (both with a builder)
	hdrOnly := false
	for i, a := range c.Parts {
		for _, b := range c.Parts[:i] {
			ka, kb := c.Keys[a.Key], c.Keys[b.Key]
			if ka.Op == kb.Op && ka.Var == kb.Var && ka.Hdr != kb.Hdr && ka.Hdr != 0 && kb.Hdr != 0 && a.Alt == b.Alt {
				hdrOnly = true
			}
		}
	}
	if hdrOnly {
		o.label("headers-only-differ:%s:datasources=%d", hm, c.DataSources)
	}

	// out_alone for everything this case can legitimately observe (fresh resolvers, nothing in flight)
	for _, p := range c.Parts {
		k := c.Keys[p.Key]
		ok := outAlone(c.Layer, c.OpType, k, p.Alt, scNormal)
		if ok.Out != expectOK(k, p.Alt) || ok.err != nil {
			return pbt.Bad("harness: out_alone(%v alt=%v) = %q err=%v, expected %q", k, p.Alt, ok.Out, ok.err, expectOK(k, p.Alt)), nil
		}
		fl := outAlone(c.Layer, c.OpType, k, p.Alt, scFailLoad)
		if fl.err != nil || !strings.Contains(fl.Out, "Failed to fetch") || strings.Contains(fl.Out, "K[") {
			return pbt.Bad("harness: out_alone with a failing load (%v alt=%v) = %q err=%v", k, p.Alt, fl.Out, fl.err), nil
		}
		hd := outAlone(c.Layer, c.OpType, k, p.Alt, scFailHard)
		var ue *upstreamErr
		if !errors.As(hd.err, &ue) || hd.Out != "" {
			return pbt.Bad("harness: out_alone with a failing pre-fetch hook (%v alt=%v) = %q err=%v", k, p.Alt, hd.Out, hd.err), nil
		}
	}

	rg := acquireRig(c.MaxConc)
	before := goroutineSet()
	s := &sched{wake: make(chan struct{}, 1), byGID: map[int64]*pstate{}, rig: rg, c: &c, loads: &loadLog{},
		steer17: opts.steer17, steer18: opts.steer18, watchdog: opts.watchdog}
	for i, sp := range c.Parts {
		k := c.Keys[sp.Key]
		ctx, cancel := requestContext(sp.Script)
		p := &pstate{id: i, spec: sp, key: k, ikey: fmt.Sprintf("%d/%s", clientOpID(k.Op, sp.Alt), k), ctx: ctx, cancel: cancel,
			want: map[string]bool{}, arrived: map[string]bool{}}
		for _, w := range sp.Park {
			p.want[shortToPoint[w]] = true
		}
		p.w = &who{pid: i, script: sp.Script, hardCancel: c.HardCancel, opaque: c.Transport == "opaque", p: p, s: s, loads: s.loads}
		p.wr = &pwriter{p: p, s: s, fail: sp.WriteFail}
		s.parts = append(s.parts, p)
	}
	current.Store(s)
	defer current.Store(nil)

	var timeout *settleResult
	step := 0
	for {
		en := s.enabled()
		if len(en) == 0 {
			break
		}
		pick := 0
		if step < len(c.Sched) {
			x := c.Sched[step]
			if x < 0 {
				x = -x
			}
			pick = x % len(en)
		}
		step++
		s.act(en[pick])
		if r := s.settle(); !r.ok {
			timeout = &r
			break
		}
	}

	history := func() string {
		s.mu.Lock()
		defer s.mu.Unlock()
		return "case: " + c.text() + "\nhistory:\n  " + strings.Join(s.log, "\n  ")
	}

	if timeout != nil {
		// liveness watchdog expired: re-sample after a grace period; only a participant sitting in
		// the same blocking call in both samples is reported
		time.Sleep(500 * time.Millisecond)
		gs := allGoroutines()
		var wedged []string
		for _, p := range timeout.stuck {
			g, ok := gs[p.gid]
			if ok && !strings.HasPrefix(g.state, "run") && g.state+" @ "+g.top == timeout.samples[p.id] {
				wedged = append(wedged, fmt.Sprintf("p%d blocked [%s] in %s\n%s", p.id, g.state, g.top, g.text))
			}
		}
		// if any unfinished participant can still run, whoever waits for it is not wedged
		s.mu.Lock()
		for _, p := range s.parts {
			if p.started && !p.finished && p.parkedAt == "" {
				if g, ok := gs[p.gid]; !ok || strings.HasPrefix(g.state, "run") {
					wedged = nil
					break
				}
			}
		}
		s.mu.Unlock()
		s.drain()
		discardRig(rg)
		if len(wedged) > 0 {
			return pbt.Bad("participant wedged (same blocking call in two samples %v apart):\n%s\n%s", opts.watchdog, strings.Join(wedged, "\n"), history()), s
		}
		if o.o != nil {
			o.o.Discard("watchdog-inconclusive")
		}
		return pbt.OK, s
	}

	var probs []problem
	add := func(finding, f string, a ...any) { probs = append(probs, problem{fmt.Sprintf(f, a...), finding}) }

	// ---- every participant returns -----------------------------------------------------------
	var waiting []*pstate
	s.mu.Lock()
	for _, p := range s.parts {
		if !p.finished {
			waiting = append(waiting, p)
		}
	}
	s.mu.Unlock()
	if len(waiting) > 0 {
		// no harness action is left and these sit in a follower wait: nothing can wake them
		gs := allGoroutines()
		for _, p := range waiting {
			p.wedged = true
			add("", "p%d never returns: blocked forever in %s (its leader is gone and nothing is left to run)", p.id, strings.TrimSpace(gs[p.gid].top))
		}
		s.drain()
	}
	if s.poisonFailed != "" {
		s.drain()
		discardRig(rg)
		return pbt.Bad("harness: %s\n%s", s.poisonFailed, history()), s
	}

	loads, prefetches := s.loads.snapshot()
	probs = append(probs, oracle(&c, s.parts, loads, prefetches, o)...)

	// ---- classes --------------------------------------------------------------------------------
	joinedAny, parkedAny := false, false
	for _, p := range s.parts {
		o.label("script:%s", p.spec.Script)
		if p.arrived[ptBeforeAdd] {
			joinedAny = true
			o.label("joined:inbound-follower")
		}
		if p.arrived[ptJoined] {
			joinedAny = true
			o.label("joined:subgraph-follower")
		}
		for _, pt := range p.parkedLog {
			parkedAny = true
			o.label("parked:%s", shortOf(pt))
		}
		if p.lateRegister {
			o.label("window:follower-registered-after-leader-check")
		}
		if p.lateAtErr {
			o.label("window:follower-registered-after-leader-finish_err")
		}
		if p.lateJoin {
			o.label("window:subgraph-follower-resumed-after-leader-finished")
		}
		if p.queued {
			o.label("slot:queued")
			for _, q := range s.parts {
				if q != p && q.ikey == p.ikey && q.arrived[ptBeforeAdd] && !p.arrived[ptBeforeAdd] {
					o.label("slot:queued-leader-had-followers")
					if p.cancelled && p.cancelWhere == "queued-for-slot" {
						o.label("slot:leader-gave-up-while-queued-with-followers")
					}
					break
				}
			}
		}
		if p.spec.WriteFail && p.wr.writes > 0 {
			o.label("write-fail:fired")
			if !p.out.Dedup {
				for _, q := range s.parts {
					if q != p && q.ikey == p.ikey && q.out.Dedup {
						o.label("write-fail:leader-with-followers")
						break
					}
				}
			}
		}
		if p.spec.Script == scDeadline && p.cancelled {
			o.label("deadline:fired:%s", p.cancelWhere)
			if p.loadResult == "canceled" {
				for _, q := range s.parts {
					if q != p && q.spec.Key == p.spec.Key && q.arrived[ptJoined] {
						o.label("deadline:subgraph-leader-expired-with-followers")
						break
					}
				}
			}
		}
		if p.cancelled && c.Transport == "opaque" && p.loadResult == "canceled" {
			for _, q := range s.parts {
				if q != p && q.spec.Key == p.spec.Key && q.arrived[ptJoined] {
					o.label("opaque:subgraph-leader-aborted-with-followers")
					break
				}
			}
		}
		if p.spec.Script == scCancel || p.spec.Script == scDeadline {
			if p.cancelled {
				o.label("cancel:fired:%s", p.cancelWhere)
				if p.cancelBeforeProduct {
					o.label("cancel:before-own-result-final")
				}
			} else {
				o.label("cancel:not-fired")
			}
		}
		if p.arrived[ptWrite] && s.poisoned > 0 && p.out.Dedup {
			o.label("aliasing:follower-bytes-taken-after-poison")
		}
	}
	if s.poisoned > 0 {
		o.label("poisoned-arenas")
	}
	if s.forcedParks > 0 {
		o.label("steering:forced-park")
	}
	if s.excluded17 > 0 {
		o.label("excluded:%s", f17)
	}
	if s.excluded18 > 0 {
		labelExcluded18(o, c.Layer)
	}
	if len(c.Keys) > 1 {
		used := map[int]bool{}
		for _, p := range c.Parts {
			used[p.Key] = true
		}
		if len(used) > 1 {
			o.label("multi-key-in-flight")
		}
	}
	if joinedAny {
		o.label("shared")
	}
	if joinedAny && parkedAny && o.o != nil {
		o.o.NonTrivial(c.text())
	}

	// ---- goroutines -------------------------------------------------------------------------------
	if len(waiting) == 0 {
		desc, stable := leaked(before, 2*time.Second)
		if len(desc) > 0 {
			if stable {
				add("", "goroutines created by the scenario are still alive and blocked after every participant returned:\n  %s", strings.Join(desc, "\n  "))
			} else {
				o.label("goroutine-delta-inconclusive")
			}
		}
	}

	if len(probs) == 0 {
		return pbt.OK, s
	}
	discardRig(rg)
	sort.SliceStable(probs, func(i, j int) bool { return probs[i].finding == "" && probs[j].finding != "" })
	var msgs []string
	for _, p := range probs {
		msgs = append(msgs, p.msg)
	}
	msg := strings.Join(msgs, "\n") + "\n" + history()
	if probs[0].finding != "" {
		return pbt.BadKnown(probs[0].finding, "%s", msg), s
	}
	return pbt.Bad("%s", msg), s
}

// classify names the outcome of participant p relative to its own key's possible results.
func classify(c *Case, p *pstate) (kind string, detail string) {
	k := p.key
	okB := outAlone(c.Layer, c.OpType, k, p.spec.Alt, scNormal).Out
	failB := outAlone(c.Layer, c.OpType, k, p.spec.Alt, scFailLoad).Out
	out := p.out
	var we *writeErr
	ownWriteErr := false
	if errors.As(out.err, &we) {
		if we.pid != p.id {
			return "foreign", fmt.Sprintf("returned %q: the failure of another participant's client connection (its own writer is healthy, it delivered %q)", out.err, out.Delivered)
		}
		if !p.spec.WriteFail {
			return "other", fmt.Sprintf("returned a write error its writer never produced: %v", out.err)
		}
		// its own connection failed: judge what the engine tried to deliver
		ownWriteErr = true
	}
	if out.err != nil && !ownWriteErr {
		var ue *upstreamErr
		var ae *abortErr
		switch {
		case errors.As(out.err, &ue):
			if ue.key == k.String() {
				kind = "hard"
			} else {
				return "foreign", fmt.Sprintf("returned the upstream error of key %s, its own key is %s", ue.key, k)
			}
		case errors.As(out.err, &ae):
			if ae.pid != p.id && !p.cancelled {
				return "foreign", fmt.Sprintf("returned %q: the aborted call of another participant", out.err)
			}
			// its own aborted call; or it is itself cancelled and was handed the abort of an
			// equally cancelled leader (with a wrapping transport the two are indistinguishable)
			kind = "ctx"
		case errors.Is(out.err, context.Canceled), errors.Is(out.err, context.DeadlineExceeded):
			kind = "ctx"
		default:
			return "other", fmt.Sprintf("returned error %v, which is neither its key's upstream error nor a context error", out.err)
		}
		if out.Out != "" {
			return "other", fmt.Sprintf("returned error %v after writing %q", out.err, out.Out)
		}
		return kind, ""
	}
	if !ownWriteErr && out.Delivered != out.Out {
		return "other", fmt.Sprintf("harness: delivered %q differs from attempted %q", out.Delivered, out.Out)
	}
	switch out.Out {
	case okB:
		return "ok", ""
	case failB:
		return "fail", ""
	}
	for _, other := range c.Keys {
		if other != k && strings.Contains(out.Out, other.sentinel()) {
			return "foreign", fmt.Sprintf("wrote bytes carrying the sentinel of key %s, its own key is %s: %q", other, k, out.Out)
		}
	}
	if strings.Contains(out.Out, "ZZZZ") {
		return "other", fmt.Sprintf("wrote bytes from a recycled buffer (poison visible): %q, out_alone is %q", out.Out, okB)
	}
	return "other", fmt.Sprintf("wrote %q, out_alone is %q (or %q when its upstream fails)", out.Out, okB, failB)
}

// oracle applies the per-participant clauses of C11 to a finished scenario. It is shared by the
// scheduled parts and the stress part (where the pstate carries only what was observable).
func oracle(c *Case, parts []*pstate, loads, prefetches []loadRec, o rec) []problem {
	var probs []problem
	add := func(finding, f string, a ...any) { probs = append(probs, problem{fmt.Sprintf(f, a...), finding}) }
	shares := c.OpType == "query"
	inbound := shares && c.Layer != layerSubgraph

	loadsBy := map[int][]loadRec{}
	for _, l := range loads {
		loadsBy[l.Pid] = append(loadsBy[l.Pid], l)
	}
	preBy := map[int][]loadRec{}
	for _, l := range prefetches {
		preBy[l.Pid] = append(preBy[l.Pid], l)
	}

	// what actually reached upstream carries the caller's own key
	for _, l := range append(append([]loadRec(nil), loads...), prefetches...) {
		if l.Pid >= 0 && l.Pid < len(parts) && l.Wire != parts[l.Pid].key.String() {
			add("", "p%d (key %s) sent an upstream request for key %s", l.Pid, parts[l.Pid].key, l.Wire)
		}
	}

	for _, p := range parts {
		if !p.finished || p.wedged {
			continue // reported as wedged; what it returns after the clean-up cancellation says nothing
		}
		if p.out.Panic != "" {
			f := ""
			if strings.Contains(p.out.Panic, "close of closed channel") && strings.Contains(p.out.Stack, "(*InboundRequestSingleFlight).Finish") && p.lateRegister {
				f = f17
			}
			add(f, "p%d panicked: %s\n%s", p.id, p.out.Panic, trimStack(p.out.Stack))
			continue
		}
		if !p.out.Returned {
			add("", "p%d ended without returning", p.id)
			continue
		}
		kind, detail := classify(c, p)
		o.label("outcome:%s", kind)
		if kind == "other" || kind == "foreign" {
			add("", "p%d (key %s, %s) %s", p.id, p.key, p.spec.Script, detail)
			continue
		}
		myLoads := loadsBy[p.id]
		if len(myLoads) > 1 {
			add("", "p%d issued %d upstream loads for one request", p.id, len(myLoads))
		}
		if p.out.Dedup && (len(myLoads) > 0 || len(preBy[p.id]) > 0) {
			add("", "p%d is reported as de-duplicated but did its own upstream work", p.id)
		}
		// the leader→follower side channel (SharedData) carries the state of the follower's own key
		if p.out.Dedup && (p.w.sharedSet != 1 || p.w.sharedGot != "shared:"+p.key.String()) {
			add("", "p%d (key %s) is a follower but SetDeduplicationData was called %d times, last with %q", p.id, p.key, p.w.sharedSet, p.w.sharedGot)
		}
		if !p.out.Dedup && p.w.sharedSet != 0 {
			add("", "p%d (key %s) resolved on its own but was handed de-duplication data %q", p.id, p.key, p.w.sharedGot)
		}
		if !shares {
			// mutations / subscriptions are never shared: every request does its own work
			if p.out.Dedup || p.arrived[ptBeforeAdd] || p.arrived[ptJoined] {
				add("", "p%d: a %s was shared with another request", p.id, c.OpType)
			}
			gaveUp := p.cancelled && kind == "ctx" // its own cancellation before it got to work
			if len(myLoads) == 0 && !gaveUp && !(len(preBy[p.id]) == 1 && preBy[p.id][0].Result != "ok") {
				add("", "p%d: a %s did not reach upstream (loads=%d requests=%d)", p.id, c.OpType, len(loads), len(parts))
			}
		}

		// the set of results p may legitimately see
		acc := map[string]bool{}
		own := ""
		switch {
		case len(myLoads) > 0:
			own = myLoads[0].Result
		case len(preBy[p.id]) > 0 && preBy[p.id][0].Result != "ok":
			own = "pre:" + preBy[p.id][0].Result
		}
		switch own {
		case "ok":
			acc["ok"] = true
		case "upstream-error":
			acc["fail"] = true
		case "pre:upstream-error":
			acc["hard"] = true
		case "canceled", "pre:canceled":
			// only possible when p itself was cancelled; handled below
		default:
			// p did no upstream work of its own: it received somebody's result for the same key
			for _, q := range parts {
				if q == p || q.spec.Key != p.spec.Key {
					continue
				}
				for _, l := range loadsBy[q.id] {
					switch l.Result {
					case "ok":
						acc["ok"] = true
					case "upstream-error":
						acc["fail"] = true
					}
				}
				if inbound && q.ikey == p.ikey {
					for _, l := range preBy[q.id] {
						if l.Result == "upstream-error" {
							acc["hard"] = true
						}
					}
				}
			}
		}
		if p.cancelled {
			// its own cancellation: its own context error, or whatever its own work rendered
			acc["ctx"], acc["ok"], acc["fail"] = true, true, true
		}
		subCanceled := ctxish(p.out.subErr)
		if acc[kind] && !(subCanceled && !p.cancelled) {
			continue
		}
		// violation: decide whether it is the recorded class "leader cancelled while followers wait"
		f := ""
		if !p.cancelled && (kind == "fail" || kind == "ctx") && own == "" {
			f = recognise18(c, parts, p, loadsBy, preBy, inbound)
		}
		switch {
		case kind == "ctx":
			add(f, "p%d (key %s, %s, own context live) returned %v: another participant's cancellation / deadline", p.id, p.key, p.spec.Script, p.out.err)
		case subCanceled && !p.cancelled:
			add(f, "p%d (key %s, %s, own context live) got %q and its subgraph error is %v: another participant's cancellation / deadline; out_alone is %q",
				p.id, p.key, p.spec.Script, p.out.Out, firstLine(p.out.subErr.Error()), outAlone(c.Layer, c.OpType, p.key, p.spec.Alt, scNormal).Out)
		default:
			add(f, "p%d (key %s, %s) outcome %s (out=%q err=%v) is not a result of its own key's work: acceptable here %v", p.id, p.key, p.spec.Script, kind, p.out.Out, p.out.err, keysOf(acc))
		}
	}
	return probs
}

// recognise18 is the narrow recogniser of the recorded class: p is not cancelled, did no
// upstream work of its own, no same-key upstream work failed on its own, and a participant
// with the same key whose context was cancelled before its result was final did the work p
// waited for. The layer tells which of the two findings it is.
func recognise18(c *Case, parts []*pstate, p *pstate, loadsBy, preBy map[int][]loadRec, inbound bool) string {
	var cancelledWorkers []*pstate
	for _, q := range parts {
		if q == p || q.spec.Key != p.spec.Key || !q.cancelled || !q.cancelBeforeProduct {
			continue
		}
		worked := false
		for _, l := range loadsBy[q.id] {
			if l.Result == "canceled" {
				worked = true
			}
		}
		for _, l := range preBy[q.id] {
			if l.Result == "canceled" {
				worked = true
			}
		}
		// a subgraph follower that is itself an inbound leader hands its own cancellation on
		if q.arrived[ptJoined] && len(loadsBy[q.id]) == 0 {
			worked = true
		}
		if worked {
			cancelledWorkers = append(cancelledWorkers, q)
		}
	}
	if len(cancelledWorkers) == 0 {
		return ""
	}
	if p.arrived[ptJoined] {
		return f18Sub
	}
	if inbound && (p.arrived[ptBeforeAdd] || p.out.Dedup) {
		for _, q := range cancelledWorkers {
			if q.ikey == p.ikey {
				return f18Inbound
			}
		}
		// its inbound leader was not cancelled itself but inherited a cancelled subgraph leader's result
		if c.Layer == layerBoth {
			return f18Sub
		}
	}
	return ""
}

// labelExcluded18 counts a case steered around the leader-cancel-leak class under the finding(s)
// of the layer(s) it runs on.
func labelExcluded18(o rec, layer string) {
	if layer != layerSubgraph {
		o.label("excluded:%s", f18Inbound)
	}
	if layer != layerInbound {
		o.label("excluded:%s", f18Sub)
	}
}

// ctxish: the error is (or reports) the end of somebody's request context.
func ctxish(err error) bool {
	if err == nil {
		return false
	}
	var ae *abortErr
	return errors.Is(err, context.Canceled) || errors.Is(err, context.DeadlineExceeded) || errors.As(err, &ae)
}

func keysOf(m map[string]bool) []string {
	var out []string
	for k := range m {
		out = append(out, k)
	}
	sort.Strings(out)
	return out
}

func firstLine(s string) string {
	if i := strings.IndexByte(s, '\n'); i >= 0 {
		return s[:i]
	}
	return s
}

func trimStack(s string) string {
	lines := strings.Split(s, "\n")
	var keep []string
	for i := 0; i < len(lines) && len(keep) < 16; i++ {
		if strings.Contains(lines[i], "graphql-go-tools") || strings.HasPrefix(lines[i], "panic") {
			keep = append(keep, lines[i])
		}
	}
	return "  " + strings.Join(keep, "\n  ")
}
