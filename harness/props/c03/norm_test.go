package c03

import (
	"encoding/json"
	"fmt"
	"os"
	"sort"
	"strings"

	"github.com/vektah/gqlparser/v2"
	"github.com/vektah/gqlparser/v2/ast"
	"pgregory.net/rapid"

	"github.com/wundergraph/graphql-go-tools/execution/graphql"

	"verif/harness/internal/admit"
	"verif/harness/internal/fedgen"
	"verif/harness/internal/opgen"
	"verif/harness/internal/opshrink"
	"verif/harness/internal/ref"
	"verif/harness/internal/sim"
	"verif/harness/pbt"
)

// normCase is one operation over one generated schema.
type normCase struct {
	Super string   `json:"super"`
	Seed  uint64   `json:"seed"`
	Op    opgen.Op `json:"op"`
}

// structural classes that only trouble the planner are allowed here; classes that hit
// recorded normalization findings stay excluded (and have probes).
func allow() map[string]bool {
	m := map[string]bool{"union-spread-on-non-union": true, "typename-alias": true, "fragment-in-abstract-fragment": true,
		"overlapping-abstract-field": true, "abstract-in-abstract": true, "composite-key-in-multiple-fragments": true}
	for _, c := range strings.Split(os.Getenv("C03_ALLOW"), ",") {
		if c != "" {
			m[c] = true
		}
	}
	return m
}

func genNorm(t *rapid.T) normCase {
	l := fedgen.Gen(t, fedgen.Options{MaxSubs: 2})
	super, err := sim.LoadSuper(l.Super)
	if err != nil {
		t.Fatalf("generator produced an invalid schema: %v", err)
	}
	return normCase{Super: l.Super, Seed: rapid.Uint64Range(1, 1<<16).Draw(t, "useed"),
		Op: opgen.Gen(t, super, opgen.Options{Mutations: true, SecondOp: true, NoVarInObject: true, Allow: allow()})}
}

var semPart = pbt.Part[normCase]{Name: "norm-semantic-valid-idempotent", Quick: 16000, Thorough: 320000, Gen: genNorm, Check: checkSem}

type normalized = admit.Normalized

func normalize(schema *graphql.Schema, op opgen.Op) (*normalized, string, error) {
	return admit.Normalize(schema, op)
}

func stripInternal(v any) any {
	switch x := v.(type) {
	case map[string]any:
		out := map[string]any{}
		for k, vv := range x {
			if k == "__internal_typename" {
				continue
			}
			out[k] = stripInternal(vv)
		}
		return out
	case []any:
		out := make([]any, len(x))
		for i := range x {
			out[i] = stripInternal(x[i])
		}
		return out
	}
	return v
}

func squash(s string) string { return strings.Join(strings.Fields(s), " ") }

func checkSem(c normCase, o *pbt.Rec) pbt.Verdict {
	l := &fedgen.Layout{Super: c.Super}
	schema, err := graphql.NewSchemaFromString(c.Super)
	if err != nil {
		return pbt.Bad("schema rejected: %v", err)
	}
	w1, err := sim.NewWorld(l, c.Seed)
	if err != nil {
		return pbt.Bad("schema load: %v", err)
	}
	want1, err := w1.Reference(c.Op)
	if err != nil {
		o.Discard("generator-vs-gqlparser")
		return pbt.OK
	}
	n1, stage, err := normalize(schema, c.Op)
	ctx := func() string {
		s := fmt.Sprintf("\noperation: %s\nvariables: %s\noperationName: %q", c.Op.Query, c.Op.VarsJSON(), c.Op.OperationName)
		if n1 != nil {
			s += fmt.Sprintf("\nnormalized: %s\nnormalized variables: %s\nremap: %v", n1.Print, ref.JSON(n1.Vars), n1.Remap)
		}
		return s
	}
	if err != nil {
		return pbt.Bad("normalization sequence fails for a valid operation at stage %s: %v%s", stage, err, ctx())
	}
	// (2) validity of the normalized operation: gqlparser …
	nop := opgen.Op{Query: n1.Print, Variables: n1.CanonVars(), OperationName: ""}
	if c.Op.OperationName != "" && strings.Contains(n1.Print, c.Op.OperationName) {
		nop.OperationName = c.Op.OperationName
	}
	if _, errs := gqlparser.LoadQuery(w1.Super, n1.Print); errs != nil {
		return pbt.Bad("normalized operation is not valid (gqlparser): %v%s", errs, ctx())
	}
	// … and the repo's own validator on the re-parsed print
	{
		req := graphql.Request{Query: n1.Print}
		vr, verr := req.ValidateForSchema(schema)
		if verr != nil || !vr.Valid {
			return pbt.Bad("normalized operation is rejected by the repo validator: %v %v%s", verr, vr.Errors, ctx())
		}
	}
	// (1) semantic equality on two universes
	for _, seed := range []uint64{c.Seed, c.Seed*31 + 7} {
		w := w1
		want := want1
		if seed != c.Seed {
			w, _ = sim.NewWorld(l, seed)
			want, err = w.Reference(c.Op)
			if err != nil {
				continue
			}
		}
		got, err := w.Reference(nop)
		if err != nil {
			return pbt.Bad("normalized operation/variables cannot be executed by the reference: %v%s", err, ctx())
		}
		if !ref.Equal(stripInternal(ref.Plain(got.Data)), stripInternal(ref.Plain(want.Data))) {
			return pbt.Bad("normalized operation answers differently (universe %d)\n got: %s\nwant: %s%s", seed, ref.Canon(ref.Plain(got.Data)), ref.Canon(ref.Plain(want.Data)), ctx())
		}
		if (len(got.Errors) == 0) != (len(want.Errors) == 0) {
			return pbt.Bad("normalized operation differs in errors (universe %d): %d vs %d%s", seed, len(got.Errors), len(want.Errors), ctx())
		}
	}
	// (3) idempotence
	n2, stage2, err := normalize(schema, nop)
	if err != nil {
		return pbt.Bad("re-normalizing the normalized operation fails at stage %s: %v%s", stage2, err, ctx())
	}
	if n2.Print != n1.Print {
		return pbt.Bad("normalization is not idempotent\n first: %s\nsecond: %s%s", n1.Print, n2.Print, ctx())
	}
	if !ref.Equal(n2.CanonVars(), n1.CanonVars()) {
		return pbt.Bad("normalization is not idempotent on variables\n first: %s\nsecond: %s%s", ref.Canon(n1.CanonVars()), ref.Canon(n2.CanonVars()), ctx())
	}
	// classes
	for _, f := range c.Op.Features {
		o.Label("op:" + f)
	}
	if squash(n1.Print) != squash(c.Op.Query) {
		o.Label("changed-by-normalization")
		if richness(c.Op) >= 2 {
			o.NonTrivial(c.Super + "\x00" + c.Op.Query + "\x00" + c.Op.VarsJSON())
		}
	}
	return pbt.OK
}

func richness(op opgen.Op) int {
	n := 0
	has := func(fs ...string) bool {
		for _, f := range fs {
			for _, g := range op.Features {
				if g == f || strings.HasPrefix(g, f) {
					return true
				}
			}
		}
		return false
	}
	if has("fragment-on-abstract") {
		n++
	}
	if has("duplicate-field", "overlapping-field") {
		n++
	}
	if has("directive-variable") {
		n++
	}
	if has("arguments", "input-object") {
		n++
	}
	if has("variable-default", "directive-var-default") {
		n++
	}
	if has("single@") {
		n++
	}
	return n
}

func sortedKeys(m map[string]any) []string {
	var k []string
	for x := range m {
		k = append(k, x)
	}
	sort.Strings(k)
	return k
}

var _ = json.Marshal
var _ = ast.Query

func minimizeSem(raw json.RawMessage) (any, string) {
	var c normCase
	if err := json.Unmarshal(raw, &c); err != nil {
		return nil, ""
	}
	v0 := checkSem(c, pbt.NewRec())
	if v0.Msg == "" {
		return nil, ""
	}
	class := strings.SplitN(v0.Msg, "\n", 2)[0]
	if len(class) > 70 {
		class = class[:70]
	}
	small := opshrink.Minimize(c.Op, 500, func(cand opgen.Op) bool {
		v := checkSem(normCase{Super: c.Super, Seed: c.Seed, Op: cand}, pbt.NewRec())
		return v.Msg != "" && strings.HasPrefix(v.Msg, class)
	})
	nc := normCase{Super: c.Super, Seed: c.Seed, Op: small}
	v := checkSem(nc, pbt.NewRec())
	if v.Msg == "" {
		return nil, ""
	}
	return nc, v.Msg
}
