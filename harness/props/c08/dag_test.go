package c08

import (
	"fmt"
	"sort"
	"strings"

	"pgregory.net/rapid"

	"github.com/wundergraph/graphql-go-tools/v2/pkg/ast"
	"github.com/wundergraph/graphql-go-tools/v2/pkg/engine/plan"
	"github.com/wundergraph/graphql-go-tools/v2/pkg/engine/postprocess"
	"github.com/wundergraph/graphql-go-tools/v2/pkg/engine/resolve"

	"verif/harness/internal/ftree"
	"verif/harness/pbt"
)

// dagCase is a flat list of fetches as the planner hands them to the post-processor.
type dagCase struct {
	Deps  [][]int `json:"deps"`  // Deps[i] = ids fetch i depends on (all < i: acyclic)
	DupOf []int   `json:"dupOf"` // DupOf[i] >= 0: fetch i is an exact duplicate of that fetch
	Order []int   `json:"order"` // presentation order
	Nest  bool    `json:"nest"`  // response paths nested under the first dependency
	// Prev, when set, is a plan the same Processor instances have processed before this one
	// (a long-lived Processor): the result must not depend on it.
	Prev *dagCase `json:"prev,omitempty"`
	// Hide (with Nest): a fetch whose only dependency is the producer of its parent path is
	// handed over WITHOUT that dependency, as planners of plain nested data sources do; the
	// post-processor has to add it back from the response paths (any nesting depth).
	Hide bool `json:"hide,omitempty"`
}

var dagPart = pbt.Part[dagCase]{Name: "dag-structural", Journal: true, Quick: 60000, Thorough: 1200000, Gen: genDag, Check: checkDag}

func genDag(t *rapid.T) dagCase {
	c := genOneDag(t)
	if rapid.IntRange(0, 2).Draw(t, "prev") == 0 {
		p := genOneDag(t)
		c.Prev = &p
	}
	return c
}

func genOneDag(t *rapid.T) dagCase {
	n := rapid.IntRange(2, 14).Draw(t, "n")
	c := dagCase{Deps: make([][]int, n), DupOf: make([]int, n), Nest: rapid.Bool().Draw(t, "nest")}
	c.Hide = c.Nest && rapid.IntRange(0, 2).Draw(t, "hide") == 0
	for i := 0; i < n; i++ {
		c.DupOf[i] = -1
		if i == 0 {
			continue
		}
		if rapid.IntRange(0, 7).Draw(t, "dup") == 0 {
			d := rapid.IntRange(0, i-1).Draw(t, "dupof")
			for c.DupOf[d] >= 0 {
				d = c.DupOf[d]
			}
			c.DupOf[i] = d
			// an equal fetch below another producer has other dependencies (repaired finding:
			// de-duplication used to keep only the survivor's)
			// (its producers may even depend on the original: the two then cannot be merged at
			// all - merging them closed a dependency cycle and overflowed the stack in an earlier
			// version of repair b4c3a13, found by the C16 thorough tier)
			if rapid.Bool().Draw(t, "dupsamedeps") {
				c.Deps[i] = append([]int{}, c.Deps[d]...)
				continue
			}
			k := rapid.IntRange(0, 2).Draw(t, "dk")
			seen := map[int]bool{}
			for j := 0; j < k; j++ {
				// with nested response paths a producer below the duplicate's own path would be
				// a fetch that depends on its own child (no plan has that): only earlier ones then
				hi := i - 1
				if c.Nest {
					hi = d - 1
				}
				if hi < 0 {
					continue
				}
				x := rapid.IntRange(0, hi).Draw(t, "dd")
				if x == d {
					continue
				}
				if !seen[x] {
					seen[x] = true
					c.Deps[i] = append(c.Deps[i], x)
				}
			}
			sort.Ints(c.Deps[i])
			continue
		}
		k := rapid.IntRange(0, 3).Draw(t, "k")
		seen := map[int]bool{}
		for j := 0; j < k; j++ {
			d := rapid.IntRange(0, i-1).Draw(t, "d")
			if !seen[d] {
				seen[d] = true
				c.Deps[i] = append(c.Deps[i], d)
			}
		}
		sort.Ints(c.Deps[i])
	}
	ids := make([]int, n)
	for i := range ids {
		ids[i] = i
	}
	c.Order = rapid.Permutation(ids).Draw(t, "order")
	return c
}

var optionSets = map[string][]postprocess.ProcessorOption{
	"waves":            {postprocess.DisableResolveInputTemplates()},
	"schedule":         {postprocess.DisableResolveInputTemplates(), postprocess.EnableScheduleFetches()},
	"waves-nodedupe":   {postprocess.DisableResolveInputTemplates(), postprocess.DisableDeduplicateSingleFetches()},
	"schedule-nodedup": {postprocess.DisableResolveInputTemplates(), postprocess.EnableScheduleFetches(), postprocess.DisableDeduplicateSingleFetches()},
}

func optionNames() []string {
	var n []string
	for k := range optionSets {
		n = append(n, k)
	}
	sort.Strings(n)
	return n
}

// rawFetches renders the case as the flat fetch list the planner hands to the post-processor.
func rawFetches(c dagCase) []*resolve.FetchItem {
	n := len(c.Deps)
	rep := func(i int) int {
		for c.DupOf[i] >= 0 {
			i = c.DupOf[i]
		}
		return i
	}
	path := make([]string, n)
	for i := 0; i < n; i++ {
		r := rep(i)
		path[i] = fmt.Sprintf("f%d", r)
		if c.Nest && len(c.Deps[r]) > 0 {
			path[i] = path[c.Deps[r][0]] + "." + path[i]
		}
	}
	declared := func(i int) []int {
		if c.Hide && len(c.Deps[i]) == 1 && strings.HasPrefix(path[i], path[c.Deps[i][0]]+".") {
			return []int{}
		}
		return append([]int{}, c.Deps[i]...)
	}
	var raw []*resolve.FetchItem
	for _, i := range c.Order {
		r := rep(i)
		segs := strings.Split(path[i], ".")
		var fp []resolve.FetchItemPathElement
		for _, s := range segs {
			fp = append(fp, resolve.FetchItemPathElement{Kind: resolve.FetchItemPathElementKindObject, Path: []string{s}})
		}
		raw = append(raw, &resolve.FetchItem{
			Fetch: &resolve.SingleFetch{
				FetchConfiguration: resolve.FetchConfiguration{Input: fmt.Sprintf(`{"method":"POST","url":"http://s%d","body":{"query":"{f%d}"}}`, r%3, r)},
				FetchDependencies:  resolve.FetchDependencies{FetchID: i, DependsOnFetchIDs: declared(i)},
				Info:               &resolve.FetchInfo{DataSourceID: fmt.Sprint("s", r%3), DataSourceName: fmt.Sprint("s", r%3), OperationType: ast.OperationTypeQuery},
			},
			FetchPath:    fp,
			ResponsePath: path[i],
		})
	}
	return raw
}

func planOf(raw []*resolve.FetchItem) *plan.SynchronousResponsePlan {
	return &plan.SynchronousResponsePlan{Response: &resolve.GraphQLResponse{Data: &resolve.Object{}, RawFetches: raw, Info: &resolve.GraphQLResponseInfo{OperationType: ast.OperationTypeQuery}}}
}

func checkDag(c dagCase, o *pbt.Rec) pbt.Verdict {
	n := len(c.Deps)
	if len(c.Order) != n || len(c.DupOf) != n {
		return pbt.Bad("malformed case")
	}
	rep := func(i int) int {
		for c.DupOf[i] >= 0 {
			i = c.DupOf[i]
		}
		return i
	}
	build := func() []*resolve.FetchItem { return rawFetches(c) }
	multiParent, antichain := false, false
	for i := range c.Deps {
		if len(c.Deps[i]) >= 2 {
			multiParent = true
		}
	}
	for _, mode := range optionNames() {
		p := planOf(build())
		proc := postprocess.NewProcessor(optionSets[mode]...)
		if c.Prev != nil && len(c.Prev.Order) == len(c.Prev.Deps) && len(c.Prev.DupOf) == len(c.Prev.Deps) {
			proc.Process(planOf(rawFetches(*c.Prev)))
			o.Label("processor-reused")
		}
		proc.Process(p)
		root := p.Response.Fetches
		if c.Prev != nil {
			fresh := planOf(build())
			postprocess.NewProcessor(optionSets[mode]...).Process(fresh)
			if a, b := ftree.Dump(root), ftree.Dump(fresh.Response.Fetches); a != b {
				return pbt.Bad("%s: the fetch tree depends on what the Processor processed before\n reused Processor: %s\n fresh Processor:  %s", mode, a, b)
			}
		}
		leaves, _, dup := ftree.Leaves(root)
		if dup != nil {
			return pbt.Bad("%s: %v: %s", mode, dup, ftree.Dump(root))
		}
		dedupe := !strings.Contains(mode, "nodedup")
		// every planned request appears exactly once (or was merged into its surviving duplicate)
		for i := 0; i < n; i++ {
			_, present := leaves[i]
			switch {
			case !dedupe && !present:
				return pbt.Bad("%s: fetch %d is missing from the execution order: %s", mode, i, ftree.Dump(root))
			case dedupe && !present:
				// must be a duplicate whose group still has a survivor
				survivor := false
				for j := 0; j < n; j++ {
					if _, ok := leaves[j]; ok && rep(j) == rep(i) {
						survivor = true
					}
				}
				if !survivor {
					return pbt.Bad("%s: fetch %d disappeared and no duplicate of it survived: %s", mode, i, ftree.Dump(root))
				}
			}
		}
		for id := range leaves {
			if id < 0 || id >= n {
				return pbt.Bad("%s: unknown fetch id %d in the tree: %s", mode, id, ftree.Dump(root))
			}
		}
		if v, dangling := ftree.CheckOrder(root); v != "" {
			return pbt.Bad("%s: %s", mode, v)
		} else if len(dangling) > 0 {
			return pbt.Bad("%s: dependencies on fetches that are not in the tree: %v: %s", mode, dangling, ftree.Dump(root))
		}
		// the ORIGINAL edges must still be honoured: for every planned fetch f some surviving
		// fetch equal to it (f itself or a duplicate; several members of one duplicate group can
		// survive when one depends on another) depends, for every planned dependency d of f, on
		// a surviving fetch equal to d
		for f := 0; f < n; f++ {
			if len(c.Deps[f]) == 0 {
				continue
			}
			okSome := false
			for cand, cl := range leaves {
				if rep(cand) != rep(f) {
					continue
				}
				all := true
				for _, d := range c.Deps[f] {
					if rep(d) == rep(cand) {
						continue
					}
					found := false
					for _, x := range cl.Deps {
						if x >= 0 && x < n && rep(x) == rep(d) {
							found = true
						}
					}
					if !found {
						all = false
					}
				}
				if all {
					okSome = true
				}
			}
			if !okSome {
				return pbt.Bad("%s: no surviving fetch equal to fetch %d depends on (fetches equal to) all of its planned dependencies %v: %s", mode, f, c.Deps[f], ftree.Dump(root))
			}
		}
		if strings.Contains(ftree.Dump(root), "Par(") {
			antichain = true
			o.Label("tree-has-parallel:" + mode)
		}
	}
	if multiParent && antichain {
		o.NonTrivial(fmt.Sprint(c))
	}
	if c.Nest {
		o.Label("nested-paths")
	}
	for i := range c.DupOf {
		if c.DupOf[i] >= 0 {
			o.Label("has-duplicate")
			break
		}
	}
	return pbt.OK
}
