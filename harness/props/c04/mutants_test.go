package c04

import (
	"bytes"
	"sort"
	"strings"

	"github.com/vektah/gqlparser/v2"
	"github.com/vektah/gqlparser/v2/ast"
	"github.com/vektah/gqlparser/v2/formatter"

	"verif/harness/internal/opgen"
)

func format(doc *ast.QueryDocument) string {
	var b bytes.Buffer
	formatter.NewFormatter(&b, formatter.WithIndent(" ")).FormatQueryDocument(doc)
	return strings.Join(strings.Fields(b.String()), " ")
}

type setRef struct {
	set *ast.SelectionSet
	typ string
}

type docInfo struct {
	doc    *ast.QueryDocument
	schema *ast.Schema
	sets   []setRef
	fields []*ast.Field
}

func analyse(schema *ast.Schema, q string) *docInfo {
	doc, errs := gqlparser.LoadQuery(schema, q)
	if errs != nil {
		return nil
	}
	d := &docInfo{doc: doc, schema: schema}
	var walk func(set *ast.SelectionSet, typ string)
	walk = func(set *ast.SelectionSet, typ string) {
		d.sets = append(d.sets, setRef{set, typ})
		for _, sel := range *set {
			switch x := sel.(type) {
			case *ast.Field:
				d.fields = append(d.fields, x)
				if len(x.SelectionSet) > 0 && x.Definition != nil {
					walk(&x.SelectionSet, x.Definition.Type.Name())
				}
			case *ast.InlineFragment:
				t := x.TypeCondition
				if t == "" {
					t = typ
				}
				walk(&x.SelectionSet, t)
			}
		}
	}
	for _, o := range doc.Operations {
		root := schema.Query
		switch o.Operation {
		case ast.Mutation:
			root = schema.Mutation
		case ast.Subscription:
			root = schema.Subscription
		}
		walk(&o.SelectionSet, root.Name)
	}
	// only fragments reachable from the first operation are "the reachable part"; opgen
	// never produces unused fragments
	for _, f := range doc.Fragments {
		walk(&f.SelectionSet, f.TypeCondition)
	}
	return d
}

func intVal(s string) *ast.Value  { return &ast.Value{Kind: ast.IntValue, Raw: s} }
func strVal(s string) *ast.Value  { return &ast.Value{Kind: ast.StringValue, Raw: s} }
func boolVal(s string) *ast.Value { return &ast.Value{Kind: ast.BooleanValue, Raw: s} }
func varVal(s string) *ast.Value  { return &ast.Value{Kind: ast.Variable, Raw: s} }

func pick[T any](xs []T, i int) (T, bool) {
	var zero T
	if len(xs) == 0 {
		return zero, false
	}
	return xs[i%len(xs)], true
}

func isLeaf(schema *ast.Schema, t *ast.Type) bool {
	d := schema.Types[t.Name()]
	return d != nil && (d.Kind == ast.Scalar || d.Kind == ast.Enum)
}

type argRef struct {
	f   *ast.Field
	arg *ast.Argument
	def *ast.ArgumentDefinition
}

func (d *docInfo) literalArgs() []argRef {
	var out []argRef
	for _, f := range d.fields {
		if f.Definition == nil {
			continue
		}
		for _, a := range f.Arguments {
			ad := f.Definition.Arguments.ForName(a.Name)
			if ad != nil && a.Value.Kind != ast.Variable {
				out = append(out, argRef{f, a, ad})
			}
		}
	}
	return out
}

type objLit struct {
	v   *ast.Value
	def *ast.Definition
}

// objectLiterals finds input-object literals together with their input type.
func (d *docInfo) objectLiterals() []objLit {
	var out []objLit
	var walk func(v *ast.Value, t *ast.Type)
	walk = func(v *ast.Value, t *ast.Type) {
		if v == nil || t == nil {
			return
		}
		switch v.Kind {
		case ast.ListValue:
			if t.Elem != nil {
				for _, c := range v.Children {
					walk(c.Value, t.Elem)
				}
			}
		case ast.ObjectValue:
			def := d.schema.Types[t.Name()]
			if def == nil || def.Kind != ast.InputObject || t.Elem != nil {
				return
			}
			out = append(out, objLit{v, def})
			for _, c := range v.Children {
				if fd := def.Fields.ForName(c.Name); fd != nil {
					walk(c.Value, fd.Type)
				}
			}
		}
	}
	for _, a := range d.literalArgs() {
		walk(a.arg.Value, a.def.Type)
	}
	return out
}

// mutators: name → function applying one rule-targeted mutation; false = not applicable.
var mutators = map[string]func(d *docInfo, a, b int) bool{
	"unknown-field": func(d *docInfo, a, b int) bool {
		f, ok := pick(d.fields, a)
		if !ok {
			return false
		}
		if f.Alias == f.Name {
			f.Alias = "bogusField"
		}
		f.Name = "bogusField"
		return true
	},
	"unknown-argument": func(d *docInfo, a, b int) bool {
		f, ok := pick(d.fields, a)
		if !ok || f.Name == "__typename" {
			return false
		}
		f.Arguments = append(f.Arguments, &ast.Argument{Name: "bogusArg", Value: intVal("1")})
		return true
	},
	"duplicate-argument": func(d *docInfo, a, b int) bool {
		var fs []*ast.Field
		for _, f := range d.fields {
			if len(f.Arguments) > 0 {
				fs = append(fs, f)
			}
		}
		f, ok := pick(fs, a)
		if !ok {
			return false
		}
		f.Arguments = append(f.Arguments, f.Arguments[b%len(f.Arguments)])
		return true
	},
	"missing-required-argument": func(d *docInfo, a, b int) bool {
		var refs []argRef
		for _, f := range d.fields {
			if f.Definition == nil {
				continue
			}
			for _, arg := range f.Arguments {
				if ad := f.Definition.Arguments.ForName(arg.Name); ad != nil && ad.Type.NonNull && ad.DefaultValue == nil {
					refs = append(refs, argRef{f, arg, ad})
				}
			}
		}
		r, ok := pick(refs, a)
		if !ok {
			return false
		}
		var keep ast.ArgumentList
		for _, x := range r.f.Arguments {
			if x != r.arg {
				keep = append(keep, x)
			}
		}
		r.f.Arguments = keep
		return true
	},
	"ill-typed-literal": func(d *docInfo, a, b int) bool {
		r, ok := pick(d.literalArgs(), a)
		if !ok {
			return false
		}
		t := r.def.Type
		if b%5 == 4 {
			if !t.NonNull {
				return false
			}
			r.arg.Value = &ast.Value{Kind: ast.NullValue, Raw: "null"}
			return true
		}
		if t.Elem != nil {
			et := t.Elem
			if et.Elem != nil {
				return false
			}
			switch et.Name() {
			case "Int":
				r.arg.Value = &ast.Value{Kind: ast.ListValue, Children: ast.ChildValueList{{Value: strVal("x")}}}
			case "String", "ID":
				r.arg.Value = &ast.Value{Kind: ast.ListValue, Children: ast.ChildValueList{{Value: boolVal("true")}}}
			default:
				return false
			}
			return true
		}
		def := d.schema.Types[t.Name()]
		if def == nil {
			return false
		}
		switch def.Kind {
		case ast.Enum:
			if b%2 == 0 {
				r.arg.Value = strVal(def.EnumValues[0].Name)
			} else {
				r.arg.Value = &ast.Value{Kind: ast.EnumValue, Raw: "PURPLE_NOT_A_VALUE"}
			}
		case ast.InputObject:
			r.arg.Value = intVal("5")
		case ast.Scalar:
			switch def.Name {
			case "Int":
				if b%2 == 0 {
					r.arg.Value = strVal("x")
				} else {
					r.arg.Value = &ast.Value{Kind: ast.FloatValue, Raw: "1.5"}
				}
			case "Float":
				r.arg.Value = strVal("1.5")
			case "String":
				r.arg.Value = intVal("5")
			case "Boolean":
				r.arg.Value = intVal("1")
			case "ID":
				r.arg.Value = boolVal("true")
			default:
				return false
			}
		default:
			return false
		}
		return true
	},
	"input-object-unknown-field": func(d *docInfo, a, b int) bool {
		o, ok := pick(d.objectLiterals(), a)
		if !ok {
			return false
		}
		o.v.Children = append(o.v.Children, &ast.ChildValue{Name: "bogusInputField", Value: intVal("1")})
		return true
	},
	"input-object-missing-required-field": func(d *docInfo, a, b int) bool {
		var cands []objLit
		for _, o := range d.objectLiterals() {
			for _, c := range o.v.Children {
				if fd := o.def.Fields.ForName(c.Name); fd != nil && fd.Type.NonNull && fd.DefaultValue == nil {
					cands = append(cands, o)
					break
				}
			}
		}
		o, ok := pick(cands, a)
		if !ok {
			return false
		}
		var keep ast.ChildValueList
		removed := false
		for _, c := range o.v.Children {
			fd := o.def.Fields.ForName(c.Name)
			if !removed && fd != nil && fd.Type.NonNull && fd.DefaultValue == nil {
				removed = true
				continue
			}
			keep = append(keep, c)
		}
		o.v.Children = keep
		return true
	},
	"input-object-duplicate-field": func(d *docInfo, a, b int) bool {
		var cands []objLit
		for _, o := range d.objectLiterals() {
			if len(o.v.Children) > 0 {
				cands = append(cands, o)
			}
		}
		o, ok := pick(cands, a)
		if !ok {
			return false
		}
		o.v.Children = append(o.v.Children, o.v.Children[b%len(o.v.Children)])
		return true
	},
	"fragment-on-non-composite": func(d *docInfo, a, b int) bool {
		s, ok := pick(d.sets, a)
		if !ok {
			return false
		}
		*s.set = append(*s.set, &ast.InlineFragment{TypeCondition: "Color", SelectionSet: ast.SelectionSet{&ast.Field{Name: "__typename", Alias: "__typename"}}})
		return true
	},
	"fragment-on-unknown-type": func(d *docInfo, a, b int) bool {
		s, ok := pick(d.sets, a)
		if !ok {
			return false
		}
		*s.set = append(*s.set, &ast.InlineFragment{TypeCondition: "NoSuchType", SelectionSet: ast.SelectionSet{&ast.Field{Name: "__typename", Alias: "__typename"}}})
		return true
	},
	"impossible-fragment-spread": func(d *docInfo, a, b int) bool {
		var cands []setRef
		for _, s := range d.sets {
			if def := d.schema.Types[s.typ]; def != nil && def.Kind == ast.Object {
				cands = append(cands, s)
			}
		}
		s, ok := pick(cands, a)
		if !ok {
			return false
		}
		var others []string
		for n, def := range d.schema.Types {
			if def.Kind == ast.Object && n != s.typ && !strings.HasPrefix(n, "__") && def != d.schema.Query && def != d.schema.Mutation && def != d.schema.Subscription {
				others = append(others, n)
			}
		}
		sort.Strings(others)
		o, ok := pick(others, b)
		if !ok {
			return false
		}
		*s.set = append(*s.set, &ast.InlineFragment{TypeCondition: o, SelectionSet: ast.SelectionSet{&ast.Field{Name: "__typename", Alias: "__typename"}}})
		return true
	},
	"fragment-cycle": func(d *docInfo, a, b int) bool {
		s, ok := pick(d.sets, a)
		if !ok {
			return false
		}
		d.doc.Fragments = append(d.doc.Fragments, &ast.FragmentDefinition{Name: "Cyc", TypeCondition: s.typ, SelectionSet: ast.SelectionSet{&ast.Field{Name: "__typename", Alias: "__typename"}, &ast.FragmentSpread{Name: "Cyc"}}})
		*s.set = append(*s.set, &ast.FragmentSpread{Name: "Cyc"})
		return true
	},
	"unknown-fragment-spread": func(d *docInfo, a, b int) bool {
		s, ok := pick(d.sets, a)
		if !ok {
			return false
		}
		*s.set = append(*s.set, &ast.FragmentSpread{Name: "NoSuchFragment"})
		return true
	},
	"conflicting-response-names": func(d *docInfo, a, b int) bool {
		var cands []setRef
		for _, s := range d.sets {
			if def := d.schema.Types[s.typ]; def != nil && (def.Kind == ast.Object || def.Kind == ast.Interface) {
				cands = append(cands, s)
			}
		}
		s, ok := pick(cands, a)
		if !ok {
			return false
		}
		def := d.schema.Types[s.typ]
		var leafs, withArgs []*ast.FieldDefinition
		for _, f := range def.Fields {
			if strings.HasPrefix(f.Name, "__") {
				continue
			}
			required := false
			for _, ad := range f.Arguments {
				if ad.Type.NonNull && ad.DefaultValue == nil {
					required = true
				}
			}
			// only built-in scalar leafs: the repo's merging rule does not compare names or
			// arguments of enum-typed fields (finding C04-field-merging-non-scalar-fields)
			if td := d.schema.Types[f.Type.Name()]; isLeaf(d.schema, f.Type) && !required && f.Type.Elem == nil && td != nil && td.Kind == ast.Scalar && td.BuiltIn {
				leafs = append(leafs, f)
				if f.Arguments.ForName("first") != nil {
					withArgs = append(withArgs, f)
				}
			}
		}
		switch b % 3 {
		case 0: // two different fields under one response name
			if len(leafs) < 2 {
				return false
			}
			*s.set = append(*s.set, &ast.Field{Alias: "cf", Name: leafs[0].Name}, &ast.Field{Alias: "cf", Name: leafs[1].Name})
		case 1: // same field, different arguments
			f, ok := pick(withArgs, a)
			if !ok {
				return false
			}
			*s.set = append(*s.set, &ast.Field{Alias: "cf", Name: f.Name, Arguments: ast.ArgumentList{{Name: "first", Value: intVal("1")}}}, &ast.Field{Alias: "cf", Name: f.Name, Arguments: ast.ArgumentList{{Name: "first", Value: intVal("2")}}})
		case 2: // __typename against another field (known finding class C04-typename-response-name-conflict)
			if len(leafs) < 1 {
				return false
			}
			*s.set = append(*s.set, &ast.Field{Alias: "cf", Name: "__typename"}, &ast.Field{Alias: "cf", Name: leafs[0].Name})
		}
		return true
	},
	// the two conflicting selections sit in different fragments on the same object type, with
	// (valid) same-shaped selections of the response name on other, mutually exclusive types
	// before or between them; reached by seeded change C04-m1
	"conflict-across-fragments": func(d *docInfo, a, b int) bool {
		var cands []setRef
		for _, s := range d.sets {
			if def := d.schema.Types[s.typ]; def != nil && (def.Kind == ast.Object || def.Kind == ast.Interface || def.Kind == ast.Union) {
				cands = append(cands, s)
			}
		}
		s, ok := pick(cands, a)
		if !ok {
			return false
		}
		var objs []*ast.Definition
		for _, o := range d.schema.GetPossibleTypes(d.schema.Types[s.typ]) {
			if o.Kind == ast.Object {
				objs = append(objs, o)
			}
		}
		sort.Slice(objs, func(i, j int) bool { return objs[i].Name < objs[j].Name })
		leafsOf := func(def *ast.Definition) (leafs, withArgs []*ast.FieldDefinition) {
			for _, f := range def.Fields {
				if strings.HasPrefix(f.Name, "__") {
					continue
				}
				required := false
				for _, ad := range f.Arguments {
					if ad.Type.NonNull && ad.DefaultValue == nil {
						required = true
					}
				}
				if td := d.schema.Types[f.Type.Name()]; isLeaf(d.schema, f.Type) && !required && f.Type.Elem == nil && td != nil && td.Kind == ast.Scalar && td.BuiltIn {
					leafs = append(leafs, f)
					if f.Arguments.ForName("first") != nil {
						withArgs = append(withArgs, f)
					}
				}
			}
			return
		}
		target, ok := pick(objs, b)
		if !ok {
			return false
		}
		// interface form (seeded change C04-n1): the selection on the interface itself conflicts
		// with the selection inside the fragment on one implementer, after an equal selection
		// in a fragment on another implementer: '... on A { cf: p } ... on B { cf: g } cf: p'
		if pd := d.schema.Types[s.typ]; pd != nil && pd.Kind == ast.Interface && len(objs) >= 2 && b%3 == 2 {
			ileafs, _ := leafsOf(pd)
			tleafs, _ := leafsOf(target)
			if len(ileafs) > 0 && len(tleafs) >= 2 {
				p := ileafs[(a/3)%len(ileafs)]
				var g *ast.FieldDefinition
				for _, f := range tleafs {
					if f.Name != p.Name {
						g = f
						break
					}
				}
				var other *ast.Definition
				for _, o := range objs {
					if o != target && o.Fields.ForName(p.Name) != nil {
						other = o
						break
					}
				}
				if g != nil && other != nil {
					sel := []ast.Selection{
						&ast.InlineFragment{TypeCondition: other.Name, SelectionSet: ast.SelectionSet{&ast.Field{Alias: "cf", Name: p.Name}}},
						&ast.InlineFragment{TypeCondition: target.Name, SelectionSet: ast.SelectionSet{&ast.Field{Alias: "cf", Name: g.Name}}},
						&ast.Field{Alias: "cf", Name: p.Name},
					}
					if a%2 == 1 {
						sel[0], sel[2] = sel[2], sel[0]
					}
					*s.set = append(*s.set, sel...)
					return true
				}
			}
		}
		leafs, withArgs := leafsOf(target)
		var one, two *ast.Field
		if b%4 == 3 && len(withArgs) > 0 {
			f := withArgs[(a/3)%len(withArgs)]
			one = &ast.Field{Alias: "cf", Name: f.Name, Arguments: ast.ArgumentList{{Name: "first", Value: intVal("1")}}}
			two = &ast.Field{Alias: "cf", Name: f.Name, Arguments: ast.ArgumentList{{Name: "first", Value: intVal("2")}}}
		} else {
			if len(leafs) < 2 {
				return false
			}
			i := (a / 3) % len(leafs)
			j := (i + 1 + (a/7)%(len(leafs)-1)) % len(leafs)
			one = &ast.Field{Alias: "cf", Name: leafs[i].Name}
			two = &ast.Field{Alias: "cf", Name: leafs[j].Name}
		}
		oneDef := target.Fields.ForName(one.Name)
		// decoys: the selection "one" (same field name where the type has it with the same
		// type, else any leaf of the same type) on other possible object types — valid there
		var decoys []ast.Selection
		for _, o := range objs {
			if o == target || len(decoys) >= (b/2)%3 {
				continue
			}
			var h *ast.FieldDefinition
			ls, _ := leafsOf(o)
			for _, f := range ls {
				if f.Type.String() == oneDef.Type.String() && (h == nil || f.Name == one.Name) && (len(one.Arguments) == 0 || f.Arguments.ForName("first") != nil) {
					h = f
				}
			}
			if h != nil {
				decoys = append(decoys, &ast.InlineFragment{TypeCondition: o.Name, SelectionSet: ast.SelectionSet{&ast.Field{Alias: "cf", Name: h.Name, Arguments: one.Arguments}}})
			}
		}
		first := ast.Selection(&ast.InlineFragment{TypeCondition: target.Name, SelectionSet: ast.SelectionSet{one}})
		var second ast.Selection = &ast.InlineFragment{TypeCondition: target.Name, SelectionSet: ast.SelectionSet{two}}
		if b%5 == 0 {
			d.doc.Fragments = append(d.doc.Fragments, &ast.FragmentDefinition{Name: "CfFrag", TypeCondition: target.Name, SelectionSet: ast.SelectionSet{two}})
			second = &ast.FragmentSpread{Name: "CfFrag"}
		}
		if b%2 == 0 {
			*s.set = append(*s.set, decoys...)
			*s.set = append(*s.set, first, second)
		} else {
			*s.set = append(*s.set, first)
			*s.set = append(*s.set, decoys...)
			*s.set = append(*s.set, second)
		}
		return true
	},
	"undefined-variable": func(d *docInfo, a, b int) bool {
		f, ok := pick(d.fields, a)
		if !ok {
			return false
		}
		f.Directives = append(f.Directives, &ast.Directive{Name: "include", Arguments: ast.ArgumentList{{Name: "if", Value: varVal("undefinedVar")}}})
		return true
	},
	"unused-variable": func(d *docInfo, a, b int) bool {
		op := d.doc.Operations[0]
		// the name is drawn from the names other documents use (v<N>, the short alphabet), so
		// that sequences of documents share identifiers; never one this operation declares
		names := []string{"unusedVar", "v1", "v2", "a", "v3", "b", "v4", "c", "v5", "v6", "d", "v7"}
		types := []*ast.Type{ast.NamedType("Int", nil), ast.NamedType("String", nil), ast.NamedType("Boolean", nil), ast.ListType(ast.NamedType("Int", nil), nil), ast.NonNullNamedType("ID", nil)}
		for i := 0; i < len(names); i++ {
			n := names[(b+i)%len(names)]
			if op.VariableDefinitions.ForName(n) == nil {
				op.VariableDefinitions = append(op.VariableDefinitions, &ast.VariableDefinition{Variable: n, Type: types[a%len(types)]})
				return true
			}
		}
		return false
	},
	"duplicate-variable": func(d *docInfo, a, b int) bool {
		op := d.doc.Operations[0]
		if len(op.VariableDefinitions) == 0 {
			return false
		}
		op.VariableDefinitions = append(op.VariableDefinitions, op.VariableDefinitions[a%len(op.VariableDefinitions)])
		return true
	},
	"variable-of-non-input-type": func(d *docInfo, a, b int) bool {
		op := d.doc.Operations[0]
		f, ok := pick(d.fields, a)
		if !ok {
			return false
		}
		op.VariableDefinitions = append(op.VariableDefinitions, &ast.VariableDefinition{Variable: "objVar", Type: ast.NamedType("Node", nil)})
		f.Directives = append(f.Directives, &ast.Directive{Name: "include", Arguments: ast.ArgumentList{{Name: "if", Value: varVal("objVar")}}})
		return true
	},
	"variable-in-disallowed-position": func(d *docInfo, a, b int) bool {
		op := d.doc.Operations[0]
		// innerNonNull reports whether a list type has a non-null item type at some depth
		var innerNonNull func(t *ast.Type) bool
		innerNonNull = func(t *ast.Type) bool {
			return t.Elem != nil && (t.Elem.NonNull || innerNonNull(t.Elem))
		}
		variant := b % 6
		var refs []argRef
		for _, f := range d.fields {
			if f.Definition == nil {
				continue
			}
			for _, arg := range f.Arguments {
				ad := f.Definition.Arguments.ForName(arg.Name)
				if ad == nil {
					continue
				}
				switch {
				case (variant == 0 || variant == 4) && ad.Type.NonNull && ad.DefaultValue == nil,
					variant == 1 && ad.Type.Elem != nil,
					variant == 2 && innerNonNull(ad.Type),
					variant == 3 && ad.Type.Elem == nil && (ad.Type.Name() == "Int" || ad.Type.Name() == "String" || ad.Type.Name() == "Boolean"),
					variant == 5 && ad.Type.Elem == nil:
					refs = append(refs, argRef{f, arg, ad})
				}
			}
		}
		r, ok := pick(refs, a)
		if !ok {
			return false
		}
		var vt *ast.Type
		var def *ast.Value
		switch variant {
		case 0: // nullable variable in a non-null position without default
			c := *r.def.Type
			c.NonNull = false
			vt = &c
		case 1: // item-typed variable in a list position
			c := *r.def.Type.Elem
			vt = &c
		case 2:
			// a list variable whose item type is nullable where the position's is not, at some
			// depth; a variable default (or an argument default) only excuses the OUTER null
			var weaken func(t *ast.Type) *ast.Type
			weaken = func(t *ast.Type) *ast.Type {
				c := *t
				if t.Elem != nil {
					if t.Elem.NonNull && (!innerNonNull(t.Elem) || a%2 == 0) {
						e := *t.Elem
						e.NonNull = false
						c.Elem = &e
					} else {
						c.Elem = weaken(t.Elem)
					}
				}
				return &c
			}
			vt = weaken(r.def.Type)
			if a%3 != 0 {
				vt.NonNull = false
				def = &ast.Value{Kind: ast.ListValue}
			}
		case 3: // a variable of another scalar type (optionally with a default of its own type)
			other := map[string]string{"Int": "String", "String": "Boolean", "Boolean": "Int"}[r.def.Type.Name()]
			vt = ast.NamedType(other, nil)
			vt.NonNull = r.def.Type.NonNull
			if a%2 == 0 && !vt.NonNull {
				def = map[string]*ast.Value{"String": strVal("x"), "Boolean": boolVal("true"), "Int": intVal("1")}[other]
			}
		case 4: // the default null does not make a nullable variable fit a non-null position
			c := *r.def.Type
			c.NonNull = false
			vt = &c
			def = &ast.Value{Kind: ast.NullValue, Raw: "null"}
		case 5: // list-typed variable in an item position
			c := *r.def.Type
			c.NonNull = false
			vt = ast.ListType(&c, nil)
		}
		op.VariableDefinitions = append(op.VariableDefinitions, &ast.VariableDefinition{Variable: "posVar", Type: vt, DefaultValue: def})
		r.arg.Value = varVal("posVar")
		return true
	},
	"unknown-directive": func(d *docInfo, a, b int) bool {
		f, ok := pick(d.fields, a)
		if !ok {
			return false
		}
		f.Directives = append(f.Directives, &ast.Directive{Name: "noSuchDirective"})
		return true
	},
	"directive-in-wrong-location": func(d *docInfo, a, b int) bool {
		op := d.doc.Operations[0]
		op.Directives = append(op.Directives, &ast.Directive{Name: "skip", Arguments: ast.ArgumentList{{Name: "if", Value: boolVal("false")}}})
		return true
	},
	"directive-missing-required-argument": func(d *docInfo, a, b int) bool {
		f, ok := pick(d.fields, a)
		if !ok {
			return false
		}
		f.Directives = append(f.Directives, &ast.Directive{Name: "include"})
		return true
	},
	"duplicate-directive": func(d *docInfo, a, b int) bool {
		f, ok := pick(d.fields, a)
		if !ok {
			return false
		}
		dir := &ast.Directive{Name: "include", Arguments: ast.ArgumentList{{Name: "if", Value: boolVal("true")}}}
		f.Directives = append(f.Directives, dir, dir)
		return true
	},
	"leaf-with-selection": func(d *docInfo, a, b int) bool {
		var leafs []*ast.Field
		for _, f := range d.fields {
			if f.Name == "__typename" {
				if b%4 == 3 { // known finding class C04-selection-on-typename-panics
					leafs = append(leafs, f)
				}
				continue
			}
			if f.Definition != nil && isLeaf(d.schema, f.Definition.Type) && b%4 != 3 {
				leafs = append(leafs, f)
			}
		}
		f, ok := pick(leafs, a)
		if !ok {
			return false
		}
		f.SelectionSet = ast.SelectionSet{&ast.Field{Name: "__typename", Alias: "__typename"}}
		return true
	},
	"composite-without-selection": func(d *docInfo, a, b int) bool {
		var comps []*ast.Field
		for _, f := range d.fields {
			if f.Definition != nil && !isLeaf(d.schema, f.Definition.Type) && f.Name != "__typename" {
				comps = append(comps, f)
			}
		}
		f, ok := pick(comps, a)
		if !ok {
			return false
		}
		f.SelectionSet = nil
		return true
	},
	"subscription-two-root-fields": func(d *docInfo, a, b int) bool {
		// two response names at the root of a subscription, in the ways a client can write them:
		// two fields, one field under two aliases (with equal or different arguments), the
		// second one inside an inline fragment or a named fragment on the root type
		first := func(n string) ast.ArgumentList {
			return ast.ArgumentList{{Name: "first", Value: &ast.Value{Raw: n, Kind: ast.IntValue}}}
		}
		id := ast.SelectionSet{&ast.Field{Name: "id", Alias: "id"}}
		var set ast.SelectionSet
		var frags ast.FragmentDefinitionList
		switch a % 7 {
		case 0:
			set = ast.SelectionSet{&ast.Field{Name: "subA", Alias: "subA"}, &ast.Field{Name: "subB", Alias: "subB"}}
		case 1:
			set = ast.SelectionSet{&ast.Field{Name: "subA", Alias: "x"}, &ast.Field{Name: "subA", Alias: "y"}}
		case 2:
			set = ast.SelectionSet{&ast.Field{Name: "subB", Alias: "x", Arguments: first("1")}, &ast.Field{Name: "subB", Alias: "y", Arguments: first("2")}}
		case 3:
			set = ast.SelectionSet{&ast.Field{Name: "subB", Alias: "subB", Arguments: first("1")}, &ast.Field{Name: "subB", Alias: "y", Arguments: first("1")}}
		case 4:
			set = ast.SelectionSet{&ast.Field{Name: "subE", Alias: "x", SelectionSet: id}, &ast.Field{Name: "subE", Alias: "y", SelectionSet: id}}
		case 5:
			set = ast.SelectionSet{&ast.Field{Name: "subA", Alias: "subA"}, &ast.InlineFragment{TypeCondition: "Subscription", SelectionSet: ast.SelectionSet{&ast.Field{Name: "subA", Alias: "y"}}}}
		default:
			set = ast.SelectionSet{&ast.Field{Name: "subA", Alias: "subA"}, &ast.FragmentSpread{Name: "SF"}}
			frags = ast.FragmentDefinitionList{{Name: "SF", TypeCondition: "Subscription", SelectionSet: ast.SelectionSet{&ast.Field{Name: "subA", Alias: "y"}}}}
		}
		d.doc = &ast.QueryDocument{Operations: ast.OperationList{{Operation: ast.Subscription, SelectionSet: set}}, Fragments: frags}
		return true
	},
	"subscription-introspection-root-field": func(d *docInfo, a, b int) bool {
		d.doc = &ast.QueryDocument{Operations: ast.OperationList{{Operation: ast.Subscription, SelectionSet: ast.SelectionSet{&ast.Field{Name: "__typename", Alias: "__typename"}}}}}
		return true
	},
}

var mutatorNames = func() []string {
	var n []string
	for k := range mutators {
		n = append(n, k)
	}
	sort.Strings(n)
	return n
}()

// applyMutator derives the mutant deterministically from (base, mutator, a, b).
func applyMutator(schema *ast.Schema, base opgen.Op, name string, a, b int) (opgen.Op, bool) {
	d := analyse(schema, base.Query)
	if d == nil {
		return base, false
	}
	fn := mutators[name]
	if fn == nil || !fn(d, a, b) {
		return base, false
	}
	out := opgen.Op{Query: format(d.doc), Variables: base.Variables, OperationName: base.OperationName}
	if len(d.doc.Operations) == 1 && d.doc.Operations[0].Name != out.OperationName {
		out.OperationName = ""
	}
	return out, true
}
