package c02

import (
	"flag"
	"fmt"
	"os"
	"regexp"
	"sort"
	"strings"
	"testing"
	"time"

	"pgregory.net/rapid"
	"verif/harness/pbt"

	"github.com/wundergraph/graphql-go-tools/execution/graphql"
	"github.com/wundergraph/graphql-go-tools/v2/pkg/astnormalization"
	"github.com/wundergraph/graphql-go-tools/v2/pkg/astprinter"
	"github.com/wundergraph/graphql-go-tools/v2/pkg/engine/plan"
	"github.com/wundergraph/graphql-go-tools/v2/pkg/engine/resolve"
	"github.com/wundergraph/graphql-go-tools/v2/pkg/operationreport"
)

func dumpNode(n resolve.Node, ind string) {
	switch x := n.(type) {
	case *resolve.Object:
		fmt.Printf("%sObject path=%v nullable=%v type=%s possible=%v\n", ind, x.Path, x.Nullable, x.TypeName, keysOf(x.PossibleTypes))
		for _, f := range x.Fields {
			var on []string
			for _, b := range f.OnTypeNames {
				on = append(on, string(b))
			}
			var pon []string
			for _, p := range f.ParentOnTypeNames {
				s := fmt.Sprintf("d%d:", p.Depth)
				for _, b := range p.Names {
					s += string(b) + ","
				}
				pon = append(pon, s)
			}
			fmt.Printf("%s  field %s on=%v parentOn=%v\n", ind, f.Name, on, pon)
			dumpNode(f.Value, ind+"    ")
		}
	case *resolve.Array:
		fmt.Printf("%sArray path=%v nullable=%v\n", ind, x.Path, x.Nullable)
		dumpNode(x.Item, ind+"  ")
	default:
		fmt.Printf("%s%T path=%v nullable=%v\n", ind, n, n.NodePath(), n.NodeNullable())
	}
}

func keysOf(m map[string]struct{}) []string {
	var out []string
	for k := range m {
		out = append(out, k)
	}
	return out
}

// TestScratch (development aid): S_OP=<operation> [S_FAM=<k> | S_SDL=<sdl>] [S_DATA=<j>] [S_PRE=1]
// prints the normalized operation, the plan tree, both drivers' output and the upstream query.
func TestScratch(t *testing.T) {
	if os.Getenv("S_OP") == "" {
		t.Skip("development aid: set S_OP")
	}
	sdl := os.Getenv("S_SDL")
	if sdl == "" {
		sdl = getFamily(0).SDL
	}
	if k := os.Getenv("S_FAM"); k != "" {
		var n int
		fmt.Sscan(k, &n)
		sdl = getFamily(n).SDL
	}
	w, err := getWorld(sdl)
	if err != nil {
		t.Fatal(err)
	}
	op := os.Getenv("S_OP")
	{
		req := graphql.Request{Query: op}
		_, _ = req.Normalize(w.schema, astnormalization.WithRemoveFragmentDefinitions(), astnormalization.WithRemoveUnusedVariables(), astnormalization.WithInlineFragmentSpreads(), astnormalization.WithEnableDefer())
		txt, _ := astprinter.PrintString(req.Document())
		fmt.Println("NORMALIZED:", txt)
		if os.Getenv("S_PRE") != "" {
			_, _ = req.Normalize(w.schema, astnormalization.WithExtractVariables())
			p, _ := plan.NewPlanner(plan.Configuration{DataSources: []plan.DataSource{w.ds}, DisableResolveFieldPositions: true})
			var rep operationreport.Report
			pl := p.Plan(req.Document(), w.schema.Document(), "", &rep)
			fmt.Println("PRE-POSTPROCESS:")
			dumpNode(pl.(*plan.SynchronousResponsePlan).Response.Data, "  ")
		}
	}
	pl := w.planTree(op)
	if pl.err != "" {
		t.Fatal(pl.err)
	}
	dumpNode(pl.resp.Data, "")
	if d := os.Getenv("S_DATA"); d != "" {
		r := renderResolvable(pl.resp, []byte(d), resolve.ResolvableOptions{})
		fmt.Printf("OUT %s panic=%q err=%q\n", r.out, r.panicked, r.err)
		e := w.renderEngine(op, []byte(d))
		fmt.Printf("ENG %s panic=%q err=%q req=%d\n", e.out, e.panicked, e.err, e.requests)
		fmt.Printf("UPSTREAM %s\n", w.rt.lastReq)
	}
}

// TestSurvey: classes of failing verdicts over many generated cases (development aid).
func TestSurvey(t *testing.T) {
	if os.Getenv("S_N") == "" {
		t.Skip("development aid: set S_N")
	}
	n := 20000
	if v := os.Getenv("S_N"); v != "" {
		fmt.Sscan(v, &n)
	}
	if v := os.Getenv("S_NODES"); v != "" {
		fmt.Sscan(v, &maxOpNodes)
	}
	sig := map[string]int{}
	ex := map[string]string{}
	gen := genCase(os.Getenv("S_ENGINE") != "")
	count := 0
	seed := 1
	if v := os.Getenv("S_SEED"); v != "" {
		fmt.Sscan(v, &seed)
	}
	_ = flag.Set("rapid.checks", fmt.Sprint(n))
	_ = flag.Set("rapid.seed", fmt.Sprint(seed))
	rapid.Check(t, func(rt *rapid.T) {
		c := gen(rt)
		count++
		md := modeResolvable
		if os.Getenv("S_ENGINE") != "" {
			md = modeEngine
		}
		if os.Getenv("S_VC") != "" {
			md = modeValueCompletion
		}
		v := checkCase(c, &pbt.Rec{}, md)
		if v.Msg == "" {
			return
		}
		first := strings.SplitN(v.Msg, "\n", 2)[0]
		k := v.Finding + " | " + sigOf(first)
		if i := strings.Index(first, "disagrees with the operation: ["); i >= 0 {
			rest := first[i+len("disagrees with the operation: ["):]
			kind := strings.SplitN(rest, "@", 2)[0]
			k = v.Finding + " | UNFAITHFUL " + kind
			if strings.Contains(strings.SplitN(rest, "]", 2)[0], "(__typename)") {
				k += " typename"
			}
		}
		sig[k]++
		if len(c.Op)+len(c.Data) < len(ex[k]) || ex[k] == "" {
			ex[k] = fmt.Sprintf("fam=%d op=%s\n     data=%s\n     msg=%s", c.Fam, c.Op, c.Data, clip400(v.Msg))
		}
	})
	fmt.Println("cases", count)
	var keys []string
	for k := range sig {
		keys = append(keys, k)
	}
	sort.Slice(keys, func(i, j int) bool { return sig[keys[i]] > sig[keys[j]] })
	for _, k := range keys {
		fmt.Printf("%6d  %s\n     %s\n", sig[k], k, ex[k])
	}
}

var reDigits = regexp.MustCompile(`[#/][A-Za-z0-9_#/]+|"[^"]*"|\[[^\]]*\]`)

func sigOf(s string) string {
	s = reDigits.ReplaceAllString(s, "_")
	if len(s) > 200 {
		s = s[:200]
	}
	return s
}

// TestWorldCost (development aid): S_COST=1 prints the set-up cost per family.
func TestWorldCost(t *testing.T) {
	if os.Getenv("S_COST") == "" {
		t.Skip("development aid: set S_COST")
	}
	for k := 0; k < 4; k++ {
		t0 := time.Now()
		f := getFamily(k)
		t1 := time.Now()
		w, err := getWorld(f.SDL)
		if err != nil {
			t.Fatal(err)
		}
		t2 := time.Now()
		_, _ = w.engine()
		t3 := time.Now()
		fmt.Printf("family %d: gqlparser %v, world %v, engine %v\n", k, t1.Sub(t0), t2.Sub(t1), t3.Sub(t2))
	}
}
