package c05

import (
	"encoding/json"
	"fmt"
	"os"
	"path/filepath"
	"sort"
	"strconv"
	"sync"
	"sync/atomic"
	"time"

	"github.com/wundergraph/graphql-go-tools/v2/pkg/ast"
	"github.com/wundergraph/graphql-go-tools/v2/pkg/astparser"
	"github.com/wundergraph/graphql-go-tools/v2/pkg/astprinter"
	"github.com/wundergraph/graphql-go-tools/v2/pkg/operationreport"

	"verif/harness/pbt"
)

// labeler is the part of *pbt.Rec the oracles need (the fuzz target passes a counter set).
type labeler interface{ Label(string) }

type nopLabels struct{}

func (nopLabels) Label(string) {}

// ---- liveness watchdog (time is never a correctness signal: expiry = inconclusive) ----

type inflight struct {
	start time.Time
	part  string
	in    []byte
}

var (
	current      atomic.Pointer[inflight]
	watchdogOnce sync.Once
)

const caseWatchdog = 30 * time.Second

// enter marks the start of one case; the returned func marks its end. If a case stays in
// flight longer than caseWatchdog the input is written to $VERIF_OUT/wedge-<shard>.json and
// the process exits with status 3 (the driver reports the shard as inconclusive).
func enter(part string, in []byte) func() {
	watchdogOnce.Do(func() {
		go func() {
			for {
				time.Sleep(2 * time.Second)
				c := current.Load()
				if c == nil || time.Since(c.start) < caseWatchdog {
					continue
				}
				doc, _ := json.Marshal(map[string]any{"property": "C05", "part": c.part, "case": map[string]any{"in": pbt.Bytes(c.in)},
					"why": fmt.Sprintf("case still running after %s (liveness watchdog; inconclusive)", caseWatchdog)})
				if out := os.Getenv("VERIF_OUT"); out != "" {
					_ = os.WriteFile(filepath.Join(out, "wedge-"+os.Getenv("VERIF_SHARD")+".json"), doc, 0o644)
				}
				fmt.Fprintf(os.Stderr, "C05 watchdog: %s\n", doc)
				os.Exit(3)
			}
		}()
	})
	current.Store(&inflight{start: time.Now(), part: part, in: in})
	return func() { current.Store(nil) }
}

// ---- parsing helpers ----

func parseBytes(in []byte) (*ast.Document, *operationreport.Report) {
	d := ast.NewSmallDocument()
	d.Input.ResetInputBytes(in)
	rep := &operationreport.Report{}
	astparser.NewParser().Parse(d, rep)
	return d, rep
}

func printDoc(d *ast.Document, indent bool) (string, error) {
	if indent {
		return astprinter.PrintStringIndent(d, "  ")
	}
	return astprinter.PrintString(d)
}

// gqExpect asks checkAccepted to also run the differential clause on every print.
type gqExpect struct {
	shape      *sn // gview of the expected shape
	typeSystem bool
}

var unmappedMu sync.Mutex
var unmappedSeen = map[string]bool{}

// bounds runs both halves of the bounds oracle and returns the shape.
func bounds(d *ast.Document) (*walker, *sn, string) {
	um := map[string]bool{}
	if msg := sweepBounds(d, um); msg != "" {
		return nil, nil, "reflective sweep: " + msg
	}
	if len(um) > 0 {
		unmappedMu.Lock()
		for k := range um {
			unmappedSeen[k] = true
		}
		unmappedMu.Unlock()
	}
	w, shape := walkDoc(d)
	if w.err != "" {
		return w, shape, "walk from root nodes: " + w.err
	}
	return w, shape, ""
}

func unmappedList() []string {
	unmappedMu.Lock()
	defer unmappedMu.Unlock()
	out := make([]string, 0, len(unmappedSeen))
	for k := range unmappedSeen {
		out = append(out, k)
	}
	sort.Strings(out)
	return out
}

func verdict(d *ast.Document, kind, diff, print, format string, a ...any) pbt.Verdict {
	msg := fmt.Sprintf(format, a...)
	if f := classifyAccepted(d, kind, diff, print); f != "" {
		return pbt.BadKnown(f, "%s", msg)
	}
	return pbt.Bad("%s", msg)
}

// checkAccepted is the oracle for a document the parser accepted: bounds (clause 2) and round
// trip for compact and indented printing (clause 3); with gq != nil also the differential
// clause (4) on every print.
func checkAccepted(d *ast.Document, in []byte, o labeler, gq *gqExpect) (pbt.Verdict, *walker, *sn) {
	w, s1, msg := bounds(d)
	if msg != "" {
		return pbt.Bad("accepted document has an out-of-bounds reference: %s (input %s)", msg, q(in)), w, s1
	}
	for _, indent := range []bool{false, true} {
		mode := "compact"
		if indent {
			mode = "indented"
		}
		p1, err := printDoc(d, indent)
		if err != nil {
			return pbt.Bad("%s printing of an accepted document fails: %v (input %s)", mode, err, q(in)), w, s1
		}
		d2, rep := parseBytes([]byte(p1))
		if rep.HasErrors() {
			return verdict(d, kReparse, "", p1, "%s print of an accepted input does not parse: input %s print %s: %s", mode, q(in), q([]byte(p1)), rep.Error()), w, s1
		}
		_, s2, msg := bounds(d2)
		if msg != "" {
			return pbt.Bad("re-parsed %s print has an out-of-bounds reference: %s (input %s print %s)", mode, msg, q(in), q([]byte(p1))), w, s1
		}
		if df := diffShape(s1, s2); df != "" {
			return verdict(d, kShape, df, p1, "%s print parses to a different document: %s (input %s print %s)", mode, df, q(in), q([]byte(p1))), w, s1
		}
		p2, err := printDoc(d2, indent)
		if err != nil || p2 != p1 {
			return verdict(d, kFix, "", p1, "%s print is not a fixed point: input %s first print %s second print %s (err %v)", mode, q(in), q([]byte(p1)), q([]byte(p2)), err), w, s1
		}
		if gq != nil {
			g, err := gqParse(p1, gq.typeSystem)
			if err != nil {
				return verdict(d, kReparse, "", p1, "gqlparser accepts the source but rejects the %s print: %v (input %s print %s)", mode, err, q(in), q([]byte(p1))), w, s1
			}
			if df := diffShape(gq.shape, g); df != "" {
				return verdict(d, kDiffer, df, p1, "gqlparser reads the %s print differently from the source (expected vs print): %s (input %s print %s)", mode, df, q(in), q([]byte(p1))), w, s1
			}
		}
	}
	return pbt.OK, w, s1
}

func q(b []byte) string {
	if len(b) > 600 {
		return strconv.QuoteToASCII(string(b[:600])) + "…"
	}
	return strconv.QuoteToASCII(string(b))
}

// ---- limits oracle (clause 5) ----

// checkLimits: if the real selection depth of any definition exceeds L (L>0) or the number of
// field nodes exceeds F (F>0) — both measured by the independent walk over the plainly parsed
// document — ParseWithLimits must not accept. Only that direction is demanded.
func checkLimits(in []byte, L, F int, o labeler, pfx string) pbt.Verdict {
	d, rep := parseBytes(in)
	d2 := ast.NewSmallDocument()
	d2.Input.ResetInputBytes(in)
	rep2 := &operationreport.Report{}
	stats, err := astparser.NewParser().ParseWithLimits(astparser.TokenizerLimits{MaxDepth: L, MaxFields: F}, d2, rep2)
	if rep.HasErrors() {
		o.Label(pfx + ":unparseable")
		return pbt.OK
	}
	w, _ := walkDoc(d)
	if w.err != "" {
		return pbt.OK // reported by the bounds oracle
	}
	overDepth := L > 0 && w.maxDepth > L
	overFields := F > 0 && w.fields > F
	accepted := err == nil && !rep2.HasErrors()
	switch {
	case overDepth && overFields:
		o.Label(pfx + ":over-both")
	case overDepth:
		o.Label(pfx + ":over-depth")
	case overFields:
		o.Label(pfx + ":over-fields")
	default:
		o.Label(pfx + ":within")
		if !accepted {
			o.Label(pfx + ":within-but-rejected") // allowed: the accounting is conservative
		}
		return pbt.OK
	}
	if !accepted {
		return pbt.OK
	}
	msg := fmt.Sprintf("ParseWithLimits{MaxDepth:%d MaxFields:%d} accepts a document with real selection depth %d and %d field nodes (reported stats %+v): %s",
		L, F, w.maxDepth, w.fields, stats, q(in))
	if overFields && !overDepth && keywordIdentInBraces(in) {
		return pbt.BadKnown(fLimitsKeyword, "%s", msg)
	}
	return pbt.Bad("%s", msg)
}
