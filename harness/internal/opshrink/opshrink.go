// Package opshrink minimises a failing GraphQL operation with GraphQL-aware reductions
// (drop selections, directives, aliases, arguments, fragments, variables) while a caller
// supplied predicate keeps holding. It is a post-processing step for replay files: rapid's
// own shrinking works on the generator's bit stream and is time-boxed.
package opshrink

import (
	"bytes"
	"sort"
	"strings"

	"github.com/vektah/gqlparser/v2/ast"
	"github.com/vektah/gqlparser/v2/formatter"
	"github.com/vektah/gqlparser/v2/parser"

	"verif/harness/internal/opgen"
)

func format(doc *ast.QueryDocument) string {
	var b bytes.Buffer
	formatter.NewFormatter(&b, formatter.WithIndent(" ")).FormatQueryDocument(doc)
	return strings.Join(strings.Fields(b.String()), " ")
}

func parse(q string) *ast.QueryDocument {
	doc, err := parser.ParseQuery(&ast.Source{Input: q})
	if err != nil {
		return nil
	}
	return doc
}

// usedNames collects fragment and variable names used anywhere under the operations and
// (transitively) the fragments they reach.
func usedNames(doc *ast.QueryDocument) (frags, vars map[string]bool) {
	frags, vars = map[string]bool{}, map[string]bool{}
	var walkVal func(v *ast.Value)
	walkVal = func(v *ast.Value) {
		if v == nil {
			return
		}
		if v.Kind == ast.Variable {
			vars[v.Raw] = true
		}
		for _, c := range v.Children {
			walkVal(c.Value)
		}
	}
	walkDirs := func(ds ast.DirectiveList) {
		for _, d := range ds {
			for _, a := range d.Arguments {
				walkVal(a.Value)
			}
		}
	}
	var walk func(set ast.SelectionSet)
	walk = func(set ast.SelectionSet) {
		for _, s := range set {
			switch x := s.(type) {
			case *ast.Field:
				for _, a := range x.Arguments {
					walkVal(a.Value)
				}
				walkDirs(x.Directives)
				walk(x.SelectionSet)
			case *ast.InlineFragment:
				walkDirs(x.Directives)
				walk(x.SelectionSet)
			case *ast.FragmentSpread:
				walkDirs(x.Directives)
				if !frags[x.Name] {
					frags[x.Name] = true
					if fd := doc.Fragments.ForName(x.Name); fd != nil {
						walk(fd.SelectionSet)
					}
				}
			}
		}
	}
	for _, o := range doc.Operations {
		walk(o.SelectionSet)
	}
	return
}

// cleanup removes unused fragments and variable definitions, and variables values.
func cleanup(doc *ast.QueryDocument, vars map[string]any) map[string]any {
	frags, used := usedNames(doc)
	var keep ast.FragmentDefinitionList
	for _, f := range doc.Fragments {
		if frags[f.Name] {
			keep = append(keep, f)
		}
	}
	doc.Fragments = keep
	out := map[string]any{}
	for _, o := range doc.Operations {
		var vd ast.VariableDefinitionList
		for _, v := range o.VariableDefinitions {
			if used[v.Variable] {
				vd = append(vd, v)
				if val, ok := vars[v.Variable]; ok {
					out[v.Variable] = val
				}
			}
		}
		o.VariableDefinitions = vd
	}
	if len(out) == 0 {
		return nil
	}
	return out
}

// sets returns every selection set of the document (pointers so they can be edited).
func sets(doc *ast.QueryDocument) []*ast.SelectionSet {
	var out []*ast.SelectionSet
	var walk func(set *ast.SelectionSet)
	walk = func(set *ast.SelectionSet) {
		out = append(out, set)
		for _, s := range *set {
			switch x := s.(type) {
			case *ast.Field:
				if len(x.SelectionSet) > 0 {
					walk(&x.SelectionSet)
				}
			case *ast.InlineFragment:
				walk(&x.SelectionSet)
			}
		}
	}
	for _, o := range doc.Operations {
		walk(&o.SelectionSet)
	}
	for _, f := range doc.Fragments {
		walk(&f.SelectionSet)
	}
	return out
}

// Minimize repeatedly applies reductions while stillFails holds; budget bounds the number
// of predicate evaluations.
func Minimize(op opgen.Op, budget int, stillFails func(opgen.Op) bool) opgen.Op {
	best := op
	try := func(doc *ast.QueryDocument, vars map[string]any) bool {
		if budget <= 0 {
			return false
		}
		budget--
		nv := cleanup(doc, vars)
		cand := opgen.Op{Query: format(doc), Variables: nv, OperationName: best.OperationName}
		if len(doc.Operations) == 1 && cand.OperationName != "" && doc.Operations[0].Name != cand.OperationName {
			cand.OperationName = ""
		}
		if cand.Query == best.Query && len(cand.Variables) == len(best.Variables) {
			return false
		}
		if stillFails(cand) {
			best = cand
			return true
		}
		return false
	}
	for progress := true; progress && budget > 0; {
		progress = false
		// 0. drop other operations
		if doc := parse(best.Query); doc != nil && len(doc.Operations) > 1 {
			var keep ast.OperationList
			for _, o := range doc.Operations {
				if best.OperationName == "" || o.Name == best.OperationName {
					keep = append(keep, o)
					break
				}
			}
			doc.Operations = keep
			if try(doc, best.Variables) {
				progress = true
				continue
			}
		}
		// 1. drop one selection
		n := 0
		if doc := parse(best.Query); doc != nil {
			for _, s := range sets(doc) {
				n += len(*s)
			}
		}
	sel:
		for i := 0; i < n; i++ {
			doc := parse(best.Query)
			if doc == nil {
				break
			}
			k := i
			for _, s := range sets(doc) {
				if k < len(*s) {
					if len(*s) == 1 {
						break
					}
					ns := append(ast.SelectionSet{}, (*s)[:k]...)
					ns = append(ns, (*s)[k+1:]...)
					*s = ns
					if try(doc, best.Variables) {
						progress = true
						break sel
					}
					break
				}
				k -= len(*s)
			}
		}
		if progress {
			continue
		}
		// 2. hoist: replace an inline fragment / field-with-single-child wrapper is not type-safe in
		//    general; instead: drop directives, aliases, arguments one at a time
		type edit func(doc *ast.QueryDocument) bool
		var edits []edit
		if doc := parse(best.Query); doc != nil {
			idx := 0
			for range sets(doc) {
				idx++
			}
			total := 0
			for _, s := range sets(doc) {
				total += len(*s)
			}
			for i := 0; i < total; i++ {
				i := i
				pick := func(doc *ast.QueryDocument) ast.Selection {
					k := i
					for _, s := range sets(doc) {
						if k < len(*s) {
							return (*s)[k]
						}
						k -= len(*s)
					}
					return nil
				}
				edits = append(edits,
					func(doc *ast.QueryDocument) bool { // drop directives
						switch x := pick(doc).(type) {
						case *ast.Field:
							if len(x.Directives) > 0 {
								x.Directives = nil
								return true
							}
						case *ast.InlineFragment:
							if len(x.Directives) > 0 {
								x.Directives = nil
								return true
							}
						case *ast.FragmentSpread:
							if len(x.Directives) > 0 {
								x.Directives = nil
								return true
							}
						}
						return false
					},
					func(doc *ast.QueryDocument) bool { // drop alias
						if x, ok := pick(doc).(*ast.Field); ok && x.Alias != "" && x.Alias != x.Name {
							x.Alias = x.Name
							return true
						}
						return false
					},
					func(doc *ast.QueryDocument) bool { // drop all arguments
						if x, ok := pick(doc).(*ast.Field); ok && len(x.Arguments) > 0 {
							x.Arguments = nil
							return true
						}
						return false
					},
					func(doc *ast.QueryDocument) bool { // drop last argument
						if x, ok := pick(doc).(*ast.Field); ok && len(x.Arguments) > 1 {
							x.Arguments = x.Arguments[:len(x.Arguments)-1]
							return true
						}
						return false
					},
					func(doc *ast.QueryDocument) bool { // inline a fragment spread
						if x, ok := pick(doc).(*ast.FragmentSpread); ok {
							if fd := doc.Fragments.ForName(x.Name); fd != nil {
								k := i
								for _, s := range sets(doc) {
									if k < len(*s) {
										(*s)[k] = &ast.InlineFragment{TypeCondition: fd.TypeCondition, Directives: x.Directives, SelectionSet: fd.SelectionSet}
										return true
									}
									k -= len(*s)
								}
							}
						}
						return false
					},
					func(doc *ast.QueryDocument) bool { // unwrap an inline fragment into its parent set
						if x, ok := pick(doc).(*ast.InlineFragment); ok && len(x.Directives) == 0 {
							k := i
							for _, s := range sets(doc) {
								if k < len(*s) {
									ns := append(ast.SelectionSet{}, (*s)[:k]...)
									ns = append(ns, x.SelectionSet...)
									ns = append(ns, (*s)[k+1:]...)
									*s = ns
									return true
								}
								k -= len(*s)
							}
						}
						return false
					},
				)
			}
		}
		for _, e := range edits {
			doc := parse(best.Query)
			if doc == nil {
				break
			}
			if !e(doc) {
				continue
			}
			if try(doc, best.Variables) {
				progress = true
				break
			}
		}
		if progress {
			continue
		}
		// 3. drop variable values one at a time (variable becomes absent)
		var names []string
		for k := range best.Variables {
			names = append(names, k)
		}
		sort.Strings(names)
		for _, k := range names {
			nv := map[string]any{}
			for kk, vv := range best.Variables {
				if kk != k {
					nv[kk] = vv
				}
			}
			doc := parse(best.Query)
			if doc == nil {
				break
			}
			if try(doc, nv) {
				progress = true
				break
			}
		}
	}
	return best
}
