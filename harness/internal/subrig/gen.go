//go:build verif

package subrig

import (
	"sort"

	"pgregory.net/rapid"
)

// Bias tunes the generator for one property.
type Bias struct {
	Name string
	// Actions maps action name -> multiplicity in the rapid state machine (weights).
	Actions map[string]int
	// SplitPct is the percentage of eligible updater calls that are split at one of their
	// windows; StartSplitPct the same for trigger-creating subscribes.
	SplitPct      int
	StartSplitPct int
	// KeySpread: percentage of subscribes that do not use key 0.
	KeySpread int
	// StartFaultPct: percentage of trigger-creating subscribes whose Start fails or blocks.
	StartFaultPct int
	// HookPct: percentage of subscribes whose source is hookable.
	HookPct int
	// MaxSubs bounds the subscribers of one history.
	MaxSubs int
}

// BiasC12 favours events, filters and the delivery windows.
var BiasC12 = Bias{Name: "C12", SplitPct: 60, StartSplitPct: 12, KeySpread: 15, StartFaultPct: 10, HookPct: 20, MaxSubs: 7,
	Actions: map[string]int{OpSubscribe: 3, OpEvent: 4, OpUpdateSub: 1, OpComplete: 1, OpError: 1, OpDone: 1, OpCloseSub: 1,
		OpUnsubscribe: 2, OpRemoveClient: 1, OpHeartbeat: 2, OpShutdown: 1, OpReleaseStart: 1}}

// BiasC13 favours trigger churn, start-up faults and the start-up windows.
var BiasC13 = Bias{Name: "C13", SplitPct: 35, StartSplitPct: 45, KeySpread: 50, StartFaultPct: 35, HookPct: 35, MaxSubs: 8,
	Actions: map[string]int{OpSubscribe: 5, OpEvent: 2, OpUpdateSub: 1, OpComplete: 1, OpError: 1, OpDone: 2, OpCloseSub: 1,
		OpUnsubscribe: 3, OpRemoveClient: 2, OpHeartbeat: 1, OpShutdown: 1, OpReleaseStart: 2}}

type gen struct {
	t     *rapid.T
	m     *Model
	h     History
	b     Bias
	known func(id string) bool
	evN   int
}

// Gen draws a history with a rapid state machine running against the model. known tells which
// recorded findings are still unrepaired: their history shapes are avoided by construction (and
// counted in History.Excluded) so that the search goes on behind them.
func Gen(t *rapid.T, b Bias, known func(id string) bool) History {
	g := &gen{t: t, m: NewModel(), b: b, known: known}
	names := make([]string, 0, len(b.Actions))
	total := 0
	for n, w := range b.Actions {
		names = append(names, n)
		total += w
	}
	sort.Strings(names)
	// one rapid action that picks the operation itself: rapid samples action names with a heavy
	// bias towards the first ones, which would override the weights
	actions := map[string]func(*rapid.T){"step": func(rt *rapid.T) {
		g.t = rt
		// (rapid treats an action that skips after having drawn as invalid and soon gives up on
		// the whole sequence, so the action retries instead of skipping)
		if len(g.h.Steps) >= 40 {
			return
		}
		for try := 0; try < 40; try++ {
			k := g.intn(total, "op")
			op := names[len(names)-1]
			for _, n := range names {
				if k < b.Actions[n] {
					op = n
					break
				}
				k -= b.Actions[n]
			}
			if st, ok := g.draw(op, nil); ok {
				g.emit(st)
				return
			}
		}
	}}
	t.Repeat(actions)
	return g.h
}

// rapid draws integers with a strong bias towards small values (about 40% of IntRange(0,99)
// falls below 10, the rest is roughly flat), which is what makes its shrinking work but makes
// "v < p" a poor percentage. pct and intn read the flat upper part of the range instead; the
// small values (where shrinking leads) mean "no" for rare features and "first" for choices.

// pct is true in roughly p percent of the draws.
func (g *gen) pct(p int, label string) bool {
	v := rapid.IntRange(0, 99).Draw(g.t, label)
	if p <= 50 {
		return v >= 100-(p*156+50)/100
	}
	return v < 100-((100-p)*156+50)/100
}

// intn draws an index in [0,n), roughly uniform.
func (g *gen) intn(n int, label string) int {
	if n <= 1 {
		return 0
	}
	v := rapid.IntRange(0, 99).Draw(g.t, label)
	if v < 20 {
		return v % n
	}
	return (v - 20) * n / 80
}

func pick[T any](g *gen, xs []T, label string) T { return xs[g.intn(len(xs), label)] }

func (g *gen) exclude(id string) { g.h.Excluded = append(g.h.Excluded, id) }

// periodsWhere lists period indices satisfying f.
func (g *gen) periodsWhere(f func(p *MPeriod) bool) []int {
	var out []int
	for _, p := range g.m.Periods {
		if f(p) {
			out = append(out, p.Idx)
		}
	}
	return out
}

// draw builds one (unsplit) step of kind op that is applicable in the current model state.
// parent is the open split step when a nested step is drawn.
func (g *gen) draw(op string, parent *Step) (Step, bool) {
	m := g.m
	sourceLive := func(p *MPeriod) bool { return p.Live && p.HasUpdater && !p.Terminal }
	switch op {
	case OpSubscribe:
		if len(m.Subs) >= g.b.MaxSubs {
			return Step{}, false
		}
		st := Step{Op: OpSubscribe, Sub: len(m.Subs), Conn: 1 + g.intn(3, "conn")}
		if g.pct(g.b.KeySpread, "otherKey") {
			st.Key = 1 + g.intn(len(Keys)-1, "key")
		}
		if g.pct(45, "filtered") {
			st.Filter = pick(g, Filters[1:], "filter")
		}
		if g.pct(35, "shaped") {
			st.Shape = 1 + g.intn(Shapes-1, "shape")
		}
		st.Sync = g.pct(15, "sync")
		st.HB = g.pct(35, "hb")
		if g.pct(g.b.HookPct, "hookable") {
			st.Hook = pick(g, []string{HookOK, HookFail, HookEmit, HookEmit}, "hook")
		}
		if g.pct(12, "flushFails") {
			st.FlushFailAt = 1 + g.intn(3, "flushFailAt")
		}
		if st.HB && g.pct(15, "hbFails") {
			st.HBFail = true
		}
		if m.LivePeriod(st.Key) == nil && g.pct(g.b.StartFaultPct, "startFault") {
			st.StartMode = pick(g, []string{StartErr, StartBlock, StartBlock}, "startMode")
		}
		if m.Shutdown && !g.pct(20, "afterShutdown") {
			return Step{}, false
		}
		// a nested subscribe that joins the trigger whose updater the parked call holds must not
		// call back into that updater from its hook (the hook would block until the resume)
		if parent != nil && HoldsUpdater(*parent) && st.Hook == HookEmit {
			if p := m.LivePeriod(st.Key); p != nil && p.Idx == parent.Period {
				st.Hook = HookOK
			}
		}
		// recorded finding: the start goroutine of an ended period is still pending and would
		// act on the new trigger of the same key
		if g.known(FStaleStart) && m.LivePeriod(st.Key) == nil {
			for _, p := range m.Periods {
				if p.Key == st.Key && !p.Live && (p.Pending != PendNone || p.StaleFinish) {
					g.exclude(FStaleStart)
					return Step{}, false
				}
			}
		}
		return st, true

	case OpEvent:
		ps := g.periodsWhere(sourceLive)
		if len(ps) == 0 && !g.pct(25, "lateEvent") {
			return Step{}, false
		}
		if len(ps) == 0 || g.pct(8, "deadTarget") {
			// a source that keeps emitting after its trigger ended
			ps = g.periodsWhere(func(p *MPeriod) bool { return p.HasUpdater && !p.Terminal })
		}
		if len(ps) == 0 {
			return Step{}, false
		}
		g.evN++
		st := Step{Op: OpEvent, Period: pick(g, ps, "period"), N: g.evN, K: g.intn(3, "k")}
		if g.pct(30, "oddEvent") {
			st.Kind = pick(g, EventKinds[1:], "kind")
		}
		return st, true

	case OpUpdateSub:
		ps := g.periodsWhere(func(p *MPeriod) bool { return sourceLive(p) && len(p.Subs) > 0 })
		if len(ps) == 0 {
			return Step{}, false
		}
		p := m.Periods[pick(g, ps, "period")]
		g.evN++
		st := Step{Op: OpUpdateSub, Period: p.Idx, Sub: pick(g, p.Subs, "sub"), N: g.evN, K: g.intn(3, "k")}
		if g.pct(10, "foreignSub") {
			st.Sub = g.intn(len(m.Subs), "anySub")
		}
		if g.pct(20, "oddEvent") {
			st.Kind = pick(g, EventKinds[1:], "kind")
		}
		return st, true

	case OpComplete, OpError, OpHeartbeat:
		ps := g.periodsWhere(sourceLive)
		if op == OpHeartbeat {
			// prefer triggers that have a subscriber a heartbeat is due to
			due := g.periodsWhere(func(p *MPeriod) bool {
				if !sourceLive(p) {
					return false
				}
				for _, i := range p.Subs {
					if m.heartbeatDue(m.Subs[i]) {
						return true
					}
				}
				return false
			})
			if len(due) > 0 && g.pct(85, "heartbeatDue") {
				ps = due
			}
		}
		if len(ps) == 0 {
			return Step{}, false
		}
		return Step{Op: op, Period: pick(g, ps, "period")}, true

	case OpDone:
		ps := g.periodsWhere(func(p *MPeriod) bool { return p.HasUpdater && !p.DoneCalled })
		if len(ps) == 0 {
			return Step{}, false
		}
		// bias: sources that sent Complete/Error, or whose trigger ended, call Done first
		var pref []int
		for _, i := range ps {
			if p := m.Periods[i]; p.Terminal || !p.Live {
				pref = append(pref, i)
			}
		}
		if len(pref) > 0 && g.pct(70, "doneAfterTerminal") {
			ps = pref
		}
		p := m.Periods[pick(g, ps, "period")]
		if g.known(FStaleDone) && !p.Live && m.LivePeriod(p.Key) != nil {
			g.exclude(FStaleDone)
			return Step{}, false
		}
		return Step{Op: OpDone, Period: p.Idx}, true

	case OpCloseSub:
		ps := g.periodsWhere(func(p *MPeriod) bool { return sourceLive(p) && len(p.Subs) > 0 })
		if len(ps) == 0 {
			return Step{}, false
		}
		p := m.Periods[pick(g, ps, "period")]
		return Step{Op: OpCloseSub, Period: p.Idx, Sub: pick(g, p.Subs, "sub")}, true

	case OpUnsubscribe:
		live := m.LiveSubs()
		if len(live) > 0 && !g.pct(12, "repeatUnsubscribe") {
			return Step{Op: OpUnsubscribe, Sub: pick(g, live, "sub")}, true
		}
		var reg []int
		for _, s := range m.Subs {
			if s.Registered {
				reg = append(reg, s.Idx)
			}
		}
		if len(reg) == 0 {
			return Step{}, false
		}
		return Step{Op: OpUnsubscribe, Sub: pick(g, reg, "sub")}, true

	case OpRemoveClient:
		if len(m.Subs) == 0 {
			return Step{}, false
		}
		return Step{Op: OpRemoveClient, Conn: 1 + g.intn(3, "conn")}, true

	case OpShutdown:
		if m.Shutdown || len(m.Subs) == 0 || !g.pct(35, "reallyShutdown") {
			return Step{}, false
		}
		return Step{Op: OpShutdown}, true

	case OpReleaseStart:
		ps := g.periodsWhere(func(p *MPeriod) bool { return p.Pending == PendBlocked })
		if len(ps) == 0 {
			return Step{}, false
		}
		p := m.Periods[pick(g, ps, "period")]
		st := Step{Op: OpReleaseStart, Period: p.Idx, Err: g.pct(40, "startErr")}
		if g.known(FStaleStart) && !p.Live && m.LivePeriod(p.Key) != nil {
			// cannot happen while the subscribe rule above holds; kept for replayed prefixes
			g.exclude(FStaleStart)
			return Step{}, false
		}
		return st, true
	}
	return Step{}, false
}

// windows lists the yield points the step can be split at (with a target where needed).
func (g *gen) windows(st Step) []Split {
	m := g.m
	var out []Split
	switch st.Op {
	case OpSubscribe:
		for _, pt := range []string{PtStart, PtInit, PtWFlush} {
			c := st
			c.Split = &Split{Point: pt}
			if pt == PtWFlush {
				c.Split.Target = st.Sub // inside the creator's start-failure message
			}
			if m.PredictReach(c) {
				out = append(out, *c.Split)
			}
		}
	case OpReleaseStart:
		p := m.Periods[st.Period]
		for _, i := range p.Subs {
			c := st
			c.Split = &Split{Point: PtWFlush, Target: i}
			if m.PredictReach(c) {
				out = append(out, *c.Split)
			}
		}
	case OpEvent, OpUpdateSub:
		p := m.Periods[st.Period]
		for _, i := range p.Subs {
			for _, pt := range []string{PtUpdate, PtWFlush} {
				c := st
				c.Split = &Split{Point: pt, Target: i}
				if m.PredictReach(c) {
					out = append(out, *c.Split)
				}
			}
		}
	case OpHeartbeat:
		p := m.Periods[st.Period]
		for _, i := range p.Subs {
			for _, pt := range []string{PtHeartbeat, PtWHeartbeat} {
				c := st
				c.Split = &Split{Point: pt, Target: i}
				if m.PredictReach(c) {
					out = append(out, *c.Split)
				}
			}
		}
	case OpComplete, OpError:
		p := m.Periods[st.Period]
		pts := []string{PtComplete, PtWComplete}
		if st.Op == OpError {
			pts = []string{PtError, PtWError}
		}
		if p.Live {
			for _, i := range p.Subs {
				for _, pt := range pts {
					out = append(out, Split{Point: pt, Target: i})
				}
			}
		}
	}
	return out
}

var nestedOps = []string{OpSubscribe, OpEvent, OpEvent, OpUpdateSub, OpComplete, OpError, OpDone, OpCloseSub, OpUnsubscribe, OpUnsubscribe, OpUnsubscribe,
	OpRemoveClient, OpRemoveClient, OpHeartbeat, OpShutdown, OpReleaseStart}

// emit appends the step, possibly split, to the history and applies it to the model in the
// order the executor performs it.
func (g *gen) emit(st Step) {
	m := g.m
	m.StepNo = len(g.h.Steps)
	ws := g.windows(st)
	splitPct := g.b.SplitPct
	if st.Op == OpSubscribe {
		splitPct = g.b.StartSplitPct
	}
	if len(ws) == 0 || !g.pct(splitPct, "split") {
		m.ApplyFull(st)
		g.h.Steps = append(g.h.Steps, st)
		return
	}
	sp := pick(g, ws, "window")
	st.Split = &sp
	tok := m.Open()
	m.Begin(st, true)
	want := 1 + g.intn(2, "nestedCount")
	var blocked []Step
	writerBlocked := false
	for tries := 0; len(st.Split.Nested) < want && tries < 8; tries++ {
		var n Step
		ok := false
		if g.pct(60, "targeted") {
			// prefer actions that touch what is parked
			n, ok = g.drawTargeted(st)
		} else {
			n, ok = g.draw(pick(g, nestedOps, "nestedOp"), &st)
		}
		if !ok {
			continue
		}
		if !m.NestedAdmissible(st, n, len(blocked), writerBlocked) || !g.nestedAllowed(st, n) {
			continue
		}
		st.Split.Nested = append(st.Split.Nested, n)
		if m.Blocks(st, n) {
			blocked = append(blocked, n)
			writerBlocked = writerBlocked || m.BlocksOnWriter(st, n)
			continue
		}
		m.Open()
		m.Begin(n, false)
		m.End(n, false)
	}
	m.SetOwner(tok)
	m.End(st, true)
	for _, n := range blocked {
		m.Open()
		m.Begin(n, false)
		m.End(n, false)
	}
	g.h.Steps = append(g.h.Steps, st)
}

// nestedAllowed applies the steering around recorded findings to a nested step drawn while
// parent is parked (the executor's determinism rules are Model.NestedAdmissible).
func (g *gen) nestedAllowed(parent, n Step) bool {
	m := g.m
	switch parent.Split.Point {
	case PtComplete, PtError:
		if g.known(F19) && !m.Blocks(parent, n) {
			// recorded finding: the parked Complete/Error is written although its subscriber was
			// removed (and its completion signalled) meanwhile
			if x := m.Subs[parent.Split.Target]; x.Live {
				c := m.Clone()
				c.Open()
				c.Begin(n, false)
				c.End(n, false)
				if !c.Subs[x.Idx].Live {
					g.exclude(F19)
					return false
				}
			}
		}
	case PtInit:
		if g.known(F20) {
			// recorded finding: the trigger ends while its start goroutine sits between
			// getTrigger and initialized.Store
			p := m.Periods[m.Subs[parent.Sub].Period]
			if p.Live {
				c := m.Clone()
				c.Open()
				c.Begin(n, false)
				c.End(n, false)
				if !c.Periods[p.Idx].Live {
					g.exclude(F20)
					return false
				}
			}
		}
	}
	return true
}

// drawTargeted draws a nested step aimed at the trigger (and its subscribers) the parked call
// belongs to.
func (g *gen) drawTargeted(parent Step) (Step, bool) {
	m := g.m
	var p *MPeriod
	if parent.Op == OpSubscribe {
		p = m.Periods[m.Subs[parent.Sub].Period]
	} else {
		p = m.Periods[parent.Period]
	}
	var cands []Step
	subs := append([]int(nil), p.Subs...)
	if HoldsUpdater(parent) && !contains(subs, parent.Split.Target) {
		subs = append(subs, parent.Split.Target)
	}
	for _, i := range subs {
		s := m.Subs[i]
		cands = append(cands, Step{Op: OpUnsubscribe, Sub: i}, Step{Op: OpUnsubscribe, Sub: i})
		if !s.Sync {
			cands = append(cands, Step{Op: OpRemoveClient, Conn: s.Conn})
		}
		if p.Live && p.HasUpdater && !p.Terminal {
			cands = append(cands, Step{Op: OpCloseSub, Period: p.Idx, Sub: i})
		}
	}
	if p.Live && p.HasUpdater && !p.Terminal {
		g.evN++
		cands = append(cands, Step{Op: OpEvent, Period: p.Idx, N: g.evN, K: g.intn(3, "k")},
			Step{Op: OpHeartbeat, Period: p.Idx}, Step{Op: OpComplete, Period: p.Idx}, Step{Op: OpError, Period: p.Idx})
	}
	if p.HasUpdater && !p.DoneCalled {
		cands = append(cands, Step{Op: OpDone, Period: p.Idx})
	}
	if p.Pending == PendBlocked {
		cands = append(cands, Step{Op: OpReleaseStart, Period: p.Idx, Err: g.pct(40, "startErr")})
	}
	if !m.Shutdown {
		cands = append(cands, Step{Op: OpShutdown})
	}
	if len(m.Subs) < g.b.MaxSubs {
		// a subscriber joining (or re-creating) the parked trigger's key
		if j, ok := g.draw(OpSubscribe, &parent); ok {
			j.Key = p.Key
			j.StartMode = StartOK
			if HoldsUpdater(parent) && j.Hook == HookEmit {
				j.Hook = HookOK
			}
			stale := false
			for _, q := range m.Periods {
				if q.Key == j.Key && !q.Live && (q.Pending != PendNone || q.StaleFinish) {
					stale = true
				}
			}
			if m.LivePeriod(j.Key) != nil || !stale || !g.known(FStaleStart) {
				cands = append(cands, j, j)
			} else {
				g.exclude(FStaleStart)
			}
		}
	}
	if len(cands) == 0 {
		return Step{}, false
	}
	st := pick(g, cands, "targetedStep")
	if st.Op == OpDone {
		if q := m.Periods[st.Period]; g.known(FStaleDone) && !q.Live && m.LivePeriod(q.Key) != nil {
			g.exclude(FStaleDone)
			return Step{}, false
		}
	}
	return st, true
}
