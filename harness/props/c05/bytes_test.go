package c05

import (
	"bytes"
	"hash/fnv"

	"pgregory.net/rapid"

	"github.com/wundergraph/graphql-go-tools/v2/pkg/ast"
	"github.com/wundergraph/graphql-go-tools/v2/pkg/lexer"
	"github.com/wundergraph/graphql-go-tools/v2/pkg/lexer/keyword"

	"verif/harness/pbt"
)

// bytes part (DESIGN §4 C05 clauses 1–3 and 5 on arbitrary input): byte strings biased to
// GraphQL tokens. Three generator modes: token soup; a grammar-generated document damaged by
// a few byte/token-level mutations (keeps most of the structure, so a large share is still
// accepted and exercises the printer on documents nobody would write); a hostile constant
// damaged the same way.
//
// Oracle: the parser returns (no panic; the liveness watchdog is only a watchdog); an accepted
// input has all references in bounds and round-trips (compact and indented); with limits
// derived from the input, ParseWithLimits never accepts an over-limit document.

type bytesCase struct {
	In pbt.Bytes `json:"in"`
}

var tokens = []string{
	"{", "}", "(", ")", "[", "]", ":", "=", "!", "|", "&", "@", "$", "...", ",", " ", "\n", "\t", "#c\n", "\ufeff",
	"query", "mutation", "subscription", "fragment", "on", "type", "interface", "union", "enum", "input", "scalar",
	"schema", "extend", "directive", "implements", "repeatable", "true", "false", "null",
	"a", "b", "T", "Int", "x1", "_y", "__typename", "FIELD", "OBJECT",
	"0", "-1", "1.5", "1e5", "-0.0e-3", "1e", "1.", "-", "00", "0x1", "1e-5", "1.5-3", "a-1",
	`"s"`, `""`, `"é"`, `"\n\"q"`, `"😀"`, `"`, `"\`, `"\x"`, `"\u12"`, `"\uD83D"`,
	`"""b"""`, `"""`, `""""""`, "\"\"\"\n  a\n   b\n\"\"\"", `"""a\"""b"""`, `"""a" """`, `""" "" """`, "\"\"\" a\n\"\"\"", `"""\`,
	"\x00", "\xff", "é", "\r", "\r\n", "\\", "'",
}

// hostile constants: inputs that look for trouble at the edges of the lexer and parser (also
// the seed corpus of the native fuzz target).
var hostile = []string{
	``, ` `, `{`, `}`, `{}`, `{ a }`, `{{{{{{{{{{`, `[[[[[[[[[[`, `query`, `query Q`, `query Q(`, `query Q($a`, `query Q($a:`, `{ a(`, `{ a(b:`, `{ a(b: [`, `{ a(b: {`, `{ a(b: {c:`,
	`{ a @`, `{ ...`, `{ ... on`, `{ ...on }`, `fragment`, `fragment on on on { on }`, `{ on }`, `{ query mutation subscription fragment }`,
	`{ a(x: -) }`, `{ a(x: - 1) }`, `{ a(x: $) }`, `{ a(x: $ a) }`, `{ a(x: 1.) }`, `{ a(x: .5) }`, `{ a(x: 1e) }`, `{ a(x: 1e-5) }`, `{ a(x: 1E+5) }`, `{ a(x: 0e) }`, `{ a(x: 01) }`, `{ a(x: 1a) }`, `{ a(x: 1.5-3) }`,
	`{ a(x: "`, `{ a(x: "\`, `{ a(x: "\"`, `{ a(x: "\u`, `{ a(x: "\u12") }`, "{ a(x: \"abc\n) }", "{ a(x: \"a\x00b\") }", "{ a(x: \"0\x00) }",
	`{ a(x: """`, `{ a(x: """"`, `{ a(x: """"") }`, `{ a(x: """""") }`, `{ a(x: """a" """) }`, `{ a(x: """a "" """) }`, `{ a(x: """a\"""""") }`, `{ a(x: """\""") }`, "{ a(x: \"\"\"\n    a\n  b\n\"\"\") }", `{ a(x: """ """) }`, "{ a(x: \"\"\"\\\n\"\"\") }",
	"\"000000\x00type A", `"" type T`, `"d" "e" type T`, `"d"`, `"""d"""`, `"d" {a}`, `"d" extend type T @a`, `"d" schema { query: Q }`,
	`schema { }`, `schema @a { }`, `extend schema { }`, `extend schema @a`, `extend schema`, `schema { query: }`, `schema { query Q }`, `schema { foo: Q }`,
	`type T`, `type T { }`, `type T implements`, `type T implements &`, `type T implements A &`, `type T implements A B`, `type T implements A type U`, `type T implements A & B @d { a: Int }`,
	`type T { a: }`, `type T { a: [ }`, `type T { a: [Int }`, `type T { a: Int!! }`, `type T { a(: Int }`, `type T { a( ): Int }`, `type T { a(b: Int = ): Int }`, `type T { "d" }`,
	`extend type T`, `extend type T implements A`, `extend`, `extend foo`, `extend interface I implements J { a: Int }`,
	`union U`, `union U =`, `union U = |`, `union U = | A |`, `union U = A | B union V`, `enum E`, `enum E { }`, `enum E { true }`, `enum E { A @d B "x" C }`, `input I`, `input I { }`, `input I { a: Int = {b: [1, {c: null}]} @d }`,
	`scalar`, `scalar S @`, `scalar S @d(`, `directive`, `directive @`, `directive @d`, `directive @d on`, `directive @d on |`, `directive @d on FIELD |`, `directive @d on FOO`, `directive @d repeatable`, `directive @d(a: Int) repeatable on FIELD | OBJECT`, `directive @d( ) on FIELD`,
	`query Q($a: Int = 1 @d, $b: [Int!]! @e @f) @g { a }`, `query ( ) { a }`, `query @d { a }`, `query Q("d" $a: Int) { a }`, `"d" query Q { a }`, `"d" fragment F on T { a }`,
	`{ ... { a } ... @a { b } ... on T @b { c } ...F @c }`, `{ a: b: c }`, `{ a: }`, `{ :a }`, `{ a b: c(d: $e) @f(g: [1 2, 3]) { h } }`, `{ a(x: [1 2 [3] {a: {b: []}} {}]) }`,
	"\ufeff{ a }", "{ a }\ufeff", "#", "# c", "#\n#\n{ a }#", "{ a #\n}", "{ a # }", "#a\x00#b\n{ a }", "{ a }\x00 garbage", "\x00", "\xff\xfe", "{ \xff }", "{ é }", "{ a\r\nb\rc }", ",,,{,a,,b,},,,",
	`subscription { a } mutation M { b } { c }`, `query A { a } query B { b } fragment F on T { ...F }`,
}

func genSoup(t *rapid.T) []byte {
	n := rapid.IntRange(0, 40).Draw(t, "n")
	var b bytes.Buffer
	for i := 0; i < n; i++ {
		if rapid.IntRange(0, 9).Draw(t, "raw") == 0 {
			b.Write(rapid.SliceOfN(rapid.Byte(), 0, 4).Draw(t, "bytes"))
			continue
		}
		b.WriteString(rapid.SampledFrom(tokens).Draw(t, "tok"))
		if rapid.IntRange(0, 2).Draw(t, "sp") == 0 {
			b.WriteByte(' ')
		}
	}
	return b.Bytes()
}

// mutate damages in with k byte/token-level edits.
func mutate(t *rapid.T, in []byte, k int) []byte {
	out := append([]byte(nil), in...)
	for i := 0; i < k; i++ {
		pos := 0
		if len(out) > 0 {
			pos = rapid.IntRange(0, len(out)).Draw(t, "pos")
		}
		switch rapid.IntRange(0, 8).Draw(t, "mutation") {
		case 7, 8: // replace the word at pos (name, keyword, number) by a token
			isWord := func(c byte) bool {
				return c == '_' || c >= '0' && c <= '9' || c >= 'a' && c <= 'z' || c >= 'A' && c <= 'Z'
			}
			a, b := pos, pos
			for a > 0 && isWord(out[a-1]) {
				a--
			}
			for b < len(out) && isWord(out[b]) {
				b++
			}
			tok := rapid.SampledFrom(tokens).Draw(t, "reptok")
			out = append(out[:a], append([]byte(tok), out[b:]...)...)
		case 0: // insert a token
			tok := rapid.SampledFrom(tokens).Draw(t, "instok")
			out = append(out[:pos], append([]byte(tok), out[pos:]...)...)
		case 1: // delete a span
			n := rapid.IntRange(1, 6).Draw(t, "dellen")
			if pos+n > len(out) {
				n = len(out) - pos
			}
			out = append(out[:pos], out[pos+n:]...)
		case 2: // duplicate a span
			n := rapid.IntRange(1, 12).Draw(t, "duplen")
			if pos+n > len(out) {
				n = len(out) - pos
			}
			span := append([]byte(nil), out[pos:pos+n]...)
			out = append(out[:pos], append(span, out[pos:]...)...)
		case 3: // overwrite one byte
			if pos < len(out) {
				out[pos] = rapid.Byte().Draw(t, "byte")
			}
		case 4: // truncate
			out = out[:pos]
		case 5: // insert white space / ignored tokens
			ws := rapid.SampledFrom([]string{" ", "\n", ",", "\t", "\r", "#x\n", "\x00"}).Draw(t, "ws")
			out = append(out[:pos], append([]byte(ws), out[pos:]...)...)
		default: // swap with a structural character
			if pos < len(out) {
				out[pos] = rapid.SampledFrom([]byte("{}()[]:=!|&@$\"\\.-#, \n")).Draw(t, "structural")
			}
		}
	}
	return out
}

func genBytes(t *rapid.T) bytesCase {
	switch rapid.IntRange(0, 9).Draw(t, "bytesmode") {
	case 0, 1, 2, 3:
		return bytesCase{In: genSoup(t)}
	case 4, 5, 6, 7, 8:
		kind := rapid.SampledFrom([]string{"exec", "exec", "schema", "schema", "mixed"}).Draw(t, "dockind")
		dc := genDocWith(t, genOpts{maxSelDepth: 3, maxSel: 3, maxDefs: 3, wild: rapid.IntRange(0, 3).Draw(t, "wild") == 0}, kind)
		return bytesCase{In: mutate(t, []byte(dc.Src), rapid.IntRange(1, 3).Draw(t, "nmut"))}
	default:
		h := rapid.SampledFrom(hostile).Draw(t, "hostile")
		return bytesCase{In: mutate(t, []byte(h), rapid.IntRange(0, 2).Draw(t, "nmut"))}
	}
}

var bytesPart = pbt.Part[bytesCase]{Name: "bytes-total", Quick: 300000, Thorough: 6000000, Gen: genBytes, Check: checkBytes}

func countTokens(in []byte) int {
	var l lexer.Lexer
	var input ast.Input
	input.ResetInputBytes(in)
	l.SetInput(&input)
	n := 0
	for n < 100000 {
		tok := l.Read()
		if tok.Keyword == keyword.EOF {
			break
		}
		n++
	}
	return n
}

// limitsFor derives a limits pair from the input (a pure function of the case).
func limitsFor(in []byte) (L, F int) {
	h := fnv.New32a()
	h.Write(in)
	x := h.Sum32()
	return int(x % 5), int((x / 5) % 8) // 0 = unlimited
}

func checkBytes(c bytesCase, o *pbt.Rec) pbt.Verdict {
	return checkInput("bytes-total", []byte(c.In), o, o.NonTrivial)
}

// checkInput is the oracle shared by the bytes part and the native fuzz target.
func checkInput(part string, in []byte, o labeler, nonTrivial func(string)) pbt.Verdict {
	defer enter(part, in)()
	if countTokens(in) >= 3 && nonTrivial != nil {
		nonTrivial(string(in))
	}
	L, F := limitsFor(in)
	if v := checkLimits(in, L, F, o, "bytes:limits"); v.Msg != "" {
		return v
	}
	doc, rep := parseBytes(in)
	if rep.HasErrors() {
		o.Label("bytes:rejected")
		return pbt.OK
	}
	o.Label("bytes:accepted")
	v, _, shape := checkAccepted(doc, in, o, nil)
	if shape != nil && nonTrivialShape(shape) {
		o.Label("bytes:accepted-with->=5-nodes-of->=3-kinds")
	}
	if bytes.IndexByte(in, 0) >= 0 {
		o.Label("bytes:accepted-with-nul")
	}
	return v
}
