//go:build verif

package subrig

import (
	"fmt"
	"sort"
	"strings"
)

// ExpItem is one writer item the model expects for a subscriber.
type ExpItem struct {
	Item
	Optional bool // its delivery raced, inside the code under test, with the subscriber's removal
	Async    bool // produced by a resolver goroutine, not inside a call made by the harness
	Pending  bool // Complete/Error of a call that is parked right now: may be written before or after the resume
	Event    int  // N of the event/updateSub step that caused it, 0 otherwise
	Why      string
}

// MSub is the model of one subscriber.
type MSub struct {
	Idx, Conn, Key, Period int
	Filter                 string
	Shape                  int
	Sync, HB               bool
	Hook                   string
	FlushFailAt            int
	HBFail                 bool

	Registered  bool // the resolver accepted it
	Rejected    bool // subscribe was refused (resolver already shut down)
	Live        bool
	ClientGone  bool // sync: client context cancelled
	Flushes     int
	DataFlushed bool // had a successful data flush (the resolver skips heartbeats then)
	Exp         []ExpItem
	RemovedBy   string
	ViaShutdown bool
	AsyncRemove bool // removed from a resolver goroutine (no call of the harness returns at that moment)
}

// Pending states of a trigger's start goroutine.
const (
	PendNone    = ""
	PendStart   = "start"   // parked at trigger.start.begin: hooks and Start not run yet
	PendBlocked = "blocked" // inside a blocking Start
	PendInit    = "init"    // parked in markTriggerInitialized
	PendFailing = "failing" // hooks or Start failed; parked inside the error broadcast to the subscribers
)

// MPeriod is the model of one live period of a trigger key.
type MPeriod struct {
	Idx, Key, Creator int
	Live              bool
	Subs              []int
	StartMode         string
	Pending           string
	HasUpdater        bool // Start was entered: the source holds the updater
	Initialized       bool
	DoneCalled        bool
	Terminal          bool // the source called Complete or Error
	ExpStarts         int
	AsyncCancel       bool
	Events            []int // N of the events emitted on it, in source order
	// StaleFinish: the start goroutine finished (Start returned, or hooks failed) after the
	// period had ended. What it does then (getTrigger / doneTriggerFromUpdater by trigger id)
	// is not observable from outside, so the moment it is over is unknown.
	StaleFinish, StaleFinishErr bool
	// FailErr / FailSnap: the start failure whose broadcast is parked, and who was on the trigger
	// when the broadcast began.
	FailErr  string
	FailSnap []int
}

type removedRec struct {
	Sub   int
	Owner int
}

// Model mirrors what a correct resolver must do with a history.
type Model struct {
	Subs      []*MSub
	Periods   []*MPeriod
	liveByKey map[int]int
	Shutdown  bool

	TotSubInc, TotSubDec, TotTrigInc, TotTrigDec int
	// InitArrivals counts the start goroutines that got to markTriggerInitialized (hooks fine,
	// Start returned nil). Its yield point sits at the top of that function, so each of them
	// shows up there exactly once, whether its trigger still exists or not.
	InitArrivals int

	owner     int
	nextOwner int
	removed   []removedRec
	// bookkeeping of the currently open split step
	deferredSub int   // target whose delivery/complete happens after the resume (-1: none)
	unordered   []int // subscribers whose Complete/Error of the open split step may come before or after the park
	unorderedAt map[int]int

	// Classes seen (for labels).
	Seen map[string]int
	// Shapes are the places where the history has the shape of a recorded finding.
	Shapes []Shape
	StepNo int // index of the top-level step being applied (set by the executor)
}

// Finding ids.
const (
	F19         = "C12-terminal-after-removal"
	F20         = "C13-trigger-count-init-race"
	FStaleDone  = "C13-stale-done-detaches-new-trigger"
	FStaleStart = "C13-stale-start-hits-new-trigger"
)

// Shape is one occurrence of a recorded finding's history shape.
type Shape struct {
	Finding  string
	Sub      int  // F19: the subscriber removed while its Complete/Error was parked
	Period   int  // F20: the trigger; stale-*: the victim (the new live period of the same key)
	Step     int  // top-level step index
	ExtraInc bool // the shape produces one TriggerCountInc a correct resolver would not make
	Teardown bool // the shape tears the victim period down
}

func (m *Model) shape(s Shape) { s.Step = m.StepNo; m.Shapes = append(m.Shapes, s) }

// NewModel returns the empty model.
func NewModel() *Model {
	return &Model{liveByKey: map[int]int{}, deferredSub: -1, unorderedAt: map[int]int{}, Seen: map[string]int{}}
}

func (m *Model) see(l string) { m.Seen[l]++ }

// LivePeriod returns the live period of a key, or nil.
func (m *Model) LivePeriod(key int) *MPeriod {
	if i, ok := m.liveByKey[key]; ok {
		return m.Periods[i]
	}
	return nil
}

// LiveSubs returns the indices of the registered subscribers.
func (m *Model) LiveSubs() []int {
	var out []int
	for _, s := range m.Subs {
		if s.Live {
			out = append(out, s.Idx)
		}
	}
	return out
}

// LivePeriods returns the live periods.
func (m *Model) LivePeriods() []*MPeriod {
	var out []*MPeriod
	for _, p := range m.Periods {
		if p.Live {
			out = append(out, p)
		}
	}
	return out
}

// RegistrySizes is what VerifRegistrySizes must report.
func (m *Model) RegistrySizes() (triggers, subs, conns int) {
	seen := map[string]bool{}
	for _, s := range m.Subs {
		if s.Live {
			subs++
			if s.Sync {
				seen[fmt.Sprintf("sync%d", s.Idx)] = true
			} else {
				seen[fmt.Sprintf("c%d", s.Conn)] = true
			}
		}
	}
	return len(m.LivePeriods()), subs, len(seen)
}

// LiveInitialized counts the live periods that were marked initialised.
func (m *Model) LiveInitialized() int {
	n := 0
	for _, p := range m.Periods {
		if p.Live && p.Initialized {
			n++
		}
	}
	return n
}

// ---- owners: which step signals the completion of which subscriber --------------------------

// Open starts the accounting of a step and returns its token.
func (m *Model) Open() int {
	m.nextOwner++
	m.owner = m.nextOwner
	return m.owner
}

// SetOwner re-opens the accounting of an earlier step (the resumed parent of a split).
func (m *Model) SetOwner(tok int) { m.owner = tok }

// RemovedBy returns (and forgets) the subscribers removed under token tok.
func (m *Model) RemovedBy(tok int) []int {
	var out []int
	keep := m.removed[:0]
	for _, r := range m.removed {
		if r.Owner == tok {
			out = append(out, r.Sub)
		} else {
			keep = append(keep, r)
		}
	}
	m.removed = keep
	return out
}

// ---- primitives ---------------------------------------------------------------------------

func (m *Model) removeSub(s *MSub, why string, async bool) {
	if !s.Live {
		return
	}
	s.Live = false
	s.RemovedBy = why
	s.AsyncRemove = async
	m.TotSubDec++
	m.removed = append(m.removed, removedRec{s.Idx, m.owner})
	if at, ok := m.unorderedAt[s.Idx]; ok {
		s.Exp[at].Optional = true
		m.see("complete-raced-with-removal-of-other-subscriber")
	}
	p := m.Periods[s.Period]
	for i, x := range p.Subs {
		if x == s.Idx {
			p.Subs = append(p.Subs[:i:i], p.Subs[i+1:]...)
			break
		}
	}
	if len(p.Subs) == 0 && p.Live {
		m.endPeriod(p, async)
	}
}

func (m *Model) endPeriod(p *MPeriod, async bool) {
	p.Live = false
	p.AsyncCancel = async
	delete(m.liveByKey, p.Key)
	if p.Initialized {
		m.TotTrigDec++
	}
	if p.Pending != PendNone {
		m.see("trigger-removed-while-starting")
	}
}

func (m *Model) killPeriod(p *MPeriod, why string, async, shutdown bool) {
	if !p.Live {
		return
	}
	for _, i := range append([]int(nil), p.Subs...) {
		s := m.Subs[i]
		s.ViaShutdown = shutdown
		m.removeSub(s, why, async)
	}
	if p.Live { // had no subscribers (cannot happen: a live trigger has at least one)
		m.endPeriod(p, async)
	}
}

func (m *Model) deliver(s *MSub, payload string, event int, why string, async bool) {
	for _, it := range Solo(s.Shape, s.Filter, payload) {
		s.Flushes++
		s.Exp = append(s.Exp, ExpItem{Item: it, Event: event, Why: why, Async: async})
		if it.Kind == IMsg {
			if s.FlushFailAt != 0 && s.Flushes == s.FlushFailAt {
				m.see("flush-failure-removes-subscriber")
				m.removeSub(s, "flush failure in "+why, async)
				return
			}
			s.DataFlushed = true
		}
	}
}

func (m *Model) deliverErr(s *MSub, msg, why string) {
	s.Flushes++
	s.Exp = append(s.Exp, ExpItem{Item: Item{IErrMsg, msg}, Why: why, Async: true})
}

func (m *Model) updateSubscription(p *MPeriod, s *MSub, payload string, event int, why string, async bool) {
	if !p.Live || !s.Live || s.Period != p.Idx || s.ClientGone {
		return
	}
	m.deliver(s, payload, event, why, async)
}

// heartbeatDue tells whether updater.Heartbeat() sends a heartbeat to s: it asked for them, is not
// removed, its client is there, and it had no successful data write within the interval (1 h).
func (m *Model) heartbeatDue(s *MSub) bool {
	return s.Live && s.HB && !s.DataFlushed && !s.ClientGone
}

// ---- the start goroutine of a trigger -------------------------------------------------------

func (m *Model) startHooks(p *MPeriod, why string) string {
	c := m.Subs[p.Creator]
	switch c.Hook {
	case HookFail:
		return errHook.Error()
	case HookEmit:
		m.updateSubscription(p, c, HookEmitPayload(c.Idx), 0, why+" (hook emit)", true)
	}
	return ""
}

// startEnter models the call of Source.Start; it reports whether Start returned (not blocked)
// and with which error text.
func (m *Model) startEnter(p *MPeriod) (returned bool, err string) {
	p.ExpStarts = 1
	p.HasUpdater = true
	if !p.Live {
		m.see("start-called-for-dead-trigger")
	}
	switch p.StartMode {
	case StartErr:
		return true, errStart.Error()
	case StartBlock:
		p.Pending = PendBlocked
		m.see("start-blocked")
		return false, ""
	}
	return true, ""
}

// startResult models what follows the hooks/Start in the start goroutine.
func (m *Model) startResult(p *MPeriod, err, why string) {
	p.Pending = PendNone
	if !p.Live {
		p.StaleFinish, p.StaleFinishErr = true, err != ""
	}
	if err != "" {
		m.see("start-failure")
		for _, i := range append([]int(nil), p.Subs...) {
			m.deliverErr(m.Subs[i], ErrorMessage(err), why+" (start failure)")
		}
		// doneTriggerFromUpdater: a correct resolver tears down *this* trigger only
		m.killPeriod(p, why+" (start failure)", true, false)
		return
	}
	m.InitArrivals++
	if p.Live {
		p.Initialized = true
		m.TotTrigInc++
	}
}

func (m *Model) runStartGoroutine(p *MPeriod, why string, stopAtInit bool, failTarget int) {
	err := m.startHooks(p, why)
	if err == "" {
		var returned bool
		returned, err = m.startEnter(p)
		if !returned {
			return
		}
	}
	if stopAtInit && err == "" {
		p.Pending = PendInit
		return
	}
	if err != "" && failTarget >= 0 {
		m.startFailBegin(p, err, why, failTarget)
		return
	}
	m.startResult(p, err, why)
}

// startFailBegin is the first half of a start failure whose error broadcast is parked inside the
// error message of subscriber target: the resolver walks a snapshot of the trigger's subscribers
// (map order), so the others get their message before or after the park.
func (m *Model) startFailBegin(p *MPeriod, err, why string, target int) {
	p.Pending, p.FailErr = PendFailing, err
	p.FailSnap = append([]int(nil), p.Subs...)
	sort.Ints(p.FailSnap)
	m.see("start-failure")
	m.see("start-failure-broadcast-parked")
	for _, i := range p.FailSnap {
		s := m.Subs[i]
		if i == target {
			m.deferredSub = i
			continue
		}
		m.deliverErr(s, ErrorMessage(err), why+" (start failure)")
		at := len(s.Exp) - 1
		s.Exp[at].Pending = true
		m.unordered = append(m.unordered, i)
		m.unorderedAt[i] = at
	}
}

// startFailEnd is the second half: the parked message is finished, then the trigger is torn down
// with everybody who is on it by then - also subscribers that joined during the broadcast.
func (m *Model) startFailEnd(p *MPeriod, why string) {
	if m.deferredSub >= 0 {
		if s := m.Subs[m.deferredSub]; s.Live {
			m.deliverErr(s, ErrorMessage(p.FailErr), why+" (start failure)")
		}
	}
	for _, i := range p.Subs {
		if !contains(p.FailSnap, i) {
			m.see("joined-during-start-failure-broadcast")
		}
	}
	p.Pending = PendNone
	m.killPeriod(p, why+" (start failure)", true, false)
}

// ---- steps ----------------------------------------------------------------------------------

func splitAt(st Step, reached bool, points ...string) bool {
	if st.Split == nil || !reached {
		return false
	}
	for _, p := range points {
		if st.Split.Point == p {
			return true
		}
	}
	return false
}

// Begin applies the part of a step that happens before its window (everything when the step is
// not split or the window was not reached).
func (m *Model) Begin(st Step, reached bool) {
	why := st.String()
	if i := strings.Index(why, " SPLIT@"); i > 0 {
		why = why[:i]
	}
	switch st.Op {
	case OpSubscribe:
		s := &MSub{Idx: len(m.Subs), Conn: st.Conn, Key: st.Key, Period: -1, Filter: st.Filter, Shape: st.Shape, Sync: st.Sync, HB: st.HB,
			Hook: st.Hook, FlushFailAt: st.FlushFailAt, HBFail: st.HBFail}
		m.Subs = append(m.Subs, s)
		if m.Shutdown {
			s.Rejected = true
			m.see("subscribe-after-shutdown")
			return
		}
		s.Registered, s.Live = true, true
		m.TotSubInc++
		if p := m.LivePeriod(st.Key); p != nil {
			s.Period = p.Idx
			p.Subs = append(p.Subs, s.Idx)
			m.see("subscribe-joins-trigger")
			if p.Terminal {
				m.see("subscribe-joins-completed-trigger")
			}
			switch s.Hook {
			case HookFail:
				m.see("joiner-hook-fails")
				m.deliverErr(s, ErrorMessage(errHook.Error()), why+" (hook failure)")
				m.removeSub(s, why+" (hook failure)", true)
			case HookEmit:
				m.see("joiner-hook-emits")
				m.updateSubscription(p, s, HookEmitPayload(s.Idx), 0, why+" (hook emit)", true)
			}
			return
		}
		p := &MPeriod{Idx: len(m.Periods), Key: st.Key, Creator: s.Idx, Live: true, Subs: []int{s.Idx}, StartMode: st.StartMode}
		for _, q := range m.Periods {
			if q.Key == st.Key {
				m.see("trigger-key-recreated")
				break
			}
		}
		for _, q := range m.Periods {
			if q.Key == st.Key && q.StaleFinish {
				// the earlier period's start goroutine may still be on its way to act on this key
				m.see("key-recreated-after-stale-start-finish")
				m.shape(Shape{Finding: FStaleStart, Sub: -1, Period: p.Idx, ExtraInc: !q.StaleFinishErr, Teardown: q.StaleFinishErr})
			}
		}
		m.Periods = append(m.Periods, p)
		m.liveByKey[st.Key] = p.Idx
		s.Period = p.Idx
		if splitAt(st, reached, PtStart) {
			p.Pending = PendStart
			return
		}
		failTarget := -1
		if splitAt(st, reached, PtWFlush) {
			failTarget = st.Split.Target
		}
		m.runStartGoroutine(p, why, splitAt(st, reached, PtInit), failTarget)

	case OpEvent, OpUpdateSub:
		p := m.Periods[st.Period]
		if !p.Live {
			m.see("updater-call-on-dead-trigger")
			return
		}
		p.Events = append(p.Events, st.N)
		payload := EventPayload(st.N, st.K, st.Kind)
		var rcpt []int
		if st.Op == OpEvent {
			rcpt = append(rcpt, p.Subs...)
			sort.Ints(rcpt)
		} else if s := m.Subs[st.Sub]; s.Live && s.Period == p.Idx {
			rcpt = []int{st.Sub}
		}
		for _, i := range rcpt {
			s := m.Subs[i]
			if s.ClientGone {
				continue
			}
			if splitAt(st, reached, PtUpdate, PtWFlush) && st.Split.Target == i {
				m.deferredSub = i
				continue
			}
			m.deliver(s, payload, st.N, why, false)
		}

	case OpComplete, OpError:
		p := m.Periods[st.Period]
		if !p.Live {
			m.see("updater-call-on-dead-trigger")
			return
		}
		p.Terminal = true
		it := Item{Kind: CComplete}
		if st.Op == OpError {
			it = Item{Kind: CError, Data: ErrorPayload(st.Period)}
		}
		rcpt := append([]int(nil), p.Subs...)
		sort.Ints(rcpt)
		split := splitAt(st, reached, PtComplete, PtError, PtWComplete, PtWError)
		for _, i := range rcpt {
			s := m.Subs[i]
			if split && st.Split.Target == i {
				m.deferredSub = i
				continue
			}
			s.Exp = append(s.Exp, ExpItem{Item: it, Why: why, Pending: split})
			if split {
				m.unordered = append(m.unordered, i)
				m.unorderedAt[i] = len(s.Exp) - 1
			}
		}

	case OpDone:
		p := m.Periods[st.Period]
		if p.DoneCalled {
			return
		}
		p.DoneCalled = true
		if !p.Live {
			m.see("done-on-dead-trigger")
			if v := m.LivePeriod(p.Key); v != nil {
				m.see("done-on-dead-trigger-while-key-live-again")
				m.shape(Shape{Finding: FStaleDone, Sub: -1, Period: v.Idx, Teardown: true})
			}
			return
		}
		m.killPeriod(p, why, false, false)

	case OpCloseSub:
		p := m.Periods[st.Period]
		if !p.Live {
			m.see("updater-call-on-dead-trigger")
			return
		}
		m.removeSub(m.Subs[st.Sub], why, false)

	case OpUnsubscribe:
		s := m.Subs[st.Sub]
		if s.Sync {
			s.ClientGone = true
			m.removeSub(s, why, false)
			return
		}
		if m.Shutdown {
			return
		}
		m.removeSub(s, why, false)

	case OpRemoveClient:
		if m.Shutdown {
			return
		}
		for _, s := range m.Subs {
			if s.Live && !s.Sync && s.Conn == st.Conn {
				m.removeSub(s, why, false)
			}
		}

	case OpHeartbeat:
		p := m.Periods[st.Period]
		if !p.Live {
			m.see("updater-call-on-dead-trigger")
			return
		}
		rcpt := append([]int(nil), p.Subs...)
		sort.Ints(rcpt)
		for _, i := range rcpt {
			s := m.Subs[i]
			if !m.heartbeatDue(s) {
				continue
			}
			if splitAt(st, reached, PtHeartbeat, PtWHeartbeat) && st.Split.Target == i {
				m.deferredSub = i
				continue
			}
			s.Exp = append(s.Exp, ExpItem{Item: Item{Kind: CHeartbeat}, Optional: !s.HBFail, Why: why})
			m.see("heartbeat-expected")
			if s.HBFail {
				m.see("heartbeat-failure-removes-subscriber")
				m.removeSub(s, why+" (heartbeat failure)", false)
			}
		}

	case OpShutdown:
		if m.Shutdown {
			return
		}
		m.Shutdown = true
		if len(m.LivePeriods()) >= 2 {
			m.see("shutdown-with-2+-live-triggers")
		}
		for _, p := range m.LivePeriods() {
			m.killPeriod(p, why, true, true)
		}

	case OpReleaseStart:
		p := m.Periods[st.Period]
		if p.Pending != PendBlocked {
			return
		}
		err := ""
		if st.Err {
			err = errStart.Error()
		}
		m.staleStart(p, err != "")
		if err != "" && splitAt(st, reached, PtWFlush) {
			m.startFailBegin(p, err, why, st.Split.Target)
			return
		}
		m.startResult(p, err, why)
	}
}

// staleStart notes that the start goroutine of an ended period p is about to finish while the
// same key has a new live trigger.
func (m *Model) staleStart(p *MPeriod, fails bool) {
	if v := m.LivePeriod(p.Key); !p.Live && v != nil {
		m.see("stale-start-returns-while-key-live-again")
		m.shape(Shape{Finding: FStaleStart, Sub: -1, Period: v.Idx, ExtraInc: !fails, Teardown: fails})
	}
}

// End applies the part of a split step that happens after the resume.
func (m *Model) End(st Step, reached bool) {
	why := st.String()
	if i := strings.Index(why, " SPLIT@"); i > 0 {
		why = why[:i]
	}
	if st.Split == nil {
		return // (a nested step must not touch the bookkeeping of the open split)
	}
	defer func() {
		for sub, at := range m.unorderedAt {
			m.Subs[sub].Exp[at].Pending = false
		}
		m.deferredSub = -1
		m.unordered = nil
		m.unorderedAt = map[int]int{}
	}()
	if !reached {
		return
	}
	switch st.Op {
	case OpSubscribe:
		p := m.Periods[m.Subs[st.Sub].Period]
		switch st.Split.Point {
		case PtStart:
			c := m.Subs[p.Creator]
			if p.StartMode != StartBlock || c.Hook == HookFail {
				m.staleStart(p, c.Hook == HookFail || p.StartMode == StartErr)
			}
			m.runStartGoroutine(p, why, false, -1)
		case PtWFlush:
			m.startFailEnd(p, why)
		case PtInit:
			if !p.Live {
				m.see("init-parked-while-trigger-removed")
				m.shape(Shape{Finding: F20, Sub: -1, Period: p.Idx, ExtraInc: true})
			}
			m.startResult(p, "", why)
		}
	case OpEvent, OpUpdateSub:
		if m.deferredSub >= 0 {
			s := m.Subs[m.deferredSub]
			p := m.Periods[st.Period]
			if s.Live && s.Period == p.Idx {
				m.deliver(s, EventPayload(st.N, st.K, st.Kind), st.N, why, false)
			} else {
				m.see("update-parked-while-subscriber-removed")
			}
		}
	case OpReleaseStart:
		if p := m.Periods[st.Period]; p.Pending == PendFailing {
			m.startFailEnd(p, why)
		}
	case OpHeartbeat:
		if m.deferredSub >= 0 {
			s := m.Subs[m.deferredSub]
			if s.Live {
				s.Exp = append(s.Exp, ExpItem{Item: Item{Kind: CHeartbeat}, Optional: !s.HBFail, Why: why})
				m.see("heartbeat-expected")
				if s.HBFail {
					m.see("heartbeat-failure-removes-subscriber")
					m.removeSub(s, why+" (heartbeat failure)", false)
				}
			} else {
				m.see("heartbeat-parked-while-subscriber-removed")
			}
		}
	case OpComplete, OpError:
		if m.deferredSub >= 0 {
			s := m.Subs[m.deferredSub]
			if s.Live {
				it := Item{Kind: CComplete}
				if st.Op == OpError {
					it = Item{Kind: CError, Data: ErrorPayload(st.Period)}
				}
				s.Exp = append(s.Exp, ExpItem{Item: it, Why: why})
			} else {
				m.see("complete-parked-while-subscriber-removed")
				m.shape(Shape{Finding: F19, Sub: s.Idx, Period: st.Period})
			}
		}
	}
}

// PredictReach tells whether the window of a split step will be reached (generator side; the
// executor goes by what it observes).
func (m *Model) PredictReach(st Step) bool {
	if st.Split == nil {
		return false
	}
	switch st.Split.Point {
	case PtStart:
		return st.Op == OpSubscribe && !m.Shutdown && m.LivePeriod(st.Key) == nil
	case PtInit:
		// the yield sits at the top of markTriggerInitialized: the start goroutine gets there
		// whenever the hooks succeeded and Start returned nil, also when the trigger is gone
		return st.Op == OpSubscribe && !m.Shutdown && m.LivePeriod(st.Key) == nil && st.Hook != HookFail && st.StartMode == StartOK
	case PtHeartbeat, PtWHeartbeat:
		if st.Op != OpHeartbeat {
			return false
		}
		p := m.Periods[st.Period]
		x := m.Subs[st.Split.Target]
		if !p.Live || x.Period != p.Idx || !m.heartbeatDue(x) {
			return false
		}
		// heartbeats go out one subscriber after the other in map order: another subscriber whose
		// Heartbeat fails would be removed before or after the park, unknown which
		for _, i := range p.Subs {
			if y := m.Subs[i]; i != x.Idx && y.HBFail && m.heartbeatDue(y) {
				return false
			}
		}
		return true
	case PtComplete, PtError, PtWComplete, PtWError:
		p := m.Periods[st.Period]
		s := m.Subs[st.Split.Target]
		return p.Live && s.Live && s.Period == p.Idx
	case PtWFlush:
		switch st.Op {
		case OpSubscribe:
			// the error broadcast of a failing start-up: the creator is the only subscriber then;
			// its hook must not have flushed a message of its own before (the first Flush parks)
			fails := st.Hook == HookFail || st.Hook != HookEmit && st.StartMode == StartErr
			return !m.Shutdown && m.LivePeriod(st.Key) == nil && fails && st.Split.Target == st.Sub
		case OpReleaseStart:
			p := m.Periods[st.Period]
			x := m.Subs[st.Split.Target]
			return st.Err && p.Pending == PendBlocked && p.Live && x.Live && x.Period == p.Idx
		}
		// parks inside the first Flush of the target's delivery; a filter error is written by the
		// calling goroutine before the fan-out starts, which the executor's waiting does not model
		p := m.Periods[st.Period]
		s := m.Subs[st.Split.Target]
		if !p.Live || !s.Live || s.Period != p.Idx || s.ClientGone || s.Filter == FBroken {
			return false
		}
		if st.Op == OpUpdateSub && st.Sub != st.Split.Target {
			return false
		}
		return len(Solo(s.Shape, s.Filter, EventPayload(st.N, st.K, st.Kind))) > 0
	case PtUpdate:
		p := m.Periods[st.Period]
		s := m.Subs[st.Split.Target]
		if !p.Live || !s.Live || s.Period != p.Idx || s.ClientGone {
			return false
		}
		if st.Op == OpUpdateSub && st.Sub != st.Split.Target {
			return false
		}
		for _, it := range Solo(s.Shape, s.Filter, EventPayload(st.N, st.K, st.Kind)) {
			if it.Kind == IMsg {
				return true
			}
		}
	}
	return false
}

// HoldsUpdater reports whether a step parked at its window holds the updater mutex of its
// trigger, so that every other updater call on the same trigger blocks until the resume.
func HoldsUpdater(st Step) bool {
	if st.Split == nil || st.Op == OpSubscribe || st.Op == OpReleaseStart {
		return false // (their windows are in the trigger's start goroutine, outside the updater)
	}
	switch st.Split.Point {
	case PtUpdate, PtComplete, PtError, PtHeartbeat, PtWFlush, PtWComplete, PtWError, PtWHeartbeat:
		return true
	}
	return false
}

// IsUpdaterOp reports whether the step is a call on a trigger's updater.
func IsUpdaterOp(op string) bool {
	switch op {
	case OpEvent, OpUpdateSub, OpComplete, OpError, OpDone, OpCloseSub, OpHeartbeat:
		return true
	}
	return false
}

// Blocks reports whether nested, run while parent is parked, cannot finish before the resume:
// an updater call on the trigger whose updater the parked call holds, or - when the parked call
// sits inside a writer method, i.e. under the subscription's write lock - a removal of that
// subscriber (it unregisters at once but signals completion only when the write lock is free).
func (m *Model) Blocks(parent, nested Step) bool {
	if HoldsUpdater(parent) && IsUpdaterOp(nested.Op) && nested.Period == parent.Period {
		return true
	}
	return m.BlocksOnWriter(parent, nested)
}

// failingPeriod returns the trigger period whose start-failure broadcast the parked step is in
// the middle of, or -1.
func (m *Model) failingPeriod(parent Step) int {
	if parent.Split == nil || parent.Split.Point != PtWFlush {
		return -1
	}
	switch parent.Op {
	case OpSubscribe:
		if parent.Sub < len(m.Subs) {
			return m.Subs[parent.Sub].Period
		}
	case OpReleaseStart:
		return parent.Period
	}
	return -1
}

// BlocksOnWriter is the second case of Blocks.
func (m *Model) BlocksOnWriter(parent, nested Step) bool {
	if parent.Split == nil || !IsWriterPoint(parent.Split.Point) {
		return false
	}
	x := m.Subs[parent.Split.Target]
	if !x.Live {
		return false
	}
	switch nested.Op {
	case OpUnsubscribe:
		return nested.Sub == x.Idx && (x.Sync || !m.Shutdown)
	case OpRemoveClient:
		return !x.Sync && nested.Conn == x.Conn && !m.Shutdown
	}
	return false
}

// NestedAdmissible applies the executor's determinism rules to a nested step about to be run
// while parent is parked (blockedSoFar: nested steps already waiting for the resume).
func (m *Model) NestedAdmissible(parent, n Step, blockedSoFar int, writerBlockedBefore bool) bool {
	if writerBlockedBefore {
		return false // a removal waiting for the write lock has already unregistered: nothing may follow it
	}
	if m.Blocks(parent, n) && blockedSoFar >= 1 {
		return false // two calls blocked on one mutex would be released in an unknown order
	}
	if n.Op == OpRemoveClient && m.BlocksOnWriter(parent, n) {
		// the blocked UnsubscribeClient has already unregistered every subscriber of the
		// connection; only the parked one may be among them, or the others' fate would race
		for _, s := range m.Subs {
			if s.Live && !s.Sync && s.Conn == n.Conn && s.Idx != parent.Split.Target {
				return false
			}
		}
	}
	if n.Op == OpSubscribe && HoldsUpdater(parent) && n.Hook == HookEmit {
		// the joiner's hook would call back into the held updater and block until the resume
		if p := m.LivePeriod(n.Key); p != nil && p.Idx == parent.Period {
			return false
		}
	}
	if parent.Split != nil && IsWriterPoint(parent.Split.Point) {
		// these would need the parked subscriber's write lock from a resolver goroutine
		if n.Op == OpShutdown && !m.Shutdown {
			return false
		}
		if n.Op == OpReleaseStart && HoldsUpdater(parent) && n.Period == parent.Period {
			return false
		}
		if f := m.failingPeriod(parent); f >= 0 {
			// a source whose Start failed does not call its updater; a delivery to the parked
			// subscriber would block a resolver goroutine on its write lock
			if IsUpdaterOp(n.Op) && n.Period == f || n.Op == OpReleaseStart && n.Period == f {
				return false
			}
		}
	}
	return true
}

// ApplyFull applies a whole top-level step (with its nested steps) in the order the executor
// performs them; used by the generator. It returns the tokens of the step and of its nested steps.
func (m *Model) ApplyFull(st Step) {
	reached := m.PredictReach(st)
	tok := m.Open()
	m.Begin(st, reached)
	var blocked []Step
	if st.Split != nil {
		for _, n := range st.Split.Nested {
			if reached && m.Blocks(st, n) {
				blocked = append(blocked, n)
				continue
			}
			m.Open()
			m.Begin(n, false)
			m.End(n, false)
		}
	}
	m.SetOwner(tok)
	m.End(st, reached)
	for _, n := range blocked {
		m.Open()
		m.Begin(n, false)
		m.End(n, false)
	}
}

// Tail is the implicit end of every history: shutdown, let every blocked Start return, every
// source calls Done.
func (m *Model) Tail() []Step {
	var out []Step
	if !m.Shutdown {
		out = append(out, Step{Op: OpShutdown})
	}
	for _, p := range m.Periods {
		if p.Pending == PendBlocked {
			out = append(out, Step{Op: OpReleaseStart, Period: p.Idx})
		}
	}
	for _, p := range m.Periods {
		if p.HasUpdater && !p.DoneCalled {
			out = append(out, Step{Op: OpDone, Period: p.Idx})
		}
	}
	return out
}

// Clone returns a deep copy (the generator tries steps on a copy before committing to them).
func (m *Model) Clone() *Model {
	c := *m
	c.Subs = make([]*MSub, len(m.Subs))
	for i, s := range m.Subs {
		x := *s
		x.Exp = append([]ExpItem(nil), s.Exp...)
		c.Subs[i] = &x
	}
	c.Periods = make([]*MPeriod, len(m.Periods))
	for i, p := range m.Periods {
		x := *p
		x.Subs = append([]int(nil), p.Subs...)
		x.Events = append([]int(nil), p.Events...)
		c.Periods[i] = &x
	}
	c.liveByKey = map[int]int{}
	for k, v := range m.liveByKey {
		c.liveByKey[k] = v
	}
	c.removed = append([]removedRec(nil), m.removed...)
	c.unordered = append([]int(nil), m.unordered...)
	c.unorderedAt = map[int]int{}
	for k, v := range m.unorderedAt {
		c.unorderedAt[k] = v
	}
	c.Seen = map[string]int{}
	for k, v := range m.Seen {
		c.Seen[k] = v
	}
	return &c
}
