package c05

import (
	"testing"

	"verif/harness/pbt"
)

// TestProp is the entry point the driver runs in every shard.
func TestProp(t *testing.T) {
	r := pbt.Start(t, "C05")
	defer r.Finish()
	r.Rule("bytes: token-biased byte strings, non-trivial when the input lexes to >=3 tokens; docs: grammar-generated documents, non-trivial when the document parses and has >=5 nodes of >=3 kinds; distinct by input text")
	r.Regress(dispatch())
	r.RunProbes(probes())
	bytesPart.Run(r)
}

func TestReplay(t *testing.T) { pbt.StdReplay(t, "C05", dispatch()) }

func dispatch() pbt.Dispatch {
	return pbt.Dispatch{}.Add(bytesPart.Name, bytesPart.Handler()).WithProbes(probes())
}
