package c20

import (
	"fmt"
	"os"
	"runtime"
	"runtime/debug"
	"testing"

	"verif/harness/pbt"
)

// TestProp is the entry point the driver runs in every shard.
func TestProp(t *testing.T) {
	r := pbt.Start(t, "C20")
	defer r.Finish()
	// Soft limit for the harness process: on a loaded machine the collector falls behind the
	// allocation rate of planning thousands of distinct operations and the heap overshoots
	// the driver's address-space limit; with the limit the collector works harder instead.
	debug.SetMemoryLimit(2 << 30)
	debug.SetGCPercent(50)
	r.Rule("a case is an operation q over products.graphqls (plain rig: gRPC datasource alone; fed rig: owning subgraph + gRPC subgraph) with a reformulation q'; non-trivial when an execution issues >= 2 RPCs or the walked response contains an abstract-typed object, a nested list, a field-resolver field or a @requires field; distinct by (rig, q, q'); sequences: 2-6 requests on the long-lived engine, non-trivial when the same operation (>= 1 field-resolver level) is executed again with other variable values; distinct by the request list")
	r.Assume("gqlparser decides validity of generated operations (operations the engine's validator rejects are dropped and counted)",
		"grpctest.MockService is the service data; units it answers randomly are found by the per-run pre-pass and excluded from the consistency oracle",
		"the in-process owning subgraph of the fed rig answers deterministically")
	r.RequireLabel("rig:plain", "rig:fed", "seen:unit:resolver", "seen:unit:requires", "seen:unit:entity-field", "seen:abstract-object", "seen:nested-list",
		"reform:alias", "reform:aliasdup", "reform:reorder", "reform:dup", "reform:inline-fragment", "reform:named-fragment", "reform:subset", "consistency:compared",
		"seen:service-fact:argument-echo", "seen:service-fact:entity-name-of-key", "seen:service-fact:id-names-the-type",
		"seq:same-operation-other-variables", "seq:interleaved-operations", "seq:call-skipped-after-issued:nested-resolvers")
	for _, name := range []string{"plain", "fed"} {
		st, err := unitStates(name)
		if err != nil {
			t.Fatalf("pre-pass failed: %v", err)
		}
		if r.FirstShard() {
			r.Extra("units:"+name, statesSummary(st))
		}
	}
	r.Regress(dispatch())
	r.RunProbes(probes())
	unitsPart.Run(r)
	opsPart.Run(r)
	seqPart.Run(r)
	if os.Getenv("C20_DEBUG") != "" {
		var m runtime.MemStats
		runtime.ReadMemStats(&m)
		fmt.Fprintf(os.Stderr, "MEM goroutines=%d heapInuse=%dMB heapSys=%dMB stackInuse=%dMB sys=%dMB numGC=%d\n", runtime.NumGoroutine(), m.HeapInuse>>20, m.HeapSys>>20, m.StackInuse>>20, m.Sys>>20, m.NumGC)
	}
}

func TestReplay(t *testing.T) { pbt.StdReplay(t, "C20", dispatch()) }

func dispatch() pbt.Dispatch {
	return pbt.Dispatch{}.Add(opsPart.Name, opsPart.Handler()).Add(unitsPart.Name, unitsPart.Handler()).Add(seqPart.Name, seqPart.Handler()).WithProbes(probes())
}
