package c17

import (
	"encoding/json"
	"fmt"
	"sort"
	"strconv"
	"strings"

	gast "github.com/vektah/gqlparser/v2/ast"
	gparser "github.com/vektah/gqlparser/v2/parser"
	gvalidator "github.com/vektah/gqlparser/v2/validator"
	"pgregory.net/rapid"

	"github.com/wundergraph/graphql-go-tools/execution/graphql"

	"verif/harness/pbt"
)

// ---- cases ---------------------------------------------------------------------------------

type schemaCase struct {
	SDL string `json:"sdl"`
}

type engineCase struct {
	SDL     string      `json:"sdl"`
	Queries []queryCase `json:"queries"`
}

func genSchemaCase(t *rapid.T) schemaCase {
	sdl, _ := genSDL(t)
	return schemaCase{SDL: sdl}
}

func genEngineCase(t *rapid.T) engineCase {
	sdl, m := genSDL(t)
	names := []string{"Int", "String", "Boolean", "ID", "Float", "Nope", "[Int]", ""}
	for _, td := range m.types {
		names = append(names, td.Name, td.Name) // user types twice as likely
	}
	n := rapid.IntRange(1, 5).Draw(t, "n-queries")
	c := engineCase{SDL: sdl}
	for i := 0; i < n; i++ {
		c.Queries = append(c.Queries, genQuery(t, names, m.query, true))
	}
	return c
}

var factsPart = pbt.Part[schemaCase]{Name: "facts-generate-convert", Quick: 16000, Thorough: 200000, Gen: genSchemaCase, Check: checkSchemaCase}
var enginePart = pbt.Part[engineCase]{Name: "engine-introspection", Quick: 4000, Thorough: 60000, Gen: genEngineCase, Check: checkEngineCase}

// ---- attribution of differences to recorded findings ------------------------------------------

// verdictBuilder collects the differences of one case, attributed or not.
type verdictBuilder struct {
	o           *pbt.Rec
	unexplained []string
	explained   map[string][]string
}

func newVerdict(o *pbt.Rec) *verdictBuilder {
	return &verdictBuilder{o: o, explained: map[string][]string{}}
}

func (v *verdictBuilder) add(finding, msg string) {
	if finding == "" {
		v.unexplained = append(v.unexplained, msg)
		return
	}
	v.explained[finding] = append(v.explained[finding], msg)
}

func clip(msgs []string, n int) string {
	if len(msgs) > n {
		return strings.Join(msgs[:n], "\n") + fmt.Sprintf("\n… and %d more", len(msgs)-n)
	}
	return strings.Join(msgs, "\n")
}

// verdict: unexplained differences are violations; differences that a recogniser attributes to a
// finding listed as known are counted and masked; attributed to a finding that is not (any more)
// listed as known they are violations naming that finding.
func (v *verdictBuilder) verdict(context string) pbt.Verdict {
	if len(v.unexplained) > 0 {
		return pbt.Bad("%s\n%s", clip(v.unexplained, 12), context)
	}
	ids := make([]string, 0, len(v.explained))
	for id := range v.explained {
		ids = append(ids, id)
	}
	sort.Strings(ids)
	for _, id := range ids {
		if !pbt.IsKnown(id) {
			return pbt.BadKnown(id, "%s\n%s", clip(v.explained[id], 12), context)
		}
	}
	for _, id := range ids {
		v.o.Known(id)
		v.o.Label("hit:" + id)
	}
	return pbt.OK
}

// unescapePlain decodes the escape sequences of a plain GraphQL string body.
func unescapePlain(s string) (string, bool) {
	v, err := parseValueLiteral(`"` + s + `"`)
	if err != nil || v.Kind != gast.StringValue {
		return "", false
	}
	return v.Raw, true
}

func trimmedLines(s string) string {
	ls := strings.Split(s, "\n")
	for i := range ls {
		ls[i] = strings.TrimSpace(ls[i])
	}
	return strings.Join(ls, "\n")
}

// rawStringRelated recognises C17-string-source-text-exposed: got is the source text of the
// string whose value is want (escape sequences left undecoded, or block-string indentation left
// in place).
func rawStringRelated(want, got string) bool {
	if want == got {
		return false
	}
	if strings.Contains(got, `\`) {
		if u, ok := unescapePlain(got); ok && u == want {
			return true
		}
	}
	if strings.Contains(want, "\n") && trimmedLines(want) == trimmedLines(got) {
		return true
	}
	return false
}

func unquoteFact(s string) (string, bool) {
	v, err := strconv.Unquote(s)
	return v, err == nil
}

// depReason splits a ".dep" fact value.
func depReason(v string) (dep bool, reason string, ok bool) {
	if v == "false" {
		return false, "", true
	}
	const p = "true reason="
	if !strings.HasPrefix(v, p) {
		return false, "", false
	}
	r, ok := unquoteFact(strings.TrimPrefix(v, p))
	return true, r, ok
}

type schemaShape struct {
	explicitSchema bool
	truth          facts
	clash          map[string]bool // names carried by both a type and a directive
}

func leafOf(typeFact string) (text, named, leaf string) {
	i := strings.Index(typeFact, " leaf=")
	if i < 0 {
		return typeFact, "", ""
	}
	text, leaf = typeFact[:i], typeFact[i+len(" leaf="):]
	named = strings.NewReplacer("[", "", "]", "", "!", "").Replace(text)
	return
}

// classifyFactDiff attributes one fact difference to a recorded finding ("" = none). stage is
// "generate" (Generator output vs schema) or "convert" (round trip vs schema).
func classifyFactDiff(d factDiff, stage string, sh schemaShape) string {
	k := d.Key
	switch {
	case strings.HasSuffix(k, ".type") && d.Kind == "changed":
		wt, wn, _ := leafOf(d.Truth)
		gt, _, gl := leafOf(d.Got)
		if wt == gt && gl == "SCALAR" && sh.clash[wn] {
			return "C17-type-kind-wrong-when-directive-shares-name"
		}
	case strings.HasSuffix(k, ".desc") && d.Kind == "changed":
		w, ok1 := unquoteFact(d.Truth)
		g, ok2 := unquoteFact(d.Got)
		if ok1 && ok2 && rawStringRelated(w, g) {
			return "C17-string-source-text-exposed"
		}
		if stage == "convert" && k == "schema.desc" && g == "" {
			return "C17-converter-drops-schema-description"
		}
	case strings.HasSuffix(k, ".dep") && d.Kind == "changed":
		wd, wr, ok1 := depReason(d.Truth)
		gd, gr, ok2 := depReason(d.Got)
		if ok1 && ok2 && wd && gd && rawStringRelated(wr, gr) {
			return "C17-string-source-text-exposed"
		}
		if stage == "convert" && ok1 && wd && d.Got == "false" && (strings.Contains(k, ".arg:") || strings.Contains(k, ".input:")) {
			return "C17-converter-drops-input-value-deprecation"
		}
	case stage == "convert" && strings.HasPrefix(k, "dir:") && strings.HasSuffix(k, ".repeatable") && d.Truth == "true" && d.Got == "false":
		return "C17-converter-drops-repeatable"
	case stage == "convert" && strings.Contains(k, ".implements:") && d.Kind == "lost" && sh.truth[factOwner(k)+".kind"] == "INTERFACE":
		return "C17-converter-drops-interface-implements"
	case stage == "convert" && strings.HasSuffix(k, ".specifiedBy") && d.Kind == "lost":
		return "C17-converter-drops-specified-by"
	case (k == "root.mutation" || k == "root.subscription") && d.Kind == "changed" && d.Truth == "" && sh.explicitSchema:
		if (k == "root.mutation" && d.Got == "Mutation") || (k == "root.subscription" && d.Got == "Subscription") {
			return "C17-default-named-type-becomes-root-despite-schema-definition"
		}
	}
	return ""
}

// ---- class labels ----------------------------------------------------------------------------

type schemaStats struct {
	iface, ifaceImplIface, union, inputWithDefault, deprecation, customDirective bool
}

func (s schemaStats) nonTrivial() bool {
	return s.iface && s.union && s.inputWithDefault && s.deprecation && s.customDirective
}

func wrapDepth(t *gast.Type) (wrappers, lists int) {
	for t != nil {
		if t.NonNull {
			wrappers++
		}
		if t.Elem != nil {
			wrappers++
			lists++
		}
		t = t.Elem
	}
	return
}

func valueKinds(v *gast.Value, out map[string]bool) {
	if v == nil {
		return
	}
	switch v.Kind {
	case gast.IntValue:
		out["int"] = true
	case gast.FloatValue:
		out["float"] = true
	case gast.StringValue:
		out["string"] = true
	case gast.BlockValue:
		out["block-string"] = true
	case gast.BooleanValue:
		out["boolean"] = true
	case gast.NullValue:
		out["null"] = true
	case gast.EnumValue:
		out["enum"] = true
	case gast.ListValue:
		out["list"] = true
	case gast.ObjectValue:
		out["object"] = true
	}
	for _, c := range v.Children {
		valueKinds(c.Value, out)
	}
}

var keywordNames = map[string]bool{"type": true, "input": true, "on": true, "query": true, "enum": true, "scalar": true, "union": true, "interface": true,
	"directive": true, "extend": true, "schema": true, "implements": true, "fragment": true, "repeatable": true, "mutation": true, "true": true, "null": true}

// labelSchema counts the generator classes of one schema (from gqlparser's reading of it).
func labelSchema(s *gast.Schema, sdl string, o *pbt.Rec) schemaStats {
	var st schemaStats
	labels := map[string]bool{}
	maxLists, maxWrap := 0, 0
	seeType := func(t *gast.Type) {
		w, l := wrapDepth(t)
		if l > maxLists {
			maxLists = l
		}
		if w > maxWrap {
			maxWrap = w
		}
	}
	seeDep := func(where string, dl gast.DirectiveList) {
		d := dl.ForName("deprecated")
		if d == nil {
			return
		}
		st.deprecation = true
		if d.Arguments.ForName("reason") != nil {
			labels["deprecated:"+where+":with-reason"] = true
		} else {
			labels["deprecated:"+where+":no-reason"] = true
		}
		if len(dl) > 1 {
			labels["deprecated-next-to-other-directive"] = true
		}
	}
	seeInput := func(where string, ty *gast.Type, def *gast.Value, dl gast.DirectiveList) {
		seeType(ty)
		seeDep(where, dl)
		if def != nil {
			ks := map[string]bool{}
			valueKinds(def, ks)
			for k := range ks {
				labels["default:"+k] = true
			}
			labels["default-on:"+where] = true
			if def.Kind == gast.ObjectValue {
				labels["default:top-level-object"] = true
			}
		}
	}
	seeDesc := func(d string) {
		if d == "" {
			return
		}
		if strings.Contains(d, "\n") {
			labels["description:multi-line"] = true
		} else {
			labels["description:single-line"] = true
		}
	}
	for _, n := range sortedTypeNames(s) {
		d := s.Types[n]
		if d.BuiltIn {
			continue
		}
		labels["kind:"+kindName(d.Kind)] = true
		seeDesc(d.Description)
		if keywordNames[d.Name] {
			labels["keyword-as-type-name"] = true
		}
		switch d.Kind {
		case gast.Interface:
			st.iface = true
			if len(d.Interfaces) > 0 {
				st.ifaceImplIface = true
				labels["interface-implements-interface"] = true
				if len(d.Interfaces) > 1 {
					labels["interface-implements-2+-interfaces"] = true
				}
			}
			if len(possibleObjects(s, d)) == 0 {
				labels["interface-without-implementers"] = true
			}
		case gast.Union:
			st.union = true
		case gast.Object:
			if len(d.Interfaces) > 1 {
				labels["object-implements-2+-interfaces"] = true
			}
		case gast.Scalar:
			if d.Directives.ForName("specifiedBy") != nil {
				labels["scalar-specifiedBy"] = true
			}
		case gast.Enum:
			for _, ev := range d.EnumValues {
				seeDep("enum-value", ev.Directives)
				seeDesc(ev.Description)
			}
		case gast.InputObject:
			for _, f := range d.Fields {
				seeInput("input-field", f.Type, f.DefaultValue, f.Directives)
				seeDesc(f.Description)
				if f.DefaultValue != nil {
					st.inputWithDefault = true
				}
				if f.Type.Name() == d.Name {
					labels["input-object-self-reference"] = true
				}
			}
		}
		if d.Kind == gast.Object || d.Kind == gast.Interface {
			for _, f := range d.Fields {
				if strings.HasPrefix(f.Name, "__") {
					continue
				}
				seeType(f.Type)
				seeDep("field", f.Directives)
				seeDesc(f.Description)
				for _, a := range f.Arguments {
					seeInput("argument", a.Type, a.DefaultValue, a.Directives)
					seeDesc(a.Description)
				}
			}
		}
	}
	for n, d := range s.Directives {
		if allowedBuiltinDirectives[n] {
			continue
		}
		st.customDirective = true
		labels["custom-directive"] = true
		if d.IsRepeatable {
			labels["custom-directive:repeatable"] = true
		}
		if len(d.Arguments) > 0 {
			labels["custom-directive:with-args"] = true
		}
		for _, l := range d.Locations {
			switch l {
			case gast.LocationQuery, gast.LocationMutation, gast.LocationSubscription, gast.LocationField, gast.LocationFragmentDefinition,
				gast.LocationFragmentSpread, gast.LocationInlineFragment, gast.LocationVariableDefinition:
				labels["custom-directive:executable-location"] = true
			default:
				labels["custom-directive:type-system-location"] = true
			}
		}
		for _, a := range d.Arguments {
			seeInput("directive-argument", a.Type, a.DefaultValue, a.Directives)
		}
		seeDesc(d.Description)
	}
	if s.Query != nil && s.Query.Name != "Query" {
		labels["root:query-renamed"] = true
	}
	if s.Mutation != nil {
		labels["root:mutation"] = true
		if s.Mutation.Name != "Mutation" {
			labels["root:mutation-renamed"] = true
		}
	}
	if s.Subscription != nil {
		labels["root:subscription"] = true
		if s.Subscription.Name != "Subscription" {
			labels["root:subscription-renamed"] = true
		}
	}
	if s.Description != "" {
		labels["schema-description"] = true
	}
	labels[fmt.Sprintf("list-depth:%d", maxLists)] = true
	if maxWrap >= 5 {
		labels["wrappers>=5"] = true
	}
	if st.iface {
		labels["has:interface"] = true
	}
	if st.union {
		labels["has:union"] = true
	}
	if st.inputWithDefault {
		labels["has:input-object-with-default"] = true
	}
	if st.deprecation {
		labels["has:deprecation"] = true
	}
	ls := make([]string, 0, len(labels))
	for l := range labels {
		ls = append(ls, l)
	}
	sort.Strings(ls)
	for _, l := range ls {
		o.Label(l)
	}
	return st
}

func hasExplicitSchemaDefinition(sdl string) bool {
	doc, err := gparser.ParseSchema(&gast.Source{Input: sdl})
	return err == nil && len(doc.Schema) > 0
}

// ---- part 1: schema -> Generator -> JsonConverter -> print -> reload -----------------------------

type loaded struct {
	truth  *gast.Schema
	schema *graphql.Schema
	shape  schemaShape
	stats  schemaStats
}

// load reads the SDL with both libraries. A non-empty discard reason means the two disagree
// about the SDL being a valid schema (not this property's business).
func load(sdl string, o *pbt.Rec) (*loaded, string) {
	truth, err := loadTruth(sdl)
	if err != nil {
		return nil, "gqlparser-rejects-sdl"
	}
	if truth.Query == nil {
		return nil, "no-query-type"
	}
	schema, err := graphql.NewSchemaFromString(sdl)
	if err != nil {
		return nil, "repo-rejects-sdl"
	}
	if res, err := schema.Validate(); err != nil || !res.Valid {
		return nil, "repo-validation-rejects-sdl"
	}
	l := &loaded{truth: truth, schema: schema}
	l.shape = schemaShape{explicitSchema: hasExplicitSchemaDefinition(sdl), truth: dropBuiltins(schemaFacts(truth)), clash: map[string]bool{}}
	for n := range truth.Directives {
		if truth.Types[n] != nil {
			l.shape.clash[n] = true
		}
	}
	if truth.Types["schema"] != nil {
		l.shape.clash["schema"] = true // the schema definition is indexed under the name "schema"
	}
	if len(l.shape.clash) > 0 {
		o.Label("type-shares-name-with-directive-or-schema-keyword")
	}
	l.stats = labelSchema(truth, sdl, o)
	return l, ""
}

func checkSchemaCase(c schemaCase, o *pbt.Rec) pbt.Verdict {
	v, bad := evalSchemaCase(c, o)
	if v == nil {
		return bad
	}
	return v.verdict("SDL:\n" + c.SDL)
}

// evalSchemaCase returns the collected differences, or (nil, verdict) when the case ends early.
func evalSchemaCase(c schemaCase, o *pbt.Rec) (*verdictBuilder, pbt.Verdict) {
	l, why := load(c.SDL, o)
	if l == nil {
		o.Discard(why)
		return nil, pbt.OK
	}
	if l.stats.nonTrivial() {
		o.NonTrivial(c.SDL)
	}
	v := newVerdict(o)
	context := "SDL:\n" + c.SDL

	// (b) the Generator's output describes exactly the schema
	js, raw, err := repoGenerate(l.schema)
	if err != nil {
		return nil, pbt.Bad("introspection.Generator fails on a valid schema: %v\n%s", err, context)
	}
	genFacts := dropBuiltins(introspectionFacts(js))
	genDiffs := map[string]factDiff{}
	for _, d := range diffFacts(l.shape.truth, genFacts) {
		genDiffs[d.Key] = d
		v.add(classifyFactDiff(d, "generate", l.shape), "Generator output: "+d.String())
	}

	// (d) converting the introspection result back yields an equivalent schema
	printed, reloaded, stage, err := roundTrip(raw)
	if err != nil {
		msg := fmt.Sprintf("generate→convert round trip fails at stage %q: %v", stage, err)
		if printed != "" {
			msg += "\nconverted SDL:\n" + printed
		}
		v.add("", msg)
		return v, pbt.OK
	}
	for _, d := range diffFacts(l.shape.truth, dropBuiltins(schemaFacts(reloaded))) {
		// a difference that the Generator's output already shows is reported (and attributed) there
		if gd, same := genDiffs[d.Key]; same && gd.Kind == d.Kind && gd.Got == d.Got {
			continue
		}
		v.add(classifyFactDiff(d, "convert", l.shape), "generate→convert→print→reload: "+d.String())
	}
	return v, pbt.OK
}

// ---- part 2: the engine's answers ---------------------------------------------------------------

type queryFeatures struct {
	nestedAlias          bool
	varIncludeDeprecated bool
	anyIncludeDeprecated bool
	hasVariables         bool
	rootTypename         bool
	rootIntrospection    bool
	rootFragment         bool
	rootTypenameFirst    bool // a root __typename precedes a root introspection field
	deepRef              bool
	includeDeprecatedArg map[string]bool // "true" "false" "absent-on-filterable"
	fragments            bool
	conditional          bool
	mergedDuplicate      bool
	typeByVariable       bool
	deepTypeRef          int
}

func analyseQuery(doc *gast.QueryDocument) queryFeatures {
	qf := queryFeatures{includeDeprecatedArg: map[string]bool{}}
	for _, op := range doc.Operations {
		if len(op.VariableDefinitions) > 0 {
			qf.hasVariables = true
		}
	}
	if len(doc.Fragments) > 0 {
		qf.fragments = true
	}
	var walk func(ss gast.SelectionSet, depth int, ofTypeDepth int, underRef bool)
	walk = func(ss gast.SelectionSet, depth int, ofTypeDepth int, underRef bool) {
		seen := map[string]bool{}
		for _, sel := range ss {
			switch x := sel.(type) {
			case *gast.Field:
				if x.Directives.ForName("skip") != nil || x.Directives.ForName("include") != nil {
					qf.conditional = true
				}
				if depth == 0 {
					switch x.Name {
					case "__typename":
						qf.rootTypename = true
					case "__schema", "__type":
						if qf.rootTypename {
							qf.rootTypenameFirst = true
						}
						qf.rootIntrospection = true
						if a := x.Arguments.ForName("name"); a != nil && a.Value.Kind == gast.Variable {
							qf.typeByVariable = true
						}
					}
				} else if x.Alias != "" && x.Alias != x.Name {
					qf.nestedAlias = true
				}
				if underRef && x.Name != "kind" && x.Name != "name" && x.Name != "ofType" && x.Name != "__typename" {
					qf.deepRef = true
				}
				rk := x.Alias
				if rk == "" {
					rk = x.Name
				}
				if seen[rk] && len(x.SelectionSet) > 0 {
					qf.mergedDuplicate = true
				}
				seen[rk] = true
				if a := x.Arguments.ForName("includeDeprecated"); a != nil {
					qf.anyIncludeDeprecated = true
					switch a.Value.Kind {
					case gast.Variable:
						qf.varIncludeDeprecated = true

					case gast.BooleanValue:
						qf.includeDeprecatedArg[a.Value.Raw] = true
					}
				} else if depth > 0 && (x.Name == "fields" || x.Name == "args" || x.Name == "inputFields" || x.Name == "enumValues") {
					qf.includeDeprecatedArg["absent"] = true
				}
				od := 0
				if x.Name == "ofType" {
					od = ofTypeDepth + 1
					if od > qf.deepTypeRef {
						qf.deepTypeRef = od
					}
				}
				walk(x.SelectionSet, depth+1, od, depth > 0 && isTypeRefField(x.Name))
			case *gast.InlineFragment:
				qf.fragments = true
				if depth == 0 {
					qf.rootFragment = true
				}
				if x.Directives.ForName("skip") != nil || x.Directives.ForName("include") != nil {
					qf.conditional = true
				}
				walk(x.SelectionSet, depth, ofTypeDepth, underRef)
			case *gast.FragmentSpread:
				if depth == 0 {
					qf.rootFragment = true
				}
				if x.Definition != nil {
					walk(x.Definition.SelectionSet, depth, ofTypeDepth, underRef)
				}
			}
		}
	}
	for _, op := range doc.Operations {
		walk(op.SelectionSet, 0, 0, false)
	}
	return qf
}

// classifyQuery attributes any wrong answer to a query with one of these shapes to the finding
// about that shape.
func (qf queryFeatures) finding(queryTypeName string) string {
	// a shape excuses wrong answers only while its finding is listed as known (a fixed
	// finding no longer attributes anything, so the per-difference recognisers decide)
	switch {
	case qf.rootTypenameFirst && queryTypeName != "Query" && pbt.IsKnown("C17-root-typename-before-introspection-field-with-renamed-query-type"):
		return "C17-root-typename-before-introspection-field-with-renamed-query-type"
	case qf.nestedAlias && pbt.IsKnown("C17-alias-on-nested-introspection-field"):
		return "C17-alias-on-nested-introspection-field"
	case qf.hasVariables && qf.anyIncludeDeprecated && pbt.IsKnown("C17-includeDeprecated-lost-when-operation-has-variables"):
		return "C17-includeDeprecated-lost-when-operation-has-variables"
	case qf.deepRef && pbt.IsKnown("C17-type-reference-not-expandable"):
		return "C17-type-reference-not-expandable"
	}
	return ""
}

func classifyIntroDiff(d introDiff, sh schemaShape) string {
	switch d.Kind {
	case "description", "reason":
		if rawStringRelated(d.Want, d.Got) {
			return "C17-string-source-text-exposed"
		}
	case "other":
		seg := lastSegment(d.Path)
		if seg == "kind" && len(sh.clash) > 0 && d.Got == "SCALAR" {
			return "C17-type-kind-wrong-when-directive-shares-name"
		}
		if sh.explicitSchema && d.Want == "null" {
			if seg == "mutationType" && sh.truth["type:Mutation.kind"] == "OBJECT" && sh.truth["root.mutation"] == "" {
				return "C17-default-named-type-becomes-root-despite-schema-definition"
			}
			if seg == "subscriptionType" && sh.truth["type:Subscription.kind"] == "OBJECT" && sh.truth["root.subscription"] == "" {
				return "C17-default-named-type-becomes-root-despite-schema-definition"
			}
		}
	}
	return ""
}

func decodeVars(s string) (map[string]any, error) {
	if s == "" {
		return map[string]any{}, nil
	}
	var m map[string]any
	if err := json.Unmarshal([]byte(s), &m); err != nil {
		return nil, err
	}
	return m, nil
}

func checkEngineCase(c engineCase, o *pbt.Rec) pbt.Verdict {
	v, bad := evalEngineCase(c, o)
	if v == nil {
		return bad
	}
	return v.verdict("SDL:\n" + c.SDL)
}

func evalEngineCase(c engineCase, o *pbt.Rec) (*verdictBuilder, pbt.Verdict) {
	l, why := load(c.SDL, o)
	if l == nil {
		o.Discard(why)
		return nil, pbt.OK
	}
	truth2, err := loadTruthWithRepoBase(c.SDL)
	if err != nil {
		// the repo's built-in definitions plus a schema gqlparser accepts must load
		return nil, pbt.Bad("gqlparser cannot load the SDL together with the repo's base schema: %v\nSDL:\n%s", err, c.SDL)
	}
	if d := diffFacts(l.shape.truth, dropBuiltins(schemaFacts(truth2))); len(d) > 0 {
		return nil, pbt.Bad("harness: user facts differ between the two gqlparser loads: %v", d[0])
	}
	eng, err := newEngine(l.schema, l.truth)
	if err != nil {
		return nil, pbt.Bad("engine cannot be built over a valid schema: %v\nSDL:\n%s", err, c.SDL)
	}
	defer eng.close()
	v := newVerdict(o)
	nontrivialQueries := 0

	queries := append([]queryCase{{Query: fullIntrospectionQuery()}}, c.Queries...)
	for qi, q := range queries {
		full := qi == 0
		tag := fmt.Sprintf("query #%d %s", qi, q.Query)
		if full {
			tag = "full introspection query"
		} else if q.Vars != "" {
			tag += " variables " + q.Vars
		}
		doc, perr := gparser.ParseQuery(&gast.Source{Input: q.Query})
		if perr != nil {
			o.Label("query:unparsable-by-reference")
			continue
		}
		if errs := gvalidator.Validate(truth2, doc); len(errs) > 0 {
			o.Label("query:invalid-by-reference")
			continue
		}
		vars, verr := decodeVars(q.Vars)
		if verr != nil {
			o.Label("query:bad-variables")
			continue
		}
		want, rerr := refIntrospect(truth2, doc, vars, staticData)
		if rerr != nil {
			o.Label("query:reference-cannot-answer")
			continue
		}
		qf := analyseQuery(doc)
		if !full {
			labelQuery(qf, l.truth.Query.Name, o)
		}
		shapeFinding := qf.finding(l.truth.Query.Name)
		errFinding := shapeFinding
		if errFinding == "" && l.shape.clash[l.truth.Query.Name] {
			errFinding = "C17-engine-fails-when-query-type-shares-name-with-directive" // the query type is not found by name
		}
		resp, raw, xerr := eng.run(q.Query, q.Vars)
		if xerr != nil {
			v.add(errFinding, fmt.Sprintf("%s: engine fails on a valid introspection operation: %v (response %q)", tag, xerr, raw))
			continue
		}
		if errs, has := resp["errors"]; has {
			v.add(shapeFinding, fmt.Sprintf("%s: engine answers with errors: %s", tag, short(errs)))
			continue
		}
		explainable = func(d introDiff) bool { return classifyIntroDiff(d, l.shape) != "" }
		diffs := cmpIntro(want, resp["data"], "data")
		explainable = nil
		for _, d := range diffs {
			id := shapeFinding
			if id == "" {
				id = classifyIntroDiff(d, l.shape)
			}
			v.add(id, tag+": "+d.String())
		}
		if !full && len(diffs) == 0 && shapeFinding == "" {
			nontrivialQueries++
		}
		if full {
			// harness self-check: the reference's own full answer, read back by the fact extractor,
			// must give exactly the schema's facts (two independent readings of gqlparser's schema)
			if ws, ok := plainJSON(want).(map[string]any)["__schema"].(map[string]any); ok {
				if d := diffFacts(l.shape.truth, dropBuiltins(introspectionFacts(ws))); len(d) > 0 {
					return nil, pbt.Bad("harness self-check failed (reference introspection and fact extractor disagree, not a finding about the repo): %v\nSDL:\n%s", d[0], c.SDL)
				}
			}
			// the fact set of the engine's full answer, against the schema
			data, _ := resp["data"].(jobj)
			sch, _ := data["__schema"].(jobj)
			if sch == nil {
				v.add("", "full introspection query: no __schema object in the answer: "+raw)
				continue
			}
			for _, d := range diffFacts(l.shape.truth, dropBuiltins(introspectionFacts(sch))) {
				v.add(classifyFactDiff(d, "generate", l.shape), "engine, full introspection query: "+d.String())
			}
		}
	}
	if l.stats.nonTrivial() && nontrivialQueries > 0 {
		o.NonTrivial(c.SDL + "\x00" + fmt.Sprint(c.Queries))
	}
	return v, pbt.OK
}

func labelQuery(qf queryFeatures, queryTypeName string, o *pbt.Rec) {
	o.Label("query:partial")
	for _, k := range []string{"true", "false", "absent"} {
		if qf.includeDeprecatedArg[k] {
			o.Label("query:includeDeprecated-" + k)
		}
	}
	if qf.fragments {
		o.Label("query:fragments")
	}
	if qf.conditional {
		o.Label("query:skip-include")
	}
	if qf.rootFragment {
		o.Label("query:root-fields-inside-fragment")
	}
	if qf.mergedDuplicate {
		o.Label("query:merged-duplicate-field")
	}
	if qf.typeByVariable {
		o.Label("query:type-name-by-variable")
	}
	if qf.deepTypeRef >= 4 {
		o.Label("query:ofType-depth>=4")
	}
	if qf.rootTypename && qf.rootIntrospection {
		o.Label("query:root-typename-next-to-introspection")
	}
	if id := qf.finding(queryTypeName); id != "" {
		o.Label("query-shape:" + id)
	} else {
		o.Label("query:strictly-checked")
	}
}
