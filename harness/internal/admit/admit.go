// Package admit runs the engine's documented admission sequence (normalize, validate, extract
// variables, canonicalise variable names) through exported API only.
package admit

import (
	"fmt"

	"github.com/wundergraph/graphql-go-tools/execution/graphql"
	"github.com/wundergraph/graphql-go-tools/v2/pkg/astnormalization"
	"github.com/wundergraph/graphql-go-tools/v2/pkg/astprinter"
	"github.com/wundergraph/graphql-go-tools/v2/pkg/astvalidation"
	"github.com/wundergraph/graphql-go-tools/v2/pkg/operationreport"

	"verif/harness/internal/opgen"
	"verif/harness/internal/ref"
)

// Normalized is the result of the engine's normalization sequence.
type Normalized struct {
	Print string
	Vars  map[string]any    // request variables after normalization (original + extracted names)
	Remap map[string]string // canonical name → name in Vars
}

// CanonVars reads the variables under their canonical names.
func (n *Normalized) CanonVars() map[string]any {
	out := map[string]any{}
	for c, o := range n.Remap {
		if v, ok := n.Vars[o]; ok {
			out[c] = v
		}
	}
	return out
}

// Normalize runs the admission sequence of ExecutionEngine.Execute on exported API: Normalize (Execute option
// set) → ValidateForSchema → Normalize(ExtractVariables) → VariablesMapper. stage names the failing step.
func Normalize(schema *graphql.Schema, op opgen.Op) (*Normalized, string, error) {
	n, _, stage, err := NormalizeRequest(schema, op)
	return n, stage, err
}

// NormalizeRequest is Normalize that also returns the normalized request (its document is
// what the engine hands to the planner).
func NormalizeRequest(schema *graphql.Schema, op opgen.Op) (*Normalized, *graphql.Request, string, error) {
	req := &graphql.Request{Query: op.Query, OperationName: op.OperationName}
	n, stage, err := normalizeInto(schema, op, req)
	return n, req, stage, err
}

func normalizeInto(schema *graphql.Schema, op opgen.Op, reqp *graphql.Request) (*Normalized, string, error) {
	req := reqp
	if v := op.VarsJSON(); v != "" {
		req.Variables = []byte(v)
	}
	res, err := req.Normalize(schema,
		astnormalization.WithRemoveFragmentDefinitions(),
		astnormalization.WithRemoveUnusedVariables(),
		astnormalization.WithInlineFragmentSpreads(),
		astnormalization.WithEnableDefer(),
		astnormalization.WithPrevalidationRules(
			astvalidation.DeferStreamOnValidOperations(),
			astvalidation.DeferStreamHaveUniqueLabels(),
			astvalidation.DirectivesAreInValidLocations(),
			astvalidation.StreamAppliedToListFieldsOnly()),
	)
	if err != nil {
		return nil, "normalize", err
	}
	if !res.Successful {
		return nil, "normalize", res.Errors
	}
	vr, err := req.ValidateForSchema(schema)
	if err != nil {
		return nil, "validate", err
	}
	if !vr.Valid {
		return nil, "validate", vr.Errors
	}
	res, err = req.Normalize(schema, astnormalization.WithExtractVariables())
	if err != nil {
		return nil, "extract", err
	}
	if !res.Successful {
		return nil, "extract", res.Errors
	}
	var rep operationreport.Report
	remap := astnormalization.NewVariablesMapper().NormalizeOperation(req.Document(), schema.Document(), &rep)
	if rep.HasErrors() {
		return nil, "remap", rep
	}
	s, err := astprinter.PrintString(req.Document())
	if err != nil {
		return nil, "print", err
	}
	n := &Normalized{Print: s, Remap: remap, Vars: map[string]any{}}
	if len(req.Variables) > 0 {
		v, derr := ref.Decode(req.Variables)
		if derr != nil {
			return nil, "variables-json", fmt.Errorf("variables after normalization are not valid JSON: %v: %q", derr, req.Variables)
		}
		if m, ok := v.(map[string]any); ok {
			n.Vars = m
		} else if v != nil {
			return nil, "variables-json", fmt.Errorf("variables after normalization are not an object: %q", req.Variables)
		}
	}
	return n, "", nil
}
