package c08

import (
	"fmt"
	"os"
	"sort"
	"strings"

	"pgregory.net/rapid"

	"github.com/wundergraph/graphql-go-tools/v2/pkg/engine/plan"

	"verif/harness/internal/fedgen"
	"verif/harness/internal/ftree"
	"verif/harness/internal/kit"
	"verif/harness/internal/opgen"
	"verif/harness/internal/sim"
	"verif/harness/pbt"
)

type planCase struct {
	Layout *fedgen.Layout `json:"layout"`
	Ops    []opgen.Op     `json:"ops"`
}

func allowFromEnv() map[string]bool {
	m := map[string]bool{}
	for _, c := range strings.Split(os.Getenv("C08_ALLOW"), ",") {
		if c != "" {
			m[c] = true
		}
	}
	return m
}

var planPart = pbt.Part[planCase]{Name: "real-plan-structural", Journal: true, Quick: 1500, Thorough: 30000, Check: checkPlan,
	Gen: func(t *rapid.T) planCase {
		l := fedgen.Gen(t, fedgen.Options{Allow: allowFromEnv()})
		super, err := sim.LoadSuper(l.Super)
		if err != nil {
			t.Fatalf("generator produced an invalid supergraph: %v", err)
		}
		c := planCase{Layout: l}
		n := rapid.IntRange(1, 8).Draw(t, "nops")
		for i := 0; i < n; i++ {
			c.Ops = append(c.Ops, opgen.Gen(t, super, opgen.Options{Mutations: true, Allow: allowFromEnv(), MaxDepth: 6, Budget: 30}))
		}
		return c
	}}

var engineOptionSets = map[string]kit.EngineOptions{
	"default":             {},
	"schedule":            {ScheduleFetches: true},
	"multifetch":          {MultiFetch: true},
	"multifetch-schedule": {MultiFetch: true, ScheduleFetches: true},
	"nodedupe":            {DisableDedupe: true},
}

func checkPlan(c planCase, o *pbt.Rec) pbt.Verdict {
	var names []string
	for k := range engineOptionSets {
		names = append(names, k)
	}
	sort.Strings(names)
	gws := map[string]*kit.Gateway{}
	for _, name := range names {
		gw, err := kit.New(c.Layout, 1, engineOptionSets[name])
		if err != nil {
			return pbt.Bad("engine construction failed (%s): %v", name, err)
		}
		defer gw.Close()
		gws[name] = gw
	}
	for i, op := range c.Ops {
		if _, err := gws["default"].World.Reference(op); err != nil {
			o.Label("oracle-disagreement:generator-vs-gqlparser")
			continue
		}
		idsDefault := map[int]bool{}
		nontrivial := false
		// the planner's own dependency edges: the tree without de-duplication and without
		// multi-fetch merging carries every planned fetch with its own dependencies
		var rawLeaves map[int]*ftree.Leaf
		if p, err := gws["nodedupe"].Plan(op); err == nil {
			if sp, ok := p.(*plan.SynchronousResponsePlan); ok && sp.Response != nil && sp.Response.Fetches != nil {
				rawLeaves, _, _ = ftree.Leaves(sp.Response.Fetches)
			}
		}
		for _, name := range names {
			p, err := gws[name].Plan(op)
			if err != nil {
				// planning failures are C01's business
				o.Label("planning-failed(C01)")
				continue
			}
			sp, ok := p.(*plan.SynchronousResponsePlan)
			if !ok || sp.Response == nil || sp.Response.Fetches == nil {
				continue
			}
			root := sp.Response.Fetches
			v, dangling := ftree.CheckOrder(root)
			if v != "" {
				return pbt.Bad("option set %s: %s\noperation[%d]: %s", name, v, i, op.Query)
			}
			if len(dangling) > 0 {
				o.Label("dangling-dependency-ids:" + name)
			}
			if rawLeaves != nil && name != "nodedupe" {
				// every planned edge d -> f must still be honoured by the fetches that carry d and
				// f now (the surviving duplicate, the multi-entity fetch they were merged into)
				var originals []int
				for id := range rawLeaves {
					originals = append(originals, id)
				}
				sort.Ints(originals)
				cont := ftree.Container(root, originals, func(absent, present int) bool {
					a, b := rawLeaves[absent], rawLeaves[present]
					return a != nil && b != nil && b.Item.EqualSingleFetch(a.Item)
				})
				for _, f := range originals {
					for _, d := range rawLeaves[f].Deps {
						cf, okf := cont[f]
						cd, okd := cont[d]
						if !okf || !okd {
							o.Label("edge-endpoint-not-located:" + name)
							continue
						}
						if cf == cd {
							continue
						}
						if !ftree.Before(root, cd, cf) {
							return pbt.Bad("option set %s: planned fetch %d reads results of planned fetch %d, but the fetch that carries it now (%d) is not ordered after the one that carries %d (%d): %s\ntree without merging: %s\noperation[%d]: %s",
								name, f, d, cf, d, cd, ftree.Dump(root), dumpLeaves(rawLeaves), i, op.Query)
						}
						o.Label("planned-edge-checked-through-merge")
					}
				}
			}
			leaves, _, _ := ftree.Leaves(root)
			edges := 0
			for _, l := range leaves {
				edges += len(l.Deps)
			}
			if len(leaves) >= 3 && edges >= 1 {
				nontrivial = true
			}
			if strings.Contains(ftree.Dump(root), "Par(") {
				o.Label("tree-has-parallel:" + name)
			}
			switch name {
			case "default":
				for id := range leaves {
					idsDefault[id] = true
				}
			case "schedule":
				// scheduling only re-orders: same fetch set as the default tree
				same := len(leaves) == len(idsDefault)
				for id := range leaves {
					if !idsDefault[id] {
						same = false
					}
				}
				if !same && len(idsDefault) > 0 {
					return pbt.Bad("the scheduled tree does not contain exactly the fetches of the default tree: %s\noperation[%d]: %s", ftree.Dump(root), i, op.Query)
				}
			}
		}
		key := ""
		if nontrivial {
			key = fmt.Sprint(c.Layout.Subs) + op.Query
		}
		o.Sub(key)
	}
	return pbt.OK
}

func dumpLeaves(l map[int]*ftree.Leaf) string {
	var ids []int
	for id := range l {
		ids = append(ids, id)
	}
	sort.Ints(ids)
	var parts []string
	for _, id := range ids {
		parts = append(parts, fmt.Sprintf("%d%v", id, l[id].Deps))
	}
	return strings.Join(parts, " ")
}
