package inputref

import (
	"bytes"
	"context"
	"fmt"
	"io"
	"net/http"
	"runtime/debug"
	"strings"
	"sync"

	"github.com/jensneuse/abstractlogger"

	"github.com/wundergraph/graphql-go-tools/execution/engine"
	"github.com/wundergraph/graphql-go-tools/execution/graphql"
	"github.com/wundergraph/graphql-go-tools/v2/pkg/astnormalization"
	"github.com/wundergraph/graphql-go-tools/v2/pkg/astparser"
	"github.com/wundergraph/graphql-go-tools/v2/pkg/astprinter"
	"github.com/wundergraph/graphql-go-tools/v2/pkg/astvalidation"
	"github.com/wundergraph/graphql-go-tools/v2/pkg/engine/datasource/graphql_datasource"
	"github.com/wundergraph/graphql-go-tools/v2/pkg/engine/plan"
	"github.com/wundergraph/graphql-go-tools/v2/pkg/engine/resolve"
	"github.com/wundergraph/graphql-go-tools/v2/pkg/operationreport"
	"github.com/wundergraph/graphql-go-tools/v2/pkg/variablesvalidation"
)

// Upstream is one request the gateway sent to the (fake) subgraph.
type Upstream struct {
	Body      string // raw HTTP body
	BodyErr   error  // body is not a JSON object {query, variables?, …}
	Query     string
	HasVars   bool
	Variables *Value // the "variables" member (nil when absent)
}

// Rig is an execution engine over one schema with a single GraphQL subgraph whose transport
// is faked: every upstream request is recorded and answered with a string per root field.
type Rig struct {
	Schema *graphql.Schema
	Engine *engine.ExecutionEngine
	SDL    string
	cancel context.CancelFunc
	mu     sync.Mutex
	reqs   []Upstream
}

type roundTripper func(*http.Request) (*http.Response, error)

func (f roundTripper) RoundTrip(r *http.Request) (*http.Response, error) { return f(r) }

// NewRig builds the engine for the schema.
func NewRig(s *Schema) (*Rig, error) {
	sdl := s.SDL(false)
	ctx, cancel := context.WithCancel(context.Background())
	r := &Rig{SDL: sdl, cancel: cancel}
	client := &http.Client{Transport: roundTripper(r.serve)}
	factory, err := graphql_datasource.NewFactory(ctx, client, graphql_datasource.NewGraphQLSubscriptionClient(ctx,
		graphql_datasource.WithUpgradeClient(client), graphql_datasource.WithStreamingClient(client)))
	if err != nil {
		cancel()
		return nil, err
	}
	sc, err := graphql_datasource.NewSchemaConfiguration(sdl, nil)
	if err != nil {
		cancel()
		return nil, fmt.Errorf("subgraph schema configuration: %w", err)
	}
	cfg, err := graphql_datasource.NewConfiguration(graphql_datasource.ConfigurationInput{
		Fetch:               &graphql_datasource.FetchConfiguration{URL: "http://subgraph.test/graphql", Method: "POST"},
		SchemaConfiguration: sc,
	})
	if err != nil {
		cancel()
		return nil, err
	}
	var names []string
	var fcs plan.FieldConfigurations
	for _, e := range s.Echoes {
		names = append(names, e.Name)
		fcs = append(fcs, plan.FieldConfiguration{TypeName: "Query", FieldName: e.Name,
			Arguments: plan.ArgumentsConfigurations{{Name: e.Arg.Name, SourceType: plan.FieldArgumentSource}}})
	}
	ds, err := plan.NewDataSourceConfiguration[graphql_datasource.Configuration]("echo", factory,
		&plan.DataSourceMetadata{RootNodes: []plan.TypeField{{TypeName: "Query", FieldNames: names}}}, cfg)
	if err != nil {
		cancel()
		return nil, err
	}
	schema, err := graphql.NewSchemaFromString(sdl)
	if err != nil {
		cancel()
		return nil, fmt.Errorf("gateway schema: %w", err)
	}
	conf := engine.NewConfiguration(schema)
	conf.SetDataSources([]plan.DataSource{ds})
	conf.SetFieldConfigurations(fcs)
	eng, err := engine.NewExecutionEngine(ctx, abstractlogger.Noop{}, conf, resolve.ResolverOptions{MaxConcurrency: 8})
	if err != nil {
		cancel()
		return nil, err
	}
	r.Schema, r.Engine = schema, eng
	return r, nil
}

// Close releases the engine's background context.
func (r *Rig) Close() { r.cancel() }

func (r *Rig) serve(req *http.Request) (*http.Response, error) {
	b, _ := io.ReadAll(req.Body)
	up := DecodeUpstream(string(b))
	r.mu.Lock()
	r.reqs = append(r.reqs, up)
	r.mu.Unlock()
	// Answer every root response key with a string.
	data := &Value{K: VObj, O: []Member{}}
	if ops, err := ParseOperations(up.Query, LexOpts{}); err == nil && len(ops) > 0 {
		for _, sel := range ops[0].Sels {
			if !sel.Fragment {
				data.Set(sel.Key(), Str("ok"))
			}
		}
	}
	body := `{"data":` + JSONText(data) + `}`
	return &http.Response{StatusCode: 200, Header: http.Header{"Content-Type": []string{"application/json"}},
		Body: io.NopCloser(bytes.NewBufferString(body))}, nil
}

// DecodeUpstream splits a subgraph request body into query and variables using the strict
// JSON parser of this package.
func DecodeUpstream(body string) Upstream {
	up := Upstream{Body: body}
	v, err := ParseJSON(body)
	if err != nil {
		up.BodyErr = err
		return up
	}
	if v.K != VObj {
		up.BodyErr = fmt.Errorf("request body is not an object")
		return up
	}
	if q := v.Get("query"); q != nil && q.K == VStr {
		up.Query = q.S
	} else {
		up.BodyErr = fmt.Errorf("request body has no query string")
	}
	if vs := v.Get("variables"); vs != nil {
		up.HasVars = true
		up.Variables = vs
	}
	return up
}

// ExecResult is what one Execute call produced.
type ExecResult struct {
	Err      error
	Panic    string
	Response string
	Upstream []Upstream
}

// Execute runs one request through ExecutionEngine.Execute.
func (r *Rig) Execute(query string, variables []byte, operationName string) (res ExecResult) {
	r.mu.Lock()
	r.reqs = nil
	r.mu.Unlock()
	req := graphql.Request{Query: query, Variables: variables, OperationName: operationName}
	w := graphql.NewEngineResultWriter()
	func() {
		defer func() {
			if p := recover(); p != nil {
				res.Panic = fmt.Sprintf("%v\n%s", p, debug.Stack())
			}
		}()
		res.Err = r.Engine.Execute(context.Background(), &req, &w)
	}()
	res.Response = w.String()
	r.mu.Lock()
	res.Upstream = append([]Upstream{}, r.reqs...)
	r.mu.Unlock()
	return res
}

// ---- small cache so that shrinking / replays over one schema reuse the engine ----------------

var (
	rigMu    sync.Mutex
	rigCache = map[string]*Rig{}
	rigOrder []string
)

// RigFor returns a cached rig for the schema (keyed by SDL); at most 32 are kept.
func RigFor(s *Schema) (*Rig, error) {
	key := s.SDL(false) + "\x00" + strings.Join(s.EchoNames(), ",")
	rigMu.Lock()
	defer rigMu.Unlock()
	if r, ok := rigCache[key]; ok {
		return r, nil
	}
	r, err := NewRig(s)
	if err != nil {
		return nil, err
	}
	rigCache[key] = r
	rigOrder = append(rigOrder, key)
	if len(rigOrder) > 32 {
		old := rigOrder[0]
		rigOrder = rigOrder[1:]
		rigCache[old].Close()
		delete(rigCache, old)
	}
	return r, nil
}

// ---- the admission sequence of Execute, step by step -------------------------------------------

// Admission is the state of a request after the engine's normalization sequence
// (Request.Normalize with Execute's option set, ValidateForSchema, Normalize(ExtractVariables)).
type Admission struct {
	Stage   string // "" when all stages passed, else the stage that failed
	Err     error
	Panic   string
	Request *graphql.Request
	Remap   map[string]string // result of the VariablesMapper stage (new name -> original name)
}

// Admit replays exactly the normalization/validation calls ExecutionEngine.Execute makes
// before variable validation, using only exported API.
func (r *Rig) Admit(query string, variables []byte, operationName string) (a Admission) {
	return r.admit(query, variables, operationName, true)
}

// AdmitNoRemap stops before the VariablesMapper stage, so that the variable names of the
// document are the keys of Request.Variables.
func (r *Rig) AdmitNoRemap(query string, variables []byte, operationName string) (a Admission) {
	return r.admit(query, variables, operationName, false)
}

func (r *Rig) admit(query string, variables []byte, operationName string, remap bool) (a Admission) {
	req := &graphql.Request{Query: query, Variables: variables, OperationName: operationName}
	a.Request = req
	defer func() {
		if p := recover(); p != nil {
			a.Panic = fmt.Sprintf("%v\n%s", p, debug.Stack())
			if a.Stage == "" {
				a.Stage = "panic"
			}
		}
	}()
	a.Stage = "normalize"
	res, err := req.Normalize(r.Schema,
		astnormalization.WithRemoveFragmentDefinitions(),
		astnormalization.WithRemoveUnusedVariables(),
		astnormalization.WithInlineFragmentSpreads(),
		astnormalization.WithEnableDefer(),
		astnormalization.WithPrevalidationRules(
			astvalidation.DeferStreamOnValidOperations(),
			astvalidation.DeferStreamHaveUniqueLabels(),
			astvalidation.DirectivesAreInValidLocations(),
			astvalidation.StreamAppliedToListFieldsOnly()),
	)
	if err != nil {
		a.Err = err
		return a
	} else if !res.Successful {
		a.Err = res.Errors
		return a
	}
	a.Stage = "validate"
	vres, err := req.ValidateForSchema(r.Schema)
	if err != nil {
		a.Err = err
		return a
	} else if !vres.Valid {
		a.Err = vres.Errors
		return a
	}
	a.Stage = "extract"
	res, err = req.Normalize(r.Schema, astnormalization.WithExtractVariables())
	if err != nil {
		a.Err = err
		return a
	} else if !res.Successful {
		a.Err = res.Errors
		return a
	}
	if !remap {
		a.Stage = ""
		return a
	}
	a.Stage = "remap"
	var rep operationreport.Report
	a.Remap = astnormalization.NewVariablesMapper().NormalizeOperation(req.Document(), r.Schema.Document(), &rep)
	if rep.HasErrors() {
		a.Err = rep
		return a
	}
	a.Stage = ""
	return a
}

// PrintOperation prints the (normalized) operation document of an admitted request.
func (a Admission) PrintOperation() (string, error) {
	return astprinter.PrintString(a.Request.Document())
}

// ValidateVariables calls the VariablesValidator directly on an admitted request, the way
// Execute does (ValidateWithRemap), with the content-exposure option under test.
func (r *Rig) ValidateVariables(a Admission, disableContent bool) (err error, panicked string) {
	req := a.Request
	defer func() {
		if p := recover(); p != nil {
			panicked = fmt.Sprintf("%v\n%s", p, debug.Stack())
		}
	}()
	v := variablesvalidation.NewVariablesValidator(variablesvalidation.VariablesValidatorOptions{DisableExposingVariablesContent: disableContent})
	return v.ValidateWithRemap(req.Document(), r.Schema.Document(), req.Variables, a.Remap), ""
}

// ValidateRaw calls VariablesValidator.Validate on the operation as written (no
// normalization: no list coercion, no default injection) and the variables as sent.
func (r *Rig) ValidateRaw(query string, variables []byte) (err error, panicked string) {
	defer func() {
		if p := recover(); p != nil {
			panicked = fmt.Sprintf("%v\n%s", p, debug.Stack())
		}
	}()
	op, rep := astparser.ParseGraphqlDocumentString(query)
	if rep.HasErrors() {
		return rep, ""
	}
	v := variablesvalidation.NewVariablesValidator(variablesvalidation.VariablesValidatorOptions{})
	return v.Validate(&op, r.Schema.Document(), variables), ""
}
