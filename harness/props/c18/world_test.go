package c18

import (
	"context"
	"encoding/json"
	"fmt"
	"io"
	"net/http"
	"net/http/httptest"
	"strings"
	"sync"
	"time"

	"github.com/coder/websocket"

	client "github.com/wundergraph/graphql-go-tools/v2/pkg/engine/datasource/graphql_datasource/subscriptionclient"
	"github.com/wundergraph/graphql-go-tools/v2/pkg/engine/datasource/graphql_datasource/subscriptionclient/common"
)

// Timing constants. None of them is a correctness signal on its own:
//   - settle is the one-sided wait for an unobservable event (a subscriber joining a dial in
//     progress): too short only misses the window.
//   - watch is a liveness watchdog for an event that is a few loopback round trips away; when it
//     expires the event is re-sampled after grace (twice) before anything is reported.
var (
	settle = 10 * time.Millisecond
	watch  = 4 * time.Second
	grace  = 4 * time.Second
)

// upConn is one WebSocket connection as seen by the upstream.
type upConn struct {
	idx      int
	ws       *websocket.Conn
	key      string // canonical tuple reconstructed from what the upstream observed ("" until connection_init)
	tuple    int    // index of the case tuple with that key, -1 when nobody asked for such a connection
	path     string
	offered  string
	hdr      string
	proto    string // negotiated
	initSeen bool
	acked    bool
	ids      map[string]int // wire id -> subscription index
	written  int            // messages written by the upstream on this connection (burst drop counter)
	dropped  bool           // dropped by the script
	closed   bool           // the upstream's read loop ended
	pings    int
	pongs    int           // pongs written successfully
	pongLat  time.Duration // worst time between reading a ping and having written its pong
	reused   bool          // a subscribe arrived after every earlier subscription on it had ended
	abrupt   bool          // the client end vanished without a close handshake although the script did not drop it
	wmu      sync.Mutex    // serialises writers so that "written" and the wire agree
}

// sent is one message the upstream wrote (or tried to write) for a subscription.
type sent struct {
	scriptMsg
	ok          bool // write succeeded
	done        bool // write finished (ok is final)
	afterCancel bool // issued after the subscriber's cancel had returned
}

// got is one message a subscriber's handler received.
type got struct {
	Type common.MessageType
	S, N int    // decoded owner / sequence number of data and error payloads (-1 when absent)
	Err  string // connection errors
	// closedByClient: Err is exactly common.ErrConnectionClosed, i.e. the client itself decided to
	// close the connection (empty / idle / pong timeout) while this handler was registered.
	closedByClient bool
}

// subState is everything known about one subscription, from both ends.
// subCtx is the context a subscriber passes to Subscribe. It ends when the harness says so, either the
// way cancel() ends a context (Err() == context.Canceled) or the way a deadline does (Err() ==
// context.DeadlineExceeded) - the latter without waiting for a wall clock, so "the subscriber's own
// deadline passes while the ack is held" is a schedulable event like any other.
type subCtx struct {
	mu       sync.Mutex
	done     chan struct{}
	err      error
	deadline time.Time // zero: no deadline reported
}

func newSubCtx(withDeadline bool) *subCtx {
	c := &subCtx{done: make(chan struct{})}
	if withDeadline {
		c.deadline = time.Now().Add(time.Hour) // reported, never reached: expiry is triggered by the schedule
	}
	return c
}

func (c *subCtx) Deadline() (time.Time, bool) { return c.deadline, !c.deadline.IsZero() }
func (c *subCtx) Done() <-chan struct{}       { return c.done }
func (c *subCtx) Value(any) any               { return nil }
func (c *subCtx) Err() error {
	c.mu.Lock()
	defer c.mu.Unlock()
	return c.err
}

func (c *subCtx) end(err error) {
	c.mu.Lock()
	defer c.mu.Unlock()
	if c.err == nil {
		c.err = err
		close(c.done)
	}
}

type subState struct {
	i           int
	ctx         *subCtx
	cancel      context.CancelFunc
	expired     bool          // ended by its own deadline, not by cancel
	release     chan struct{} // closed by the "release" step / finish: a blocked handler continues
	satThrough  int           // coalesced dials this (never cancelled) caller waited on that were abandoned by their dialler
	released    bool
	blockedNow  bool     // its handler is blocked right now (the read goroutine of its connection stands still)
	handlerActs []string // scripted handler behaviours that actually ran

	started      bool
	returned     bool
	err          error
	unsub        func()
	cancelIssued bool // the case cancelled it (cleanup cancels at the end do not count)
	cancelDone   bool // ctx cancelled and, when Subscribe had succeeded, the unsubscribe func returned
	earlyCancel  bool // cancel was issued before Subscribe returned
	msgs         []got
	snap         int // len(msgs) at snapshot time
	// logical clock stamps (w.seq, under w.mu): Subscribe call started / returned, subscription ended
	// (terminal received or cancel issued, whichever came first); 0 = not yet
	startSeq, returnSeq, endSeq int

	// upstream side
	seen           int     // subscribe messages / sse requests seen for this subscription
	conn           *upConn // ws: connection the subscribe arrived on
	wire           string  // ws: wire id
	stream         *upStream
	sent           []sent
	stopSeen       bool  // ws: client sent complete/stop for the wire id
	dropped        bool  // its connection / stream was dropped by the script after the subscribe was seen
	dropInSub      bool  // a scripted drop hit its tuple while its Subscribe call was in flight
	silenced       bool  // its connection stopped answering pings (ping part)
	inFlightCancel []int // same-tuple subscriptions cancelled while this Subscribe call was in flight
}

// upStream is one SSE request as seen by the upstream.
type upStream struct {
	sub     int
	key     string
	tuple   int
	cmds    chan sseCmd
	kill    chan struct{} // closed by a scripted drop while the response headers are still held
	open    bool          // headers written
	closed  bool          // handler returned
	dropped bool
}

type sseCmd struct {
	text  string
	drop  bool
	reply chan error
}

type world struct {
	c      Case
	keys   []string
	keyIdx map[string]int
	srv    *httptest.Server
	tr     *http.Transport
	cl     *client.Client
	ctx    context.Context
	stop   context.CancelFunc

	mu         sync.Mutex
	changed    chan struct{}
	gate       []chan struct{}
	gateOpen   []bool
	conns      []*upConn
	streams    []*upStream
	subs       []*subState
	upViol     []string   // protocol-level observations at the upstream that are violations by themselves
	seq        int        // logical clock for subscriber-side events
	log        []logEntry // upstream-side event order (coverage classes only, never an oracle input)
	wg         sync.WaitGroup
	closing    bool // set under mu by close(); handlers that arrive later must not touch wg
	pongSilent map[int]bool
}

// logEntry is one upstream-side event: a message written for a subscription, a client stop seen,
// a subscribe registered.
type logEntry struct {
	conn int // ws connection index, -1 for sse
	sub  int
	kind string // subscribe | next | complete | error | stop
}

type clientCfg struct {
	pingInterval, pingTimeout time.Duration
}

func newWorld(c Case, cc clientCfg) *world {
	w := &world{c: c, keyIdx: map[string]int{}, changed: make(chan struct{}), pongSilent: map[int]bool{}}
	for i, t := range c.Tuples {
		k := t.canonical()
		w.keys = append(w.keys, k)
		if _, dup := w.keyIdx[k]; !dup {
			w.keyIdx[k] = i
		}
		g := make(chan struct{})
		open := !t.Gate
		if open {
			close(g)
		}
		w.gate = append(w.gate, g)
		w.gateOpen = append(w.gateOpen, open)
	}
	w.ctx, w.stop = context.WithCancel(context.Background())
	w.srv = httptest.NewServer(http.HandlerFunc(w.serve))
	w.tr = &http.Transport{DisableKeepAlives: true}
	hc := &http.Client{Transport: w.tr}
	w.cl = client.New(w.ctx, client.Config{
		UpgradeClient: hc, StreamingClient: hc,
		WSIdleTimeout: time.Duration(c.IdleMs) * time.Millisecond,
		PingInterval:  cc.pingInterval, PingTimeout: cc.pingTimeout,
	})
	for i := range c.Subs {
		st := &subState{i: i}
		st.release = make(chan struct{})
		st.ctx = newSubCtx(c.hasDeadline(i))
		st.cancel = func() { st.ctx.end(context.Canceled) }
		w.subs = append(w.subs, st)
	}
	return w
}

// close tears everything down; safe to call once.
func (w *world) close() {
	for i, st := range w.subs {
		w.releaseHandler(i)
		st.cancel()
	}
	w.stop()
	w.mu.Lock()
	w.closing = true
	conns := append([]*upConn(nil), w.conns...)
	for i := range w.gate {
		if !w.gateOpen[i] {
			w.gateOpen[i] = true
			close(w.gate[i])
		}
	}
	w.mu.Unlock()
	for _, c := range conns {
		_ = c.ws.CloseNow()
	}
	w.srv.CloseClientConnections()
	w.srv.Close()
	w.tr.CloseIdleConnections()
	// bounded: a client call that never returns (a wedged Subscribe under a broken tree) has been reported as
	// a liveness violation already and must not wedge the harness too
	done := make(chan struct{})
	go func() { w.wg.Wait(); close(done) }()
	select {
	case <-done:
	case <-time.After(watch):
	}
}

// bump wakes every waiter; callers hold w.mu.
func (w *world) bump() {
	close(w.changed)
	w.changed = make(chan struct{})
}

// wait blocks until pred (evaluated under w.mu) holds or d elapsed; poll > 0 re-evaluates pred
// periodically for state that does not announce itself (Client.Stats).
func (w *world) wait(d time.Duration, poll time.Duration, pred func() bool) bool {
	deadline := time.NewTimer(d)
	defer deadline.Stop()
	for {
		w.mu.Lock()
		ok := pred()
		ch := w.changed
		w.mu.Unlock()
		if ok {
			return true
		}
		var tick <-chan time.Time
		if poll > 0 {
			tick = time.After(poll)
		}
		select {
		case <-ch:
		case <-tick:
		case <-deadline.C:
			w.mu.Lock()
			ok := pred()
			w.mu.Unlock()
			return ok
		}
	}
}

// ---- upstream -------------------------------------------------------------------------

func (w *world) serve(rw http.ResponseWriter, r *http.Request) {
	if r.Header.Get("Upgrade") != "" {
		w.serveWS(rw, r)
		return
	}
	w.serveSSE(rw, r)
}

type wireMsg struct {
	ID      string          `json:"id,omitempty"`
	Type    string          `json:"type"`
	Payload json.RawMessage `json:"payload,omitempty"`
}

func (w *world) serveWS(rw http.ResponseWriter, r *http.Request) {
	prefs := []string{"graphql-transport-ws", "graphql-ws"}
	if w.c.LegacyFirst {
		prefs = []string{"graphql-ws", "graphql-transport-ws"}
	}
	ws, err := websocket.Accept(rw, r, &websocket.AcceptOptions{Subprotocols: prefs})
	if err != nil {
		return
	}
	ws.SetReadLimit(1 << 20)
	uc := &upConn{ws: ws, path: r.URL.Path, hdr: headerCanon(r.Header), proto: ws.Subprotocol(), ids: map[string]int{}, tuple: -1,
		offered: strings.Join(splitTokens(r.Header.Values("Sec-WebSocket-Protocol")), ",")}
	w.mu.Lock()
	if w.closing { // accepted while the world is being torn down: wg.Add must not race with wg.Wait
		w.mu.Unlock()
		_ = ws.CloseNow()
		return
	}
	w.wg.Add(1)
	uc.idx = len(w.conns)
	w.conns = append(w.conns, uc)
	w.bump()
	w.mu.Unlock()
	defer w.wg.Done()
	defer ws.CloseNow()
	for {
		_, data, err := ws.Read(w.ctx)
		if err != nil {
			w.mu.Lock()
			uc.closed = true
			uc.abrupt = !uc.dropped && w.ctx.Err() == nil && websocket.CloseStatus(err) == -1
			w.bump()
			w.mu.Unlock()
			return
		}
		var m wireMsg
		if json.Unmarshal(data, &m) != nil {
			w.note("upstream received a frame that is not a JSON message: %q", data)
			continue
		}
		switch m.Type {
		case "connection_init":
			w.mu.Lock()
			if uc.initSeen {
				w.upViol = append(w.upViol, fmt.Sprintf("conn %d: second connection_init", uc.idx))
			}
			uc.initSeen = true
			uc.key = fmt.Sprintf("ws|%s|%s|X-T=%s|%s", uc.path, uc.offered, uc.hdr, canonRaw(m.Payload))
			if k, ok := w.keyIdx[uc.key]; ok {
				uc.tuple = k
			} else {
				w.upViol = append(w.upViol, fmt.Sprintf("conn %d was opened with option tuple %q that no subscription asked for", uc.idx, uc.key))
			}
			var g chan struct{}
			if uc.tuple >= 0 {
				g = w.gate[uc.tuple]
			}
			w.bump()
			w.mu.Unlock()
			// The ack is written by its own goroutine so that the read loop keeps answering close
			// frames while the ack is held (a real server library does the same).
			w.wg.Add(1)
			go func() {
				defer w.wg.Done()
				if g != nil {
					select {
					case <-g:
					case <-w.ctx.Done():
						return
					}
				}
				// acked is set before the write: the client may answer the ack with a subscribe before
				// Write returns here.
				w.mu.Lock()
				uc.acked = true
				w.bump()
				w.mu.Unlock()
				uc.wmu.Lock()
				_ = ws.Write(w.ctx, websocket.MessageText, []byte(`{"type":"connection_ack"}`))
				uc.wmu.Unlock()
			}()
		case "subscribe", "start":
			var p struct {
				OperationName string `json:"operationName"`
			}
			_ = json.Unmarshal(m.Payload, &p)
			i := subIndex(p.OperationName)
			w.mu.Lock()
			switch {
			case i < 0 || i >= len(w.subs):
				w.upViol = append(w.upViol, fmt.Sprintf("conn %d: subscribe for unknown operation %q", uc.idx, p.OperationName))
			case !uc.acked:
				w.upViol = append(w.upViol, fmt.Sprintf("conn %d: subscribe for sub %d before connection_ack", uc.idx, i))
			default:
				st := w.subs[i]
				if _, dup := uc.ids[m.ID]; dup {
					w.upViol = append(w.upViol, fmt.Sprintf("conn %d: wire id %q used twice (sub %d and sub %d)", uc.idx, m.ID, uc.ids[m.ID], i))
				}
				if st.seen > 0 {
					w.upViol = append(w.upViol, fmt.Sprintf("sub %d: subscribe seen twice at the upstream", i))
				}
				if want := w.keys[w.c.Subs[i].Tuple]; want != uc.key {
					w.upViol = append(w.upViol, fmt.Sprintf("sub %d with option tuple %q was multiplexed onto conn %d opened with tuple %q", i, want, uc.idx, uc.key))
				}
				wantType := "subscribe"
				if uc.proto == "graphql-ws" {
					wantType = "start"
				}
				if m.Type != wantType {
					w.upViol = append(w.upViol, fmt.Sprintf("conn %d (%s): client sent %q", uc.idx, uc.proto, m.Type))
				}
				if len(uc.ids) > 0 && w.liveOn(uc) == 0 {
					uc.reused = true // every earlier subscription on it had ended: the idle window was used
				}
				uc.ids[m.ID] = i
				w.log = append(w.log, logEntry{uc.idx, i, "subscribe"})
				st.seen++
				st.conn, st.wire = uc, m.ID
				if uc.dropped {
					st.dropped = true
				}
				if !w.c.stepped() {
					w.wg.Add(1)
					go w.stream(i)
				}
			}
			w.bump()
			w.mu.Unlock()
		case "complete", "stop":
			w.mu.Lock()
			if i, ok := uc.ids[m.ID]; ok {
				w.subs[i].stopSeen = true
				w.log = append(w.log, logEntry{uc.idx, i, "stop"})
			}
			w.bump()
			w.mu.Unlock()
		case "ping":
			w.mu.Lock()
			uc.pings++
			silent := w.pongSilent[uc.tuple]
			w.bump()
			w.mu.Unlock()
			if !silent {
				t0 := time.Now()
				uc.wmu.Lock()
				err := ws.Write(w.ctx, websocket.MessageText, []byte(`{"type":"pong"}`))
				uc.wmu.Unlock()
				w.mu.Lock()
				if err == nil {
					uc.pongs++
				}
				uc.pongLat = max(uc.pongLat, time.Since(t0))
				w.mu.Unlock()
			}
		case "pong", "connection_terminate":
		default:
			w.note("conn %d: unexpected client message type %q", uc.idx, m.Type)
		}
	}
}

func splitTokens(vals []string) []string {
	var out []string
	for _, v := range vals {
		for _, t := range strings.Split(v, ",") {
			if t = strings.TrimSpace(t); t != "" {
				out = append(out, t)
			}
		}
	}
	return out
}

func canonRaw(p json.RawMessage) string {
	if len(p) == 0 || string(p) == "null" {
		return ""
	}
	var v any
	if json.Unmarshal(p, &v) != nil {
		return "!" + string(p)
	}
	b, _ := json.Marshal(v)
	return string(b)
}

func (w *world) note(f string, a ...any) {
	w.mu.Lock()
	w.upViol = append(w.upViol, fmt.Sprintf(f, a...))
	w.mu.Unlock()
}

func (w *world) serveSSE(rw http.ResponseWriter, r *http.Request) {
	var op string
	if r.Method == http.MethodPost {
		b, _ := io.ReadAll(io.LimitReader(r.Body, 1<<16))
		var p struct {
			OperationName string `json:"operationName"`
		}
		_ = json.Unmarshal(b, &p)
		op = p.OperationName
	} else {
		op = r.URL.Query().Get("operationName")
	}
	i := subIndex(op)
	us := &upStream{sub: i, cmds: make(chan sseCmd), kill: make(chan struct{}), tuple: -1,
		key: fmt.Sprintf("sse|%s|%s|X-T=%s", r.URL.Path, r.Method, headerCanon(r.Header))}
	w.mu.Lock()
	if w.closing {
		w.mu.Unlock()
		http.Error(rw, "closing", 503)
		return
	}
	if i < 0 || i >= len(w.subs) {
		w.upViol = append(w.upViol, fmt.Sprintf("sse request for unknown operation %q", op))
		w.mu.Unlock()
		http.Error(rw, "unknown", 400)
		return
	}
	st := w.subs[i]
	if k, ok := w.keyIdx[us.key]; ok {
		us.tuple = k
	}
	if want := w.keys[w.c.Subs[i].Tuple]; want != us.key {
		w.upViol = append(w.upViol, fmt.Sprintf("sub %d with option tuple %q arrived as sse request %q", i, want, us.key))
	}
	if st.seen > 0 {
		w.upViol = append(w.upViol, fmt.Sprintf("sub %d: sse request seen twice at the upstream", i))
	}
	if r.Header.Get("Accept") != "text/event-stream" {
		w.upViol = append(w.upViol, fmt.Sprintf("sub %d: sse request without Accept: text/event-stream", i))
	}
	st.seen++
	st.stream = us
	w.streams = append(w.streams, us)
	var g chan struct{}
	if us.tuple >= 0 {
		g = w.gate[us.tuple]
	}
	w.wg.Add(1)
	w.bump()
	w.mu.Unlock()
	defer w.wg.Done()
	defer func() {
		w.mu.Lock()
		us.closed = true
		w.bump()
		w.mu.Unlock()
	}()
	if g != nil {
		select {
		case <-g:
		case <-us.kill:
			panic(http.ErrAbortHandler) // abort the response without a status line
		case <-r.Context().Done():
			return
		case <-w.ctx.Done():
			return
		}
	}
	// open is set before the headers leave: Subscribe returns as soon as the client has them
	w.mu.Lock()
	us.open = true
	w.bump()
	w.mu.Unlock()
	rw.Header().Set("Content-Type", "text/event-stream")
	rw.WriteHeader(200)
	fl, _ := rw.(http.Flusher)
	fl.Flush()
	if !w.c.stepped() {
		w.wg.Add(1)
		go w.stream(i)
	}
	for {
		select {
		case <-r.Context().Done():
			return
		case <-w.ctx.Done():
			return
		case <-us.kill:
			return // dropped by the script just as the headers went out
		case cmd := <-us.cmds:
			if cmd.drop {
				cmd.reply <- nil
				return
			}
			_, err := io.WriteString(rw, cmd.text)
			fl.Flush()
			cmd.reply <- err
		}
	}
}

// sendNext writes the next scripted message of subscription i if that is possible right now
// (subscribe seen, script not exhausted, connection still open). It reports what it did.
func (w *world) sendNext(i int) (sentOne bool, m scriptMsg) {
	w.mu.Lock()
	st := w.subs[i]
	script := w.c.Subs[i].script()
	pos := len(st.sent)
	uc, us := st.conn, st.stream
	if pos >= len(script) || (uc == nil && us == nil) || (uc != nil && (uc.closed || uc.dropped)) || (us != nil && (!us.open || us.closed || us.dropped)) {
		w.mu.Unlock()
		return false, scriptMsg{}
	}
	m = script[pos]
	st.sent = append(st.sent, sent{scriptMsg: m, afterCancel: st.cancelDone})
	wire := st.wire
	w.mu.Unlock()

	var err error
	if uc != nil {
		uc.wmu.Lock()
		err = uc.ws.Write(w.ctx, websocket.MessageText, wsFrame(uc.proto, wire, i, m))
		uc.wmu.Unlock()
	} else {
		cmd := sseCmd{text: sseFrame(i, m), reply: make(chan error, 1)}
		select {
		case us.cmds <- cmd:
			err = <-cmd.reply
		case <-time.After(watch):
			err = fmt.Errorf("sse handler gone")
		case <-w.ctx.Done():
			err = w.ctx.Err()
		}
		w.mu.Lock()
		if us.closed {
			err = fmt.Errorf("sse handler gone")
		}
		w.mu.Unlock()
	}
	w.mu.Lock()
	st.sent[pos].ok, st.sent[pos].done = err == nil, true
	if uc != nil && err == nil {
		uc.written++
		w.log = append(w.log, logEntry{uc.idx, i, m.Kind})
	}
	w.bump()
	w.mu.Unlock()
	return true, m
}

func wsFrame(proto, wire string, i int, m scriptMsg) []byte {
	id, _ := json.Marshal(wire)
	switch m.Kind {
	case "next":
		typ := "next"
		if proto == "graphql-ws" {
			typ = "data"
		}
		return []byte(fmt.Sprintf(`{"id":%s,"type":%q,"payload":{"data":{"s":%d,"n":%d}}}`, id, typ, i, m.N))
	case "error":
		if proto == "graphql-ws" {
			return []byte(fmt.Sprintf(`{"id":%s,"type":"error","payload":{"message":"E","s":%d}}`, id, i))
		}
		return []byte(fmt.Sprintf(`{"id":%s,"type":"error","payload":[{"message":"E","s":%d}]}`, id, i))
	default:
		return []byte(fmt.Sprintf(`{"id":%s,"type":"complete"}`, id))
	}
}

func sseFrame(i int, m scriptMsg) string {
	switch m.Kind {
	case "next":
		return fmt.Sprintf("event: next\ndata: {\"data\":{\"s\":%d,\"n\":%d}}\n\n", i, m.N)
	case "error":
		return fmt.Sprintf("event: error\ndata: [{\"message\":\"E\",\"s\":%d}]\n\n", i)
	default:
		return "event: complete\ndata:\n\n"
	}
}

// stream is the burst-mode upstream behaviour: the whole script of a subscription is written as
// soon as its subscribe is seen; a connection is dropped once DropAfter[tuple] messages were written on it.
func (w *world) stream(i int) {
	defer w.wg.Done()
	for {
		w.mu.Lock()
		st := w.subs[i]
		uc := st.conn
		drop := false
		if uc != nil && uc.tuple >= 0 && uc.tuple < len(w.c.DropAfter) {
			if d := w.c.DropAfter[uc.tuple]; d >= 0 && uc.written >= d && !uc.dropped {
				drop = true
			}
		}
		w.mu.Unlock()
		if drop {
			w.dropConn(uc)
			return
		}
		ok, _ := w.sendNext(i)
		if !ok {
			return
		}
	}
}

// dropConn abruptly closes one upstream connection (no close handshake) and marks every
// subscription that the upstream had seen on it and that has not finished as dropped.
func (w *world) dropConn(uc *upConn) {
	w.mu.Lock()
	if uc.dropped || uc.closed {
		w.mu.Unlock()
		return
	}
	uc.dropped = true
	for _, i := range uc.ids {
		w.subs[i].dropped = true
	}
	w.bump()
	w.mu.Unlock()
	_ = uc.ws.CloseNow()
}

func (w *world) dropStream(us *upStream) {
	w.mu.Lock()
	if us.dropped || us.closed {
		w.mu.Unlock()
		return
	}
	us.dropped = true
	w.subs[us.sub].dropped = true
	open := us.open
	w.bump()
	w.mu.Unlock()
	if !open {
		close(us.kill)
		return
	}
	cmd := sseCmd{drop: true, reply: make(chan error, 1)}
	select {
	case us.cmds <- cmd:
		<-cmd.reply
	case <-time.After(watch):
	case <-w.ctx.Done():
	}
}

// openGate releases the held acks / response headers of one tuple.
func (w *world) openGate(k int) {
	w.mu.Lock()
	if !w.gateOpen[k] {
		w.gateOpen[k] = true
		close(w.gate[k])
		w.bump()
	}
	w.mu.Unlock()
}

// ---- subscriber side ---------------------------------------------------------------------

func (w *world) handler(i int) common.Handler {
	st := w.subs[i]
	return func(m *common.Message) {
		g := got{Type: m.Type, S: -1, N: -1}
		if m.Err != nil {
			g.Err = m.Err.Error()
			g.closedByClient = m.Err == common.ErrConnectionClosed //nolint:errorlint // identity is the point
		}
		if m.Payload != nil {
			switch m.Type {
			case common.MessageTypeData:
				var d struct {
					S *int `json:"s"`
					N *int `json:"n"`
				}
				if json.Unmarshal(m.Payload.Data, &d) == nil && d.S != nil && d.N != nil {
					g.S, g.N = *d.S, *d.N
				}
			case common.MessageTypeError:
				var one struct {
					S *int `json:"s"`
				}
				var many []struct {
					S *int `json:"s"`
				}
				if json.Unmarshal(m.Payload.Errors, &many) == nil && len(many) == 1 && many[0].S != nil {
					g.S = *many[0].S
				} else if json.Unmarshal(m.Payload.Errors, &one) == nil && one.S != nil {
					g.S = *one.S
				}
			}
		}
		on := w.c.Subs[i].On
		w.mu.Lock()
		st.msgs = append(st.msgs, g)
		idx := len(st.msgs) - 1
		if g.Type.IsTerminal() && st.endSeq == 0 {
			w.seq++
			st.endSeq = w.seq
		}
		act := ""
		if on != nil && idx == on.At && !w.closing {
			act = on.Act
			st.handlerActs = append(st.handlerActs, act)
			if act == "block" && !st.released {
				st.blockedNow = true
			}
		}
		w.bump()
		w.mu.Unlock()
		// scripted behaviour, synchronously on the client's delivering goroutine
		switch act {
		case "cancel-self":
			w.endSub(i, true, false, true)
		case "cancel-other":
			if on.Other >= 0 && on.Other < len(w.subs) {
				w.endSub(on.Other, true, false, true)
			}
		case "block":
			<-st.release
			w.mu.Lock()
			st.blockedNow = false
			w.bump()
			w.mu.Unlock()
		}
	}
}

// releaseHandler lets a blocked handler of subscription i continue (idempotent).
func (w *world) releaseHandler(i int) {
	st := w.subs[i]
	w.mu.Lock()
	if !st.released {
		st.released = true
		close(st.release)
	}
	w.mu.Unlock()
}

// readerBlocked reports whether the delivery goroutine that serves subscription i stands still in
// somebody's blocked handler: its own for sse, any subscription's on the same connection for websocket.
// Callers hold w.mu.
func (w *world) readerBlocked(i int) bool {
	st := w.subs[i]
	if st.blockedNow {
		return true
	}
	if st.conn == nil {
		return false
	}
	for _, j := range st.conn.ids {
		if w.subs[j].blockedNow {
			return true
		}
	}
	return false
}

// start launches the Subscribe call of subscription i in its own goroutine.
func (w *world) start(i int) {
	st := w.subs[i]
	t := w.c.Tuples[w.c.Subs[i].Tuple]
	opts := t.options(w.srv.URL)
	w.mu.Lock()
	st.started = true
	w.seq++
	st.startSeq = w.seq
	w.mu.Unlock()
	w.wg.Add(1)
	go func() {
		defer w.wg.Done()
		unsub, err := w.cl.Subscribe(st.ctx, request(i), opts, w.handler(i))
		w.mu.Lock()
		w.seq++
		st.returnSeq = w.seq
		st.returned, st.err, st.unsub = true, err, unsub
		mine := err == nil && st.ctx.Err() != nil // cancelled while subscribing: the caller's AfterFunc fires at once
		w.bump()
		w.mu.Unlock()
		if mine || err != nil {
			// detached: a client that stalls an unsubscribe must show up as a missing cancelDone, not as a
			// harness goroutine the teardown waits for
			go func() {
				if mine {
					unsub()
				}
				w.mu.Lock()
				if st.ctx.Err() != nil {
					st.cancelDone = true
				}
				w.bump()
				w.mu.Unlock()
			}()
		}
	}()
}

// cancelSub is what the production caller does when its client goes away: the context passed to
// Subscribe is cancelled and the returned unsubscribe func is called (graphql_subscription_client.go
// registers exactly that with context.AfterFunc).
func (w *world) cancelSub(i int, byCase bool) { w.endSub(i, byCase, false, false) }

// expireSub ends subscription i through its own deadline: ctx.Err() becomes context.DeadlineExceeded. The
// production caller reacts to that exactly as to a cancel (context.AfterFunc fires on either).
func (w *world) expireSub(i int) { w.endSub(i, true, true, false) }

// endSub ends subscription i. The unsubscribe func runs on a detached goroutine (cancelDone reports when
// it returned) unless inHandler is set: a handler that cancels does so synchronously, on the client's
// delivering goroutine - that is the whole point of that behaviour.
func (w *world) endSub(i int, byCase, deadline, inHandler bool) {
	st := w.subs[i]
	w.mu.Lock()
	if st.ctx.Err() != nil {
		w.mu.Unlock()
		return
	}
	if st.endSeq == 0 {
		w.seq++
		st.endSeq = w.seq
	}
	if byCase {
		st.cancelIssued = true
		st.earlyCancel = !st.returned
		// every same-tuple Subscribe call in flight right now could be waiting on this one's dial
		for _, o := range w.subs {
			if o != st && o.started && !o.returned && w.c.Subs[o.i].Tuple == w.c.Subs[i].Tuple {
				o.inFlightCancel = append(o.inFlightCancel, i)
			}
		}
	}
	if deadline {
		st.expired = true
		st.ctx.end(context.DeadlineExceeded)
	}
	st.cancel() // under w.mu: the Subscribe goroutine reads ctx.Err() under w.mu too, so exactly one side unsubscribes
	ret, unsub, err := st.returned, st.unsub, st.err
	w.mu.Unlock()
	if ret {
		fin := func() {
			if err == nil && unsub != nil {
				unsub()
			}
			w.mu.Lock()
			st.cancelDone = true
			w.bump()
			w.mu.Unlock()
		}
		if inHandler {
			fin()
		} else {
			go fin()
		}
	}
}

// liveOn counts the subscriptions the upstream believes are still running on uc.
func (w *world) liveOn(uc *upConn) int {
	n := 0
	for _, i := range uc.ids {
		st := w.subs[i]
		if st.stopSeen {
			continue
		}
		if k := len(st.sent); k > 0 && st.sent[k-1].Kind != "next" {
			continue
		}
		n++
	}
	return n
}

func (st *subState) terminalAt() int {
	for k, m := range st.msgs {
		if m.Type.IsTerminal() {
			return k
		}
	}
	return -1
}
