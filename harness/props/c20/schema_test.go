package c20

import (
	"fmt"
	"sort"
	"strings"
	"sync"

	"github.com/vektah/gqlparser/v2"
	"github.com/vektah/gqlparser/v2/ast"

	grpcdatasource "github.com/wundergraph/graphql-go-tools/v2/pkg/engine/datasource/grpc_datasource"
	"github.com/wundergraph/graphql-go-tools/v2/pkg/grpctest"
	"github.com/wundergraph/graphql-go-tools/v2/pkg/grpctest/mapping"
)

// federation directives used by products.graphqls but not declared in it
const directivePrelude = "directive @key(fields: String!) repeatable on OBJECT\ndirective @external on FIELD_DEFINITION\ndirective @requires(fields: String!) on FIELD_DEFINITION\n"

type unitKind string

const (
	unitRoot     unitKind = "root"
	unitMutation unitKind = "mutation"
	unitResolver unitKind = "resolver"
	unitRequires unitKind = "requires"
	unitEntity   unitKind = "entity-field"
)

// unit is a root field, field resolver, @requires field or entity-lookup field: the
// granularity at which the mock service may be non-deterministic or not implemented.
type unit struct {
	Key  string // Type.field
	Kind unitKind
	Type string
	Def  *ast.FieldDefinition
	RPC  string
}

// world is the static description of one rig: its schema (gqlparser), the fields the
// generator may select (those present in mapping.DefaultGRPCMapping()) and the units.
type world struct {
	rig      string
	schema   *ast.Schema
	mapping  *grpcdatasource.GRPCMapping
	allowed  map[string][]*ast.FieldDefinition // type name -> selectable fields, schema order
	units    map[string]*unit
	entities map[string]bool // entity types answered through _entities lookups (fed rig)
	target   map[string]string
}

var (
	worldOnce             sync.Once
	worldPlain, worldFedW *world
	worldErr              error
)

func worlds() (*world, *world, error) {
	worldOnce.Do(func() {
		p, f, err := rigs()
		if err != nil {
			worldErr = err
			return
		}
		if worldPlain, err = newWorld("plain", p.sdl); err != nil {
			worldErr = err
			return
		}
		worldFedW, worldErr = newWorld("fed", f.sdl)
	})
	return worldPlain, worldFedW, worldErr
}

func worldByName(name string) (*world, error) {
	p, f, err := worlds()
	if err != nil {
		return nil, err
	}
	if name == "fed" {
		return f, nil
	}
	return p, nil
}

func hasDirective(f *ast.FieldDefinition, name string) bool { return f.Directives.ForName(name) != nil }

func isResolverField(parent *ast.Definition, f *ast.FieldDefinition, root bool) bool {
	if root {
		return false
	}
	return len(f.Arguments) > 0 || hasDirective(f, "connect__fieldResolver")
}

func newWorld(rig, sdl string) (*world, error) {
	schema, err := gqlparser.LoadSchema(&ast.Source{Name: rig, Input: directivePrelude + sdl})
	if err != nil {
		return nil, fmt.Errorf("gqlparser cannot load the %s schema: %v", rig, err)
	}
	m := mapping.DefaultGRPCMapping()
	w := &world{rig: rig, schema: schema, mapping: m, allowed: map[string][]*ast.FieldDefinition{}, units: map[string]*unit{}, entities: map[string]bool{}, target: map[string]string{}}
	if rig == "fed" {
		for _, k := range grpctest.GetDataSourceMetadata().FederationMetaData.Keys {
			w.entities[k.TypeName] = true
		}
	}
	names := make([]string, 0, len(schema.Types))
	for n := range schema.Types {
		names = append(names, n)
	}
	sort.Strings(names)
	mappedObject := func(def *ast.Definition, f *ast.FieldDefinition) bool {
		fm, ok := m.Fields[def.Name]
		if !ok {
			return false
		}
		d, ok := fm[f.Name]
		return ok && d.TargetName != ""
	}
	for _, n := range names {
		def := schema.Types[n]
		if strings.HasPrefix(n, "__") || (def.Kind != ast.Object && def.Kind != ast.Interface) {
			continue
		}
		for _, f := range def.Fields {
			if strings.HasPrefix(f.Name, "_") {
				continue
			}
			key := def.Name + "." + f.Name
			switch {
			case def == schema.Query && rig == "plain":
				if c, ok := m.QueryRPCs[f.Name]; ok {
					w.units[key] = &unit{Key: key, Kind: unitRoot, Type: def.Name, Def: f, RPC: c.RPC}
					w.allowed[def.Name] = append(w.allowed[def.Name], f)
				}
			case def == schema.Query:
				// federated rig: root fields belong to the owning subgraph
				w.units[key] = &unit{Key: key, Kind: unitRoot, Type: def.Name, Def: f}
				w.allowed[def.Name] = append(w.allowed[def.Name], f)
			case def == schema.Mutation:
				if rig != "plain" {
					continue
				}
				if c, ok := m.MutationRPCs[f.Name]; ok {
					w.units[key] = &unit{Key: key, Kind: unitMutation, Type: def.Name, Def: f, RPC: c.RPC}
					w.allowed[def.Name] = append(w.allowed[def.Name], f)
				}
			case def.Kind == ast.Interface:
				ok := true
				for _, pt := range schema.GetPossibleTypes(def) {
					if pf := pt.Fields.ForName(f.Name); pf == nil || !mappedObject(pt, pf) {
						ok = false
					}
				}
				if ok {
					w.allowed[def.Name] = append(w.allowed[def.Name], f)
				}
			case hasDirective(f, "external"):
				// owned by the other subgraph: not a gRPC answer, never selected
			case hasDirective(f, "requires"):
				if !w.entities[def.Name] {
					continue // only reachable through an entity fetch
				}
				for _, e := range m.EntityRPCs[def.Name] {
					if c, ok := e.RequiredFields[f.Name]; ok && mappedObject(def, f) {
						w.units[key] = &unit{Key: key, Kind: unitRequires, Type: def.Name, Def: f, RPC: c.RPC}
						w.allowed[def.Name] = append(w.allowed[def.Name], f)
						w.target[key] = m.Fields[def.Name][f.Name].TargetName
					}
				}
			case isResolverField(def, f, false):
				if rm, ok := m.ResolveRPCs[def.Name]; ok {
					if c, ok := rm[f.Name]; ok && mappedObject(def, f) {
						w.units[key] = &unit{Key: key, Kind: unitResolver, Type: def.Name, Def: f, RPC: c.RPC}
						w.allowed[def.Name] = append(w.allowed[def.Name], f)
						w.target[key] = c.FieldMappingData.TargetName
					}
				}
			default:
				if mappedObject(def, f) {
					w.allowed[def.Name] = append(w.allowed[def.Name], f)
					w.target[key] = m.Fields[def.Name][f.Name].TargetName
					if w.entities[def.Name] && f.Name != "id" {
						rpc := ""
						if es := m.EntityRPCs[def.Name]; len(es) > 0 {
							rpc = es[0].RPC
						}
						w.units[key] = &unit{Key: key, Kind: unitEntity, Type: def.Name, Def: f, RPC: rpc}
					}
				}
			}
		}
	}
	return w, nil
}

func (w *world) unitOf(parent *ast.Definition, f *ast.FieldDefinition) *unit {
	if parent == nil || f == nil {
		return nil
	}
	return w.units[parent.Name+"."+f.Name]
}

func (w *world) sortedUnitKeys() []string {
	ks := make([]string, 0, len(w.units))
	for k := range w.units {
		ks = append(ks, k)
	}
	sort.Strings(ks)
	return ks
}

// possible returns the possible object types of a composite type, sorted by name.
func (w *world) possible(def *ast.Definition) []*ast.Definition {
	if def.Kind == ast.Object {
		return []*ast.Definition{def}
	}
	pts := append([]*ast.Definition{}, w.schema.GetPossibleTypes(def)...)
	sort.Slice(pts, func(i, j int) bool { return pts[i].Name < pts[j].Name })
	return pts
}
