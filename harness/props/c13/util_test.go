//go:build verif

package c13

import (
	"fmt"
	"os"
	"path/filepath"

	"verif/harness/pbt"
)

func writeViolation(r *pbt.Run, part string, doc []byte) {
	_ = os.WriteFile(filepath.Join(r.OutDir, fmt.Sprintf("viol-%s-%s-%d.json", r.ID, part, r.Shard)), doc, 0o644)
}
