package c02

// A small order-preserving JSON value model. The checker must see duplicate keys, key order and
// the raw text of numbers, none of which survive encoding/json's map decoding; the generator
// must be able to print documents with a chosen key order.

import (
	"bytes"
	"encoding/json"
	"fmt"
	"io"
	"math/big"
	"strconv"
	"strings"
)

type jkind int

const (
	jNull jkind = iota
	jBool
	jNum
	jStr
	jArr
	jObj
)

func (k jkind) String() string {
	return [...]string{"null", "bool", "number", "string", "array", "object"}[k]
}

// jv is one JSON value. Objects keep their members in document order (duplicates included).
type jv struct {
	k    jkind
	b    bool
	s    string // decoded string, or raw number text
	arr  []*jv
	keys []string
	vals []*jv
}

func jnull() *jv            { return &jv{k: jNull} }
func jstr(s string) *jv     { return &jv{k: jStr, s: s} }
func jnum(raw string) *jv   { return &jv{k: jNum, s: raw} }
func jbool(b bool) *jv      { return &jv{k: jBool, b: b} }
func jarr(items ...*jv) *jv { return &jv{k: jArr, arr: items} }
func jobj() *jv             { return &jv{k: jObj} }

func (v *jv) isNull() bool { return v == nil || v.k == jNull }

// get returns the first member named key (nil when absent).
func (v *jv) get(key string) *jv {
	if v == nil || v.k != jObj {
		return nil
	}
	for i, k := range v.keys {
		if k == key {
			return v.vals[i]
		}
	}
	return nil
}

func (v *jv) has(key string) bool { return v.get(key) != nil }

func (v *jv) set(key string, val *jv) {
	for i, k := range v.keys {
		if k == key {
			v.vals[i] = val
			return
		}
	}
	v.keys = append(v.keys, key)
	v.vals = append(v.vals, val)
}

func (v *jv) del(key string) {
	for i, k := range v.keys {
		if k == key {
			v.keys = append(v.keys[:i:i], v.keys[i+1:]...)
			v.vals = append(v.vals[:i:i], v.vals[i+1:]...)
			return
		}
	}
}

func (v *jv) clone() *jv {
	if v == nil {
		return nil
	}
	c := &jv{k: v.k, b: v.b, s: v.s}
	if v.arr != nil {
		c.arr = make([]*jv, len(v.arr))
		for i, x := range v.arr {
			c.arr[i] = x.clone()
		}
	}
	if v.keys != nil {
		c.keys = append([]string(nil), v.keys...)
		c.vals = make([]*jv, len(v.vals))
		for i, x := range v.vals {
			c.vals[i] = x.clone()
		}
	}
	return c
}

func (v *jv) write(b *bytes.Buffer) {
	switch {
	case v == nil || v.k == jNull:
		b.WriteString("null")
	case v.k == jBool:
		b.WriteString(strconv.FormatBool(v.b))
	case v.k == jNum:
		b.WriteString(v.s)
	case v.k == jStr:
		writeJSONString(b, v.s)
	case v.k == jArr:
		b.WriteByte('[')
		for i, x := range v.arr {
			if i > 0 {
				b.WriteByte(',')
			}
			x.write(b)
		}
		b.WriteByte(']')
	default:
		b.WriteByte('{')
		for i, k := range v.keys {
			if i > 0 {
				b.WriteByte(',')
			}
			writeJSONString(b, k)
			b.WriteByte(':')
			v.vals[i].write(b)
		}
		b.WriteByte('}')
	}
}

func writeJSONString(b *bytes.Buffer, s string) {
	enc, _ := json.Marshal(s) // escapes <,>,& as \u00XX: still valid JSON, exercises \u decoding
	b.Write(enc)
}

func (v *jv) String() string {
	var b bytes.Buffer
	v.write(&b)
	return b.String()
}

// parseJSON decodes exactly one JSON value (RFC 8259 via encoding/json's tokenizer) and
// rejects trailing data. Key order, duplicate keys and raw number text are preserved.
func parseJSON(data []byte) (*jv, error) {
	if !json.Valid(data) {
		return nil, fmt.Errorf("not valid JSON")
	}
	dec := json.NewDecoder(bytes.NewReader(data))
	dec.UseNumber()
	v, err := parseValue(dec)
	if err != nil {
		return nil, err
	}
	if _, err := dec.Token(); err != io.EOF {
		return nil, fmt.Errorf("trailing data after JSON value")
	}
	return v, nil
}

func parseValue(dec *json.Decoder) (*jv, error) {
	tok, err := dec.Token()
	if err != nil {
		return nil, err
	}
	switch t := tok.(type) {
	case nil:
		return jnull(), nil
	case bool:
		return jbool(t), nil
	case json.Number:
		return jnum(string(t)), nil
	case string:
		return jstr(t), nil
	case json.Delim:
		switch t {
		case '[':
			out := &jv{k: jArr, arr: []*jv{}}
			for dec.More() {
				x, err := parseValue(dec)
				if err != nil {
					return nil, err
				}
				out.arr = append(out.arr, x)
			}
			if _, err := dec.Token(); err != nil {
				return nil, err
			}
			return out, nil
		case '{':
			out := &jv{k: jObj}
			for dec.More() {
				kt, err := dec.Token()
				if err != nil {
					return nil, err
				}
				k, ok := kt.(string)
				if !ok {
					return nil, fmt.Errorf("object key is not a string")
				}
				x, err := parseValue(dec)
				if err != nil {
					return nil, err
				}
				out.keys = append(out.keys, k)
				out.vals = append(out.vals, x)
			}
			if _, err := dec.Token(); err != nil {
				return nil, err
			}
			return out, nil
		}
	}
	return nil, fmt.Errorf("unexpected token %v", tok)
}

// numEqual compares two JSON number texts by exact rational value.
func numEqual(a, b string) bool {
	if a == b {
		return true
	}
	ra, ok1 := new(big.Rat).SetString(a)
	rb, ok2 := new(big.Rat).SetString(b)
	if !ok1 || !ok2 {
		return false
	}
	return ra.Cmp(rb) == 0
}

// numIsInt32 reports whether the number text denotes an integer in the GraphQL Int range.
func numIsInt32(raw string) bool {
	r, ok := new(big.Rat).SetString(raw)
	if !ok || !r.IsInt() {
		return false
	}
	n := r.Num()
	return n.IsInt64() && n.Int64() >= -(1<<31) && n.Int64() <= (1<<31)-1
}

func numIsInteger(raw string) bool {
	if len(raw) > 40 && strings.ContainsAny(raw, "eE") {
		return false
	}
	r, ok := new(big.Rat).SetString(raw)
	return ok && r.IsInt()
}

// jsonEqual is semantic equality: numbers by value, strings by decoded content, objects as
// key→value maps compared member-wise in any order (first occurrence wins on duplicates).
func jsonEqual(a, b *jv) bool {
	if a.isNull() || b.isNull() {
		return a.isNull() && b.isNull()
	}
	if a.k != b.k {
		return false
	}
	switch a.k {
	case jBool:
		return a.b == b.b
	case jNum:
		return numEqual(a.s, b.s)
	case jStr:
		return a.s == b.s
	case jArr:
		if len(a.arr) != len(b.arr) {
			return false
		}
		for i := range a.arr {
			if !jsonEqual(a.arr[i], b.arr[i]) {
				return false
			}
		}
		return true
	default:
		ak, bk := distinctKeys(a), distinctKeys(b)
		if len(ak) != len(bk) {
			return false
		}
		for _, k := range ak {
			if !b.has(k) || !jsonEqual(a.get(k), b.get(k)) {
				return false
			}
		}
		return true
	}
}

func distinctKeys(v *jv) []string {
	seen := map[string]bool{}
	var out []string
	for _, k := range v.keys {
		if !seen[k] {
			seen[k] = true
			out = append(out, k)
		}
	}
	return out
}

// pathKey renders a response path ([]any of string|int) canonically.
func pathKey(p []any) string {
	var b strings.Builder
	for _, s := range p {
		switch x := s.(type) {
		case string:
			b.WriteByte('/')
			b.WriteString(x)
		case int:
			b.WriteByte('#')
			b.WriteString(strconv.Itoa(x))
		}
	}
	if b.Len() == 0 {
		return "<data>"
	}
	return b.String()
}

func pathAppend(p []any, seg any) []any {
	out := make([]any, len(p)+1)
	copy(out, p)
	out[len(p)] = seg
	return out
}

// pathFromJSON converts an error's "path" array; ok=false when it is not an array of
// strings and non-negative integers.
func pathFromJSON(v *jv) ([]any, bool) {
	if v == nil || v.k != jArr {
		return nil, false
	}
	out := make([]any, 0, len(v.arr))
	for _, s := range v.arr {
		switch s.k {
		case jStr:
			out = append(out, s.s)
		case jNum:
			n, err := strconv.Atoi(s.s)
			if err != nil || n < 0 {
				return nil, false
			}
			out = append(out, n)
		default:
			return nil, false
		}
	}
	return out, true
}

func hasPrefixPath(p, prefix []any) bool {
	if len(prefix) > len(p) {
		return false
	}
	for i := range prefix {
		if p[i] != prefix[i] {
			return false
		}
	}
	return true
}
