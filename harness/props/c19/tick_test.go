package c19

import (
	"strings"
	"time"

	"pgregory.net/rapid"

	"verif/harness/pbt"
)

// Init-timeout part (graphql-transport-ws only). CustomInitTimeOutDuration is injectable as a
// duration (not as a clock), so the "tick" of the alphabet is driven like this, one-sidedly:
//
//   - the case uses a short init timeout (tens of ms);
//   - tick while the reference says "not initialised": the driver waits (watchdog 150x the
//     timeout) until the connection is closed; the acceptor then demands code 4408. If the
//     watchdog expires the case is inconclusive, unless the goroutine dump shows that no
//     subscription.TimeOutChecker goroutine exists any more: then the timer has ended without
//     closing the connection, which is reported.
//   - tick after a successful init: the driver sleeps 3x the timeout to give a timer that was
//     wrongly left running the chance to fire; a 4408 after the ack is a violation. If the
//     ack was written later than half the timeout after the connection opened (loaded
//     machine) the case is discarded: the cancel could have raced with the firing timer.
//   - a 4408 that arrives early (anywhere before the init has been handled) is accepted.

const evTICK = "TICK"

func (r *rig) tick(c Case, out *outcome) {
	to := time.Duration(c.TimeoutMs) * time.Millisecond
	if to <= 0 {
		return
	}
	res := accept(c, r.snapshot(), false)
	n := 0
	if res.inited {
		n = 1
	}
	r.log(event{K: evTICK, M: -1, N: n})
	if res.inited {
		time.Sleep(3 * to)
		return
	}
	wd := 150 * to
	if wd < 3*time.Second {
		wd = 3 * time.Second
	}
	if r.wait(wd, func() bool { return !r.connected }) {
		return
	}
	if d := goroutineDump(); !strings.Contains(d, "subscription.TimeOutChecker") {
		r.log(event{K: "TIMERGONE", M: -1})
		return
	}
	out.inconclusive = "tick: the init timer did not fire within " + wd.String()
}

func genTick(t *rapid.T) Case {
	c := Case{Proto: protoTWS, TimeoutMs: rapid.SampledFrom([]int{20, 30, 40}).Draw(t, "timeout")}
	early := pct40.draw(t, "initFirst") == "y"
	if early {
		c.Msgs = append(c.Msgs, Msg{K: "init", V: atoi(poolInitOK.draw(t, "initv"))})
	}
	np := rapid.IntRange(0, 3).Draw(t, "prefix")
	for i := 0; i < np; i++ {
		var kind string
		if early {
			kind = poolTickA.draw(t, "kind")
		} else {
			kind = poolTickB.draw(t, "kind")
		}
		m := Msg{K: kind}
		switch kind {
		case "sub":
			m.ID = poolID.draw(t, "id")
			m.X = &Script{Op: poolTickOp.draw(t, "op"), N: 1, End: "ok", Gate: -1, Rel: -1}
			if m.X.Op == "subscription" {
				m.X.End = "hold"
			}
		case "complete":
			m.ID = poolID.draw(t, "id")
		case "init":
			m.V = 3 // rejected: leaves the connection uninitialised (or closes it)
		case "shape":
			m.V = rapid.SampledFrom([]int{0, 1, 2, 3, 4}).Draw(t, "v") // shapes the code ignores
		case "ping":
			m.V = rapid.IntRange(0, 1).Draw(t, "v")
		}
		c.Msgs = append(c.Msgs, m)
	}
	c.Msgs = append(c.Msgs, Msg{K: "tick"})
	ns := rapid.IntRange(0, 2).Draw(t, "suffix")
	for i := 0; i < ns; i++ {
		kind := poolTickC.draw(t, "kind")
		m := Msg{K: kind}
		if kind == "sub" {
			m.ID = poolID.draw(t, "id")
			m.X = &Script{Op: "query", End: "ok", Gate: -1, Rel: -1}
		}
		c.Msgs = append(c.Msgs, m)
	}
	return c
}

var (
	poolTickA  = newPool("sub", 5, "complete", 2, "ping", 2, "pong", 1)
	poolTickB  = newPool("ping", 3, "pong", 2, "complete", 2, "shape", 2, "empty", 1, "init", 2, "sub", 1)
	poolTickC  = newPool("sub", 3, "ping", 1, "init", 1)
	poolTickOp = newPool("subscription", 1, "query", 1)
)

var tickPart = pbt.Part[Case]{Name: "tws-init-timeout", Quick: 480, Thorough: 4800, Gen: genTick, Check: checkTick}

func checkTick(c Case, o *pbt.Rec) pbt.Verdict {
	if c.Proto != protoTWS || c.TimeoutMs <= 0 {
		return pbt.Bad("malformed case: the init-timeout part needs proto tws and timeout_ms > 0")
	}
	o.Journal()
	out := drive(c)
	if out.wedged != "" {
		return pbt.Bad("the connection is wedged: %s\nhistory: %s", out.wedged, histString(out.hist))
	}
	if out.inconclusive != "" {
		o.Discard("watchdog")
		o.Label("inconclusive:" + strings.SplitN(out.inconclusive, " ", 3)[0])
		return pbt.OK
	}
	to := time.Duration(c.TimeoutMs) * time.Millisecond
	ticked, timerGone, initedAtTick := false, false, false
	for _, e := range out.hist {
		switch {
		case e.K == evW && e.Type == "connection_ack" && time.Duration(e.At) > to/2:
			o.Discard("ack-later-than-half-the-init-timeout")
			return pbt.OK
		case e.K == evTICK:
			ticked, initedAtTick = true, e.N == 1
		case e.K == "TIMERGONE":
			timerGone = true
		}
	}
	res := accept(c, out.hist, true)
	if ticked {
		if initedAtTick {
			o.Label("tick:after-init")
		} else {
			o.Label("tick:before-init")
		}
	} else {
		o.Label("tick:connection-closed-before-tick")
	}
	if timerGone && res.closeCode == 0 {
		res.viols = append(res.viols, viol{Msg: "no connection_init arrived within the init timeout, the timer goroutine (subscription.TimeOutChecker) has ended, but the connection was not closed with 4408"})
	}
	if ticked && !initedAtTick && res.closeCode != 4408 && !timerGone {
		res.viols = append(res.viols, viol{Msg: "no connection_init arrived within the init timeout; the connection must be closed with 4408"})
	}
	return verdictOf(c, out, res, o)
}
