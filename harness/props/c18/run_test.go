package c18

import (
	"context"
	"fmt"
	"runtime"
	"sort"
	"sync"
	"sync/atomic"
	"time"

	client "github.com/wundergraph/graphql-go-tools/v2/pkg/engine/datasource/graphql_datasource/subscriptionclient"
)

// outcome is what one execution of a case produced, beyond the per-subscription records in the world.
type outcome struct {
	w                                                     *world
	inconclusive                                          []string // a wait that is only a synchronisation aid expired: the case gives no verdict
	liveness                                              []string // an event that must happen did not, even after re-sampling twice after a long grace
	leak                                                  string   // quiescence: connections still open long after the last subscription ended
	stats                                                 client.Stats
	aidExpired                                            []string
	sentWhileBlocked, cancelWhileBlocked, subWhileBlocked int         // steps executed while a blocked handler held the connection's reader
	abandonedOn                                           map[int]int // abandoned dials per tuple
	abandoned                                             int         // dials abandoned by their dialler through "abandon" steps
	idleWaited                                            bool        // waited out a pending idle timer on a reused connection with live subscriptions
	joinedDial                                            int         // subscriptions started while an un-acked connection of their tuple existed (probable dial joiners)
}

// established is set once this process has reported a time-based violation (liveness or quiescence)
// after the full watchdog and both re-samples. The verdict of the run is fixed from then on (replay file
// written, exit 1); paying another watch+2*grace for every further expiry - shrink attempts, saved
// regression cases, the other parts - only makes a broken tree take minutes to report. Later expiries
// therefore end the execution as inconclusive after fastWatch. Consequence: time-based violations are not
// shrunk (the replay is the first, fully established case); nothing is ever reported on less than the
// full grace.
var established atomic.Bool

const fastWatch = 1500 * time.Millisecond

// violated is set by the first violation of any kind in this process. Waits whose expiry is merely
// inconclusive (sync, aid) then use fastSync: a broken tree often makes exactly those waits expire in
// every shrink attempt, and 4 s each turns a 20 s run into minutes without changing the verdict.
var violated atomic.Bool

const fastSync = 400 * time.Millisecond

func (o *outcome) incon(f string, a ...any) {
	o.inconclusive = append(o.inconclusive, fmt.Sprintf(f, a...))
}

// expect waits for an event that the client is obliged to produce. Expiry of the first watchdog is
// not a verdict: the predicate is re-sampled twice after a long grace period before the absence is
// reported (DESIGN §5: time is never a correctness signal except as a last-resort liveness watchdog).
func (o *outcome) expect(what string, pred func() bool) bool {
	if established.Load() {
		if o.w.wait(fastWatch, 0, pred) {
			return true
		}
		o.incon("after-established-violation: %s", what)
		return false
	}
	if o.w.wait(watch, 0, pred) {
		return true
	}
	if o.w.wait(grace, 50*time.Millisecond, pred) {
		return true
	}
	if o.w.wait(grace, 50*time.Millisecond, pred) {
		return true
	}
	o.liveness = append(o.liveness, what)
	return false
}

// sync waits for an event that only keeps the schedule deterministic; expiry makes the case
// inconclusive, never a violation.
func (o *outcome) sync(what string, pred func() bool) bool {
	d := watch
	if violated.Load() {
		d = fastSync // expiry is inconclusive either way; after a violation nobody waits 4 s for that
	}
	if o.w.wait(d, 0, pred) {
		return true
	}
	o.incon("%s", what)
	return false
}

// aid waits for an event that merely keeps later steps from racing with the tail of this one. Expiry
// is counted (label aid-expired:*) so that a systematic miss shows up in the evidence, nothing more.
func (o *outcome) aid(what string, pred func() bool) {
	if violated.Load() {
		// after a violation (shrinking, remaining cases): short wait, and an expiry ends the execution as
		// inconclusive rather than letting later steps run on an unsettled state
		if !o.w.wait(fastSync, 0, pred) {
			o.incon("after-violation: aid %s", what)
		}
		return
	}
	if !o.w.wait(watch, 0, pred) {
		o.aidExpired = append(o.aidExpired, what)
	}
}

func (w *world) initCount(k int) int {
	n := 0
	for _, c := range w.conns {
		if c.initSeen && c.tuple == k {
			n++
		}
	}
	return n
}

func (w *world) pendingInit(k int) bool {
	for _, c := range w.conns {
		if c.initSeen && c.tuple == k && !c.acked && !c.closed && !c.dropped {
			return true
		}
	}
	return false
}

// healthyConns is the number of WebSocket connections the upstream considers established and alive.
func (w *world) healthyConns() int {
	n := 0
	for _, c := range w.conns {
		if c.acked && !c.closed && !c.dropped {
			n++
		}
	}
	return n
}

// probeConns asks every connection of tuple k (k < 0: all) that the upstream believes open for a
// WebSocket-level pong. A connection the client has silently closed fails the ping; the upstream's
// read loop then reports it closed. This turns "the client killed a shared connection" into an
// observable event at a synchronisation point instead of something that surfaces whenever.
func (w *world) probeConns(k int) {
	w.mu.Lock()
	var ucs []*upConn
	for _, uc := range w.conns {
		// a reader that stands still in a blocked handler cannot answer a ping either: nothing to learn there
		if (k < 0 || uc.tuple == k) && uc.acked && !uc.closed && !uc.dropped && !w.readerBlockedConn(uc) {
			ucs = append(ucs, uc)
		}
	}
	w.mu.Unlock()
	for _, uc := range ucs {
		uc := uc
		ctx, cancel := context.WithTimeout(w.ctx, watch)
		err := uc.ws.Ping(ctx)
		cancel()
		if err != nil {
			w.wait(watch, 0, func() bool { return uc.closed })
		}
	}
}

func run(c Case) *outcome {
	cc := clientCfg{}
	if c.Ping != nil {
		cc.pingInterval = time.Duration(c.Ping.IntervalMs) * time.Millisecond
		cc.pingTimeout = time.Duration(c.Ping.TimeoutMs) * time.Millisecond
	}
	w := newWorld(c, cc)
	o := &outcome{w: w, abandonedOn: map[int]int{}}
	defer w.close()
	if c.stepped() {
		for _, s := range c.Steps {
			if !o.step(s) || len(o.liveness) > 0 || len(o.inconclusive) > 0 {
				break
			}
		}
	} else {
		o.burst()
	}
	o.finish()
	return o
}

func (o *outcome) step(s Step) bool {
	w, c := o.w, o.w.c
	switch s.Op {
	case "sub":
		i := s.Sub
		st := w.subs[i]
		k := c.Subs[i].Tuple
		w.mu.Lock()
		open := w.gateOpen[k]
		n0 := w.initCount(k)
		pending := !c.Tuples[k].SSE && w.pendingInit(k)
		if pending {
			o.joinedDial++
		}
		for j, sj := range w.subs {
			if j != i && c.Subs[j].Tuple == k && sj.blockedNow && sj.conn != nil && !sj.conn.closed && !sj.conn.dropped {
				o.subWhileBlocked++ // the pooled connection's reader stands still in a handler: Subscribe must still return
				break
			}
		}
		w.mu.Unlock()
		w.start(i)
		if open {
			if !o.expect(fmt.Sprintf("Subscribe of sub %d returns (its upstream answers at once)", i), func() bool { return st.returned }) {
				return false
			}
			// the subscribe message is on the wire; let the upstream register it before the next step
			o.aid("subscribe-seen", func() bool { return st.err != nil || st.seen > 0 || st.cancelIssued })
			w.mu.Lock()
			pre := st.cancelIssued
			w.mu.Unlock()
			if pre && !c.Tuples[k].SSE {
				w.probeConns(k)
			}
			return true
		}
		// The upstream holds the ack. A dialling subscriber becomes visible through its
		// connection_init; one that joins a dial in progress is invisible, so give it the settle
		// interval (one-sided: if it has not joined by then, a later cancel of the dialler simply
		// does not concern it).
		if c.Tuples[k].SSE {
			o.sync(fmt.Sprintf("upstream sees the sse request of sub %d", i), func() bool { return st.seen > 0 || st.returned })
			return true
		}
		if !pending {
			// nobody is dialling this tuple as far as the upstream can tell: this subscriber dials, and its
			// connection_init is an observable event
			o.sync(fmt.Sprintf("upstream sees the connection_init of the dial started for sub %d", i), func() bool { return st.returned || w.initCount(k) > n0 })
			return true
		}
		w.wait(settle, 0, func() bool { return st.returned || w.initCount(k) > n0 })
	case "ack":
		k := s.Key
		w.openGate(k)
		for i, st := range w.subs {
			if c.Subs[i].Tuple != k || !st.started {
				continue
			}
			st := st
			if !o.expect(fmt.Sprintf("Subscribe of sub %d returns after the upstream acknowledged", i), func() bool { return st.returned }) {
				return false
			}
			o.aid("subscribe-seen-after-ack", func() bool { return st.err != nil || st.seen > 0 || st.cancelIssued })
		}
	case "send":
		i := s.Sub
		st := w.subs[i]
		w.mu.Lock()
		actsBefore := len(st.handlerActs)
		w.mu.Unlock()
		ok, m := w.sendNext(i)
		if !ok {
			return true
		}
		w.mu.Lock()
		cancelled := st.cancelIssued
		pos := len(st.sent) - 1
		wrote := st.sent[pos].ok
		uc := st.conn
		stalled := w.readerBlocked(i) // a blocked handler holds up delivery on this connection: documented, not asserted
		if stalled {
			o.sentWhileBlocked++
		}
		w.mu.Unlock()
		if !cancelled && wrote && !stalled {
			if !o.expect(fmt.Sprintf("sub %d receives message #%d (%s) the upstream sent for it", i, pos, m.Kind), func() bool {
				// readerBlocked: a handler on its connection blocked in the meantime (possibly its own, on an earlier
				// message that had not been delivered yet): delivery stands still by contract, nothing is owed now
				return st.terminalAt() >= 0 || len(st.msgs) > pos || st.cancelIssued || w.readerBlocked(i)
			}) {
				return false
			}
		}
		// a handler that cancels (itself or another subscription) from inside the delivery: the cancel must return
		w.mu.Lock()
		var tgt *subState
		if on := c.Subs[i].On; on != nil && len(st.handlerActs) > actsBefore {
			switch on.Act {
			case "cancel-self":
				tgt = st
			case "cancel-other":
				if on.Other >= 0 && on.Other < len(w.subs) {
					tgt = w.subs[on.Other]
				}
			}
		}
		w.mu.Unlock()
		if tgt != nil {
			if !o.expect(fmt.Sprintf("the cancel of sub %d issued from inside the handler of sub %d (on its message #%d) returns", tgt.i, i, c.Subs[i].On.At), func() bool {
				return !tgt.started || tgt.cancelDone
			}) {
				return false
			}
			if tuc := tgt.conn; tuc != nil && c.IdleMs == 0 {
				o.aid("conn-closed-after-handler-cancel", func() bool { return w.liveOn(tuc) > 0 || tuc.closed || w.readerBlockedConn(tuc) })
			}
		}
		if m.Kind != "next" && uc != nil && c.IdleMs == 0 && !stalled {
			// last subscription gone => the client closes the connection; wait until the upstream sees that
			// so that the next step does not race with the close.
			o.aid("conn-closed-after-last-terminal", func() bool { return w.liveOn(uc) > 0 || uc.closed || w.readerBlockedConn(uc) })
		}
	case "release":
		i := s.Sub
		w.releaseHandler(i)
		o.aid("handler-resumed", func() bool { return !w.subs[i].blockedNow })
		o.settleDeliveries(i)
	case "abandon":
		return o.abandon(s.Key, s.Sub)
	case "cancel", "expire":
		i := s.Sub
		st := w.subs[i]
		w.mu.Lock()
		var pendingConns []*upConn
		if st.started && !st.returned {
			for _, uc := range w.conns {
				if uc.tuple == c.Subs[i].Tuple && uc.initSeen && !uc.acked && !uc.closed && !uc.dropped {
					pendingConns = append(pendingConns, uc)
				}
			}
		}
		w.mu.Unlock()
		w.mu.Lock()
		if st.started && st.returned && st.err == nil && !st.blockedNow && w.readerBlocked(i) {
			o.cancelWhileBlocked++ // another subscription's handler holds this connection's reader: the cancel must still return
		}
		w.mu.Unlock()
		if s.Op == "expire" {
			w.expireSub(i)
		} else {
			w.cancelSub(i, true)
		}
		w.mu.Lock()
		started := st.started
		w.mu.Unlock()
		if !started {
			return true
		}
		if !o.expect(fmt.Sprintf("Subscribe/unsubscribe of the cancelled sub %d returns", i), func() bool { return st.returned && st.cancelDone }) {
			return false
		}
		w.mu.Lock()
		uc, us := st.conn, st.stream
		finished := st.terminalAt() >= 0 || st.err != nil // nothing left to unsubscribe: the client sends no stop
		w.mu.Unlock()
		if uc != nil {
			if !finished {
				o.aid("stop-seen", func() bool { return st.stopSeen || uc.closed })
			}
			if c.IdleMs == 0 {
				o.aid("conn-closed-after-last-cancel", func() bool { return w.liveOn(uc) > 0 || uc.closed || w.readerBlockedConn(uc) })
			}
		}
		if us != nil {
			o.aid("sse-closed-after-cancel", func() bool { return us.closed })
		}
		if !c.Tuples[c.Subs[i].Tuple].SSE {
			w.probeConns(c.Subs[i].Tuple)
		}
		w.mu.Lock()
		gateClosed := !w.gateOpen[c.Subs[i].Tuple]
		w.mu.Unlock()
		if len(pendingConns) > 0 && gateClosed {
			// The cancelled call may have been the one dialling. If so its un-acked connection goes away; let
			// the upstream see that (bounded by the settle interval: if the call was only a waiter nothing closes).
			w.wait(settle, 0, func() bool {
				for _, uc := range pendingConns {
					if !uc.closed {
						return false
					}
				}
				return true
			})
		}
	case "drop":
		k := s.Key
		// a reader that stands still in a blocked handler would not notice the drop: let it run first
		for i := range w.subs {
			if c.Subs[i].Tuple == k && c.Subs[i].On != nil && c.Subs[i].On.Act == "block" {
				w.releaseHandler(i)
				o.aid("handler-resumed", func() bool { return !w.subs[i].blockedNow })
				o.settleDeliveries(i)
			}
		}
		w.mu.Lock()
		var ucs []*upConn
		var uss []*upStream
		for _, uc := range w.conns {
			if uc.tuple == k && !uc.closed && !uc.dropped {
				ucs = append(ucs, uc)
			}
		}
		for _, us := range w.streams {
			if us.tuple == k && !us.closed && !us.dropped {
				uss = append(uss, us)
			}
		}
		n0 := w.initCount(k)
		var inflight []*subState
		for i, st := range w.subs {
			if c.Subs[i].Tuple == k && st.started && !st.returned {
				st.dropInSub = true
				inflight = append(inflight, st)
			}
		}
		w.mu.Unlock()
		for _, uc := range ucs {
			w.dropConn(uc)
		}
		for _, us := range uss {
			w.dropStream(us)
		}
		for i, st := range w.subs {
			st := st
			w.mu.Lock()
			need := st.dropped && !st.cancelIssued && st.returned && st.err == nil && st.terminalAt() < 0
			w.mu.Unlock()
			if need && !o.expect(fmt.Sprintf("sub %d is told that its upstream connection was dropped", i), func() bool { return st.terminalAt() >= 0 || st.cancelIssued }) {
				return false
			}
		}
		for _, st := range inflight {
			st := st
			// it either shared the failed dial (returns an error) or dials again (new connection_init)
			o.sync(fmt.Sprintf("in-flight Subscribe of sub %d reacts to the drop", st.i), func() bool { return st.returned || w.initCount(k) > n0 })
		}
		// Let the client finish tearing the dropped connections down before the next step, so that a later
		// subscriber deterministically dials a fresh connection. Stats is used as a synchronisation aid only.
		if len(ucs) > 0 {
			ok := w.wait(watch, time.Millisecond, func() bool { return w.cl.Stats().WSConns <= w.healthyConns() })
			if !ok {
				o.incon("client still counts dropped connections: stats=%+v healthy=%d", w.cl.Stats(), w.healthyConns())
			}
		}
	case "ticks":
		// let Key ping intervals pass
		if c.Ping != nil {
			time.Sleep(time.Duration(s.Key*c.Ping.IntervalMs) * time.Millisecond)
		}
	case "silence":
		// The upstream stops answering pings on every connection of the silent tuples. The client must
		// notice (PingTimeout) and tell exactly the subscriptions on those connections.
		if c.Ping == nil {
			return true
		}
		w.mu.Lock()
		for _, k := range c.Ping.Silent {
			w.pongSilent[k] = true
		}
		var victims []*subState
		for i, st := range w.subs {
			if c.silentTuple(c.Subs[i].Tuple) && st.started && st.returned && st.err == nil && !st.cancelIssued && st.terminalAt() < 0 && st.conn != nil && !st.conn.closed {
				st.silenced = true
				victims = append(victims, st)
			}
		}
		w.mu.Unlock()
		for _, st := range victims {
			st := st
			if !o.expect(fmt.Sprintf("sub %d is told that its connection stopped answering pings", st.i), func() bool { return st.terminalAt() >= 0 || st.cancelIssued }) {
				return false
			}
		}
		// let the upstream see the dead connections go, so that later steps start from a settled state
		o.aid("silent-conns-closed", func() bool {
			for _, uc := range w.conns {
				if c.silentTuple(uc.tuple) && uc.acked && !uc.closed {
					return false
				}
			}
			return true
		})
	case "idle":
		if c.IdleMs > 0 {
			time.Sleep(time.Duration(c.IdleMs)*2*time.Millisecond + 5*time.Millisecond)
			// connections without subscriptions should be gone now; wait for the upstream to see it (aid only)
			w.wait(watch/8, 0, func() bool {
				for _, uc := range w.conns {
					if uc.acked && !uc.closed && !uc.dropped && w.liveOn(uc) == 0 {
						return false
					}
				}
				return true
			})
		}
	}
	return true
}

// burst starts every Subscribe call at once; cancel points are tied to observable events.
func (o *outcome) burst() {
	w, c := o.w, o.w.c
	var cw sync.WaitGroup
	for i, s := range c.Subs {
		i, s := i, s
		st := w.subs[i]
		k := s.Tuple
		gated := c.Tuples[k].Gate
		if s.Cancel == "pre" {
			w.endSub(i, true, s.Deadline, false)
		}
		w.mu.Lock()
		if !c.Tuples[k].SSE && w.pendingInit(k) {
			o.joinedDial++
		}
		w.mu.Unlock()
		w.start(i)
		switch s.Cancel {
		case "race":
			for y := 0; y < s.At; y++ {
				runtime.Gosched()
			}
			w.endSub(i, true, s.Deadline, false)
		case "init":
			cw.Add(1)
			go func() {
				defer cw.Done()
				if gated {
					w.wait(watch, 0, func() bool { return st.returned || st.seen > 0 || w.pendingInit(k) || st.cancelIssued })
					time.Sleep(settle)
				}
				w.endSub(i, true, s.Deadline, false)
			}()
		case "mid":
			cw.Add(1)
			go func() {
				defer cw.Done()
				w.wait(watch, 0, func() bool {
					return len(st.msgs) >= s.At || st.terminalAt() >= 0 || (st.returned && st.err != nil) || st.cancelIssued
				})
				w.endSub(i, true, s.Deadline, false)
			}()
		}
	}
	// hold the acks until every "init" canceller had its chance, plus the settle interval for joiners
	anyGate := false
	for _, t := range c.Tuples {
		anyGate = anyGate || t.Gate
	}
	if anyGate {
		done := make(chan struct{})
		go func() {
			for i, s := range c.Subs {
				if s.Cancel == "init" {
					st := w.subs[i]
					w.wait(watch, 0, func() bool { return st.cancelIssued })
				}
			}
			close(done)
		}()
		<-done
		time.Sleep(settle)
		for k := range c.Tuples {
			w.openGate(k)
		}
	}
	cw.Wait()
}

// finish opens every gate, waits for what must still happen, takes the snapshot the oracles judge,
// cancels whatever is still running and watches the client go quiet.
func (o *outcome) finish() {
	w, c := o.w, o.w.c
	for i := range w.subs {
		w.releaseHandler(i)
	}
	w.wait(watch, 0, func() bool {
		for _, st := range w.subs {
			if st.blockedNow {
				return false
			}
		}
		return true
	})
	if len(o.liveness) == 0 && len(o.inconclusive) == 0 {
		for k := range c.Tuples {
			w.openGate(k)
		}
		for i, st := range w.subs {
			st := st
			w.mu.Lock()
			started := st.started
			w.mu.Unlock()
			if started && !o.expect(fmt.Sprintf("Subscribe of sub %d returns once every upstream gate is open", i), func() bool { return st.returned }) {
				break
			}
		}
	}
	if len(o.liveness) == 0 && len(o.inconclusive) == 0 {
		// A connection that was empty for a moment and then reused still has an idle timer pending. Give the
		// timer the chance to fire while the new subscriptions are live (one-sided: too short only misses).
		if c.IdleMs > 0 {
			w.mu.Lock()
			pending := false
			for _, uc := range w.conns {
				pending = pending || (uc.reused && !uc.closed && !uc.dropped && w.liveOn(uc) > 0)
			}
			w.mu.Unlock()
			if pending {
				o.idleWaited = true
				time.Sleep(time.Duration(c.IdleMs)*time.Millisecond + 5*time.Millisecond)
			}
		}
		w.probeConns(-1)
		for i, st := range w.subs {
			st := st
			w.mu.Lock()
			skip := !st.started || st.cancelIssued || st.err != nil
			w.mu.Unlock()
			if skip {
				continue
			}
			// an un-cancelled subscription on a healthy connection must end up with everything the upstream wrote for it
			full := func() bool {
				if st.terminalAt() >= 0 || st.cancelIssued { // cancelIssued: a handler may cancel it while we wait
					return true
				}
				for _, m := range st.sent {
					if !m.done {
						return false
					}
				}
				if st.dropped || (st.conn != nil && (st.conn.dropped || st.conn.closed)) || (st.stream != nil && (st.stream.dropped || st.stream.closed)) {
					return false // its connection is gone without a terminal message: the client owes it a connection error
				}
				if c.stepped() {
					return len(st.msgs) >= okCount(st.sent)
				}
				if st.seen == 0 {
					return false
				}
				return len(st.sent) == len(c.Subs[i].script()) && len(st.msgs) >= okCount(st.sent)
			}
			if !o.expect(fmt.Sprintf("sub %d receives everything the upstream sent for it (or, its connection being gone, a connection error)", i), full) {
				break
			}
		}
	}
	// snapshot
	w.mu.Lock()
	for _, st := range w.subs {
		st.snap = len(st.msgs)
	}
	w.mu.Unlock()
	// cleanup cancels (not part of the case)
	for i := range w.subs {
		w.cancelSub(i, false)
	}
	if len(o.liveness) > 0 {
		return // something is wedged already; the quiescence clause would only repeat it
	}
	quiet := func() bool {
		for _, st := range w.subs {
			if st.started && !st.returned {
				return false
			}
		}
		for _, uc := range w.conns {
			if !uc.closed {
				return false
			}
		}
		for _, us := range w.streams {
			if !us.closed {
				return false
			}
		}
		s := w.cl.Stats()
		return s.WSConns == 0 && s.SSEConns == 0
	}
	idle := time.Duration(c.IdleMs) * time.Millisecond
	if established.Load() {
		if !w.wait(idle+fastWatch, time.Millisecond, quiet) {
			o.incon("after-established-violation: quiescence")
		}
		o.stats = w.cl.Stats()
		return
	}
	if w.wait(idle+watch, time.Millisecond, quiet) || w.wait(grace, 20*time.Millisecond, quiet) || w.wait(grace, 20*time.Millisecond, quiet) {
		o.stats = w.cl.Stats()
		return
	}
	w.mu.Lock()
	open := 0
	for _, uc := range w.conns {
		if !uc.closed {
			open++
		}
	}
	streams := 0
	for _, us := range w.streams {
		if !us.closed {
			streams++
		}
	}
	w.mu.Unlock()
	o.stats = w.cl.Stats()
	o.leak = fmt.Sprintf("every subscription ended or was cancelled, yet %v (idle %v + %v grace) later the client reports %+v and the upstream still has %d websocket connection(s) and %d sse stream(s) open",
		idle+watch+2*grace, idle, watch+2*grace, o.stats, open, streams)
}

func okCount(s []sent) int {
	n := 0
	for _, m := range s {
		if m.ok {
			n++
		}
	}
	return n
}

// readerBlockedConn: some handler on uc is blocked. Callers hold w.mu.
func (w *world) readerBlockedConn(uc *upConn) bool {
	for _, j := range uc.ids {
		if w.subs[j].blockedNow {
			return true
		}
	}
	return false
}

// settleDeliveries waits (aid) until everything the upstream wrote on the connection of subscription i
// while its reader stood still has reached the handlers, so that the next step starts from a settled state.
func (o *outcome) settleDeliveries(i int) {
	w := o.w
	o.aid("deliveries-after-release", func() bool {
		st := w.subs[i]
		ids := []int{i}
		if st.conn != nil {
			ids = ids[:0]
			for _, j := range st.conn.ids {
				ids = append(ids, j)
			}
		}
		for _, j := range ids {
			if w.subs[j].blockedNow {
				return true // the reader stands still again, in another handler: nothing more arrives for now
			}
		}
		for _, j := range ids {
			sj := w.subs[j]
			if sj.cancelIssued || sj.terminalAt() >= 0 || sj.blockedNow || (sj.conn != nil && (sj.conn.closed || sj.conn.dropped)) {
				continue
			}
			if len(sj.msgs) < okCount(sj.sent) {
				return false
			}
		}
		return true
	})
}

// abandon cancels whoever is dialling tuple k right now - never a subscription with index >= keep (the
// survivors of the case). Which in-flight
// caller is the dialler cannot be observed directly; the un-acked connection going away can. In-flight
// callers are therefore ended one at a time (cancel / own deadline alternating) until the upstream sees the
// pending connection(s) of that tuple close; ending a mere waiter on the way is harmless. Afterwards the
// surviving callers race for the next dial, whose connection_init is the event the step waits for.
func (o *outcome) abandon(k, keep int) bool {
	w, c := o.w, o.w.c
	w.mu.Lock()
	var pend []*upConn
	for _, uc := range w.conns {
		if uc.tuple == k && uc.initSeen && !uc.acked && !uc.closed && !uc.dropped {
			pend = append(pend, uc)
		}
	}
	var cands []*subState
	for i, st := range w.subs {
		if c.Subs[i].Tuple == k && i < keep && st.started && !st.returned && !st.cancelIssued {
			cands = append(cands, st)
		}
	}
	// Most recently started first: when a dial is abandoned, closing its done channel readies the waiters in
	// queue order and the scheduler runs the last one readied first, so the youngest waiter usually wins the
	// race for the next dial. Any order is sound; this one wastes the fewest expendable callers.
	// The very first dial of a tuple belongs to the caller that started first.
	first := o.abandonedOn[k] == 0
	sort.Slice(cands, func(a, b int) bool {
		if first {
			return cands[a].startSeq < cands[b].startSeq
		}
		return cands[a].startSeq > cands[b].startSeq
	})
	n0 := w.initCount(k)
	gateOpen := w.gateOpen[k]
	w.mu.Unlock()
	if len(pend) == 0 || gateOpen || c.Tuples[k].SSE {
		return true
	}
	gone := func() bool {
		for _, uc := range pend {
			if !uc.closed {
				return false
			}
		}
		return true
	}
	hit := false
	for n, st := range cands {
		st := st
		w.endSub(st.i, true, n%2 == 1, false)
		if !o.expect(fmt.Sprintf("Subscribe of sub %d returns after it was cancelled during the dial", st.i), func() bool { return st.returned && st.cancelDone }) {
			return false
		}
		if w.wait(settle, 0, gone) {
			hit = true
			break
		}
	}
	if !hit {
		return true
	}
	o.abandoned++
	o.abandonedOn[k]++
	w.mu.Lock()
	for i, st := range w.subs {
		if c.Subs[i].Tuple == k && st.started && !st.cancelIssued && st.startSeq > 0 && (!st.returned || st.err != nil) {
			st.satThrough++ // waited on a dial that its dialler abandoned
		}
	}
	w.mu.Unlock()
	// the survivors race for the next dial; its connection_init is observable (aid: nobody may be left)
	o.aid("next-dial-after-abandon", func() bool {
		if w.initCount(k) > n0 {
			return true
		}
		for i, st := range w.subs {
			if c.Subs[i].Tuple == k && st.started && !st.returned {
				return false
			}
		}
		return true
	})
	return true
}
