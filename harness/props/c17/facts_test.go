package c17

// Fact sets: a flat map "coordinate.attribute" -> value describing a type system, extracted
// (1) from a gqlparser schema and (2) from an introspection result (`__schema` JSON object).

import (
	"fmt"
	"math/big"
	"sort"
	"strconv"
	"strings"

	gast "github.com/vektah/gqlparser/v2/ast"
	gparser "github.com/vektah/gqlparser/v2/parser"
)

type facts map[string]string

var allowedBuiltinDirectives = map[string]bool{"include": true, "skip": true, "deprecated": true, "specifiedBy": true, "oneOf": true, "defer": true, "stream": true}
var builtinScalarSet = map[string]bool{"Int": true, "Float": true, "String": true, "Boolean": true, "ID": true}

func isBuiltinTypeName(n string) bool { return builtinScalarSet[n] || strings.HasPrefix(n, "__") }

const defaultDeprecationReason = "No longer supported"

// ---- values ------------------------------------------------------------------------------

// canonValue renders a parsed GraphQL value in a canonical form: object fields sorted, numbers
// normalised, strings by value (block and plain strings are not distinguished).
func canonValue(v *gast.Value) string {
	if v == nil {
		return "<none>"
	}
	switch v.Kind {
	case gast.IntValue:
		n, ok := new(big.Int).SetString(v.Raw, 10)
		if !ok {
			return "i?" + v.Raw
		}
		return "i" + n.String()
	case gast.FloatValue:
		f, _, err := big.ParseFloat(v.Raw, 10, 256, big.ToNearestEven)
		if err != nil {
			return "f?" + v.Raw
		}
		return "f" + f.Text('g', 60)
	case gast.StringValue, gast.BlockValue:
		return "s" + strconv.Quote(v.Raw)
	case gast.BooleanValue:
		return "b" + v.Raw
	case gast.NullValue:
		return "null"
	case gast.EnumValue:
		return "e" + v.Raw
	case gast.Variable:
		return "$" + v.Raw
	case gast.ListValue:
		parts := make([]string, len(v.Children))
		for i, c := range v.Children {
			parts[i] = canonValue(c.Value)
		}
		return "[" + strings.Join(parts, ",") + "]"
	case gast.ObjectValue:
		parts := make([]string, len(v.Children))
		for i, c := range v.Children {
			parts[i] = c.Name + ":" + canonValue(c.Value)
		}
		sort.Strings(parts)
		return "{" + strings.Join(parts, ",") + "}"
	}
	return "?" + v.Raw
}

// parseValueLiteral parses the text of a GraphQL value (as found in `defaultValue`).
func parseValueLiteral(lit string) (*gast.Value, error) {
	doc, err := gparser.ParseQuery(&gast.Source{Input: "{f(a:\n" + lit + "\n)}"})
	if err != nil {
		return nil, err
	}
	if len(doc.Operations) != 1 || len(doc.Operations[0].SelectionSet) != 1 {
		return nil, fmt.Errorf("literal %q is not one value", lit)
	}
	f, ok := doc.Operations[0].SelectionSet[0].(*gast.Field)
	if !ok || len(f.Arguments) != 1 || f.Name != "f" || f.Arguments[0].Name != "a" {
		return nil, fmt.Errorf("literal %q is not one value", lit)
	}
	return f.Arguments[0].Value, nil
}

func canonLiteral(lit *string) string {
	if lit == nil {
		return "<none>"
	}
	v, err := parseValueLiteral(*lit)
	if err != nil {
		return "<unparsable " + strconv.Quote(*lit) + ": " + err.Error() + ">"
	}
	return canonValue(v)
}

// ---- from gqlparser ----------------------------------------------------------------------

func kindName(k gast.DefinitionKind) string { return string(k) }

func typeFact(s *gast.Schema, t *gast.Type) string {
	leaf := "?"
	if d := s.Types[t.Name()]; d != nil {
		leaf = kindName(d.Kind)
	}
	return t.String() + " leaf=" + leaf
}

func depFact(dl gast.DirectiveList) string {
	d := dl.ForName("deprecated")
	if d == nil {
		return "false"
	}
	reason := defaultDeprecationReason
	if a := d.Arguments.ForName("reason"); a != nil && a.Value != nil {
		if a.Value.Kind == gast.NullValue {
			return "true reason=<null>"
		}
		reason = a.Value.Raw
	}
	return "true reason=" + strconv.Quote(reason)
}

func descFact(d string) string { return strconv.Quote(d) }

func sortedTypeNames(s *gast.Schema) []string {
	names := make([]string, 0, len(s.Types))
	for n := range s.Types {
		names = append(names, n)
	}
	sort.Strings(names)
	return names
}

// possibleObjects lists the object types of an abstract type (own computation; gqlparser's
// PossibleTypes also lists interfaces).
func possibleObjects(s *gast.Schema, d *gast.Definition) []string {
	var out []string
	switch d.Kind {
	case gast.Union:
		out = append(out, d.Types...)
	case gast.Interface:
		for _, n := range sortedTypeNames(s) {
			o := s.Types[n]
			if o.Kind != gast.Object {
				continue
			}
			for _, i := range o.Interfaces {
				if i == d.Name {
					out = append(out, o.Name)
					break
				}
			}
		}
	}
	sort.Strings(out)
	return out
}

func inputValueFacts(f facts, s *gast.Schema, prefix string, name string, ty *gast.Type, def *gast.Value, dirs gast.DirectiveList, desc string) {
	f[prefix+".type"] = typeFact(s, ty)
	f[prefix+".default"] = canonValue(def)
	f[prefix+".dep"] = depFact(dirs)
	f[prefix+".desc"] = descFact(desc)
}

// schemaFacts extracts the facts of every type and directive of s (built-ins included; the
// caller drops them).
func schemaFacts(s *gast.Schema) facts {
	f := facts{}
	root := func(d *gast.Definition) string {
		if d == nil {
			return ""
		}
		return d.Name
	}
	f["root.query"] = root(s.Query)
	f["root.mutation"] = root(s.Mutation)
	f["root.subscription"] = root(s.Subscription)
	f["schema.desc"] = descFact(s.Description)
	for _, n := range sortedTypeNames(s) {
		d := s.Types[n]
		p := "type:" + n
		f[p+".kind"] = kindName(d.Kind)
		f[p+".desc"] = descFact(d.Description)
		if d.Kind == gast.Scalar {
			if sb := d.Directives.ForName("specifiedBy"); sb != nil {
				if a := sb.Arguments.ForName("url"); a != nil && a.Value != nil {
					f[p+".specifiedBy"] = strconv.Quote(a.Value.Raw)
				}
			}
		}
		if d.Kind == gast.Object || d.Kind == gast.Interface {
			for _, i := range d.Interfaces {
				k := "?"
				if id := s.Types[i]; id != nil {
					k = kindName(id.Kind)
				}
				f[p+".implements:"+i] = k
			}
			for _, fd := range d.Fields {
				if strings.HasPrefix(fd.Name, "__") {
					continue
				}
				fp := p + ".field:" + fd.Name
				f[fp+".type"] = typeFact(s, fd.Type)
				f[fp+".dep"] = depFact(fd.Directives)
				f[fp+".desc"] = descFact(fd.Description)
				for _, a := range fd.Arguments {
					inputValueFacts(f, s, fp+".arg:"+a.Name, a.Name, a.Type, a.DefaultValue, a.Directives, a.Description)
				}
			}
		}
		if d.Kind == gast.Interface || d.Kind == gast.Union {
			for _, o := range possibleObjects(s, d) {
				k := "?"
				if od := s.Types[o]; od != nil {
					k = kindName(od.Kind)
				}
				f[p+".possible:"+o] = k
			}
		}
		if d.Kind == gast.InputObject {
			for _, fd := range d.Fields {
				inputValueFacts(f, s, p+".input:"+fd.Name, fd.Name, fd.Type, fd.DefaultValue, fd.Directives, fd.Description)
			}
		}
		if d.Kind == gast.Enum {
			for _, ev := range d.EnumValues {
				f[p+".enum:"+ev.Name+".dep"] = depFact(ev.Directives)
				f[p+".enum:"+ev.Name+".desc"] = descFact(ev.Description)
			}
		}
	}
	dn := make([]string, 0, len(s.Directives))
	for n := range s.Directives {
		dn = append(dn, n)
	}
	sort.Strings(dn)
	for _, n := range dn {
		d := s.Directives[n]
		p := "dir:" + n
		f[p+".repeatable"] = strconv.FormatBool(d.IsRepeatable)
		f[p+".desc"] = descFact(d.Description)
		for _, l := range d.Locations {
			f[p+".loc:"+string(l)] = "1"
		}
		for _, a := range d.Arguments {
			inputValueFacts(f, s, p+".arg:"+a.Name, a.Name, a.Type, a.DefaultValue, a.Directives, a.Description)
		}
	}
	return f
}

// ---- from introspection JSON --------------------------------------------------------------

type jobj = map[string]any

func jstr(v any) (string, bool) {
	s, ok := v.(string)
	return s, ok
}

func jlist(v any) []any {
	l, _ := v.([]any)
	return l
}

// jsonTypeRef prints a `type { kind name ofType {...} }` reference as SDL type text plus the
// kind tag found at the leaf.
func jsonTypeRef(v any) string {
	o, ok := v.(jobj)
	if !ok {
		return "<missing type>"
	}
	kind, _ := jstr(o["kind"])
	switch kind {
	case "NON_NULL", "LIST":
		if _, has := o["ofType"].(jobj); !has {
			return "<" + kind + " without ofType>"
		}
		if nm, isStr := jstr(o["name"]); isStr {
			return "<" + kind + " with name " + nm + ">"
		}
		inner := jsonTypeRef(o["ofType"])
		i := strings.Index(inner, " leaf=")
		if i < 0 {
			return inner
		}
		if kind == "NON_NULL" {
			return inner[:i] + "!" + inner[i:]
		}
		return "[" + inner[:i] + "]" + inner[i:]
	}
	name, ok := jstr(o["name"])
	if !ok {
		return "<named type without name, kind " + kind + ">"
	}
	if o["ofType"] != nil {
		return "<named type " + name + " with ofType>"
	}
	return name + " leaf=" + kind
}

func jsonDep(o jobj) string {
	dep, _ := o["isDeprecated"].(bool)
	r, hasReason := jstr(o["deprecationReason"])
	if !dep {
		if hasReason {
			return "false but reason=" + strconv.Quote(r)
		}
		return "false"
	}
	if !hasReason {
		return "true reason=<null>"
	}
	return "true reason=" + strconv.Quote(r)
}

func jsonDesc(o jobj) string {
	d, _ := jstr(o["description"]) // null and "" are identified (description is not in the statement's list)
	return descFact(d)
}

func jsonInputValueFacts(f facts, prefix string, o jobj) {
	f[prefix+".type"] = jsonTypeRef(o["type"])
	var lit *string
	if s, ok := jstr(o["defaultValue"]); ok {
		lit = &s
	}
	f[prefix+".default"] = canonLiteral(lit)
	f[prefix+".dep"] = jsonDep(o)
	f[prefix+".desc"] = jsonDesc(o)
}

func jsonRefName(v any) (name, kind string) {
	o, _ := v.(jobj)
	if o == nil {
		return "", ""
	}
	name, _ = jstr(o["name"])
	kind, _ = jstr(o["kind"])
	return
}

// dup records a duplicate coordinate as its own fact so that it cannot hide.
func (f facts) put(k, v string) {
	if old, ok := f[k]; ok {
		f["duplicate:"+k] = old + " | " + v
		return
	}
	f[k] = v
}

// introspectionFacts extracts facts from a `__schema` object that was selected with the full
// introspection query (includeDeprecated everywhere).
func introspectionFacts(schema jobj) facts {
	f := facts{}
	root := func(key string) string {
		n, _ := jsonRefName(schema[key])
		return n
	}
	f["root.query"] = root("queryType")
	f["root.mutation"] = root("mutationType")
	f["root.subscription"] = root("subscriptionType")
	f["schema.desc"] = jsonDesc(schema)
	for _, tv := range jlist(schema["types"]) {
		t, _ := tv.(jobj)
		if t == nil {
			f.put("malformed:types-item", fmt.Sprint(tv))
			continue
		}
		n, _ := jstr(t["name"])
		kind, _ := jstr(t["kind"])
		p := "type:" + n
		f.put(p+".kind", kind)
		f.put(p+".desc", jsonDesc(t))
		if u, ok := jstr(t["specifiedByURL"]); ok {
			f.put(p+".specifiedBy", strconv.Quote(u))
		}
		for _, iv := range jlist(t["interfaces"]) {
			in, ik := jsonRefName(iv)
			f.put(p+".implements:"+in, ik)
		}
		for _, pv := range jlist(t["possibleTypes"]) {
			pn, pk := jsonRefName(pv)
			f.put(p+".possible:"+pn, pk)
		}
		for _, fv := range jlist(t["fields"]) {
			fo, _ := fv.(jobj)
			fn, _ := jstr(fo["name"])
			fp := p + ".field:" + fn
			f.put(fp+".type", jsonTypeRef(fo["type"]))
			f.put(fp+".dep", jsonDep(fo))
			f.put(fp+".desc", jsonDesc(fo))
			for _, av := range jlist(fo["args"]) {
				ao, _ := av.(jobj)
				an, _ := jstr(ao["name"])
				if _, dupl := f[fp+".arg:"+an+".type"]; dupl {
					f.put("duplicate:"+fp+".arg:"+an, "1")
					continue
				}
				jsonInputValueFacts(f, fp+".arg:"+an, ao)
			}
		}
		for _, fv := range jlist(t["inputFields"]) {
			fo, _ := fv.(jobj)
			fn, _ := jstr(fo["name"])
			if _, dupl := f[p+".input:"+fn+".type"]; dupl {
				f.put("duplicate:"+p+".input:"+fn, "1")
				continue
			}
			jsonInputValueFacts(f, p+".input:"+fn, fo)
		}
		for _, ev := range jlist(t["enumValues"]) {
			eo, _ := ev.(jobj)
			en, _ := jstr(eo["name"])
			f.put(p+".enum:"+en+".dep", jsonDep(eo))
			f.put(p+".enum:"+en+".desc", jsonDesc(eo))
		}
	}
	for _, dv := range jlist(schema["directives"]) {
		d, _ := dv.(jobj)
		n, _ := jstr(d["name"])
		p := "dir:" + n
		rep, _ := d["isRepeatable"].(bool)
		f.put(p+".repeatable", strconv.FormatBool(rep))
		f.put(p+".desc", jsonDesc(d))
		for _, lv := range jlist(d["locations"]) {
			l, _ := jstr(lv)
			f.put(p+".loc:"+l, "1")
		}
		for _, av := range jlist(d["args"]) {
			ao, _ := av.(jobj)
			an, _ := jstr(ao["name"])
			if _, dupl := f[p+".arg:"+an+".type"]; dupl {
				f.put("duplicate:"+p+".arg:"+an, "1")
				continue
			}
			jsonInputValueFacts(f, p+".arg:"+an, ao)
		}
	}
	return f
}

// ---- comparison ---------------------------------------------------------------------------

// factOwner returns the type or directive a fact belongs to ("type:X" / "dir:x" / "").
func factOwner(k string) string {
	k = strings.TrimPrefix(k, "duplicate:")
	if !strings.HasPrefix(k, "type:") && !strings.HasPrefix(k, "dir:") {
		return ""
	}
	if i := strings.IndexByte(k, '.'); i >= 0 {
		return k[:i]
	}
	return k
}

// dropBuiltins removes the facts of the allowed built-in types and directives.
func dropBuiltins(f facts) facts {
	out := facts{}
	for k, v := range f {
		o := factOwner(k)
		if strings.HasPrefix(o, "type:") && isBuiltinTypeName(strings.TrimPrefix(o, "type:")) {
			continue
		}
		if strings.HasPrefix(o, "dir:") && allowedBuiltinDirectives[strings.TrimPrefix(o, "dir:")] {
			continue
		}
		out[k] = v
	}
	return out
}

type factDiff struct {
	Key   string
	Truth string // "" with Lost=false, Invented=true
	Got   string
	Kind  string // lost | invented | changed
}

func (d factDiff) String() string {
	switch d.Kind {
	case "lost":
		return fmt.Sprintf("LOST %s = %s", d.Key, d.Truth)
	case "invented":
		return fmt.Sprintf("INVENTED %s = %s", d.Key, d.Got)
	}
	return fmt.Sprintf("CHANGED %s: schema says %s, observed %s", d.Key, d.Truth, d.Got)
}

func diffFacts(truth, got facts) []factDiff {
	var out []factDiff
	keys := map[string]bool{}
	for k := range truth {
		keys[k] = true
	}
	for k := range got {
		keys[k] = true
	}
	ks := make([]string, 0, len(keys))
	for k := range keys {
		ks = append(ks, k)
	}
	sort.Strings(ks)
	for _, k := range ks {
		tv, inT := truth[k]
		gv, inG := got[k]
		switch {
		case inT && !inG:
			out = append(out, factDiff{Key: k, Truth: tv, Kind: "lost"})
		case !inT && inG:
			out = append(out, factDiff{Key: k, Got: gv, Kind: "invented"})
		case tv != gv:
			out = append(out, factDiff{Key: k, Truth: tv, Got: gv, Kind: "changed"})
		}
	}
	return out
}
