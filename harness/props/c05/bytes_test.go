package c05

import (
	"bytes"
	"fmt"
	"strings"

	"pgregory.net/rapid"

	"github.com/wundergraph/graphql-go-tools/v2/pkg/ast"
	"github.com/wundergraph/graphql-go-tools/v2/pkg/astparser"
	"github.com/wundergraph/graphql-go-tools/v2/pkg/astprinter"
	"github.com/wundergraph/graphql-go-tools/v2/pkg/lexer"
	"github.com/wundergraph/graphql-go-tools/v2/pkg/lexer/keyword"
	"github.com/wundergraph/graphql-go-tools/v2/pkg/operationreport"

	"verif/harness/pbt"
)

type bytesCase struct {
	In pbt.Bytes `json:"in"`
}

var tokens = []string{
	"{", "}", "(", ")", "[", "]", ":", "=", "!", "|", "&", "@", "$", "...", ",", " ", "\n", "\t", "#c\n", "\ufeff",
	"query", "mutation", "subscription", "fragment", "on", "type", "interface", "union", "enum", "input", "scalar",
	"schema", "extend", "directive", "implements", "repeatable", "true", "false", "null",
	"a", "b", "T", "Int", "x1", "_y", "__typename",
	"0", "-1", "1.5", "1e5", "-0.0e-3", "1e", "1.", "-", "00", "0x1",
	`"s"`, `""`, `"é"`, `"\n\"q"`, `"😀"`, `"`, `"\`, `"\x"`, `"\u12"`,
	`"""b"""`, `"""`, `""""""`, "\"\"\"\n  a\n   b\n\"\"\"", `"""a\"""b"""`, `"""a" """`,
	"\x00", "\xff", "é", "\r",
}

func genBytes(t *rapid.T) bytesCase {
	n := rapid.IntRange(0, 40).Draw(t, "n")
	var b bytes.Buffer
	for i := 0; i < n; i++ {
		if rapid.IntRange(0, 9).Draw(t, "raw") == 0 {
			b.Write(rapid.SliceOfN(rapid.Byte(), 0, 4).Draw(t, "bytes"))
			continue
		}
		b.WriteString(rapid.SampledFrom(tokens).Draw(t, "tok"))
		if rapid.IntRange(0, 2).Draw(t, "sp") == 0 {
			b.WriteByte(' ')
		}
	}
	return bytesCase{In: b.Bytes()}
}

var bytesPart = pbt.Part[bytesCase]{Name: "bytes-total", Quick: 300000, Thorough: 6000000, Gen: genBytes, Check: checkBytes}

func countTokens(in []byte) int {
	var l lexer.Lexer
	var input ast.Input
	input.ResetInputBytes(in)
	l.SetInput(&input)
	n := 0
	for n < 100000 {
		tok := l.Read()
		if tok.Keyword == keyword.EOF {
			break
		}
		n++
	}
	return n
}

func checkBytes(c bytesCase, o *pbt.Rec) pbt.Verdict {
	in := []byte(c.In)
	if countTokens(in) >= 3 {
		o.NonTrivial(string(in))
	}
	doc := ast.NewSmallDocument()
	doc.Input.ResetInputBytes(in)
	var rep operationreport.Report
	astparser.NewParser().Parse(doc, &rep)
	if rep.HasErrors() {
		o.Label("bytes:rejected")
		return pbt.OK
	}
	o.Label("bytes:accepted")
	if v := checkRefs(doc, len(in)); v != "" {
		return pbt.Bad("accepted document has out-of-bounds reference: %s (input %q)", v, in)
	}
	return roundTrip(doc, in, o)
}

// checkRefs verifies that every byte-slice reference of every node kind the parser fills
// lies inside the input.
func checkRefs(doc *ast.Document, n int) string {
	chk := func(what string, i int, r ast.ByteSliceReference) string {
		if r.Start > r.End || int(r.End) > len(doc.Input.RawBytes) {
			return fmt.Sprintf("%s[%d] = [%d,%d) outside input of %d bytes", what, i, r.Start, r.End, len(doc.Input.RawBytes))
		}
		return ""
	}
	for i, x := range doc.Fields {
		if s := chk("Field.Name", i, x.Name); s != "" {
			return s
		}
		if s := chk("Field.Alias", i, x.Alias.Name); s != "" {
			return s
		}
	}
	for i, x := range doc.Arguments {
		if s := chk("Argument.Name", i, x.Name); s != "" {
			return s
		}
	}
	for i, x := range doc.StringValues {
		if s := chk("StringValue", i, x.Content); s != "" {
			return s
		}
	}
	for i, x := range doc.IntValues {
		if s := chk("IntValue", i, x.Raw); s != "" {
			return s
		}
	}
	for i, x := range doc.FloatValues {
		if s := chk("FloatValue", i, x.Raw); s != "" {
			return s
		}
	}
	for i, x := range doc.EnumValues {
		if s := chk("EnumValue", i, x.Name); s != "" {
			return s
		}
	}
	for i, x := range doc.VariableValues {
		if s := chk("VariableValue", i, x.Name); s != "" {
			return s
		}
	}
	for i, x := range doc.ObjectFields {
		if s := chk("ObjectField", i, x.Name); s != "" {
			return s
		}
	}
	for i, x := range doc.Directives {
		if s := chk("Directive", i, x.Name); s != "" {
			return s
		}
	}
	for i, x := range doc.Types {
		if s := chk("Type", i, x.Name); s != "" {
			return s
		}
	}
	for i, x := range doc.OperationDefinitions {
		if s := chk("Operation", i, x.Name); s != "" {
			return s
		}
	}
	for i, x := range doc.FragmentDefinitions {
		if s := chk("FragmentDefinition", i, x.Name); s != "" {
			return s
		}
	}
	for i, x := range doc.FragmentSpreads {
		if s := chk("FragmentSpread", i, x.FragmentName); s != "" {
			return s
		}
	}
	_ = n
	return ""
}

func roundTrip(doc *ast.Document, in []byte, o *pbt.Rec) pbt.Verdict {
	for _, indent := range []bool{false, true} {
		var p1 string
		var err error
		if indent {
			p1, err = astprinter.PrintStringIndent(doc, "  ")
		} else {
			p1, err = astprinter.PrintString(doc)
		}
		if err != nil {
			return pbt.Bad("printing an accepted document fails: %v (input %q)", err, in)
		}
		d2, rep := astparser.ParseGraphqlDocumentString(p1)
		if rep.HasErrors() {
			if f := classifyReparse(in, p1); f != "" {
				return pbt.BadKnown(f, "print of accepted input does not re-parse: input %q print %q: %s", in, p1, rep.Error())
			}
			return pbt.Bad("print of accepted input does not re-parse: input %q print %q: %s", in, p1, rep.Error())
		}
		var p2 string
		if indent {
			p2, _ = astprinter.PrintStringIndent(&d2, "  ")
		} else {
			p2, _ = astprinter.PrintString(&d2)
		}
		if p2 != p1 {
			if f := classifyReparse(in, p1); f != "" {
				return pbt.BadKnown(f, "print is not a fixed point: input %q p1 %q p2 %q", in, p1, p2)
			}
			return pbt.Bad("print is not a fixed point: input %q p1 %q p2 %q", in, p1, p2)
		}
	}
	return pbt.OK
}

// classifyReparse attributes a round-trip failure to a recorded finding (recognisers are
// deliberately narrow; see known_findings.json).
func classifyReparse(in []byte, print string) string {
	s := string(in)
	switch {
	case bytes.IndexByte(in, 0) >= 0:
		return "C05-nul-byte-in-string"
	case strings.Contains(s, `"""`):
		return "C05-block-string-quotes"
	}
	return ""
}

func probes() pbt.Probes { return pbt.Probes{} }
