package c14

import (
	"encoding/json"
	"testing"

	"verif/harness/pbt"
)

func TestProp(t *testing.T) {
	r := pbt.Start(t, "C14")
	defer r.Finish()
	r.Rule("C01 cases x protected sets (field families: a field with the same field on every interface it implements and every implementer) x decision functions x {post-fetch Authorizer, pre-fetch BatchAuthorizer} x {single response, @defer stream}; non-trivial = a denied coordinate is actually selected at depth >= 2, or is an entity-fetched, abstract-type or deferred field; distinct by (layout, operation, variables, seed, protected set, decisions, mode)")
	r.Assume("expected data = reference execution in which denied coordinates complete as null and propagate (spec null propagation)", "decisions are constant on a field family, so plan-time (interface) and run-time (concrete) coordinates agree")
	r.Regress(dispatch())
	r.RunProbes(probes())
	authPart.Run(r)
}

func TestReplay(t *testing.T) { pbt.StdReplay(t, "C14", dispatch()) }

func dispatch() pbt.Dispatch {
	return pbt.Dispatch{}.Add(authPart.Name, authPart.Handler()).WithProbes(probes())
}

func probes() pbt.Probes {
	return pbt.KnownCaseProbes("known", func(part string, raw json.RawMessage) pbt.Verdict { return authPart.CheckRaw(raw) })
}

func TestMinimize(t *testing.T) {
	pbt.StdMinimize(t, "C14", pbt.Minimizers{authPart.Name: minimizeAuth})
}
