#!/usr/bin/env python3
"""Collects a probe case for an excluded generator class: runs the check with the class re-enabled
(env <ENVNAME>=<allow list>) in a private replay dir and stores the smallest minimised violation as
harness/props/<pkg>/known/<class>.json.   usage: collect_probe.py C01 C01_ALLOW <allow,list> <class> [scale] [seed]"""
import glob, json, os, shutil, subprocess, sys, tempfile
pid, envname, allow, cls = sys.argv[1:5]
scale = sys.argv[5] if len(sys.argv) > 5 else "3"
seed = sys.argv[6] if len(sys.argv) > 6 else "3"
root = os.path.dirname(os.path.dirname(os.path.abspath(__file__)))
d = tempfile.mkdtemp(prefix="probe-")
env = dict(os.environ, VERIF_REPLAYS_DIR=d, VERIF_SEED=seed)
if envname != "-":
    env[envname] = allow
match = None
for kv in sys.argv[7:]:
    k, v = kv.split("=", 1)
    if k == "match":
        match = v
    else:
        env[k] = v
subprocess.run([os.path.join(root, "check"), pid, "quick", "--shards", "8", "--scale", scale], env=env, stdout=subprocess.DEVNULL, stderr=subprocess.DEVNULL)
best = None
for f in glob.glob(os.path.join(d, "*.json")):
    doc = json.load(open(f))
    if match and match not in doc.get("why", ""):
        continue
    n = len(json.dumps(doc["case"]))
    if best is None or n < best[0]:
        best = (n, doc)
shutil.rmtree(d, ignore_errors=True)
if best is None:
    print(cls, ":: NO FAILURE FOUND")
    sys.exit(1)
out = os.path.join(root, "harness", "props", pid.lower(), "known")
os.makedirs(out, exist_ok=True)
best[1]["why"] = best[1]["why"][:3000]
json.dump(best[1], open(os.path.join(out, cls + ".json"), "w"), indent=1)
print(cls, "::", best[1]["why"].split("\n")[0][:200])
