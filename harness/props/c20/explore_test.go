package c20

import (
	"encoding/json"
	"fmt"
	"os"
	"strings"
	"testing"

	"github.com/wundergraph/graphql-go-tools/execution/graphql"
	"github.com/wundergraph/graphql-go-tools/v2/pkg/astnormalization"
	"github.com/wundergraph/graphql-go-tools/v2/pkg/astparser"
	"github.com/wundergraph/graphql-go-tools/v2/pkg/astprinter"
	grpcdatasource "github.com/wundergraph/graphql-go-tools/v2/pkg/engine/datasource/grpc_datasource"
	"github.com/wundergraph/graphql-go-tools/v2/pkg/grpctest"
	"github.com/wundergraph/graphql-go-tools/v2/pkg/grpctest/mapping"
)

func TestExplore(t *testing.T) {
	if os.Getenv("C20_EXPLORE") == "" {
		t.Skip()
	}
	name := "plain"
	qs := strings.Split(os.Getenv("C20_EXPLORE"), ";;")
	for _, q := range qs {
		q = strings.TrimSpace(q)
		if strings.HasPrefix(q, "fed:") {
			name, q = "fed", q[4:]
		} else {
			name = "plain"
		}
		g, err := rigByName(name)
		if err != nil {
			t.Fatal(err)
		}
		r := g.exec(q)
		fmt.Printf("Q[%s] %s\n  rpcs=%v err=%q\n  %s\n", name, q, r.RPCs, r.Err, r.Body)
		if r.Stack != "" && os.Getenv("C20_STACK") != "" {
			fmt.Println(r.Stack)
		}
	}
}

func TestUnits(t *testing.T) {
	if os.Getenv("C20_UNITS") == "" {
		t.Skip()
	}
	for _, name := range []string{"plain", "fed"} {
		st, err := unitStates(name)
		if err != nil {
			t.Fatal(err)
		}
		w, _ := worldByName(name)
		for _, k := range w.sortedUnitKeys() {
			s := st[k]
			if s.Status != "stable" || os.Getenv("C20_UNITS") == "all" {
				fmt.Printf("%s %-45s %-11s %s\n    %s\n", name, k, s.Status, s.Why, s.Probe)
			}
		}
		fmt.Println(name, len(st), "units")
	}
}

func TestNormalize(t *testing.T) {
	if os.Getenv("C20_NORM") == "" {
		t.Skip()
	}
	g, err := rigByName("plain")
	if err != nil {
		t.Fatal(err)
	}
	for _, q := range strings.Split(os.Getenv("C20_NORM"), ";;") {
		req := graphql.Request{Query: q}
		res, err := req.Normalize(g.sch, astnormalization.WithRemoveFragmentDefinitions(), astnormalization.WithInlineFragmentSpreads())
		fmt.Println(q, "\n  ->", err, res.Successful)
		s, _ := astprinter.PrintString(req.Document())
		fmt.Println("  ", s)
	}
}

func TestPlan(t *testing.T) {
	if os.Getenv("C20_PLAN") == "" {
		t.Skip()
	}
	schemaDoc := grpctest.MustGraphQLSchema(t)
	for _, q := range strings.Split(os.Getenv("C20_PLAN"), ";;") {
		op, rep := astparser.ParseGraphqlDocumentString(q)
		if rep.HasErrors() {
			t.Fatal(rep.Error())
		}
		pl, err := grpcdatasource.NewPlanner("Products", mapping.DefaultGRPCMapping(), nil)
		if err != nil {
			t.Fatal(err)
		}
		p, err := pl.PlanOperation(&op, &schemaDoc)
		fmt.Println(q, "\n  err:", err)
		if p != nil {
			b, _ := json.MarshalIndent(p.Calls, "  ", " ")
			fmt.Println(string(b))
		}
	}
}

func TestSites(t *testing.T) {
	if os.Getenv("C20_SITES") == "" {
		t.Skip()
	}
	for _, q := range strings.Split(os.Getenv("C20_SITES"), ";;") {
		name := "plain"
		if strings.HasPrefix(q, "fed:") {
			name, q = "fed", q[4:]
		}
		w, err := worldByName(name)
		if err != nil {
			t.Fatal(err)
		}
		p, err := parseOp(w, q)
		if err != nil {
			t.Fatal(err)
		}
		fmt.Println(q, "\n  drop:", w.aliasDropSites(p), "\n  multi:", w.typenameMultiSites(p), "\n  enum:", w.hasRepeatedEnumArg(p), "nullparent:", w.resolverUnderNullable(p))
	}
}
