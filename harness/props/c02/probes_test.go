package c02

import (
	"fmt"
	"strings"

	"github.com/wundergraph/graphql-go-tools/v2/pkg/engine/resolve"

	"verif/harness/pbt"
)

const probeSDL = `schema { query: Query }
type Query { me: User users: [User] m: [[String!]] }
type User { name: String friend: User }
`

const probeSDL2 = `schema { query: Query }
type Query { u: U o: A n: N }
union U = A | B
union V = A
interface N { n: N s: String u: U nn: [[N]] }
interface M { s: String }
type A implements N { n: N s: String b: Boolean u: U nn: [[N]] }
type B implements N & M { n: N s: String b: Boolean u: U nn: [[N]] }
`

// outputProbe reproduces while the rendered output differs (as JSON) from what the operation
// and the data demand.
type outputProbe struct {
	in   probeInput
	want string
}

func (p outputProbe) run() string {
	r, err := probeRender(p.in)
	if err != nil || r.panicked != "" {
		return ""
	}
	got, err1 := parseJSON(r.out)
	want, err2 := parseJSON([]byte(p.want))
	if err1 != nil || err2 != nil {
		return ""
	}
	if jsonEqual(got.get("data"), want.get("data")) && (got.get("errors") != nil) == (want.get("errors") != nil) {
		return ""
	}
	return fmt.Sprintf("%s with %s renders %s (demanded: %s)", p.in.Op, p.in.Data, r.out, p.want)
}

func outputProbes(ps ...outputProbe) func() string {
	return func() string {
		var hits []string
		for _, p := range ps {
			if h := p.run(); h != "" {
				hits = append(hits, h)
			}
		}
		return strings.Join(hits, "; ")
	}
}

type probeInput struct {
	SDL  string `json:"sdl"`
	Op   string `json:"op"`
	Data string `json:"data"`
}

func probeRender(in probeInput) (rendered, error) {
	w, err := getWorld(in.SDL)
	if err != nil {
		return rendered{}, err
	}
	pl := w.planTree(in.Op)
	if pl.err != "" {
		return rendered{}, fmt.Errorf("%s", pl.err)
	}
	return renderResolvable(pl.resp, []byte(in.Data), resolve.ResolvableOptions{}), nil
}

var dupPathProbes = []struct {
	in   probeInput
	want string // the response path of the offending position
	got  string // what the defect produces
}{
	{probeInput{probeSDL, `{ me { name } }`, `{"me":"str"}`}, "/me", "/me/me"},
	{probeInput{probeSDL, `{ users { name } }`, `{"users":{}}`}, "/users", "/users/users"},
	{probeInput{probeSDL, `{ me { friend { name } } }`, `{"me":{"friend":[]}}`}, "/me/friend", "/me/friend/friend"},
}

func probes() pbt.Probes {
	return pbt.Probes{
		findingDupPath: {
			Input: dupPathProbes[0].in,
			Fn: func() string {
				var hits []string
				for _, p := range dupPathProbes {
					r, err := probeRender(p.in)
					if err != nil {
						return "" // cannot run the probe: say nothing
					}
					_, _, errs, problem := envelope(r.out)
					if problem != "" {
						continue
					}
					for _, e := range errs {
						if e.hasPath && pathKey(e.path) == p.got {
							hits = append(hits, fmt.Sprintf("%s with %s -> error %q has path %s, offending position is %s", p.in.Op, p.in.Data, e.message, p.got, p.want))
						}
					}
				}
				return strings.Join(hits, "; ")
			},
		},
		findingUnionTypename: {
			Input: probeInput{probeSDL2, `{ u { k: __typename __typename ... on M { k: __typename } } }`, `{"u":{"k":"A","__typename":"A"}}`},
			Fn: outputProbes(
				outputProbe{probeInput{probeSDL2, `{ u { k: __typename __typename ... on M { k: __typename } } }`, `{"u":{"k":"A","__typename":"A"}}`}, `{"data":{"u":{"k":"A","__typename":"A"}}}`},
				outputProbe{probeInput{probeSDL2, `{ u { ... on M { ... on U { k: __typename } s } } }`, `{"u":{"__typename":"A"}}`}, `{"data":{"u":{}}}`},
			),
		},
		findingCopyPossible: {
			Input: probeInput{probeSDL2, `{ u { __typename ... on N { n { s } } } }`, `{"u":{"__typename":"B","n":{"__typename":"Nope","s":"x"}}}`},
			Fn: outputProbes(
				outputProbe{probeInput{probeSDL2, `{ u { __typename ... on N { n { s } } } }`, `{"u":{"__typename":"B","n":{"__typename":"Nope","s":"x"}}}`}, `{"errors":[{"message":"invalid __typename"}],"data":{"u":{"__typename":"B","n":null}}}`},
			),
		},
		findingConcreteNoTypename: {
			Input: probeInput{probeSDL2, `{ o { ... on U { ... on A { b } } } }`, `{"o":{"b":true}}`},
			Fn: outputProbes(
				outputProbe{probeInput{probeSDL2, `{ o { ... on U { ... on A { b } } } }`, `{"o":{"b":true}}`}, `{"data":{"o":{"b":true}}}`},
			),
		},
		findingMergeScalars: {
			Input: probeInput{probeSDL2, `{ n { u { ... on A { s } } ... on B { u { ... on A { s } } } } }`, `{"n":{"__typename":"A","u":{"__typename":"A","s":"x"}}}`},
			Fn: outputProbes(
				outputProbe{probeInput{probeSDL2, `{ n { u { ... on A { s } } ... on B { u { ... on A { s } } } } }`, `{"n":{"__typename":"A","u":{"__typename":"A","s":"x"}}}`}, `{"data":{"n":{"u":{"s":"x"}}}}`},
			),
		},
		findingMergeNestedList: {
			Input: probeInput{probeSDL2, `{ n { nn { s } ... on B { nn { b: s } } } }`, `{"n":{"__typename":"B","nn":[[{"__typename":"A","s":"x","b":"y"}]]}}`},
			Fn: outputProbes(
				outputProbe{probeInput{probeSDL2, `{ n { nn { s } ... on B { nn { b: s } } } }`, `{"n":{"__typename":"B","nn":[[{"__typename":"A","s":"x","b":"y"}]]}}`}, `{"data":{"n":{"nn":[[{"s":"x","b":"y"}]]}}}`},
			),
		},
		findingNestedAbstract: {
			Input: probeInput{probeSDL2, `{ n { ... on V { ... on N { s } } } }`, `{"n":{"__typename":"B","s":"x"}}`},
			Fn: outputProbes(
				outputProbe{probeInput{probeSDL2, `{ n { ... on V { ... on N { s } } } }`, `{"n":{"__typename":"B","s":"x"}}`}, `{"data":{"n":{}}}`},
			),
		},
		findingRootNotObject: {
			Input: probeInput{probeSDL, `{ me { name } }`, `[]`},
			Fn: func() string {
				w, err := getWorld(probeSDL)
				if err != nil {
					return ""
				}
				var hits []string
				for _, d := range []string{`[]`, `"str"`, `5`} {
					r := w.renderEngine(`{ me { name } }`, []byte(d))
					if r.panicked == "" && r.err != "" && len(r.out) == 0 {
						hits = append(hits, fmt.Sprintf("subgraph answers {\"data\":%s} -> Execute returns %q and writes no response", d, r.err))
					}
				}
				return strings.Join(hits, "; ")
			},
		},
		findingAliasTypename: {
			Input: probeInput{probeSDL, `{ me { k: __typename name } }`, `{"me":{"k":"Nope","name":"x"}}`},
			Fn: outputProbes(
				outputProbe{probeInput{probeSDL, `{ me { k: __typename name } }`, `{"me":{"k":"Nope","name":"x"}}`}, `{"errors":[{"message":"invalid __typename"}],"data":{"me":null}}`},
				outputProbe{probeInput{probeSDL, `{ me { k: __typename name } }`, `{"me":{"k":"","name":"x"}}`}, `{"errors":[{"message":"invalid __typename"}],"data":{"me":null}}`},
			),
		},
		findingPanic: {
			Input: probeInput{probeSDL, `{ m }`, `{"m":[["a",null]]}`},
			Fn: func() string {
				r, err := probeRender(probeInput{probeSDL, `{ m }`, `{"m":[["a",null]]}`})
				if err != nil {
					return ""
				}
				if r.panicked != "" {
					return fmt.Sprintf("{ m } (m: [[String!]]) with {\"m\":[[\"a\",null]]} -> Resolvable.Resolve panics: %s", r.panicked)
				}
				return ""
			},
		},
	}
}
