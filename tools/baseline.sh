#!/bin/bash
# Runs the pinned baseline suite (command of /root/.vp/BASELINE.json) on /repo's working tree, guard off,
# and compares the passing tests with BASELINE.stable_pass. Output: /tmp/baseline/summary.txt
set -u
mkdir -p /tmp/baseline; rm -f /tmp/baseline/run.json
export GOPROXY=off
unset GOFLAGS
. /w/out/goenv.sh
for m in $(cat /w/out/gomods.txt); do MF=$(cd /repo/$m && gomodflag); (cd /repo/$m && go test $MF -json -vet=off -count=1 -timeout 25m ./...) >> /tmp/baseline/run.json 2>/tmp/baseline/stderr.txt; done
python3 - <<'PY'
import json
passed=set(); failed=set()
for l in open('/tmp/baseline/run.json'):
    try: e=json.loads(l)
    except Exception: continue
    if e.get('Test') and e.get('Action') in ('pass','fail'):
        k=e['Package']+'::'+e['Test']
        (passed if e['Action']=='pass' else failed).add(k)
b=json.load(open('/root/.vp/BASELINE.json'))
stable=set(b['stable_pass'])
miss=sorted(stable-passed)
open('/tmp/baseline/summary.txt','w').write("stable %d passed-of-stable %d failed %d missing %d\n%s\n"%(len(stable),len(stable&passed),len(failed&stable),len(miss),"\n".join(miss[:50])))
print(open('/tmp/baseline/summary.txt').read())
PY
