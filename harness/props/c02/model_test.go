package c02

// The reference view of (schema, operation): GraphQL's CollectFields over gqlparser's ASTs.
// Nothing here looks at the planner's resolve.Node tree or at resolvable.go.

import (
	"fmt"

	gast "github.com/vektah/gqlparser/v2/ast"
)

type model struct {
	s   *gast.Schema
	doc *gast.QueryDocument
	op  *gast.OperationDefinition
}

// mfield is one entry of the grouped field set of an object at runtime type rt.
type mfield struct {
	key      string // response key
	name     string // schema field name ("__typename" for the meta field)
	typ      *gast.Type
	sets     []gast.SelectionSet // merged sub-selections
	fieldDef *gast.FieldDefinition
}

func (m *model) applies(cond string, obj *gast.Definition) bool {
	if cond == "" || cond == obj.Name {
		return true
	}
	cd := m.s.Types[cond]
	if cd == nil {
		return false
	}
	for _, pt := range m.s.GetPossibleTypes(cd) {
		if pt.Name == obj.Name {
			return true
		}
	}
	return false
}

var typenameType = gast.NonNullNamedType("String", nil)

// collect implements CollectFields + field grouping for runtime object type rt.
func (m *model) collect(sets []gast.SelectionSet, rt string) []mfield {
	obj := m.s.Types[rt]
	var order []string
	groups := map[string][]*gast.Field{}
	var walk func(set gast.SelectionSet)
	walk = func(set gast.SelectionSet) {
		for _, sel := range set {
			switch x := sel.(type) {
			case *gast.Field:
				k := x.Alias
				if k == "" {
					k = x.Name
				}
				if _, ok := groups[k]; !ok {
					order = append(order, k)
				}
				groups[k] = append(groups[k], x)
			case *gast.InlineFragment:
				if m.applies(x.TypeCondition, obj) {
					walk(x.SelectionSet)
				}
			case *gast.FragmentSpread:
				fd := m.doc.Fragments.ForName(x.Name)
				if fd != nil && m.applies(fd.TypeCondition, obj) {
					walk(fd.SelectionSet)
				}
			}
		}
	}
	for _, s := range sets {
		walk(s)
	}
	out := make([]mfield, 0, len(order))
	for _, k := range order {
		fs := groups[k]
		mf := mfield{key: k, name: fs[0].Name}
		for _, f := range fs {
			if len(f.SelectionSet) > 0 {
				mf.sets = append(mf.sets, f.SelectionSet)
			}
		}
		if mf.name == "__typename" {
			mf.typ = typenameType
		} else {
			fd := obj.Fields.ForName(mf.name)
			if fd == nil {
				panic(fmt.Sprintf("model: field %s.%s not in schema", rt, mf.name))
			}
			mf.typ = fd.Type
			mf.fieldDef = fd
		}
		out = append(out, mf)
	}
	return out
}

// countTypeConditions returns the number of distinct type conditions (other than the
// declared type itself) that guard selections directly inside these selection sets.
func (m *model) countTypeConditions(sets []gast.SelectionSet, declared string) int {
	seen := map[string]bool{}
	var walk func(set gast.SelectionSet)
	walk = func(set gast.SelectionSet) {
		for _, sel := range set {
			switch x := sel.(type) {
			case *gast.InlineFragment:
				if x.TypeCondition != "" && x.TypeCondition != declared {
					seen[x.TypeCondition] = true
				}
				walk(x.SelectionSet)
			case *gast.FragmentSpread:
				if fd := m.doc.Fragments.ForName(x.Name); fd != nil {
					if fd.TypeCondition != declared {
						seen[fd.TypeCondition] = true
					}
					walk(fd.SelectionSet)
				}
			}
		}
	}
	for _, s := range sets {
		walk(s)
	}
	return len(seen)
}

// cellOf names the coverage-matrix cell of a declared field type:
// <kind>:<null|nonnull>:<bare|list|listnn|nested>.
func (m *model) cellOf(t *gast.Type) string {
	outer := "null"
	if t.NonNull {
		outer = "nonnull"
	}
	shape := "bare"
	inner := t
	if t.Elem != nil {
		inner = t.Elem
		if inner.Elem != nil {
			shape = "nested"
			for inner.Elem != nil {
				inner = inner.Elem
			}
		} else if inner.NonNull {
			shape = "listnn"
		} else {
			shape = "list"
		}
	}
	return m.kindOf(inner.NamedType) + ":" + outer + ":" + shape
}

func (m *model) kindOf(named string) string {
	def := m.s.Types[named]
	switch def.Kind {
	case gast.Scalar:
		switch named {
		case "String", "Int", "Float", "Boolean", "ID":
			return named
		}
		return "custom"
	case gast.Enum:
		return "enum"
	case gast.Object:
		return "object"
	case gast.Interface:
		return "interface"
	default:
		return "union"
	}
}

func allCells() []string {
	var out []string
	for _, k := range kindNames {
		for _, o := range []string{"null", "nonnull"} {
			for _, s := range []string{"bare", "list", "listnn", "nested"} {
				out = append(out, k+":"+o+":"+s)
			}
		}
	}
	return out
}
