package c05

import (
	"strings"
	"testing"

	"verif/harness/pbt"
)

// TestProp is the entry point the driver runs in every shard.
func TestProp(t *testing.T) {
	r := pbt.Start(t, "C05")
	defer r.Finish()
	r.Rule("bytes-total: token-biased byte strings (token soup, damaged grammar-generated documents, damaged hostile constants), non-trivial when the input lexes to >=3 tokens; " +
		"docs-roundtrip / limits: grammar-generated documents, non-trivial when the document has >=5 nodes of >=3 kinds; distinct by input text (limits: text + limits)")
	r.Assume(
		"gqlparser v2.5.30's reading of a grammar-generated source is trusted as the second opinion on the generator (disagreements are dropped and counted, inconclusive above 5 %)",
		"shape compares block strings by BlockStringValue() (own implementation) and regular strings by raw content; positions are ignored",
		"selection depth = nesting of selection sets inside one operation/fragment definition; field count = field nodes of the whole document",
		"inputs up to 64 KiB; value/selection nesting far below the stack-exhaustion range (stated bound of DESIGN §4 C05)",
	)
	r.RequireLabel("bytes:accepted", "bytes:accepted-with->=5-nodes-of->=3-kinds", "docs:differential", "docs:kind:exec", "docs:kind:schema", "docs:kind:mixed", "docs:adjacent:definition-then-anonymous-query", "docs:adjacent:extend-schema", "docs:adjacent:query-keyword-required", "docs:adjacent:shorthand",
		"docs:adjacent:lookalike-root-operation-types",
		"limits:over-depth", "limits:over-fields", "limits:within")
	r.Regress(dispatch())
	r.RunProbes(probes())
	bytesPart.Run(r)
	docsPart.Run(r)
	limitsPart.Run(r)

	// oracle disagreement bound (DESIGN §3.4): dropped cases above 5 % of the differential
	// cases make the run inconclusive (the shard fails without a recorded violation).
	checked, dropped := docsChecked.Load(), docsDiscarded.Load()
	r.Extra("docs_differential_cases", checked)
	r.Extra("docs_oracle_disagreements_dropped", dropped)
	if checked >= 400 && dropped*20 > checked {
		t.Errorf("INCONCLUSIVE: %d of %d differential cases dropped as generator/gqlparser disagreement (> 5 %%): fix the generator", dropped, checked)
	}
	if um := unmappedList(); len(um) > 0 {
		r.Extra("bounds_unmapped_int_slices", strings.Join(um, ","))
	}
}

func TestReplay(t *testing.T) { pbt.StdReplay(t, "C05", dispatch()) }

func dispatch() pbt.Dispatch {
	return pbt.Dispatch{}.
		Add(bytesPart.Name, bytesPart.Handler()).
		Add(docsPart.Name, docsPart.Handler()).
		Add(limitsPart.Name, limitsPart.Handler()).
		Add("fuzz:FuzzParse", fuzzReplay).
		WithProbes(probes())
}
