package c08

import (
	"testing"

	"verif/harness/pbt"
)

func TestProp(t *testing.T) {
	r := pbt.Start(t, "C08")
	defer r.Finish()
	r.Rule("A: random dependency DAGs of 2-14 fetches (with duplicate fetches) through postprocess.Processor under each option set, non-trivial = a fetch with >= 2 dependencies and a Parallel node with >= 2 children; A': the same invariant on the real fetch tree of every generated federation case under each option set, non-trivial = >= 3 fetches with >= 1 dependency edge; B: generated completion orders of the gated subgraph requests of real executions, non-trivial = >= 2 requests parked simultaneously at least once; distinct by case text")
	r.Assume("the loader executes a fetch tree by the recursion Sequence = one child after another, Parallel = all children concurrently (resolveSerial/resolveParallel); B reads fetch ids from propagated operation names and waits for exactly the frontier the tree prescribes", "data dependency in B is also checked by content: every representation sent was present in a response that had already been returned")
	r.Regress(dispatch())
	r.RunProbes(probes())
	dagPart.Run(r)
	planPart.Run(r)
	schedPart.Run(r)
}

func TestReplay(t *testing.T) { pbt.StdReplay(t, "C08", dispatch()) }

func dispatch() pbt.Dispatch {
	return pbt.Dispatch{}.Add(dagPart.Name, dagPart.Handler()).Add(planPart.Name, planPart.Handler()).Add(schedPart.Name, schedPart.Handler()).WithProbes(probes())
}

func probes() pbt.Probes { return pbt.Probes{} }
