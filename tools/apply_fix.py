#!/usr/bin/env python3
"""apply_fix.py <patch> <subject> <body>: applies one patch to /repo as a single 'fix:' commit (build-checked)."""
import subprocess, sys
patch, subject, body = sys.argv[1:4]
assert subject.startswith("fix:")
r = subprocess.run(["git", "-C", "/repo", "apply", "--recount", patch], capture_output=True, text=True)
if r.returncode != 0:
    print("APPLY FAILED", r.stderr); sys.exit(1)
for mod, pk in (("v2", "./pkg/..."), ("execution", "./...")):
    b = subprocess.run("cd /repo/%s && GOPROXY=off go build %s " % (mod, pk), shell=True, capture_output=True, text=True)
    if b.returncode != 0:
        print("BUILD FAILED", b.stdout, b.stderr)
        subprocess.run(["git", "-C", "/repo", "checkout", "--", "."]); sys.exit(1)
subprocess.run(["git", "-C", "/repo", "commit", "-qam", subject + "\n\n" + body], check=True)
print(subprocess.run(["git", "-C", "/repo", "log", "--format=%h %s", "-1"], capture_output=True, text=True).stdout.strip())
