package c07

import (
	"encoding/json"
	"testing"

	"verif/harness/pbt"
)

func TestProp(t *testing.T) {
	r := pbt.Start(t, "C07")
	defer r.Finish()
	r.Rule("C01 cases (layout x operation x variables x universe) whose fault-free run emits >= 2 subgraph requests, x fault subsets x fault kinds (random part) and all single faults of every kind plus all transport-fault pairs for runs with <= 6 requests (enumeration part); non-trivial = a faulted request has dependants (another request is no longer sent or shrinks) or a sibling request survives; distinct by (layout, operation, variables, seed, fault map)")
	r.Assume("the fault-free run equals the monolith (cases where it does not are C01's business and are dropped)", "expected data = reference execution with the (entity, response key) pairs delivered only by failed or no-longer-sent requests unavailable, then spec null propagation; ambiguous provenance (same pair delivered by two requests) is compared only through the fault-kind-independence relation", "watchdog 60 s per execution is a liveness bound, not a promptness measurement")
	r.Regress(dispatch())
	r.RunProbes(probes())
	faultPart.Run(r)
	enumPart.Run(r)
	requiresPart.Run(r)
}

func TestReplay(t *testing.T) { pbt.StdReplay(t, "C07", dispatch()) }

func dispatch() pbt.Dispatch {
	return pbt.Dispatch{}.Add(faultPart.Name, faultPart.Handler()).Add(enumPart.Name, enumPart.Handler()).Add(requiresPart.Name, requiresPart.Handler()).WithProbes(probes())
}

func probes() pbt.Probes {
	return pbt.KnownCaseProbes("known", func(part string, raw json.RawMessage) pbt.Verdict {
		if part == enumPart.Name {
			return enumPart.CheckRaw(raw)
		}
		return faultPart.CheckRaw(raw)
	})
}

func TestMinimize(t *testing.T) {
	pbt.StdMinimize(t, "C07", pbt.Minimizers{faultPart.Name: minimizeFault, enumPart.Name: minimizeFault, requiresPart.Name: minimizeFault})
}
