package c09

import (
	"testing"

	"verif/harness/pbt"
)

func TestProp(t *testing.T) {
	r := pbt.Start(t, "C09")
	defer r.Finish()
	r.Rule("determinism: generated federation operations planned repeatedly by fresh planners with unrelated operations planned in between, non-trivial = the plan has >= 2 fetches; transparency: generated request histories (repeats, renamed variables, other variable values, other operation names, unrelated operations) on one long-lived engine per option set versus a fresh default engine per request, non-trivial = the history has a plan-cache hit whose variables differ from the entry's first use, or an option changed at least one subgraph request; distinct by case text")
	r.Assume("plan fingerprint = fetch tree shape + every fetch's rendered input (upstream operation) + printed query plan + canonical dump of the response tree", "responses are compared as JSON values (data) and as error-message multisets")
	r.Regress(dispatch())
	r.RunProbes(probes())
	detPart.Run(r)
	transPart.Run(r)
}

func TestReplay(t *testing.T) { pbt.StdReplay(t, "C09", dispatch()) }

func dispatch() pbt.Dispatch {
	return pbt.Dispatch{}.Add(detPart.Name, detPart.Handler()).Add(transPart.Name, transPart.Handler()).WithProbes(probes())
}

func probes() pbt.Probes { return findingProbes() }
