package c11

// A park/resume scheduler that owns the schedule of one scenario.
//
// Participants run in their own goroutines, but at most the goroutines the harness just acted
// on are runnable: every other one is parked at a harness point (a yield window of the engine,
// a gate in the fake data source / pre-fetch hook / writer), blocked inside the engine waiting
// for a leader (confirmed by looking at the goroutine's state, never by waiting some time), or
// finished. The harness goroutine executes one action at a time (start / resume / cancel /
// poison) and then waits until the scenario is quiescent again. Rendezvous is by channels and
// by goroutine state; the clock only feeds generous watchdogs.

import (
	"bytes"
	"context"
	"fmt"
	"runtime"
	"runtime/debug"
	"sort"
	"strconv"
	"strings"
	"sync"
	"sync/atomic"
	"time"

	"github.com/wundergraph/graphql-go-tools/v2/pkg/verifhook"
)

// park points: the H3 windows plus the harness gates
const (
	ptPrefetch    = "gate.prefetch" // inside the pre-fetch hook (before any error it returns)
	ptLoad        = "gate.load"     // inside DataSource.Load
	ptWrite       = "gate.write"    // inside the client's writer, holding the slice it was handed
	ptBeforeAdd   = "inbound.follower.before_add"
	ptFinishOk    = "inbound.leader.finish_ok"
	ptBeforeClose = "inbound.leader.before_close"
	ptFinishErr   = "inbound.leader.finish_err"
	ptJoined      = "subgraph.follower.joined"
	ptLoaded      = "subgraph.leader.loaded"
)

var shortToPoint = map[string]string{
	"prefetch": ptPrefetch, "load": ptLoad, "write": ptWrite,
	"before_add": ptBeforeAdd, "finish_ok": ptFinishOk, "before_close": ptBeforeClose, "finish_err": ptFinishErr,
	"joined": ptJoined, "loaded": ptLoaded,
}

func shortOf(point string) string {
	for k, v := range shortToPoint {
		if v == point {
			return k
		}
	}
	return point
}

// ---- goroutine introspection --------------------------------------------------------------

func curGID() int64 {
	var buf [64]byte
	n := runtime.Stack(buf[:], false)
	// "goroutine 123 [running]:..."
	f := bytes.Fields(buf[:n])
	if len(f) < 2 {
		return -1
	}
	id, err := strconv.ParseInt(string(f[1]), 10, 64)
	if err != nil {
		return -1
	}
	return id
}

type ginfo struct {
	state string // e.g. "select", "chan receive", "runnable"
	top   string // first frame (function with arguments)
	text  string
}

var stackBuf = make([]byte, 1<<16)

// allGoroutines snapshots every goroutine (stop-the-world inside the runtime).
func allGoroutines() map[int64]ginfo {
	for {
		n := runtime.Stack(stackBuf, true)
		if n < len(stackBuf) {
			return parseStacks(stackBuf[:n])
		}
		stackBuf = make([]byte, 2*len(stackBuf))
	}
}

func parseStacks(b []byte) map[int64]ginfo {
	out := map[int64]ginfo{}
	for _, blk := range strings.Split(string(b), "\n\n") {
		if !strings.HasPrefix(blk, "goroutine ") {
			continue
		}
		nl := strings.IndexByte(blk, '\n')
		head := blk
		rest := ""
		if nl >= 0 {
			head, rest = blk[:nl], blk[nl+1:]
		}
		sp := strings.IndexByte(head[10:], ' ')
		if sp < 0 {
			continue
		}
		id, err := strconv.ParseInt(head[10:10+sp], 10, 64)
		if err != nil {
			continue
		}
		st := ""
		if i := strings.IndexByte(head, '['); i >= 0 {
			if j := strings.LastIndexByte(head, ']'); j > i {
				st = head[i+1 : j]
			}
		}
		top := rest
		if i := strings.IndexByte(rest, '\n'); i >= 0 {
			top = rest[:i]
		}
		out[id] = ginfo{state: st, top: top, text: blk}
	}
	return out
}

// internalWait: the goroutine is blocked inside the engine on something only another
// participant or the harness can provide: the follower wait (select on the leader's channel
// and the follower's own context in GetOrCreate / loadByContext) or the queue for a
// MaxConcurrency slot (receive on the resolver's semaphore). It is recognised as "select or
// channel receive with the top frame in package resolve", so it also fits code that waits for
// the slot differently. A close by the leader, a slot released by a returning participant or
// the waiter's own cancellation wakes it, and all of those follow from harness actions.
func internalWait(g ginfo) bool {
	if !strings.HasPrefix(g.state, "select") && !strings.HasPrefix(g.state, "chan receive") {
		return false
	}
	return strings.Contains(g.top, "/pkg/engine/resolve.")
}

// waitKind names the internal wait for labels and messages.
func waitKind(g ginfo) string {
	if strings.Contains(g.top, "GetOrCreate") || strings.Contains(g.top, "loadByContext") {
		return "waiting-for-leader"
	}
	return "queued-for-slot"
}

// ---- scheduler ------------------------------------------------------------------------------

type pstate struct {
	id   int
	spec Participant
	key  Key
	ikey string // inbound key: client operation + variables + headers
	w    *who
	out  outcome
	wr   *pwriter

	ctx    context.Context
	cancel context.CancelFunc

	gid      int64
	started  bool
	finished bool
	parkedAt string
	forced   bool
	resume   chan struct{}
	want     map[string]bool

	arrived   map[string]bool
	parkedLog []string

	waitWhere string // last confirmed internal wait: waiting-for-leader | queued-for-slot
	queued    bool   // was seen queued for a MaxConcurrency slot

	cancelled           bool
	cancelWhere         string
	cancelBeforeProduct bool

	loadEntered, loadDone         bool
	loadResult                    string
	loadCount                     int
	prefetchEntered, prefetchDone bool
	prefetchResult                string

	wedged       bool // never returned on its own; released by the clean-up only
	lateAtErr    bool // was inside the lookup→registration window while a same-key leader ran FinishErr
	lateJoin     bool // left the subgraph follower window after the leader had finished
	lateRegister bool // was inside the lookup→registration window while a same-key leader ran its follower check
}

type pwriter struct {
	p       *pstate
	s       *sched
	fail    bool // this client's connection fails while the response is written to it
	out     []byte
	attempt []byte // what the engine tried to write (recorded also when the write fails)
	writes  int
}

func (w *pwriter) Write(b []byte) (int, error) {
	// park while holding the slice; the copy is taken after the resume, so anything that
	// recycled/overwrote the memory behind b in between shows up in the recorded bytes
	// (with fail set this is "the write hangs, then fails")
	w.s.reach(w.p, ptWrite)
	w.attempt = append(w.attempt, b...)
	w.writes++
	if w.fail {
		return 0, &writeErr{w.p.id}
	}
	w.out = append(w.out, b...)
	return len(b), nil
}

type action struct {
	kind string // start | resume | cancel | poison
	pid  int
}

func (a action) String() string {
	if a.kind == "poison" {
		return "poison"
	}
	return fmt.Sprintf("%s(p%d)", a.kind, a.pid)
}

type sched struct {
	mu       sync.Mutex
	wake     chan struct{}
	parts    []*pstate
	byGID    map[int64]*pstate
	draining bool
	rig      *rig
	c        *Case
	loads    *loadLog

	steer17, steer18 bool
	excluded17       int
	excluded18       int
	forcedParks      int

	poisoned     int
	poisonFailed string
	log          []string
	watchdog     time.Duration
}

var current atomic.Pointer[sched]

func init() {
	verifhook.SetHandler(func(point string, key any) {
		s := current.Load()
		if s == nil {
			return
		}
		gid := curGID()
		s.mu.Lock()
		p := s.byGID[gid]
		s.mu.Unlock()
		if p == nil {
			return
		}
		s.reach(p, point)
	})
}

func (s *sched) notify() {
	select {
	case s.wake <- struct{}{}:
	default:
	}
}

func (s *sched) logf(f string, a ...any) { s.log = append(s.log, fmt.Sprintf(f, a...)) }

// reach is called on a participant goroutine when it arrives at a park point.
func (s *sched) reach(p *pstate, point string) {
	s.mu.Lock()
	p.arrived[point] = true
	switch point {
	case ptLoad:
		p.loadEntered = true
		p.loadCount++
	case ptPrefetch:
		p.prefetchEntered = true
	}
	if s.draining {
		s.mu.Unlock()
		return
	}
	park, forced := p.want[point], false
	if !park && s.steer17 && point == ptFinishOk && s.followerInWindow(p) {
		// known class C11-late-follower-double-close: hold the leader's follower check until
		// the same-key followers inside the lookup→registration window have registered
		park, forced = true, true
		s.forcedParks++
		s.excluded17++
	}
	if !park {
		s.logf("p%d passes %s", p.id, shortOf(point))
		s.depart(p, point)
		s.mu.Unlock()
		if point == ptBeforeAdd || point == ptJoined {
			s.notify() // about to enter the follower wait
		}
		return
	}
	delete(p.want, point)
	ch := make(chan struct{})
	p.parkedAt, p.resume, p.forced = point, ch, forced
	p.parkedLog = append(p.parkedLog, point)
	if forced {
		s.logf("p%d parks at %s (forced by steering)", p.id, shortOf(point))
	} else {
		s.logf("p%d parks at %s", p.id, shortOf(point))
	}
	s.mu.Unlock()
	s.notify()
	<-ch
}

// followerInWindow: a same-inbound-key participant is parked between lookup and registration. (locked)
func (s *sched) followerInWindow(p *pstate) bool {
	for _, q := range s.parts {
		if q != p && q.ikey == p.ikey && q.parkedAt == ptBeforeAdd {
			return true
		}
	}
	return false
}

// depart is called (locked) when p leaves a point, either passing through or being resumed.
func (s *sched) depart(p *pstate, point string) {
	switch point {
	case ptFinishOk:
		// the leader now deletes the map entry and checks HasFollowers
		for _, q := range s.parts {
			if q != p && q.ikey == p.ikey && q.parkedAt == ptBeforeAdd {
				q.lateRegister = true
			}
		}
	case ptFinishErr:
		for _, q := range s.parts {
			if q != p && q.ikey == p.ikey && q.parkedAt == ptBeforeAdd {
				q.lateAtErr = true
			}
		}
	case ptJoined:
		// a subgraph follower that leaves the window after its leader has already published
		for _, q := range s.parts {
			if q != p && q.spec.Key == p.spec.Key && q.loadDone && q.finished {
				p.lateJoin = true
			}
		}
	}
}

func (s *sched) loadReturned(p *pstate, result string) {
	s.mu.Lock()
	p.loadDone, p.loadResult = true, result
	s.logf("p%d load returns %s", p.id, result)
	s.mu.Unlock()
}

func (s *sched) prefetchReturned(p *pstate, result string) {
	s.mu.Lock()
	p.prefetchDone, p.prefetchResult = true, result
	if result != "ok" {
		s.logf("p%d pre-fetch hook returns %s", p.id, result)
	}
	s.mu.Unlock()
}

func (s *sched) hasInbound() bool {
	return s.c.Layer != layerSubgraph && s.c.OpType == "query"
}

func (s *sched) shares() bool { return s.c.OpType == "query" }

// productFinal: cancelling p now can no longer change a result that others may receive. (locked)
func (s *sched) productFinal(p *pstate) bool {
	if !s.shares() {
		return true
	}
	if !p.started {
		return false
	}
	if p.prefetchDone && p.prefetchResult != "ok" {
		return true
	}
	if s.hasInbound() {
		if p.arrived[ptBeforeAdd] && !p.prefetchEntered {
			return true // a pure inbound follower has no followers of its own
		}
		return p.loadDone || p.arrived[ptWrite] || p.arrived[ptFinishOk] || p.arrived[ptFinishErr]
	}
	return p.loadDone || p.arrived[ptJoined]
}

// othersCouldShare: another unfinished participant with the same fetch key exists. (locked)
func (s *sched) othersCouldShare(p *pstate) bool {
	for _, q := range s.parts {
		if q != p && q.spec.Key == p.spec.Key && !q.finished {
			return true
		}
	}
	return false
}

// enabled lists the actions the harness may take now, in a fixed order: starts, cancels,
// resumes, poison (so the default policy - first enabled - fires every cancel script as soon
// as everybody has arrived).
func (s *sched) enabled() []action {
	s.mu.Lock()
	defer s.mu.Unlock()
	var out []action
	for _, p := range s.parts {
		if !p.started {
			out = append(out, action{"start", p.id})
		}
	}
	for _, p := range s.parts {
		if (p.spec.Script != scCancel && p.spec.Script != scDeadline) || p.cancelled || p.finished {
			continue
		}
		if s.steer18 && !s.productFinal(p) && s.othersCouldShare(p) {
			// known class C11-*-leader-cancel-leak: a participant whose result others may
			// still receive is not cancelled
			s.excluded18++
			continue
		}
		out = append(out, action{"cancel", p.id})
	}
	for _, p := range s.parts {
		if p.parkedAt == "" || p.finished {
			continue
		}
		if s.steer17 && p.parkedAt == ptFinishOk && s.followerInWindow(p) {
			if !p.forced {
				s.excluded17++
			}
			continue
		}
		out = append(out, action{"resume", p.id})
	}
	if s.poisoned < 1 && s.c.MaxConc == 0 { // the poison requests need a slot each
		for _, p := range s.parts {
			if p.parkedAt == ptWrite {
				out = append(out, action{"poison", -1})
				break
			}
		}
	}
	return out
}

func (s *sched) act(a action) {
	s.mu.Lock()
	s.logf("-- %s", a)
	s.mu.Unlock()
	switch a.kind {
	case "start":
		p := s.parts[a.pid]
		s.mu.Lock()
		p.started = true
		s.mu.Unlock()
		s.launch(p)
	case "resume":
		p := s.parts[a.pid]
		s.mu.Lock()
		pt, ch := p.parkedAt, p.resume
		p.parkedAt, p.resume, p.forced = "", nil, false
		s.depart(p, pt)
		s.mu.Unlock()
		close(ch)
	case "cancel":
		p := s.parts[a.pid]
		s.mu.Lock()
		p.cancelled = true
		p.cancelBeforeProduct = !s.productFinal(p)
		switch {
		case !p.started:
			p.cancelWhere = "before-arrival"
		case p.parkedAt != "":
			p.cancelWhere = "parked-at-" + shortOf(p.parkedAt)
		case p.waitWhere != "":
			p.cancelWhere = p.waitWhere
		default:
			p.cancelWhere = "waiting-for-leader"
		}
		if p.spec.Script == scDeadline {
			s.logf("   p%d's own deadline expires %s", p.id, p.cancelWhere)
		} else {
			s.logf("   p%d cancelled %s", p.id, p.cancelWhere)
		}
		s.mu.Unlock()
		p.cancel()
	case "poison":
		s.poison()
	}
}

func (s *sched) launch(p *pstate) {
	plan := s.rig.plan(p.key.Op, p.spec.Alt, s.c.OpType, s.c.DataSources)
	go func() {
		gid := curGID()
		s.mu.Lock()
		p.gid = gid
		s.byGID[gid] = p
		s.mu.Unlock()
		defer func() {
			if v := recover(); v != nil {
				p.out.Panic = fmt.Sprint(v)
				p.out.Stack = string(debug.Stack())
			}
			p.out.Out = string(p.wr.attempt)
			p.out.Delivered = string(p.wr.out)
			s.mu.Lock()
			p.finished = true
			delete(s.byGID, gid)
			if p.out.Panic != "" {
				s.logf("p%d PANICS: %s", p.id, p.out.Panic)
			} else {
				s.logf("p%d returns out=%q err=%v dedup=%v", p.id, p.out.Out, p.out.Err, p.out.Dedup)
			}
			s.mu.Unlock()
			s.notify()
		}()
		rc := s.rig.request(p.ctx, s.c.Layer, s.c.OpType, s.c.HdrMode, p.key, p.spec.Alt, p.w)
		info, err := s.rig.resolver.ArenaResolveGraphQLResponse(rc, plan, p.wr)
		p.out.Returned = true
		p.out.err = err
		if err != nil {
			p.out.Err = err.Error()
		}
		if info != nil {
			p.out.Dedup = info.ResolveDeduplicated
		}
		p.out.subErr = rc.SubgraphErrors()
	}()
}

type blockingWriter struct {
	arrived chan<- struct{}
	release <-chan struct{}
	n       int
}

func (w *blockingWriter) Write(b []byte) (int, error) {
	w.n += len(b)
	w.arrived <- struct{}{}
	<-w.release
	return len(b), nil
}

// poison recycles the arenas the finished requests gave back: enough extra requests to drain
// both arena pools run concurrently up to their client write, each having rendered a payload of
// the same length made of 'Z' into whatever arena it was handed.
func (s *sched) poison() {
	s.poisoned++
	n := len(s.parts) + 2
	arrived := make(chan struct{}, n)
	release := make(chan struct{})
	done := make(chan string, n)
	k := s.parts[0].key
	plan := s.rig.plan(k.Op, false, s.c.OpType, s.c.DataSources)
	for i := 0; i < n; i++ {
		go func() {
			msg := ""
			defer func() {
				if v := recover(); v != nil {
					msg = fmt.Sprintf("poison request panicked: %v", v)
				}
				done <- msg
			}()
			rc := s.rig.request(context.Background(), s.c.Layer, s.c.OpType, s.c.HdrMode, k, false, &who{pid: -2, poison: true})
			w := &blockingWriter{arrived: arrived, release: release}
			if _, err := s.rig.resolver.ArenaResolveGraphQLResponse(rc, plan, w); err != nil {
				msg = "poison request failed: " + err.Error()
			} else if w.n == 0 {
				msg = "poison request wrote nothing"
			}
		}()
	}
	t := time.NewTimer(s.watchdog)
	defer t.Stop()
	got := 0
	for got < n {
		select {
		case <-arrived:
			got++
		case m := <-done:
			s.poisonFailed = "poison request ended before its write: " + m
			close(release)
			return
		case <-t.C:
			s.poisonFailed = "watchdog waiting for poison requests"
			close(release)
			return
		}
	}
	close(release)
	for i := 0; i < n; i++ {
		select {
		case m := <-done:
			if m != "" && s.poisonFailed == "" {
				s.poisonFailed = m
			}
		case <-t.C:
			s.poisonFailed = "watchdog waiting for poison requests to return"
			return
		}
	}
}

type settleResult struct {
	ok      bool
	stuck   []*pstate // participants neither parked, finished nor in a follower wait when the watchdog expired
	samples map[int]string
}

// settle waits until every started participant is parked at a harness point, finished, or
// confirmed (by goroutine state) to be blocked in the engine's follower wait.
func (s *sched) settle() settleResult {
	deadline := time.Now().Add(s.watchdog)
	backoff := 20 * time.Microsecond
	for {
		// participants announce parks, returns and imminent follower waits on s.wake: give the
		// ones that are running the chance to do so before paying for a snapshot
		s.await(backoff)
		s.mu.Lock()
		var cand []*pstate
		unregistered := false
		for _, p := range s.parts {
			if p.started && !p.finished && p.parkedAt == "" {
				cand = append(cand, p)
				if p.gid == 0 {
					unregistered = true
				}
			}
		}
		s.mu.Unlock()
		if len(cand) == 0 {
			return settleResult{ok: true}
		}
		if unregistered {
			if time.Now().After(deadline) {
				return settleResult{}
			}
			continue
		}
		// one stop-the-world snapshot: the scenario is quiescent iff, at that instant, every
		// participant that was neither parked nor finished before it sits in a follower wait
		// (flags are deliberately NOT re-read after the snapshot)
		gs := allGoroutines()
		stable := true
		for _, p := range cand {
			g, ok := gs[p.gid]
			if !ok || !internalWait(g) {
				stable = false
			}
		}
		if stable {
			s.mu.Lock()
			for _, p := range cand {
				p.waitWhere = waitKind(gs[p.gid])
				if p.waitWhere == "queued-for-slot" {
					p.queued = true
				}
			}
			s.mu.Unlock()
			return settleResult{ok: true}
		}
		if time.Now().After(deadline) {
			res := settleResult{samples: map[int]string{}}
			s.mu.Lock()
			for _, p := range cand {
				if p.finished || p.parkedAt != "" {
					continue
				}
				if g, ok := gs[p.gid]; ok && !internalWait(g) {
					res.stuck = append(res.stuck, p)
					res.samples[p.id] = g.state + " @ " + g.top
				}
			}
			s.mu.Unlock()
			return res
		}
		if backoff < time.Millisecond {
			backoff *= 2
		}
	}
}

// await returns when a participant signalled a state change, or after d at the latest (the
// caller then looks at the goroutine states itself). It spins briefly before blocking.
func (s *sched) await(d time.Duration) {
	for i := 0; i < 64; i++ {
		select {
		case <-s.wake:
			return
		default:
			runtime.Gosched()
		}
	}
	t := time.NewTimer(d)
	select {
	case <-s.wake:
	case <-t.C:
	}
	t.Stop()
}

// drain releases everything so the scenario's goroutines can end (cleanup only).
func (s *sched) drain() bool {
	s.mu.Lock()
	s.draining = true
	for _, p := range s.parts {
		if p.parkedAt != "" {
			close(p.resume)
			p.parkedAt, p.resume = "", nil
		}
	}
	s.mu.Unlock()
	for _, p := range s.parts {
		p.cancel()
	}
	deadline := time.Now().Add(3 * time.Second)
	for {
		s.mu.Lock()
		all := true
		for _, p := range s.parts {
			if p.started && !p.finished {
				all = false
			}
		}
		s.mu.Unlock()
		if all {
			return true
		}
		if time.Now().After(deadline) {
			return false
		}
		select {
		case <-s.wake:
		case <-time.After(time.Millisecond):
		}
	}
}

// goroutineSet is the set of goroutine ids alive now (ids are never reused).
func goroutineSet() map[int64]bool {
	out := map[int64]bool{}
	for id := range allGoroutines() {
		out[id] = true
	}
	return out
}

// leaked reports goroutines that were not alive in `before` and are still alive, double-sampled.
// stable=true: the same goroutines sit in the same blocking call in both samples.
func leaked(before map[int64]bool, patience time.Duration) (desc []string, stable bool) {
	deadline := time.Now().Add(patience)
	var last map[int64]ginfo
	tries := 0
	for {
		gs := allGoroutines()
		last = map[int64]ginfo{}
		for id, g := range gs {
			if !before[id] {
				last[id] = g
			}
		}
		if len(last) == 0 {
			return nil, false
		}
		if time.Now().After(deadline) {
			break
		}
		if tries++; tries < 20 {
			runtime.Gosched()
		} else {
			time.Sleep(200 * time.Microsecond)
		}
	}
	time.Sleep(50 * time.Millisecond)
	gs := allGoroutines()
	stable = true
	ids := make([]int64, 0, len(last))
	for id := range last {
		ids = append(ids, id)
	}
	sort.Slice(ids, func(i, j int) bool { return ids[i] < ids[j] })
	for _, id := range ids {
		g2, ok := gs[id]
		if !ok {
			continue
		}
		g1 := last[id]
		if g1.top != g2.top || strings.SplitN(g1.state, ",", 2)[0] != strings.SplitN(g2.state, ",", 2)[0] ||
			strings.HasPrefix(g2.state, "run") || strings.HasPrefix(g2.state, "syscall") {
			stable = false
		}
		desc = append(desc, fmt.Sprintf("goroutine %d [%s] %s", id, g2.state, g2.top))
	}
	if len(desc) == 0 {
		return nil, false
	}
	return desc, stable
}
