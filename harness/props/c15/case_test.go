package c15

import (
	"fmt"
	"strings"

	"pgregory.net/rapid"

	ir "verif/harness/internal/inputref"
)

// FieldUse is one echo field selected by the operation.
type FieldUse struct {
	Key  string `json:"key"`           // response key (alias or field name)
	Echo string `json:"echo"`          // echo field name
	Arg  string `json:"arg,omitempty"` // literal text of the argument; "" = argument not given
	Mode string `json:"mode"`          // literal | variable | omitted
}

// Case is one forwarding experiment.
type Case struct {
	Schema   ir.Schema    `json:"schema"`
	Decls    []ir.VarDecl `json:"decls,omitempty"`
	Fields   []FieldUse   `json:"fields"`
	Query    string       `json:"query"`
	VarsForm string       `json:"varsForm"` // object | absent | null
	Vars     string       `json:"vars"`
}

func genCase(t *rapid.T) Case {
	s := ir.GenSchema(t)
	g := &ir.Gen{T: t, S: s, Fancy: true}
	var c Case
	nf := rapid.SampledFrom([]int{1, 1, 1, 2, 2, 3}).Draw(t, "nfields")
	var sels []string
	for i := 0; i < nf; i++ {
		if i > 0 && rapid.IntRange(0, 6).Draw(t, "dup") == 0 {
			// the same echo field again, with the same or a new literal (extraction de-duplicates
			// equal values of equal type)
			prev := c.Fields[rapid.IntRange(0, i-1).Draw(t, "dupof")]
			fu := FieldUse{Key: fmt.Sprintf("r%d", i), Echo: prev.Echo, Arg: prev.Arg, Mode: prev.Mode}
			if prev.Mode == "literal" && rapid.Bool().Draw(t, "newlit") {
				fu.Arg = g.Literal(s.Echo(prev.Echo).Arg.T(), 0, true, false)
			}
			c.Fields = append(c.Fields, fu)
			sels = append(sels, sel(fu))
			continue
		}
		at := g.GenVarType()
		echo := ir.Echo{Name: fmt.Sprintf("f%d", i), Arg: ir.Field{Name: "v", Type: at.String()}}
		if !at.NonNull && rapid.IntRange(0, 7).Draw(t, "argdefault") == 0 {
			g.Fancy, g.NoSingle = false, true
			echo.Arg.Default = g.Literal(at, 2, false, false)
			g.Fancy, g.NoSingle = true, false
		}
		s.Echoes = append(s.Echoes, echo)
		fu := FieldUse{Key: echo.Name, Echo: echo.Name}
		if rapid.IntRange(0, 3).Draw(t, "alias") == 0 {
			fu.Key = fmt.Sprintf("r%d", i)
		}
		optional := !at.NonNull || echo.Arg.Default != ""
		switch m := rapid.IntRange(0, 19).Draw(t, "mode"); {
		case m == 0 && optional:
			fu.Mode = "omitted"
		case m <= 6:
			fu.Mode = "variable"
			fu.Arg = g.NewVar(at, false, false)
		default:
			fu.Mode = "literal"
			fu.Arg = g.Literal(at, 0, true, false)
		}
		c.Fields = append(c.Fields, fu)
		sels = append(sels, sel(fu))
	}
	for _, gv := range g.Vars {
		c.Decls = append(c.Decls, gv.Decl)
	}
	name := ""
	if rapid.Bool().Draw(t, "named") {
		name = " Q"
	}
	head := "query" + name + ir.VarDefsText(c.Decls)
	if len(c.Decls) == 0 && name == "" && rapid.Bool().Draw(t, "shorthand") {
		head = ""
	}
	c.Query = head + "{ " + strings.Join(sels, rapid.SampledFrom([]string{" ", "\n", ", "}).Draw(t, "selsep")) + " }"
	c.Schema = *s

	obj := ir.VarsObject(g.Vars)
	if len(obj.O) > 1 && rapid.Bool().Draw(t, "rotvars") {
		obj.O = append(obj.O[1:], obj.O[0])
	}
	c.VarsForm = "object"
	if len(obj.O) == 0 {
		c.VarsForm = rapid.SampledFrom([]string{"object", "absent", "null"}).Draw(t, "varsform")
	}
	switch c.VarsForm {
	case "object":
		c.Vars = strings.TrimLeft(ir.JSONTextStyled(obj, g.JSONWhitespace()), " \t\r\n")
	case "null":
		c.Vars = "null"
	}
	return c
}

func sel(fu FieldUse) string {
	s := fu.Echo
	if fu.Key != fu.Echo {
		s = fu.Key + ": " + s
	}
	if fu.Mode != "omitted" {
		s += "(v: " + fu.Arg + ")"
	}
	return s
}
