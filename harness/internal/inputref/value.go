package inputref

import (
	"fmt"
	"math/big"
	"sort"
	"strconv"
	"strings"
	"unicode/utf8"
)

// VKind is the kind of a Value.
type VKind int

// Value kinds. VEnum and VVar only occur in values decoded from GraphQL literals.
const (
	VNull VKind = iota
	VBool
	VNum
	VStr
	VEnum
	VList
	VObj
	VVar
)

func (k VKind) String() string {
	return [...]string{"null", "boolean", "number", "string", "enum", "list", "object", "variable"}[k]
}

// Member is one object entry; order is source order.
type Member struct {
	Key string
	V   *Value
}

// Value is an input value: decoded from JSON, decoded from a GraphQL literal, or the result
// of coercion. Numbers keep their exact source text.
type Value struct {
	K        VKind
	B        bool
	N        string // number text exactly as written
	FloatLit bool   // literal only: FloatValue token (fraction and/or exponent)
	Block    bool   // literal only: block string
	S        string // string value (decoded), enum name, variable name
	Raw      string // JSON only: spelling of a string token (with quotes) to emit verbatim
	L        []*Value
	O        []Member
}

// Convenience constructors.
func Null() *Value           { return &Value{K: VNull} }
func Bool(b bool) *Value     { return &Value{K: VBool, B: b} }
func Num(text string) *Value { return &Value{K: VNum, N: text} }
func Str(s string) *Value    { return &Value{K: VStr, S: s} }
func List(items ...*Value) *Value {
	return &Value{K: VList, L: append([]*Value{}, items...)}
}
func Obj(m ...Member) *Value { return &Value{K: VObj, O: append([]Member{}, m...)} }

// Get returns the last member with the key (JSON semantics of most parsers) or nil.
func (v *Value) Get(key string) *Value {
	if v == nil || v.K != VObj {
		return nil
	}
	for i := len(v.O) - 1; i >= 0; i-- {
		if v.O[i].Key == key {
			return v.O[i].V
		}
	}
	return nil
}

// Has reports whether the object has the key.
func (v *Value) Has(key string) bool { return v.Get(key) != nil }

// Set replaces or appends a member.
func (v *Value) Set(key string, x *Value) {
	for i := range v.O {
		if v.O[i].Key == key {
			v.O[i].V = x
			return
		}
	}
	v.O = append(v.O, Member{key, x})
}

// Del removes a member.
func (v *Value) Del(key string) {
	out := v.O[:0]
	for _, m := range v.O {
		if m.Key != key {
			out = append(out, m)
		}
	}
	v.O = out
}

// Clone deep-copies a value.
func (v *Value) Clone() *Value {
	if v == nil {
		return nil
	}
	c := *v
	if v.L != nil {
		c.L = make([]*Value, len(v.L))
		for i, x := range v.L {
			c.L[i] = x.Clone()
		}
	}
	if v.O != nil {
		c.O = make([]Member, len(v.O))
		for i, m := range v.O {
			c.O[i] = Member{m.Key, m.V.Clone()}
		}
	}
	return &c
}

// ---- exact decimal numbers ---------------------------------------------------------------

// Dec is an exact decimal: (-1)^Neg × Digits × 10^Exp with Digits free of leading and
// trailing zeros; zero is Digits == "".
type Dec struct {
	Neg    bool
	Digits string
	Exp    *big.Int
}

// ParseDec parses JSON / GraphQL number text (both grammars are subsets of
// -?digits(.digits)?([eE][+-]?digits)?).
func ParseDec(text string) (Dec, error) {
	s := text
	d := Dec{Exp: new(big.Int)}
	if s != "" && s[0] == '-' {
		d.Neg = true
		s = s[1:]
	}
	i := 0
	for i < len(s) && s[i] >= '0' && s[i] <= '9' {
		i++
	}
	if i == 0 {
		return d, fmt.Errorf("bad number %q", text)
	}
	intPart, frac := s[:i], ""
	s = s[i:]
	if s != "" && s[0] == '.' {
		j := 1
		for j < len(s) && s[j] >= '0' && s[j] <= '9' {
			j++
		}
		if j == 1 {
			return d, fmt.Errorf("bad number %q", text)
		}
		frac = s[1:j]
		s = s[j:]
	}
	if s != "" && (s[0] == 'e' || s[0] == 'E') {
		e := s[1:]
		if e != "" && e[0] == '+' {
			e = e[1:]
		}
		if _, ok := d.Exp.SetString(e, 10); !ok || e == "" || e == "-" {
			return d, fmt.Errorf("bad exponent in %q", text)
		}
		s = ""
	}
	if s != "" {
		return d, fmt.Errorf("bad number %q", text)
	}
	digits := intPart + frac
	d.Exp.Sub(d.Exp, big.NewInt(int64(len(frac))))
	t := strings.TrimRight(digits, "0")
	d.Exp.Add(d.Exp, big.NewInt(int64(len(digits)-len(t))))
	d.Digits = strings.TrimLeft(t, "0")
	if d.Digits == "" {
		d.Neg = false
		d.Exp.SetInt64(0)
	}
	return d, nil
}

// Key is the canonical text of the exact value.
func (d Dec) Key() string {
	if d.Digits == "" {
		return "0"
	}
	s := d.Digits + "e" + d.Exp.String()
	if d.Neg {
		s = "-" + s
	}
	return s
}

// Integral reports whether the value is a mathematical integer.
func (d Dec) Integral() bool { return d.Digits == "" || d.Exp.Sign() >= 0 }

// Int returns the integer value when it is integral and has at most 40 digits.
func (d Dec) Int() (*big.Int, bool) {
	if d.Digits == "" {
		return new(big.Int), true
	}
	if !d.Integral() || !d.Exp.IsInt64() || d.Exp.Int64()+int64(len(d.Digits)) > 40 {
		return nil, false
	}
	n, _ := new(big.Int).SetString(d.Digits+strings.Repeat("0", int(d.Exp.Int64())), 10)
	if d.Neg {
		n.Neg(n)
	}
	return n, true
}

var (
	minInt32 = big.NewInt(-2147483648)
	maxInt32 = big.NewInt(2147483647)
)

// Int32 reports whether the value is an integer in the GraphQL Int range.
func (d Dec) Int32() bool {
	n, ok := d.Int()
	return ok && n.Cmp(minInt32) >= 0 && n.Cmp(maxInt32) <= 0
}

// PlainIntText reports whether number text is spelled as an integer (no fraction/exponent).
func PlainIntText(text string) bool { return !strings.ContainsAny(text, ".eE") }

// ---- canonical comparison -----------------------------------------------------------------

// Canon renders a value canonically: object keys sorted, numbers by exact decimal value,
// strings Go-quoted, enum names as strings. Two values denote the same GraphQL value iff
// their canonical texts are equal. A nil value renders as "<absent>".
func Canon(v *Value) string {
	var b strings.Builder
	canon(&b, v)
	return b.String()
}

func canon(b *strings.Builder, v *Value) {
	if v == nil {
		b.WriteString("<absent>")
		return
	}
	switch v.K {
	case VNull:
		b.WriteString("null")
	case VBool:
		b.WriteString(strconv.FormatBool(v.B))
	case VNum:
		d, err := ParseDec(v.N)
		if err != nil {
			b.WriteString("#bad(" + strconv.Quote(v.N) + ")")
			return
		}
		b.WriteString("#" + d.Key())
	case VStr, VEnum:
		b.WriteString(strconv.QuoteToASCII(v.S))
	case VVar:
		b.WriteString("$" + v.S)
	case VList:
		b.WriteByte('[')
		for i, x := range v.L {
			if i > 0 {
				b.WriteByte(',')
			}
			canon(b, x)
		}
		b.WriteByte(']')
	case VObj:
		ms := append([]Member{}, v.O...)
		sort.SliceStable(ms, func(i, j int) bool { return ms[i].Key < ms[j].Key })
		b.WriteByte('{')
		for i, m := range ms {
			if i > 0 {
				b.WriteByte(',')
			}
			b.WriteString(strconv.QuoteToASCII(m.Key))
			b.WriteByte(':')
			canon(b, m.V)
		}
		b.WriteByte('}')
	}
}

// Depth is the nesting depth of lists/objects.
func (v *Value) Depth() int {
	if v == nil {
		return 0
	}
	d := 0
	for _, x := range v.L {
		if n := x.Depth(); n > d {
			d = n
		}
	}
	for _, m := range v.O {
		if n := m.V.Depth(); n > d {
			d = n
		}
	}
	if v.K == VList || v.K == VObj {
		d++
	}
	return d
}

// ---- JSON ---------------------------------------------------------------------------------

// ParseJSON is a strict RFC 8259 parser that keeps number text, member order and duplicate
// members. Surrogate pair escapes are combined; a lone surrogate escape is an error (it does
// not denote a Unicode string), as is invalid UTF-8 or a raw control character in a string.
func ParseJSON(text string) (*Value, error) {
	p := &jsonParser{s: text}
	p.ws()
	v, err := p.value(0)
	if err != nil {
		return nil, err
	}
	p.ws()
	if p.i != len(p.s) {
		return nil, fmt.Errorf("json: trailing data at offset %d", p.i)
	}
	return v, nil
}

type jsonParser struct {
	s string
	i int
}

func (p *jsonParser) ws() {
	for p.i < len(p.s) && (p.s[p.i] == ' ' || p.s[p.i] == '\t' || p.s[p.i] == '\n' || p.s[p.i] == '\r') {
		p.i++
	}
}

func (p *jsonParser) errf(f string, a ...any) error {
	return fmt.Errorf("json: offset %d: %s", p.i, fmt.Sprintf(f, a...))
}

func (p *jsonParser) value(depth int) (*Value, error) {
	if depth > 200 {
		return nil, p.errf("too deep")
	}
	if p.i >= len(p.s) {
		return nil, p.errf("unexpected end")
	}
	switch c := p.s[p.i]; {
	case c == '{':
		p.i++
		v := &Value{K: VObj, O: []Member{}}
		p.ws()
		if p.i < len(p.s) && p.s[p.i] == '}' {
			p.i++
			return v, nil
		}
		for {
			p.ws()
			if p.i >= len(p.s) || p.s[p.i] != '"' {
				return nil, p.errf("expected object key")
			}
			k, err := p.str()
			if err != nil {
				return nil, err
			}
			p.ws()
			if p.i >= len(p.s) || p.s[p.i] != ':' {
				return nil, p.errf("expected ':'")
			}
			p.i++
			p.ws()
			x, err := p.value(depth + 1)
			if err != nil {
				return nil, err
			}
			v.O = append(v.O, Member{k, x})
			p.ws()
			if p.i < len(p.s) && p.s[p.i] == ',' {
				p.i++
				continue
			}
			if p.i < len(p.s) && p.s[p.i] == '}' {
				p.i++
				return v, nil
			}
			return nil, p.errf("expected ',' or '}'")
		}
	case c == '[':
		p.i++
		v := &Value{K: VList, L: []*Value{}}
		p.ws()
		if p.i < len(p.s) && p.s[p.i] == ']' {
			p.i++
			return v, nil
		}
		for {
			p.ws()
			x, err := p.value(depth + 1)
			if err != nil {
				return nil, err
			}
			v.L = append(v.L, x)
			p.ws()
			if p.i < len(p.s) && p.s[p.i] == ',' {
				p.i++
				continue
			}
			if p.i < len(p.s) && p.s[p.i] == ']' {
				p.i++
				return v, nil
			}
			return nil, p.errf("expected ',' or ']'")
		}
	case c == '"':
		s, err := p.str()
		if err != nil {
			return nil, err
		}
		return Str(s), nil
	case c == 't' && strings.HasPrefix(p.s[p.i:], "true"):
		p.i += 4
		return Bool(true), nil
	case c == 'f' && strings.HasPrefix(p.s[p.i:], "false"):
		p.i += 5
		return Bool(false), nil
	case c == 'n' && strings.HasPrefix(p.s[p.i:], "null"):
		p.i += 4
		return Null(), nil
	case c == '-' || c >= '0' && c <= '9':
		st := p.i
		if c == '-' {
			p.i++
		}
		if p.i >= len(p.s) {
			return nil, p.errf("bad number")
		}
		if p.s[p.i] == '0' {
			p.i++
		} else if p.s[p.i] >= '1' && p.s[p.i] <= '9' {
			for p.i < len(p.s) && p.s[p.i] >= '0' && p.s[p.i] <= '9' {
				p.i++
			}
		} else {
			return nil, p.errf("bad number")
		}
		if p.i < len(p.s) && p.s[p.i] == '.' {
			p.i++
			n := 0
			for p.i < len(p.s) && p.s[p.i] >= '0' && p.s[p.i] <= '9' {
				p.i++
				n++
			}
			if n == 0 {
				return nil, p.errf("bad fraction")
			}
		}
		if p.i < len(p.s) && (p.s[p.i] == 'e' || p.s[p.i] == 'E') {
			p.i++
			if p.i < len(p.s) && (p.s[p.i] == '+' || p.s[p.i] == '-') {
				p.i++
			}
			n := 0
			for p.i < len(p.s) && p.s[p.i] >= '0' && p.s[p.i] <= '9' {
				p.i++
				n++
			}
			if n == 0 {
				return nil, p.errf("bad exponent")
			}
		}
		return Num(p.s[st:p.i]), nil
	}
	return nil, p.errf("unexpected character %q", p.s[p.i])
}

func hex4(s string) (rune, bool) {
	if len(s) < 4 {
		return 0, false
	}
	var r rune
	for i := 0; i < 4; i++ {
		c := s[i]
		switch {
		case c >= '0' && c <= '9':
			r = r<<4 | rune(c-'0')
		case c >= 'a' && c <= 'f':
			r = r<<4 | rune(c-'a'+10)
		case c >= 'A' && c <= 'F':
			r = r<<4 | rune(c-'A'+10)
		default:
			return 0, false
		}
	}
	return r, true
}

func (p *jsonParser) str() (string, error) {
	p.i++ // opening quote
	var b strings.Builder
	for {
		if p.i >= len(p.s) {
			return "", p.errf("unterminated string")
		}
		c := p.s[p.i]
		switch {
		case c == '"':
			p.i++
			return b.String(), nil
		case c < 0x20:
			return "", p.errf("raw control character 0x%02x in string", c)
		case c == '\\':
			if p.i+1 >= len(p.s) {
				return "", p.errf("unterminated escape")
			}
			e := p.s[p.i+1]
			p.i += 2
			switch e {
			case '"', '\\', '/':
				b.WriteByte(e)
			case 'b':
				b.WriteByte('\b')
			case 'f':
				b.WriteByte('\f')
			case 'n':
				b.WriteByte('\n')
			case 'r':
				b.WriteByte('\r')
			case 't':
				b.WriteByte('\t')
			case 'u':
				r, ok := hex4(p.s[p.i:])
				if !ok {
					return "", p.errf("bad \\u escape")
				}
				p.i += 4
				if r >= 0xD800 && r <= 0xDBFF {
					if strings.HasPrefix(p.s[p.i:], "\\u") {
						if lo, ok := hex4(p.s[p.i+2:]); ok && lo >= 0xDC00 && lo <= 0xDFFF {
							p.i += 6
							b.WriteRune(0x10000 + (r-0xD800)<<10 + (lo - 0xDC00))
							continue
						}
					}
					return "", p.errf("lone leading surrogate escape")
				}
				if r >= 0xDC00 && r <= 0xDFFF {
					return "", p.errf("lone trailing surrogate escape")
				}
				b.WriteRune(r)
			default:
				return "", p.errf("bad escape \\%c", e)
			}
		default:
			r, n := utf8.DecodeRuneInString(p.s[p.i:])
			if r == utf8.RuneError && n <= 1 {
				return "", p.errf("invalid UTF-8 in string")
			}
			b.WriteString(p.s[p.i : p.i+n])
			p.i += n
		}
	}
}

// JSONText renders a value as compact JSON (numbers as written; enum names as strings).
func JSONText(v *Value) string {
	var b strings.Builder
	writeJSON(&b, v, nil)
	return b.String()
}

// JSONStyle controls optional whitespace when rendering.
type JSONStyle struct {
	Spaces []string // cyclically used separators; nil means compact
	n      int
}

func (st *JSONStyle) sp() string {
	if st == nil || len(st.Spaces) == 0 {
		return ""
	}
	s := st.Spaces[st.n%len(st.Spaces)]
	st.n++
	return s
}

// JSONTextStyled renders with insignificant whitespace taken from the style.
func JSONTextStyled(v *Value, st *JSONStyle) string {
	var b strings.Builder
	writeJSON(&b, v, st)
	return b.String()
}

func jsonQuote(s string) string {
	var b strings.Builder
	b.WriteByte('"')
	for _, r := range s {
		switch {
		case r == '"':
			b.WriteString(`\"`)
		case r == '\\':
			b.WriteString(`\\`)
		case r == '\n':
			b.WriteString(`\n`)
		case r == '\r':
			b.WriteString(`\r`)
		case r == '\t':
			b.WriteString(`\t`)
		case r < 0x20:
			fmt.Fprintf(&b, `\u%04x`, r)
		default:
			b.WriteRune(r)
		}
	}
	b.WriteByte('"')
	return b.String()
}

func writeJSON(b *strings.Builder, v *Value, st *JSONStyle) {
	switch v.K {
	case VNull:
		b.WriteString("null")
	case VBool:
		b.WriteString(strconv.FormatBool(v.B))
	case VNum:
		b.WriteString(v.N)
	case VStr, VEnum:
		if v.Raw != "" {
			b.WriteString(v.Raw)
		} else {
			b.WriteString(jsonQuote(v.S))
		}
	case VVar:
		b.WriteString(jsonQuote("$" + v.S))
	case VList:
		b.WriteByte('[')
		for i, x := range v.L {
			if i > 0 {
				b.WriteByte(',')
			}
			b.WriteString(st.sp())
			writeJSON(b, x, st)
		}
		b.WriteString(st.sp())
		b.WriteByte(']')
	case VObj:
		b.WriteByte('{')
		for i, m := range v.O {
			if i > 0 {
				b.WriteByte(',')
			}
			b.WriteString(st.sp())
			b.WriteString(jsonQuote(m.Key))
			b.WriteString(st.sp())
			b.WriteByte(':')
			b.WriteString(st.sp())
			writeJSON(b, m.V, st)
		}
		b.WriteString(st.sp())
		b.WriteByte('}')
	}
}
