package c10

import (
	"bytes"
	"encoding/json"
	"errors"
	"fmt"
	"io"
	"os"
	"sort"
	"strings"
	"sync"
	"time"

	"github.com/vektah/gqlparser/v2/ast"
	"github.com/vektah/gqlparser/v2/formatter"
	"github.com/vektah/gqlparser/v2/parser"
	"pgregory.net/rapid"

	"github.com/wundergraph/graphql-go-tools/execution/engine"
	"github.com/wundergraph/graphql-go-tools/v2/pkg/engine/resolve"

	"verif/harness/internal/fedgen"
	"verif/harness/internal/kit"
	"verif/harness/internal/opgen"
	"verif/harness/internal/opshrink"
	"verif/harness/internal/ref"
	"verif/harness/internal/sim"
	"verif/harness/pbt"
)

type deferCase struct {
	Layout *fedgen.Layout `json:"layout"`
	Seed   uint64         `json:"seed"`
	Op     opgen.Op       `json:"op"`
	Prios  [][]int        `json:"prios"`
	// Hard, when set, adds a variant in which the Hard.K-th pre-fetch rate-limiter call after
	// the first flush fails with a Go error (a hard fetch-phase failure of a deferred group)
	// and every later Flush takes Hard.FlushMs milliseconds (a slow client).
	Hard *hardFail `json:"hard,omitempty"`
}

type hardFail struct {
	K       int   `json:"k"`
	FlushMs int   `json:"flush_ms"`
	Prio    []int `json:"prio"`
}

// failingLimiter is a resolve.RateLimiter that lets everything pass except one call.
type failingLimiter struct {
	mu      sync.Mutex
	armed   func() bool
	k, seen int
	fired   bool
}

func (f *failingLimiter) RateLimitPreFetch(ctx *resolve.Context, info *resolve.FetchInfo, input json.RawMessage) (*resolve.RateLimitDeny, error) {
	f.mu.Lock()
	defer f.mu.Unlock()
	if !f.armed() {
		return nil, nil
	}
	f.seen++
	if f.seen-1 == f.k {
		f.fired = true
		return nil, errors.New("rate limiter backend unavailable")
	}
	return nil, nil
}

func (f *failingLimiter) RenderResponseExtension(ctx *resolve.Context, out io.Writer) error {
	return nil
}

func allowFromEnv() map[string]bool {
	m := map[string]bool{}
	for _, c := range strings.Split(os.Getenv("C10_ALLOW"), ",") {
		if c != "" {
			m[c] = true
		}
	}
	return m
}

var deferPart = pbt.Part[deferCase]{Name: "defer-reconstruction-and-stream", Journal: true, Quick: 24000, Thorough: 480000, Check: checkDefer,
	Gen: func(t *rapid.T) deferCase {
		// @defer below a list of lists never delivers (finding C10-defer-under-nested-list)
		l := fedgen.Gen(t, fedgen.Options{Allow: allowFromEnv(), NoRequires: !allowFromEnv()["requires"],
			Exclude: map[string]bool{"nested-value-list": !allowFromEnv()["defer-under-nested-list"],
				// nested @defer inside the value object of a nested key cannot be planned (finding
				// C10-nested-defer-inside-key-object-unplannable)
				"nested-key": !allowFromEnv()["nested-key"]}})
		super, err := sim.LoadSuper(l.Super)
		if err != nil {
			t.Fatalf("generator produced an invalid supergraph: %v", err)
		}
		c := deferCase{Layout: l, Seed: rapid.Uint64Range(1, 1<<20).Draw(t, "useed")}
		// a labelled @defer next to any statically evaluated @skip/@include is rejected with a
		// bogus "label must be unique" (finding C10-label-unique-false-positive): labels and
		// @skip/@include are generated in separate cases
		both := allowFromEnv()["label-with-skip-include"]
		labels := rapid.Bool().Draw(t, "labels") || both
		c.Op = opgen.Gen(t, super, opgen.Options{Defer: true, Allow: allowFromEnv(), MaxDepth: 6, Budget: 30, NoDeferLabels: !labels, NoDirectives: labels && !both, UniqueKeys: !allowFromEnv()["defer-overlaps-nondeferred"]})
		n := rapid.IntRange(1, 3).Draw(t, "norders")
		for i := 0; i < n; i++ {
			c.Prios = append(c.Prios, rapid.SliceOfN(rapid.IntRange(0, 99), 8, 8).Draw(t, "prio"))
		}
		if rapid.IntRange(0, 3).Draw(t, "hard") == 0 {
			c.Hard = &hardFail{K: rapid.IntRange(0, 3).Draw(t, "hardk"), FlushMs: rapid.SampledFrom([]int{0, 3, 12}).Draw(t, "flushms"),
				Prio: rapid.SliceOfN(rapid.IntRange(0, 99), 8, 8).Draw(t, "hprio")}
		}
		return c
	}}

func format(doc *ast.QueryDocument) string {
	var b bytes.Buffer
	formatter.NewFormatter(&b, formatter.WithIndent(" ")).FormatQueryDocument(doc)
	return strings.Join(strings.Fields(b.String()), " ")
}

// withoutDefer removes every @defer directive; ok=false when the text has none.
func withoutDefer(op opgen.Op, onlyIfFalse bool) (opgen.Op, int, bool) {
	doc, err := parser.ParseQuery(&ast.Source{Input: op.Query})
	if err != nil {
		return op, 0, false
	}
	n := 0
	strip := func(d ast.DirectiveList) ast.DirectiveList {
		var out ast.DirectiveList
		for _, x := range d {
			if x.Name == "defer" {
				n++
				if onlyIfFalse {
					out = append(out, &ast.Directive{Name: "defer", Arguments: ast.ArgumentList{{Name: "if", Value: &ast.Value{Kind: ast.BooleanValue, Raw: "false"}}}})
				}
				continue
			}
			out = append(out, x)
		}
		return out
	}
	var walk func(set ast.SelectionSet)
	walk = func(set ast.SelectionSet) {
		for _, s := range set {
			switch x := s.(type) {
			case *ast.Field:
				walk(x.SelectionSet)
			case *ast.InlineFragment:
				x.Directives = strip(x.Directives)
				walk(x.SelectionSet)
			case *ast.FragmentSpread:
				x.Directives = strip(x.Directives)
			}
		}
	}
	for _, o := range doc.Operations {
		walk(o.SelectionSet)
	}
	for _, f := range doc.Fragments {
		walk(f.SelectionSet)
	}
	out := op
	{
		// variables used only by @defer(if: $v) become unused: drop their definitions and values
		used := map[string]bool{}
		var val func(v *ast.Value)
		val = func(v *ast.Value) {
			if v == nil {
				return
			}
			if v.Kind == ast.Variable {
				used[v.Raw] = true
			}
			for _, c := range v.Children {
				val(c.Value)
			}
		}
		dirs := func(ds ast.DirectiveList) {
			for _, d := range ds {
				for _, a := range d.Arguments {
					val(a.Value)
				}
			}
		}
		var scan func(set ast.SelectionSet)
		scan = func(set ast.SelectionSet) {
			for _, s := range set {
				switch x := s.(type) {
				case *ast.Field:
					for _, a := range x.Arguments {
						val(a.Value)
					}
					dirs(x.Directives)
					scan(x.SelectionSet)
				case *ast.InlineFragment:
					dirs(x.Directives)
					scan(x.SelectionSet)
				case *ast.FragmentSpread:
					dirs(x.Directives)
				}
			}
		}
		for _, o := range doc.Operations {
			scan(o.SelectionSet)
		}
		for _, f := range doc.Fragments {
			scan(f.SelectionSet)
		}
		vars := map[string]any{}
		for _, o := range doc.Operations {
			var keep ast.VariableDefinitionList
			for _, vd := range o.VariableDefinitions {
				if used[vd.Variable] {
					keep = append(keep, vd)
					if v, ok := op.Variables[vd.Variable]; ok {
						vars[vd.Variable] = v
					}
				}
			}
			o.VariableDefinitions = keep
		}
		out.Variables = nil
		if len(vars) > 0 {
			out.Variables = vars
		}
	}
	out.Query = format(doc)
	return out, n, n > 0
}

func mergeInto(dst, src map[string]any) {
	for k, v := range src {
		if dm, ok := dst[k].(map[string]any); ok {
			if sm, ok := v.(map[string]any); ok {
				mergeInto(dm, sm)
				continue
			}
		}
		if da, ok := dst[k].([]any); ok {
			if sa, ok := v.([]any); ok && len(sa) == len(da) {
				for i := range sa {
					if dmi, ok := da[i].(map[string]any); ok {
						if smi, ok := sa[i].(map[string]any); ok {
							mergeInto(dmi, smi)
							continue
						}
					}
					da[i] = sa[i]
				}
				continue
			}
		}
		dst[k] = v
	}
}

type streamInfo struct {
	frames      int
	incremental int
	underList   bool
	nested      bool
	hadErrors   bool
}

// reconstruct applies the incremental payloads to the initial payload and checks the wire
// protocol of docs/defer/design.md.
func reconstruct(frames []string) (any, []string, streamInfo) {
	info := streamInfo{frames: len(frames)}
	var errs, pathErrs []string
	if len(frames) == 0 {
		return nil, []string{"no frame was written"}, info
	}
	type pend struct {
		path []any
		done bool
	}
	pending := map[string]*pend{}
	var data any
	for i, f := range frames {
		v, err := ref.Decode([]byte(f))
		if err != nil {
			return nil, append(errs, fmt.Sprintf("frame %d is not one valid JSON document (%v): %q", i, err, f)), info
		}
		fr, ok := v.(map[string]any)
		if !ok {
			return nil, append(errs, fmt.Sprintf("frame %d is not a JSON object: %q", i, f)), info
		}
		if _, has := fr["errors"]; has {
			info.hadErrors = true
		}
		if i == 0 {
			data = fr["data"]
		} else if _, has := fr["data"]; has {
			errs = append(errs, fmt.Sprintf("frame %d carries top-level data", i))
		}
		hn, hasHN := fr["hasNext"].(bool)
		if len(frames) > 1 || hasHN {
			if !hasHN {
				errs = append(errs, fmt.Sprintf("frame %d lacks hasNext", i))
			} else if hn != (i < len(frames)-1) {
				errs = append(errs, fmt.Sprintf("frame %d has hasNext=%v but is frame %d of %d", i, hn, i+1, len(frames)))
			}
		}
		if inc, ok := fr["incremental"].([]any); ok {
			for _, it := range inc {
				im, _ := it.(map[string]any)
				id, _ := im["id"].(string)
				p := pending[id]
				if p == nil {
					errs = append(errs, fmt.Sprintf("frame %d delivers data for id %q that was never announced as pending", i, id))
					continue
				}
				if p.done {
					errs = append(errs, fmt.Sprintf("frame %d delivers data for id %q after it was completed", i, id))
					continue
				}
				info.incremental++
				path := append([]any{}, p.path...)
				if sp, ok := im["subPath"].([]any); ok {
					path = append(path, sp...)
				}
				if _, isErr := im["errors"]; isErr {
					info.hadErrors = true
				}
				cur := data
				okPath := true
				for _, seg := range path {
					switch x := seg.(type) {
					case string:
						m, isM := cur.(map[string]any)
						if !isM {
							okPath = false
						} else {
							cur = m[x]
						}
					case json.Number:
						idx, _ := x.Int64()
						a, isA := cur.([]any)
						if !isA || int(idx) >= len(a) || idx < 0 {
							okPath = false
						} else {
							cur = a[int(idx)]
							info.underList = true
						}
					default:
						okPath = false
					}
					if !okPath {
						break
					}
				}
				dm, hasData := im["data"].(map[string]any)
				if !hasData {
					continue
				}
				tm, isM := cur.(map[string]any)
				if !okPath || !isM {
					pathErrs = append(pathErrs, fmt.Sprintf("frame %d: pending path + subPath %s of id %q does not lead to an object of the data delivered so far", i, ref.Canon(path), id))
					continue
				}
				mergeInto(tm, dm)
			}
		}
		if comp, ok := fr["completed"].([]any); ok {
			for _, c := range comp {
				cm, _ := c.(map[string]any)
				if _, isErr := cm["errors"]; isErr {
					info.hadErrors = true
				}
				id, _ := cm["id"].(string)
				p := pending[id]
				switch {
				case p == nil:
					errs = append(errs, fmt.Sprintf("frame %d completes id %q that was never announced", i, id))
				case p.done:
					errs = append(errs, fmt.Sprintf("frame %d completes id %q a second time", i, id))
				default:
					p.done = true
				}
			}
		}
		if pe, ok := fr["pending"].([]any); ok {
			for _, p := range pe {
				pm, _ := p.(map[string]any)
				id, _ := pm["id"].(string)
				if pending[id] != nil {
					errs = append(errs, fmt.Sprintf("frame %d announces id %q again", i, id))
				}
				path, _ := pm["path"].([]any)
				pending[id] = &pend{path: path}
				if i > 0 {
					info.nested = true
				}
			}
		}
	}
	ids := make([]string, 0, len(pending))
	for id := range pending {
		ids = append(ids, id)
	}
	sort.Strings(ids)
	for _, id := range ids {
		if !pending[id].done {
			errs = append(errs, fmt.Sprintf("id %q was announced as pending but never completed", id))
		}
	}
	if !info.hadErrors {
		// an error-carrying stream may have nulled the parents of deferred fragments: paths
		// are only demanded to resolve when nothing failed
		errs = append(errs, pathErrs...)
	}
	return data, errs, info
}

// runDeferred executes op; every subgraph request arriving after the first flush is
// parked and released in priority order after a settle interval.
func runDeferred(gw *kit.Gateway, op opgen.Op, prio []int, hard *hardFail) (*kit.Result, int, bool) {
	rec := &kit.Recorder{}
	var mu sync.Mutex
	flushed := false
	var opts []engine.ExecutionOptions
	var limiter *failingLimiter
	if hard != nil {
		limiter = &failingLimiter{k: hard.K, armed: func() bool { mu.Lock(); defer mu.Unlock(); return flushed }}
		opts = append(opts, engine.VerifWithResolveContext(func(c *resolve.Context) {
			c.RateLimitOptions.Enable = true
			c.SetRateLimiter(limiter)
		}))
	}
	fired := func() bool {
		if limiter == nil {
			return false
		}
		limiter.mu.Lock()
		defer limiter.mu.Unlock()
		return limiter.fired
	}
	type parkedReq struct {
		release chan struct{}
		seq     int
	}
	var parked []*parkedReq
	arrivals := make(chan struct{}, 256)
	rec.OnFlush = func(frame string, idx int) {
		mu.Lock()
		flushed = true
		mu.Unlock()
	}
	if hard != nil && hard.FlushMs > 0 {
		rec.DuringFlush = func(idx int) {
			if idx > 0 {
				time.Sleep(time.Duration(hard.FlushMs) * time.Millisecond)
			}
		}
	}
	seq := 0
	maxParked := 0
	gw.Transport.Intercept = func(r *sim.Request, answer []byte) *sim.Response {
		mu.Lock()
		if !flushed || prio == nil {
			mu.Unlock()
			return nil
		}
		p := &parkedReq{release: make(chan struct{}), seq: seq}
		seq++
		parked = append(parked, p)
		if len(parked) > maxParked {
			maxParked = len(parked)
		}
		mu.Unlock()
		arrivals <- struct{}{}
		<-p.release
		return nil
	}
	defer func() { gw.Transport.Intercept = nil }()
	done := make(chan *kit.Result, 1)
	gw.Transport.Reset()
	go func() { done <- gw.ExecuteRec(op, rec, opts...) }()
	settle := 4 * time.Millisecond
	for {
		select {
		case r := <-done:
			return r, maxParked, fired()
		case <-arrivals:
			// wait until no further request arrives for a settle interval, then release one
		settleLoop:
			for {
				select {
				case <-arrivals:
				case r := <-done:
					return r, maxParked, fired()
				case <-time.After(settle):
					break settleLoop
				}
			}
			mu.Lock()
			if len(parked) > 0 {
				best := 0
				for i, p := range parked {
					if prio[p.seq%len(prio)] > prio[parked[best].seq%len(prio)] {
						best = i
					}
				}
				p := parked[best]
				parked = append(parked[:best], parked[best+1:]...)
				close(p.release)
				if len(parked) > 0 {
					// keep the loop going for the remaining parked requests
					select {
					case arrivals <- struct{}{}:
					default:
					}
				}
			}
			mu.Unlock()
		}
	}
}

func checkDefer(c deferCase, o *pbt.Rec) pbt.Verdict {
	plain, ndefer, ok := withoutDefer(c.Op, false)
	if !ok {
		o.Discard("no-defer-in-operation")
		return pbt.OK
	}
	gw, err := kit.New(c.Layout, c.Seed, kit.EngineOptions{})
	if err != nil {
		return pbt.Bad("engine construction failed: %v", err)
	}
	defer gw.Close()
	if _, err := gw.World.Reference(c.Op); err != nil {
		o.Discard("generator-vs-gqlparser")
		return pbt.OK
	}
	refRes, err := gw.World.Reference(plain)
	if err != nil {
		o.Discard("generator-vs-gqlparser")
		return pbt.OK
	}
	base := gw.Execute(plain)
	if base.Err != nil || base.Panic != "" {
		o.Discard("non-deferred-run-fails(C01)")
		return pbt.OK
	}
	bv, derr := ref.Decode([]byte(base.Body))
	bm, _ := bv.(map[string]any)
	if derr != nil || !ref.Equal(bm["data"], ref.Plain(refRes.Data)) {
		o.Discard("non-deferred-run-differs-from-monolith(C01)")
		return pbt.OK
	}
	for _, r := range base.Requests {
		if len(r.Complaints) > 0 {
			o.Discard("non-deferred-run-has-invalid-requests(C01)")
			return pbt.OK
		}
	}
	if len(refRes.Errors) > 0 {
		// error-carrying defers are checked for stream well-formedness only
		o.Label("with-errors(stream-only)")
	}
	want := bm["data"]
	type variant struct {
		name string
		op   opgen.Op
		prio []int
		hard *hardFail
	}
	variants := []variant{{"ungated", c.Op, nil, nil}}
	for i, p := range c.Prios {
		variants = append(variants, variant{fmt.Sprintf("order#%d", i), c.Op, p, nil})
	}
	if allFalse, _, ok := withoutDefer(c.Op, true); ok {
		variants = append(variants, variant{"all-if-false", allFalse, nil, nil})
	}
	if c.Hard != nil {
		variants = append(variants, variant{"hard-failure", c.Op, c.Hard.Prio, c.Hard})
	}
	nontrivial := false
	for _, vr := range variants {
		res, maxParked, hardFired := runDeferred(gw, vr.op, vr.prio, vr.hard)
		frames := append([]string{}, res.Frames...)
		if res.Body != "" {
			frames = append(frames, res.Body)
		}
		ctx := func() string {
			var sb strings.Builder
			if vr.hard != nil {
				fmt.Fprintf(&sb, "\nhard failure: rate limiter call #%d after the first flush fails (fired=%v), later flushes take %d ms", vr.hard.K, hardFired, vr.hard.FlushMs)
			}
			fmt.Fprintf(&sb, "\nvariant: %s priorities %v\noperation: %s\nvariables: %s\nseed: %d\nnon-deferred data: %s\nframes:\n", vr.name, vr.prio, vr.op.Query, vr.op.VarsJSON(), c.Seed, ref.Canon(want))
			for i, f := range frames {
				fmt.Fprintf(&sb, "  [%d] %s\n", i, f)
			}
			for _, r := range res.Requests {
				fmt.Fprintf(&sb, "  -> %s %s\n", r.Subgraph, r.Body)
			}
			return sb.String()
		}
		switch {
		case res.Panic != "":
			return pbt.Bad("Execute panicked on a deferred query: %s%s", res.Panic, ctx())
		case res.TimedOut:
			return pbt.Bad("the deferred stream did not terminate within the watchdog%s", ctx())
		case res.Err != nil && !hardFired:
			return pbt.Bad("a valid query with @defer fails although the same query without @defer succeeds: %v%s", res.Err, ctx())
		}
		for _, r := range res.Requests {
			if len(r.Complaints) > 0 {
				return pbt.Bad("invalid subgraph request for a deferred query: %s%s", strings.Join(r.Complaints, "; "), ctx())
			}
		}
		got, perrs, info := reconstruct(frames)
		if hardFired {
			// a hard fetch-phase failure of one deferred group: what it delivers instead of the
			// group's data is not pinned by the property (no reconstruction check); the stream
			// protocol is: whole frames one at a time, every announced id completed exactly once,
			// hasNext false on the last frame only (holds on the unchanged tree in every case seen)
			o.Label("hard-failure-fired")
			if res.Err != nil {
				o.Label("hard-failure-fired:execute-returns-error")
			}
		}
		if len(perrs) > 0 {
			return pbt.Bad("stream is not well-formed: %s%s", strings.Join(perrs, "; "), ctx())
		}
		if res.Rec != nil {
			if res.Rec.Overlap {
				return pbt.Bad("writer calls overlapped (frames may interleave)%s", ctx())
			}
			if len(res.Frames) > 0 {
				if res.Rec.Completes != 1 && !(hardFired && res.Rec.Completes == 0) {
					return pbt.Bad("Complete() was called %d times on a flushed stream%s", res.Rec.Completes, ctx())
				}
				if len(res.Rec.AfterDone) > 0 {
					return pbt.Bad("writer calls after Complete(): %v%s", res.Rec.AfterDone, ctx())
				}
				if res.Body != "" {
					return pbt.Bad("bytes were written after the last flush: %q%s", res.Body, ctx())
				}
			}
		}
		if len(refRes.Errors) == 0 && !info.hadErrors && !hardFired {
			if !ref.Equal(got, want) {
				return pbt.Bad("initial payload + incremental payloads do not reconstruct the data of the query without @defer\n got:  %s\n want: %s%s", ref.Canon(got), ref.Canon(want), ctx())
			}
		}
		if vr.name == "all-if-false" && len(frames) > 1 {
			return pbt.Bad("@defer(if: false) on every fragment still produced %d frames%s", len(frames), ctx())
		}
		o.Labelf("frames:%d", min(info.frames, 5))
		if info.underList {
			o.Label("defer-under-list")
		}
		if info.nested {
			o.Label("nested-defer")
		}
		if maxParked >= 2 {
			o.Label("deferred-requests-parked>=2")
		}
		if info.incremental >= 2 || info.underList || info.nested {
			nontrivial = true
		}
	}
	o.Labelf("defers-in-text:%d", min(ndefer, 4))
	for _, f := range c.Op.Features {
		if strings.HasPrefix(f, "defer") {
			o.Label("op:" + f)
		}
	}
	if nontrivial {
		o.NonTrivial(ref.JSON(c.Layout.Subs) + c.Op.Query + c.Op.VarsJSON() + fmt.Sprint(c.Seed, c.Prios))
	}
	return pbt.OK
}

func minimizeDefer(raw json.RawMessage) (any, string) {
	var c deferCase
	if err := json.Unmarshal(raw, &c); err != nil {
		return nil, ""
	}
	v0 := checkDefer(c, pbt.NewRec())
	if v0.Msg == "" {
		return nil, ""
	}
	class := strings.SplitN(v0.Msg, "\n", 2)[0]
	if len(class) > 45 {
		class = class[:45]
	}
	best := c
	opshrink.Minimize(c.Op, 250, func(cand opgen.Op) bool {
		cc := c
		cc.Op = cand
		if v := checkDefer(cc, pbt.NewRec()); v.Msg != "" && strings.HasPrefix(v.Msg, class) {
			best = cc
			return true
		}
		return false
	})
	v := checkDefer(best, pbt.NewRec())
	if v.Msg == "" {
		return nil, ""
	}
	return best, v.Msg
}
