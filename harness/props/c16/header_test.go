package c16

import (
	"fmt"
	"net/http"
	"strings"
	"testing"
	"time"

	"pgregory.net/rapid"

	"github.com/wundergraph/graphql-go-tools/v2/pkg/caching"

	"verif/harness/pbt"
)

// Directive is one Cache-Control directive whose meaning is fixed by construction.
type Directive struct {
	Kind string `json:"kind"` // public private no-cache no-store max-age s-maxage ext empty
	Text string `json:"text"` // exact spelling
	Age  int64  `json:"age,omitempty"`
}

// Header is a complete Cache-Control header: directives, separator and line split.
type Header struct {
	Dirs  []Directive `json:"dirs"`
	Sep   string      `json:"sep"`
	Split int         `json:"split"` // 0 = one line; k = second header line starts at directive k
}

func recase(t *rapid.T, s string) string {
	switch rapid.IntRange(0, 3).Draw(t, "case") {
	case 0:
		return strings.ToUpper(s)
	case 1:
		return strings.ToUpper(s[:1]) + s[1:]
	}
	return s
}

var ages = []int64{0, 1, 59, 3600, 2147483647, 2147483648, 1099511627776}

func genHeader(t *rapid.T) Header {
	h := Header{Sep: rapid.SampledFrom([]string{", ", ",", " , ", ",\t", ",  "}).Draw(t, "sep")}
	n := rapid.IntRange(0, 5).Draw(t, "n")
	for i := 0; i < n; i++ {
		switch rapid.SampledFrom([]string{"public", "public", "public", "private", "no-cache", "no-store", "max-age", "max-age", "s-maxage", "ext", "empty"}).Draw(t, "d") {
		case "public":
			h.Dirs = append(h.Dirs, Directive{Kind: "public", Text: recase(t, "public")})
		case "private":
			h.Dirs = append(h.Dirs, Directive{Kind: "private", Text: recase(t, "private") + rapid.SampledFrom([]string{"", `="set-cookie"`, `="a, b"`, `=""`}).Draw(t, "parg")})
		case "no-cache":
			h.Dirs = append(h.Dirs, Directive{Kind: "no-cache", Text: recase(t, "no-cache") + rapid.SampledFrom([]string{"", `="x"`, `="x, public"`}).Draw(t, "narg")})
		case "no-store":
			h.Dirs = append(h.Dirs, Directive{Kind: "no-store", Text: recase(t, "no-store")})
		case "max-age":
			v := rapid.SampledFrom(ages).Draw(t, "age")
			h.Dirs = append(h.Dirs, Directive{Kind: "max-age", Text: fmt.Sprintf("%s=%d", recase(t, "max-age"), v), Age: v})
		case "s-maxage":
			v := rapid.SampledFrom(ages).Draw(t, "sage")
			h.Dirs = append(h.Dirs, Directive{Kind: "s-maxage", Text: fmt.Sprintf("%s=%d", recase(t, "s-maxage"), v), Age: v})
		case "ext":
			h.Dirs = append(h.Dirs, Directive{Kind: "ext", Text: rapid.SampledFrom([]string{"must-revalidate", "immutable", `ext="public, no-store"`, "ext=token", "stale-while-revalidate=30", `x="max-age=9999999"`, "proxy-revalidate"}).Draw(t, "ext")})
		case "empty":
			h.Dirs = append(h.Dirs, Directive{Kind: "empty", Text: ""})
		}
	}
	if len(h.Dirs) > 1 && rapid.IntRange(0, 2).Draw(t, "dosplit") == 0 {
		h.Split = rapid.IntRange(1, len(h.Dirs)-1).Draw(t, "split")
	}
	return h
}

// Lines renders the header lines.
func (h Header) Lines() []string {
	if len(h.Dirs) == 0 {
		return nil
	}
	texts := make([]string, len(h.Dirs))
	for i, d := range h.Dirs {
		texts[i] = d.Text
	}
	if h.Split > 0 && h.Split < len(texts) {
		return []string{strings.Join(texts[:h.Split], h.Sep), strings.Join(texts[h.Split:], h.Sep)}
	}
	return []string{strings.Join(texts, h.Sep)}
}

// Meaning: may the response be stored, and what is the loosest lifetime bound it announces
// (0 = none announced → the configured default).
func (h Header) Meaning() (storable bool, public bool, refuse bool, bound int64, announced bool) {
	var smax, max []int64
	for _, d := range h.Dirs {
		switch d.Kind {
		case "public":
			public = true
		case "private", "no-cache", "no-store":
			refuse = true
		case "max-age":
			max = append(max, d.Age)
		case "s-maxage":
			smax = append(smax, d.Age)
		}
	}
	pick := max
	if len(smax) > 0 {
		pick = smax
	}
	for _, v := range pick {
		announced = true
		if v > bound {
			bound = v
		}
	}
	return public && !refuse, public, refuse, bound, announced
}

const defaultTTL = 30 * time.Second

// judgeTTL checks a stored lifetime against the header's meaning; "" = fine.
func (h Header) judgeTTL(ttl time.Duration, stored bool) string {
	storable, public, refuse, bound, announced := h.Meaning()
	if !stored {
		return ""
	}
	if !storable {
		return fmt.Sprintf("stored although the response is not storable (public=%v refusal=%v)", public, refuse)
	}
	if ttl <= 0 {
		return "stored with a non-positive lifetime"
	}
	limit := defaultTTL
	if announced {
		// durations beyond what time.Duration seconds can hold are clamped by the code; any
		// positive bound below is still an upper bound on the announced age
		if bound > 9000000000 {
			bound = 9000000000
		}
		limit = time.Duration(bound) * time.Second
	}
	if ttl > limit {
		return fmt.Sprintf("stored for %v, longer than the announced/default lifetime %v", ttl, limit)
	}
	return ""
}

type headerCase struct {
	H Header `json:"header"`
}

var headerPart = pbt.Part[headerCase]{Name: "cache-control-grammar", Quick: 120000, Thorough: 2400000,
	Gen: func(t *rapid.T) headerCase { return headerCase{H: genHeader(t)} },
	Check: func(c headerCase, o *pbt.Rec) pbt.Verdict {
		hdr := http.Header{}
		for _, l := range c.H.Lines() {
			hdr.Add("Cache-Control", l)
		}
		ttl, stored := caching.TTL(hdr, defaultTTL)
		if msg := c.H.judgeTTL(ttl, stored); msg != "" {
			return pbt.Bad("%s: Cache-Control %q ttl=%v", msg, hdr["Cache-Control"], ttl)
		}
		storable, public, refuse, _, announced := c.H.Meaning()
		o.Labelf("storable=%v stored=%v", storable, stored)
		nAges := 0
		for _, d := range c.H.Dirs {
			if d.Kind == "max-age" || d.Kind == "s-maxage" {
				nAges++
			}
		}
		if (public && refuse) || nAges >= 2 {
			o.NonTrivial(fmt.Sprintf("%q", c.H.Lines()))
		}
		_ = announced
		return pbt.OK
	}}

// FuzzCacheControl is the byte-level target (thorough only): a header that, lower-cased and
// with quoted strings blanked, contains no "public" token must never be storable, and a stored
// lifetime is always positive.
func FuzzCacheControl(f *testing.F) {
	for _, s := range []string{"public, max-age=60", "PUBLIC", `private="x, public"`, "public, no-store", "s-maxage=10, public, max-age=60", `ext="public"`, "max-age=", "public,,max-age=1", "public, max-age=99999999999999999999", "\"public", "public\x00, no-store"} {
		f.Add(s, "")
	}
	f.Fuzz(func(t *testing.T, a, b string) {
		hdr := http.Header{}
		hdr.Add("Cache-Control", a)
		if b != "" {
			hdr.Add("Cache-Control", b)
		}
		ttl, stored := caching.TTL(hdr, defaultTTL)
		if !stored {
			return
		}
		if ttl <= 0 {
			t.Fatalf("stored with non-positive ttl %v for %q", ttl, hdr["Cache-Control"])
		}
		blank := func(s string) string {
			var sb strings.Builder
			in := false
			for i := 0; i < len(s); i++ {
				c := s[i]
				if c == '"' {
					in = !in
					sb.WriteByte(' ')
					continue
				}
				if in {
					if c == '\\' && i+1 < len(s) {
						i++
					}
					sb.WriteByte(' ')
					continue
				}
				sb.WriteByte(c)
			}
			return strings.ToLower(sb.String())
		}
		if !strings.Contains(blank(a)+","+blank(b), "public") {
			t.Fatalf("stored although no public token outside quoted strings: %q", hdr["Cache-Control"])
		}
	})
}
