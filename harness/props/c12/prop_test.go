//go:build verif

// Package c12 checks property C12: subscription delivery is ordered, exact, and stops at
// completion. The machinery (fake source, recording writer, scheduler over the verifhook yield
// points, model, generator, executor, oracle) is shared with C13 and lives in
// verif/harness/internal/subrig.
package c12

import (
	"encoding/json"
	"flag"
	"fmt"
	"os"
	"testing"

	"pgregory.net/rapid"

	"verif/harness/internal/subrig"
	"verif/harness/pbt"
)

const prop = "C12"

var machine = pbt.Part[subrig.History]{
	Name: "machine", Quick: 240000, Thorough: 3200000,
	Gen:   func(t *rapid.T) subrig.History { return subrig.Gen(t, subrig.BiasC12, pbt.IsKnown) },
	Check: func(h subrig.History, o *pbt.Rec) pbt.Verdict { return subrig.Check(prop, h, o) },
}

// TestProp is the entry point the driver runs in every shard.
func TestProp(t *testing.T) {
	r := pbt.Start(t, prop)
	defer r.Finish()
	_ = flag.Set("rapid.steps", "16")
	r.Rule("a history is non-trivial when a removal (unsubscribe, removeClient, closeSubscription, Done, shutdown) ran while an event, updateSubscription, Complete or Error of a trigger with >= 2 subscribers was parked at one of its windows; distinct by history")
	r.Assume(
		"the response one event produces for a subscriber alone is computed by the resolver itself on a fresh instance with that subscriber only (and cross-checked against an independent reading for the simple plans, part solo-sanity)",
		"completion is taken as signalled at the return of UnsubscribeSubscription / UnsubscribeClient / updater Done, CloseSubscription, Update (failed flush), Heartbeat (failed heartbeat) for the async API, at the return of ResolveGraphQLSubscription for the sync API, and when shutdown is observably finished for resolver shutdown",
		"sources are well-behaved: after Complete or Error they only call Done; subscription identifiers are unique",
		"the number of heartbeats is not part of the statement: only their absence after completion, for subscribers without SendHeartbeat, and their mutual exclusion with other writes is checked (exact only for writers whose Heartbeat fails)",
		"concurrent Update calls on one updater are ordered by the order in which they were entered",
	)
	r.RequireLabel("removal-raced-with-delivery-on-shared-trigger", "split-reached:"+subrig.PtUpdate, "split-reached:"+subrig.PtComplete,
		"split-reached:"+subrig.PtError, "update-parked-while-subscriber-removed", "flush-failure-removes-subscriber", "nested-blocked:event",
		"heartbeat-expected", "split-reached:"+subrig.PtHeartbeat, "split-reached:"+subrig.PtWHeartbeat,
		"heartbeat-parked-while-subscriber-removed", "enum-cases")
	r.Regress(dispatch())
	r.RunProbes(probes())
	if r.FirstShard() {
		if msg := r.Direct("solo-sanity", "solo-sanity", "", func(*pbt.Rec) string { return subrig.SoloSanity() }); msg != "" {
			failDirect(t, r, "solo-sanity", struct{}{}, msg)
		}
	}
	runEnum(t, r)
	m := machine
	if os.Getenv("VERIF_RACE") != "" {
		// the -race build of the thorough tier runs the same machine about ten times slower
		m.Quick, m.Thorough = m.Quick/16, m.Thorough/16
	}
	m.Run(r)
	if n := subrig.Expiries.Load(); n > 3 {
		t.Errorf("INCONCLUSIVE: %d liveness watchdogs expired in this shard (overloaded machine or a wedged resolver)", n)
	}
}

// runEnum runs this shard's slice of the enumerated window x action-pair histories.
func runEnum(t *testing.T, r *pbt.Run) {
	all := subrig.EnumHistories()
	for i, raw := range all {
		if i%r.Shards != r.Shard {
			continue
		}
		h, ok, shapes := subrig.EnumAdmissible(raw)
		if !ok {
			continue
		}
		skip := false
		for _, id := range shapes {
			if pbt.IsKnown(id) {
				skip = true
				h.Excluded = append(h.Excluded, id)
			}
		}
		var verdict pbt.Verdict
		msg := r.Direct("enum", h, "", func(o *pbt.Rec) string {
			o.Label("enum-cases")
			if skip {
				for _, id := range h.Excluded {
					o.Label("excluded:" + id)
				}
				o.Label("enum-excluded")
				return ""
			}
			verdict = subrig.Check(prop, h, o)
			if verdict.Msg != "" && verdict.Finding != "" && pbt.IsKnown(verdict.Finding) {
				o.Known(verdict.Finding)
				return ""
			}
			return verdict.Msg
		})
		if msg != "" {
			failDirect(t, r, "enum", h, msg)
			return
		}
	}
}

// failDirect records a violation found outside rapid as a replayable file.
func failDirect(t *testing.T, r *pbt.Run, part string, c any, msg string) {
	b, _ := json.Marshal(c)
	doc, _ := json.MarshalIndent(map[string]any{"property": prop, "part": part, "case": json.RawMessage(b), "why": msg, "seed": r.Seed, "shard": r.Shard}, "", " ")
	writeViolation(r, part, doc)
	t.Errorf("%s: %s", part, msg)
}

func TestReplay(t *testing.T) { pbt.StdReplay(t, prop, dispatch()) }

func dispatch() pbt.Dispatch {
	return pbt.Dispatch{}.
		Add(machine.Name, machine.Handler()).
		Add("enum", machine.Handler()).
		Add("solo-sanity", func(json.RawMessage) string { return subrig.SoloSanity() }).
		WithProbes(probes())
}

func probes() pbt.Probes {
	p := pbt.Probes{}
	for _, id := range []string{subrig.F19} {
		id := id
		p[id] = pbt.ProbeDef{Input: subrig.ProbeHistory(id), Fn: func() string { return subrig.Probe(id) }}
	}
	return p
}

var _ = fmt.Sprint
