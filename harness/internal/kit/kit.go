// Package kit builds a real execution engine over a fedgen layout whose subgraphs are the
// simulator, and runs requests through it (exported API of /repo plus the verif hooks).
package kit

import (
	"context"
	"fmt"
	"net/http"
	"runtime/debug"
	"sync"
	"sync/atomic"
	"time"

	"github.com/jensneuse/abstractlogger"

	"github.com/wundergraph/graphql-go-tools/execution/engine"
	"github.com/wundergraph/graphql-go-tools/execution/graphql"
	"github.com/wundergraph/graphql-go-tools/v2/pkg/engine/datasource/graphql_datasource"
	"github.com/wundergraph/graphql-go-tools/v2/pkg/engine/plan"
	"github.com/wundergraph/graphql-go-tools/v2/pkg/engine/postprocess"
	"github.com/wundergraph/graphql-go-tools/v2/pkg/engine/resolve"

	"github.com/wundergraph/graphql-go-tools/v2/pkg/operationreport"

	"verif/harness/internal/admit"
	"verif/harness/internal/fedgen"
	"verif/harness/internal/opgen"
	"verif/harness/internal/sim"
)

// EngineOptions selects the optimisation switches of C09 and helpers of other properties.
type EngineOptions struct {
	ValidateRequires bool // planner BuildFetchReasons + ValidateRequiredExternalFields, resolver ValidateRequiredExternalFields
	MultiFetch      bool                      `json:"multifetch,omitempty"`
	ScheduleFetches bool                      `json:"schedule,omitempty"`
	Minify          bool                      `json:"minify,omitempty"`
	DisableDedupe   bool                      `json:"nodedupe,omitempty"`
	PropagateOpName bool                      `json:"opname,omitempty"`
	PermuteDS       int                       `json:"permute,omitempty"` // rotate the data source order by this many places
	FieldConfigs    []plan.FieldConfiguration `json:"-"`
	ResolverOptions *resolve.ResolverOptions  `json:"-"`
}

// Gateway is one engine over one layout.
type Gateway struct {
	World     *sim.World
	Transport *sim.Transport
	Engine    *engine.ExecutionEngine
	Schema    *graphql.Schema
	cancel    context.CancelFunc
	Ctx       context.Context
	Opts      EngineOptions
	Conf      engine.Configuration
}

// ToMeta converts the plain metadata.
func ToMeta(m fedgen.Meta) *plan.DataSourceMetadata {
	md := &plan.DataSourceMetadata{}
	conv := func(in []fedgen.TypeField) []plan.TypeField {
		var out []plan.TypeField
		for _, tf := range in {
			out = append(out, plan.TypeField{TypeName: tf.TypeName, FieldNames: tf.FieldNames, ExternalFieldNames: tf.ExternalFieldNames})
		}
		return out
	}
	md.RootNodes = conv(m.RootNodes)
	md.ChildNodes = conv(m.ChildNodes)
	for _, k := range m.Keys {
		md.FederationMetaData.Keys = append(md.FederationMetaData.Keys, plan.FederationFieldConfiguration{TypeName: k.TypeName, SelectionSet: k.SelectionSet, DisableEntityResolver: k.DisableEntityResolver})
	}
	for _, k := range m.Requires {
		md.FederationMetaData.Requires = append(md.FederationMetaData.Requires, plan.FederationFieldConfiguration{TypeName: k.TypeName, FieldName: k.FieldName, SelectionSet: k.SelectionSet})
	}
	for _, k := range m.Provides {
		md.FederationMetaData.Provides = append(md.FederationMetaData.Provides, plan.FederationFieldConfiguration{TypeName: k.TypeName, FieldName: k.FieldName, SelectionSet: k.SelectionSet})
	}
	return md
}

// FieldConfigs derives the argument configurations of a layout.
func FieldConfigs(l *fedgen.Layout) plan.FieldConfigurations {
	var fcs plan.FieldConfigurations
	for _, a := range l.Args {
		fc := plan.FieldConfiguration{TypeName: a.TypeName, FieldName: a.FieldName}
		for _, n := range a.Args {
			fc.Arguments = append(fc.Arguments, plan.ArgumentConfiguration{Name: n, SourceType: plan.FieldArgumentSource})
		}
		fcs = append(fcs, fc)
	}
	return fcs
}

// DataSources builds the planner data sources of a layout over the given http client.
func DataSources(ctx context.Context, l *fedgen.Layout, client *http.Client) ([]plan.DataSource, error) {
	var dss []plan.DataSource
	for _, s := range l.Subs {
		factory, err := graphql_datasource.NewFactory(ctx, client, graphql_datasource.NewGraphQLSubscriptionClient(ctx, graphql_datasource.WithUpgradeClient(client), graphql_datasource.WithStreamingClient(client)))
		if err != nil {
			return nil, err
		}
		sc, err := graphql_datasource.NewSchemaConfiguration(s.SDL, &graphql_datasource.FederationConfiguration{Enabled: true, ServiceSDL: s.SDL})
		if err != nil {
			return nil, fmt.Errorf("schema configuration of %s: %w", s.Name, err)
		}
		cfg, err := graphql_datasource.NewConfiguration(graphql_datasource.ConfigurationInput{Fetch: &graphql_datasource.FetchConfiguration{URL: "http://" + s.Name + "/graphql", Method: "POST"}, SchemaConfiguration: sc})
		if err != nil {
			return nil, err
		}
		ds, err := plan.NewDataSourceConfiguration[graphql_datasource.Configuration](s.Name, factory, ToMeta(s.Meta), cfg)
		if err != nil {
			return nil, fmt.Errorf("data source %s: %w", s.Name, err)
		}
		dss = append(dss, ds)
	}
	return dss, nil
}

// New builds a gateway for the layout with the universe seed.
func New(l *fedgen.Layout, seed uint64, o EngineOptions) (*Gateway, error) {
	w, err := sim.NewWorld(l, seed)
	if err != nil {
		return nil, err
	}
	return NewOnWorld(w, o)
}

// NewOnWorld builds a gateway on an existing world (shared universe).
func NewOnWorld(w *sim.World, o EngineOptions) (*Gateway, error) {
	l := w.Layout
	ctx, cancel := context.WithCancel(context.Background())
	tr := &sim.Transport{W: w}
	client := &http.Client{Transport: tr}
	dss, err := DataSources(ctx, l, client)
	if err != nil {
		cancel()
		return nil, err
	}
	if o.PermuteDS > 0 && len(dss) > 1 {
		k := o.PermuteDS % len(dss)
		dss = append(dss[k:], dss[:k]...)
	}
	schema, err := graphql.NewSchemaFromString(l.Super)
	if err != nil {
		cancel()
		return nil, fmt.Errorf("supergraph schema: %w", err)
	}
	conf := engine.NewConfiguration(schema)
	conf.SetDataSources(dss)
	fcs := FieldConfigs(l)
	// one configuration per coordinate: extra settings are merged into the argument
	// configuration of the same field (the planner uses the first match)
	for _, extra := range o.FieldConfigs {
		merged := false
		for i := range fcs {
			if fcs[i].TypeName == extra.TypeName && fcs[i].FieldName == extra.FieldName {
				fcs[i].HasAuthorizationRule = fcs[i].HasAuthorizationRule || extra.HasAuthorizationRule
				merged = true
			}
		}
		if !merged {
			fcs = append(fcs, extra)
		}
	}
	conf.SetFieldConfigurations(fcs)
	if o.MultiFetch {
		conf.EnableMultiFetch()
	}
	if o.ScheduleFetches {
		conf.EnableScheduleFetches()
	}
	pc := conf.VerifPlannerConfig()
	if o.PropagateOpName {
		pc.EnableOperationNamePropagation = true
	}
	if o.Minify {
		pc.MinifySubgraphOperations = true
	}
	ro := resolve.ResolverOptions{MaxConcurrency: 32}
	if o.ResolverOptions != nil {
		ro = *o.ResolverOptions
	}
	if o.ValidateRequires {
		// "validate nullable external @requires dependencies": an entity whose required field
		// came back null with an error is withheld from the fetches that require it
		pc.BuildFetchReasons = true
		pc.ValidateRequiredExternalFields = true
		ro.ValidateRequiredExternalFields = true
	}
	eng, err := engine.NewExecutionEngine(ctx, abstractlogger.Noop{}, conf, ro)
	if err != nil {
		cancel()
		return nil, err
	}
	if o.DisableDedupe {
		eng.VerifAppendPostProcessorOptions(postprocess.DisableDeduplicateSingleFetches())
	}
	return &Gateway{World: w, Transport: tr, Engine: eng, Schema: schema, cancel: cancel, Ctx: ctx, Opts: o, Conf: conf}, nil
}

// Close releases the engine.
func (g *Gateway) Close() { g.cancel() }

// Result is one gateway execution.
type Result struct {
	Err      error
	Panic    string
	Body     string
	Frames   []string // flushed frames (defer), Body holds the rest
	Requests []*sim.Request
	TimedOut bool
	Rec      *Recorder
}

// Execute runs one request; the transport log is reset first and returned.
func (g *Gateway) Execute(op opgen.Op, opts ...engine.ExecutionOptions) *Result {
	g.Transport.Reset()
	return g.ExecuteKeepLog(op, opts...)
}

// Recorder is a resolve.SubscriptionResponseWriter that records what the engine does with
// it: frames (split at Flush), Complete calls, calls after Complete and overlapping calls.
type Recorder struct {
	mu        sync.Mutex
	buf       []byte
	Frames    []string
	Completes int
	AfterDone []string // writer calls observed after Complete
	Overlap   bool     // two writer calls were in progress at the same time
	active    int32
	OnFlush   func(frame string, index int)
	// DuringFlush runs while the Flush call is still in progress (a slow client): a writer call
	// by another goroutine in that time is an overlap.
	DuringFlush func(index int)
}

func (r *Recorder) enter(name string) func() {
	if atomic.AddInt32(&r.active, 1) > 1 {
		r.Overlap = true
	}
	r.mu.Lock()
	if r.Completes > 0 {
		r.AfterDone = append(r.AfterDone, name)
	}
	return func() {
		r.mu.Unlock()
		atomic.AddInt32(&r.active, -1)
	}
}

// Write implements io.Writer.
func (r *Recorder) Write(p []byte) (int, error) {
	defer r.enter("Write")()
	r.buf = append(r.buf, p...)
	return len(p), nil
}

// Flush ends a frame.
func (r *Recorder) Flush() error {
	done := r.enter("Flush")
	frame := string(r.buf)
	r.buf = nil
	r.Frames = append(r.Frames, frame)
	idx := len(r.Frames) - 1
	cb := r.OnFlush
	if r.DuringFlush != nil {
		r.DuringFlush(idx)
	}
	done()
	if cb != nil {
		cb(frame, idx)
	}
	return nil
}

// Complete records the end of the stream.
func (r *Recorder) Complete() {
	r.mu.Lock()
	r.Completes++
	r.mu.Unlock()
}

// Heartbeat implements the subscription writer.
func (r *Recorder) Heartbeat() error { defer r.enter("Heartbeat")(); return nil }

// Error implements the subscription writer.
func (r *Recorder) Error(data []byte) { defer r.enter("Error")(); r.buf = append(r.buf, data...) }

// Rest returns what was written but never flushed.
func (r *Recorder) Rest() string {
	r.mu.Lock()
	defer r.mu.Unlock()
	return string(r.buf)
}

// ExecuteKeepLog runs one request without resetting the transport log.
func (g *Gateway) ExecuteKeepLog(op opgen.Op, opts ...engine.ExecutionOptions) *Result {
	return g.ExecuteRec(op, &Recorder{}, opts...)
}

// ExecuteRec runs one request with the given recorder as response writer.
func (g *Gateway) ExecuteRec(op opgen.Op, rec *Recorder, opts ...engine.ExecutionOptions) *Result {
	res := &Result{Rec: rec}
	req := graphql.Request{Query: op.Query, OperationName: op.OperationName}
	if v := op.VarsJSON(); v != "" {
		req.Variables = []byte(v)
	}
	done := make(chan struct{})
	ctx, cancel := context.WithCancel(g.Ctx)
	defer cancel()
	go func() {
		defer close(done)
		defer func() {
			if p := recover(); p != nil {
				res.Panic = fmt.Sprintf("%v\n%s", p, debug.Stack())
			}
		}()
		res.Err = g.Engine.Execute(ctx, &req, rec, opts...)
	}()
	select {
	case <-done:
	case <-time.After(60 * time.Second):
		res.TimedOut = true
		cancel()
		select {
		case <-done:
		case <-time.After(10 * time.Second):
		}
	}
	rec.mu.Lock()
	res.Frames = append([]string{}, rec.Frames...)
	res.Body = string(rec.buf)
	rec.mu.Unlock()
	res.Requests = g.Transport.Requests()
	return res
}

// Plan re-derives the post-processed plan of op exactly as Execute does (exported
// pipeline + the engine's post-processor options).
func (g *Gateway) Plan(op opgen.Op, extra ...postprocess.ProcessorOption) (plan.Plan, error) {
	_, req, stage, err := admit.NormalizeRequest(g.Schema, op)
	if err != nil {
		return nil, fmt.Errorf("admission fails at %s: %w", stage, err)
	}
	pc := *g.Conf.VerifPlannerConfig()
	planner, err := plan.NewPlanner(pc)
	if err != nil {
		return nil, err
	}
	var rep operationreport.Report
	p := planner.Plan(req.Document(), g.Schema.Document(), op.OperationName, &rep)
	if rep.HasErrors() {
		return nil, rep
	}
	opts := append(append([]postprocess.ProcessorOption{}, g.Engine.VerifPostProcessorOptions()...), extra...)
	postprocess.NewProcessor(opts...).Process(p)
	return p, nil
}
