package c02

// Input classes of the recorded planner findings. They are used (a) by the generator to steer
// away from a known class most of the time, counting the exclusion, and (b) as the applicability
// half of the recognisers in recognisePlanFinding. They describe shapes of the OPERATION (and,
// for one class, of j); none of them looks at the code under test or takes part in the oracle.

import (
	"fmt"

	gast "github.com/vektah/gqlparser/v2/ast"
)

// levelInfo describes one selection level: the selections of one object position with
// fragments followed and sub-fields not entered.
type levelInfo struct {
	declaredAbstract bool
	abstractFrags    int // fragments whose type condition is an interface or union (other than the type they are in)
	unionFrags       int // ... whose type condition is a union
	unionTypenames   int // __typename selections whose nearest enclosing type is a union
	nestedAbstract   int // such abstract-conditioned fragments inside another fragment that changes the type
}

func (l levelInfo) unionTypename() bool {
	return l.declaredAbstract && l.abstractFrags > 0 && l.unionTypenames > 0
}

func (m *model) isKind(name string, k gast.DefinitionKind) bool {
	d := m.s.Types[name]
	return d != nil && d.Kind == k
}

// inlinable: the type condition holds for every runtime type admitted by the directly
// enclosing type (`declared`: the field's type or the enclosing fragment's condition), so
// normalization removes the fragment.
func (m *model) inlinable(cond, declared string) bool {
	if cond == "" || cond == declared {
		return true
	}
	if !m.isKind(declared, gast.Object) || !m.isKind(cond, gast.Interface) {
		return false
	}
	return contains(possibleNames(m.s, m.s.Types[cond]), declared)
}

type fragmentVisit func(cond string, set gast.SelectionSet)

// eachFragment calls fn for every inline fragment / spread directly in set.
func (m *model) eachFragment(set gast.SelectionSet, encl string, fn fragmentVisit) {
	for _, sel := range set {
		switch x := sel.(type) {
		case *gast.InlineFragment:
			c := x.TypeCondition
			if c == "" {
				c = encl
			}
			fn(c, x.SelectionSet)
		case *gast.FragmentSpread:
			if fd := m.doc.Fragments.ForName(x.Name); fd != nil {
				fn(fd.TypeCondition, fd.SelectionSet)
			}
		}
	}
}

func (m *model) levelInfo(sets []gast.SelectionSet, declared string) levelInfo {
	// Purely syntactic: whether normalization inlines a fragment depends on details this
	// description does not try to mirror; a fragment counts unless it repeats the type it is in.
	l := levelInfo{declaredAbstract: m.s.Types[declared] != nil && m.s.Types[declared].IsAbstractType()}
	var scan func(set gast.SelectionSet, encl string, outer, depth int)
	scan = func(set gast.SelectionSet, encl string, outer, depth int) {
		if depth > 12 {
			return
		}
		for _, sel := range set {
			if f, ok := sel.(*gast.Field); ok && f.Name == "__typename" && m.isKind(encl, gast.Union) {
				l.unionTypenames++
			}
		}
		m.eachFragment(set, encl, func(cond string, sub gast.SelectionSet) {
			o := outer
			if cond != encl {
				if m.isKind(cond, gast.Union) || m.isKind(cond, gast.Interface) {
					l.abstractFrags++
					if m.isKind(cond, gast.Union) {
						l.unionFrags++
					}
					if outer > 0 {
						l.nestedAbstract++
					}
				}
				o++
			}
			scan(sub, cond, o, depth+1)
		})
	}
	for _, s := range sets {
		scan(s, declared, 0, 0)
	}
	return l
}

// occurrence of a composite field on one selection level.
type occurrence struct {
	key string
	ctx string // chain of the non-inlinable type conditions above it on the level
	f   *gast.Field
	typ *gast.Type
}

func (m *model) levelOccurrences(sets []gast.SelectionSet, declared string) []occurrence {
	var out []occurrence
	var scan func(set gast.SelectionSet, encl, ctx string, depth int)
	scan = func(set gast.SelectionSet, encl, ctx string, depth int) {
		if depth > 12 {
			return
		}
		for _, sel := range set {
			if x, ok := sel.(*gast.Field); ok && x.Definition != nil && len(x.SelectionSet) > 0 {
				k := x.Alias
				if k == "" {
					k = x.Name
				}
				out = append(out, occurrence{key: k, ctx: ctx, f: x, typ: x.Definition.Type})
			}
		}
		m.eachFragment(set, encl, func(cond string, sub gast.SelectionSet) {
			c := ctx
			if !m.inlinable(cond, encl) {
				c += "/" + cond
			}
			scan(sub, cond, c, depth+1)
		})
	}
	for _, s := range sets {
		scan(s, declared, "", 0)
	}
	return out
}

// crossMerged: response keys of composite fields that occur on the level under two different
// type-condition contexts (normalization cannot merge them, postprocess.mergeFields does).
func (m *model) crossMerged(sets []gast.SelectionSet, declared string) map[string][2]occurrence {
	out := map[string][2]occurrence{}
	occ := m.levelOccurrences(sets, declared)
	for i := range occ {
		for j := i + 1; j < len(occ); j++ {
			if occ[i].key == occ[j].key && occ[i].ctx != occ[j].ctx {
				if _, ok := out[occ[i].key]; !ok {
					out[occ[i].key] = [2]occurrence{occ[i], occ[j]}
				}
			}
		}
	}
	return out
}

// opClass names the first recorded planner finding accepted by want whose input class the
// operation is in ("" = none): every level of the operation is inspected.
func (m *model) opClass(want func(id string) bool) string {
	found := ""
	hit := func(id string) {
		if found == "" && want(id) {
			found = id
		}
	}
	var walk func(sets []gast.SelectionSet, declared string, depth int)
	walk = func(sets []gast.SelectionSet, declared string, depth int) {
		if found != "" || depth > maxOpDepth+1 {
			return
		}
		l := m.levelInfo(sets, declared)
		if l.unionTypename() {
			hit(findingUnionTypename)
		}
		if l.nestedAbstract > 0 {
			hit(findingNestedAbstract)
		}
		occ := map[string]int{}
		for _, oc := range m.levelOccurrences(sets, declared) {
			occ[oc.key]++
			if t := oc.typ; occ[oc.key] >= 2 && t.Elem != nil && t.Elem.Elem != nil {
				// whether normalization merges the occurrences first depends on their surroundings
				hit(findingMergeNestedList)
			}
		}
		for _, pair := range m.crossMerged(sets, declared) {
			if t := pair[0].typ; t.Elem != nil && t.Elem.Elem != nil {
				hit(findingMergeNestedList)
			} else {
				// sub-selections are merged with differing parent conditions: any leaf key below
				// may get mixed conditions
				hit(findingMergeScalars)
			}
		}
		if found != "" {
			return
		}
		seen := map[string]bool{}
		for _, rt := range possibleNames(m.s, m.s.Types[declared]) {
			for _, f := range m.collect(sets, rt) {
				if len(f.sets) == 0 || f.fieldDef == nil {
					continue
				}
				named := f.typ
				for named.Elem != nil {
					named = named.Elem
				}
				id := fmt.Sprintf("%s\x00%s\x00%d", f.key, named.NamedType, len(f.sets))
				if seen[id] {
					continue
				}
				seen[id] = true
				walk(f.sets, named.NamedType, depth+1)
			}
		}
	}
	walk([]gast.SelectionSet{m.op.SelectionSet}, m.rootName(), 0)
	return found
}

// concreteNoTypenameClass is the input class of findingConcreteNoTypename: an object at a
// concrete-typed position has no string __typename while its selection level contains a fragment
// on an abstract type (normalization keeps fragments on unions and interface fragments with
// nested fragments, so the plan carries type conditions inside an object whose type is
// statically known, and the upstream query asks for __typename).
func (m *model) concreteNoTypenameClass(root *jv) bool {
	for _, p := range m.positions(root) {
		if p.t.Elem != nil || p.node == nil || p.node.k != jObj || p.parent == nil {
			continue
		}
		def := m.s.Types[p.t.NamedType]
		if def.Kind != gast.Object {
			continue
		}
		if tn := p.node.get("__typename"); tn != nil && tn.k == jStr {
			continue
		}
		if m.levelInfo(p.sets, def.Name).abstractFrags > 0 {
			return true
		}
	}
	return false
}
