package admit

import (
	"fmt"

	"github.com/wundergraph/graphql-go-tools/execution/graphql"
	"github.com/wundergraph/graphql-go-tools/v2/pkg/astnormalization"
	"github.com/wundergraph/graphql-go-tools/v2/pkg/astparser"
	"github.com/wundergraph/graphql-go-tools/v2/pkg/astprinter"
	"github.com/wundergraph/graphql-go-tools/v2/pkg/astvalidation"
	"github.com/wundergraph/graphql-go-tools/v2/pkg/operationreport"

	"verif/harness/internal/opgen"
	"verif/harness/internal/ref"
)

// Pipeline is the admission sequence of NormalizeRequest on long-lived instances: the
// normalizers, the validator and the variables mapper are created once and used for every
// operation, the way a server holds them (OperationNormalizer, OperationValidator and
// VariablesMapper are walker based and reset their visitors per document; the repository's
// own TestVariablesMapper reuses one normalizer across cases). Same option sets, same
// order of steps as graphql.Request.Normalize / ValidateForSchema.
type Pipeline struct {
	named, anon       *astnormalization.OperationNormalizer
	extNamed, extAnon *astnormalization.OperationNormalizer
	validator         *astvalidation.OperationValidator
	mapper            *astnormalization.VariablesMapper
}

func engineOptions() []astnormalization.Option {
	return []astnormalization.Option{
		astnormalization.WithRemoveFragmentDefinitions(),
		astnormalization.WithRemoveUnusedVariables(),
		astnormalization.WithInlineFragmentSpreads(),
		astnormalization.WithEnableDefer(),
		astnormalization.WithPrevalidationRules(
			astvalidation.DeferStreamOnValidOperations(),
			astvalidation.DeferStreamHaveUniqueLabels(),
			astvalidation.DirectivesAreInValidLocations(),
			astvalidation.StreamAppliedToListFieldsOnly()),
	}
}

func NewPipeline() *Pipeline {
	return &Pipeline{
		named:     astnormalization.NewWithOpts(append(engineOptions(), astnormalization.WithRemoveNotMatchingOperationDefinitions())...),
		anon:      astnormalization.NewWithOpts(engineOptions()...),
		extNamed:  astnormalization.NewWithOpts(astnormalization.WithExtractVariables(), astnormalization.WithRemoveNotMatchingOperationDefinitions()),
		extAnon:   astnormalization.NewWithOpts(astnormalization.WithExtractVariables()),
		validator: astvalidation.DefaultOperationValidator(),
		mapper:    astnormalization.NewVariablesMapper(),
	}
}

// Outcome of one admission: Stage "" = admitted (Print/Vars/Remap set), else the refusing step.
type Outcome struct {
	Stage string
	Err   string
	Print string
	Vars  string // canonical JSON of the variables after normalization
	Remap string
}

func (o Outcome) String() string {
	if o.Stage != "" {
		return fmt.Sprintf("refused at %s: %s", o.Stage, o.Err)
	}
	return fmt.Sprintf("admitted: %s  variables %s  remap %s", o.Print, o.Vars, o.Remap)
}

// Same reports whether two outcomes agree on everything observable downstream: the verdict
// and refusing step, and for an admitted operation its normalized text and variables.
func (o Outcome) Same(p Outcome) bool {
	if o.Stage != p.Stage {
		return false
	}
	if o.Stage != "" {
		return true
	}
	return o.Print == p.Print && o.Vars == p.Vars && o.Remap == p.Remap
}

// Run admits one operation. A panic inside the library is reported as stage "panic".
func (p *Pipeline) Run(schema *graphql.Schema, op opgen.Op) (out Outcome) {
	defer func() {
		if r := recover(); r != nil {
			out = Outcome{Stage: "panic", Err: fmt.Sprint(r)}
		}
	}()
	doc, report := astparser.ParseGraphqlDocumentString(op.Query)
	if report.HasErrors() {
		return Outcome{Stage: "parse", Err: report.Error()}
	}
	if v := op.VarsJSON(); v != "" {
		doc.Input.Variables = []byte(v)
	}
	def := schema.Document()
	run := func(named, anon *astnormalization.OperationNormalizer) {
		if op.OperationName != "" {
			named.NormalizeNamedOperation(&doc, def, []byte(op.OperationName), &report)
		} else {
			anon.NormalizeOperation(&doc, def, &report)
		}
	}
	run(p.named, p.anon)
	if report.HasErrors() {
		return Outcome{Stage: "normalize", Err: report.Error()}
	}
	p.validator.Validate(&doc, def, &report)
	if report.HasErrors() {
		return Outcome{Stage: "validate", Err: report.Error()}
	}
	run(p.extNamed, p.extAnon)
	if report.HasErrors() {
		return Outcome{Stage: "extract", Err: report.Error()}
	}
	var rep operationreport.Report
	remap := p.mapper.NormalizeOperation(&doc, def, &rep)
	if rep.HasErrors() {
		return Outcome{Stage: "remap", Err: rep.Error()}
	}
	s, err := astprinter.PrintString(&doc)
	if err != nil {
		return Outcome{Stage: "print", Err: err.Error()}
	}
	out = Outcome{Print: s, Vars: "{}"}
	if len(doc.Input.Variables) > 0 {
		v, derr := ref.Decode(doc.Input.Variables)
		if derr != nil {
			return Outcome{Stage: "variables-json", Err: fmt.Sprintf("%v: %q", derr, doc.Input.Variables)}
		}
		out.Vars = ref.JSON(v)
	}
	rm := map[string]any{}
	for k, v := range remap {
		rm[k] = v
	}
	out.Remap = ref.JSON(rm)
	return out
}
