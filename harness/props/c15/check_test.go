package c15

import (
	"encoding/json"
	"fmt"
	"strings"

	gqlast "github.com/vektah/gqlparser/v2/ast"
	gqlparser "github.com/vektah/gqlparser/v2/parser"

	ir "verif/harness/internal/inputref"
	"verif/harness/pbt"
)

// expectation is the value the resolver of one field must see for its argument.
type expectation struct {
	v       *ir.Value
	present bool
}

func (e expectation) String() string {
	if !e.present {
		return "<absent>"
	}
	return ir.Canon(e.v)
}

// evalOperation evaluates, for every selected echo field, the argument value a GraphQL
// server receives when it executes opText with vars: CoerceVariableValues on the operation's
// own variable definitions, then CoerceArgumentValues. Everything is this harness's code.
func evalOperation(s *ir.Schema, c *Case, opText string, vars *ir.Value) (map[string]expectation, error) {
	ops, err := ir.ParseOperations(opText, ir.LexOpts{})
	if err != nil {
		return nil, fmt.Errorf("operation does not parse: %w", err)
	}
	if len(ops) != 1 {
		return nil, fmt.Errorf("%d operations", len(ops))
	}
	op := ops[0]
	coerced, issues, err := s.CoerceOpVariables(op, vars)
	if err != nil {
		return nil, err
	}
	if len(issues) > 0 {
		return nil, fmt.Errorf("variables do not coerce to the types the operation declares: %v", issues)
	}
	out := map[string]expectation{}
	for _, fu := range c.Fields {
		var sel *ir.Sel
		for _, x := range op.Sels {
			if !x.Fragment && x.Key() == fu.Key {
				sel = x
			}
		}
		if sel == nil {
			return nil, fmt.Errorf("response key %s is not selected", fu.Key)
		}
		if sel.Name != fu.Echo {
			return nil, fmt.Errorf("response key %s selects %s, want %s", fu.Key, sel.Name, fu.Echo)
		}
		var lit *ir.Value
		if a := sel.Arg("v"); a != nil {
			lit = a.Value
		}
		v, present, err := s.EvalArgument(&s.Echo(fu.Echo).Arg, lit, coerced)
		if err != nil {
			return nil, fmt.Errorf("argument of %s: %w", fu.Key, err)
		}
		out[fu.Key] = expectation{v, present}
	}
	return out, nil
}

func litClasses(text string, o *pbt.Rec) (nontrivial bool) {
	has := func(sub string) bool { return strings.Contains(text, sub) }
	bs := `\`
	if has(bs) {
		nontrivial = true
	}
	for class, subs := range map[string][]string{
		"escape-simple":              {bs + `"`, bs + bs, bs + "/", bs + "b", bs + "f", bs + "n", bs + "r", bs + "t"},
		"escape-unicode":             {bs + "u0", bs + "u1"},
		"escape-surrogate":           {bs + "uD83D", bs + "ud83d"},
		"escape-brace":               {bs + "u{"},
		"raw-tab":                    {"\t"},
		"raw-nonascii":               {"\xc3\xa9", "\xf0\x9f\x98\x80", "\xe2\x80\xa8", "\xc2\xa0"},
		"raw-bom":                    {"\xef\xbb\xbf"},
		"del":                        {"\x7f"},
		"c0-control":                 {"\x01", "\x07", "\x0b", "\x1b", "\x1f", "\x08", "\x0c"},
		"astral-nonprintable":        {"\xf3\xa0\x80\x81", "\xf4\x8f\xbf\xbf", "\xf0\x9f\xbf\xbe", "\xf0\xbf\xbf\xbd"},
		"block-string":               {`"""`},
		"block-escaped-triple-quote": {bs + `"""`},
		"exponent":                   {"e+", "e-", "E+", "E-", "e1", "E1", "e5", "E5", "e0", "e4"},
		"variable-inside":            {"$"},
		"comment":                    {"#c"},
	} {
		for _, sub := range subs {
			if has(sub) {
				o.Label("lit:" + class)
				break
			}
		}
	}
	if has(`"""`) && (has("\n ") || has("\n\t")) {
		o.Label("lit:block-indented")
		nontrivial = true
	}
	return nontrivial
}

func numberClasses(v *ir.Value, o *pbt.Rec) (nontrivial bool) {
	if v == nil {
		return false
	}
	switch v.K {
	case ir.VNum:
		d, err := ir.ParseDec(v.N)
		if err != nil {
			return false
		}
		switch {
		case v.FloatLit && strings.ContainsAny(v.N, "eE"):
			o.Label("num:exponent")
		case v.FloatLit:
			o.Label("num:fraction")
		case !d.Int32():
			o.Label("num:big-int")
		case strings.HasPrefix(v.N, "-0"):
			o.Label("num:minus-zero")
		}
		if len(v.N) > 15 {
			o.Label("num:long")
		}
		return v.FloatLit || len(v.N) > 3
	case ir.VList:
		for _, x := range v.L {
			nontrivial = numberClasses(x, o) || nontrivial
		}
	case ir.VObj:
		for _, m := range v.O {
			nontrivial = numberClasses(m.V, o) || nontrivial
		}
	}
	return nontrivial
}

func checkCase(c Case, o *pbt.Rec) pbt.Verdict {
	s := &c.Schema
	// ---- reference: what must each resolver see -----------------------------------------------
	var varsObj *ir.Value
	var rawVars []byte
	switch c.VarsForm {
	case "object":
		v, err := ir.ParseJSON(c.Vars)
		if err != nil || v.K != ir.VObj {
			o.Discard("generator-produced-bad-json")
			return pbt.OK
		}
		varsObj, rawVars = v, []byte(c.Vars)
	case "null":
		rawVars = []byte("null")
	}
	if c.Lenient {
		return checkLenient(&c, rawVars, o)
	}
	want, err := evalOperation(s, &c, c.Query, varsObj)
	if err != nil {
		// the generator claims valid-by-construction and the reference disagrees: a harness bug
		o.Discard("generator-reference-disagree")
		o.Label("discard-why:" + firstWords(err.Error(), 6))
		return pbt.OK
	}
	o.Label("varsform:" + c.VarsForm)
	o.Labelf("fields:%d", len(c.Fields))
	if collides(&c) {
		o.Label("family:colliding-spellings")
	}
	nontrivial := false
	lits := map[string]*ir.Value{}
	for _, fu := range c.Fields {
		o.Label("mode:" + fu.Mode)
		t := s.Echo(fu.Echo).Arg.T()
		o.Label("argtype:base=" + baseClass(s, t))
		if t.ListDepth() > 0 {
			o.Label("argtype:list")
		}
		if !want[fu.Key].present {
			o.Label("expect:absent")
		} else if want[fu.Key].v.K == ir.VNull {
			o.Label("expect:null")
		}
		if fu.Mode == "literal" {
			lit, _ := ir.ParseLiteral(fu.Arg, ir.LexOpts{})
			lits[fu.Key] = lit
			nontrivial = litClasses(fu.Arg, o) || nontrivial
			nontrivial = numberClasses(lit, o) || nontrivial
			if lit.Depth() >= 2 {
				o.Label("lit:depth>=2")
				nontrivial = true
			}
			if lit.K != ir.VList && t.Elem != nil && lit.K != ir.VNull && lit.K != ir.VVar {
				o.Label("lit:single-for-list")
			}
		}
	}
	for _, d := range c.Decls {
		if d.Default != "" {
			o.Label("var:has-default")
		}
		if varsObj.Get(d.Name) == nil {
			o.Label("var:omitted")
		} else if varsObj.Get(d.Name).K == ir.VNull {
			o.Label("var:explicit-null")
		}
	}
	if c.Vars != "" {
		nontrivial = litClassesJSON(c.Vars, o) || nontrivial
	}
	if nontrivial {
		o.NonTrivial(c.Query + "\x00" + c.Vars)
	}
	secondOpinion(&c, lits, o)

	describe := func() string {
		return fmt.Sprintf("\nschema:\n%s\nquery: %q\nvariables(%s): %q\nexpected: %s", s.SDL(false), c.Query, c.VarsForm, c.Vars, renderExp(&c, want))
	}
	rig, err := ir.RigFor(s)
	if err != nil {
		return pbt.Bad("cannot build an engine for a generated schema: %v\n%s", err, s.SDL(false))
	}

	// ---- oracle 1: after the engine's normalization sequence ---------------------------------------
	adm := rig.AdmitNoRemap(c.Query, rawVars, "")
	if adm.Panic != "" {
		return known(&c, varsObj, lits, "panic", pbt.Bad("normalization panicked: %s%s", adm.Panic, describe()))
	}
	if adm.Stage != "" {
		o.Label("rejected-at:" + adm.Stage)
		return known(&c, varsObj, lits, "rejected", pbt.Bad("valid request rejected at stage %s: %v%s", adm.Stage, adm.Err, describe()))
	}
	after := string(adm.Request.Variables)
	var afterObj *ir.Value
	if strings.TrimSpace(after) != "" {
		v, err := ir.ParseJSON(after)
		if err != nil {
			return known(&c, varsObj, lits, "invalid-json", pbt.Bad("variables after normalization are not valid JSON (%v): %q%s", err, after, describe()))
		}
		if !json.Valid([]byte(after)) {
			o.Label("second-opinion:encoding/json-rejects-what-inputref-accepts")
		}
		if v.K == ir.VObj {
			afterObj = v
		} else if v.K != ir.VNull {
			return pbt.Bad("variables after normalization are not an object: %q%s", after, describe())
		}
	}
	opText, err := adm.PrintOperation()
	if err != nil {
		return pbt.Bad("normalized operation does not print: %v%s", err, describe())
	}
	got, err := evalOperation(s, &c, opText, afterObj)
	if err != nil {
		return known(&c, varsObj, lits, "normalized-eval", pbt.Bad("after normalization the request no longer evaluates: %v\nnormalized operation: %s\nvariables: %s%s", err, opText, after, describe()))
	}
	for _, fu := range c.Fields {
		if got[fu.Key].String() != want[fu.Key].String() {
			// is the result a function of the request at all?
			if again := rig.AdmitNoRemap(c.Query, rawVars, ""); string(again.Request.Variables) != after {
				return pbt.Bad("normalization is not deterministic: the same request first gave variables %s and then %s%s", after, again.Request.Variables, describe())
			}
			return known(&c, varsObj, lits, "normalized-value", pbt.Bad("after normalization the argument of %s denotes %s, want %s\nnormalized operation: %s\nvariables: %s%s",
				fu.Key, got[fu.Key], want[fu.Key], opText, after, describe()))
		}
	}
	o.Label("oracle1:ok")

	// ---- oracle 2: what the subgraph receives ---------------------------------------------------------
	res := rig.Execute(c.Query, rawVars, "")
	if res.Panic != "" {
		return known(&c, varsObj, lits, "panic", pbt.Bad("Execute panicked: %s%s", res.Panic, describe()))
	}
	if res.Err != nil || len(res.Upstream) == 0 {
		return known(&c, varsObj, lits, "rejected", pbt.Bad("valid request not executed: err=%v upstream=%d response=%s%s", res.Err, len(res.Upstream), res.Response, describe()))
	}
	if len(res.Upstream) != 1 {
		o.Labelf("upstream-requests:%d", len(res.Upstream))
	}
	up := res.Upstream[0]
	if up.BodyErr != nil {
		return known(&c, varsObj, lits, "invalid-json", pbt.Bad("subgraph request body is malformed (%v): %q%s", up.BodyErr, up.Body, describe()))
	}
	var upVars *ir.Value
	if up.HasVars {
		switch up.Variables.K {
		case ir.VObj:
			upVars = up.Variables
		case ir.VNull:
		default:
			return pbt.Bad("subgraph request variables are not an object: %q%s", up.Body, describe())
		}
	}
	gotUp, err := evalOperation(s, &c, up.Query, upVars)
	if err != nil {
		return known(&c, varsObj, lits, "upstream-eval", pbt.Bad("the subgraph request does not evaluate: %v\nbody: %s%s", err, up.Body, describe()))
	}
	for _, fu := range c.Fields {
		if gotUp[fu.Key].String() != want[fu.Key].String() {
			return known(&c, varsObj, lits, "upstream-value", pbt.Bad("the subgraph receives %s for the argument of %s, want %s\nbody: %s%s",
				gotUp[fu.Key], fu.Key, want[fu.Key], up.Body, describe()))
		}
	}
	o.Label("oracle2:ok")
	if _, err := gqlparser.ParseQuery(&gqlast.Source{Input: up.Query}); err != nil {
		o.Label("second-opinion:gqlparser-rejects-upstream-query")
	}
	return pbt.OK
}

// checkLenient: the document is not valid GraphQL (bytes that are not UTF-8 inside a block
// string). It may be rejected; if it is admitted, what the gateway exposes and forwards must
// still be JSON, and nothing may panic.
func checkLenient(c *Case, rawVars []byte, o *pbt.Rec) pbt.Verdict {
	if _, err := ir.ParseOperations(c.Query, ir.LexOpts{}); err == nil {
		o.Discard("lenient-case-is-valid")
		return pbt.OK
	}
	o.Label("family:invalid-utf8")
	rig, err := ir.RigFor(&c.Schema)
	if err != nil {
		return pbt.Bad("cannot build an engine: %v", err)
	}
	adm := rig.AdmitNoRemap(c.Query, rawVars, "")
	if adm.Panic != "" {
		return pbt.Bad("normalization panicked on %q: %s", c.Query, adm.Panic)
	}
	if adm.Stage != "" {
		o.Label("invalid-utf8:rejected")
		return pbt.OK
	}
	o.Label("invalid-utf8:admitted")
	if after := string(adm.Request.Variables); strings.TrimSpace(after) != "" {
		if _, err := ir.ParseJSON(after); err != nil {
			return pbt.Bad("admitted document %q: variables after normalization are not valid JSON (%v): %q", c.Query, err, after)
		}
	}
	res := rig.Execute(c.Query, rawVars, "")
	if res.Panic != "" {
		return pbt.Bad("Execute panicked on %q: %s", c.Query, res.Panic)
	}
	for _, up := range res.Upstream {
		if up.BodyErr != nil {
			return pbt.Bad("admitted document %q: subgraph request body is malformed (%v): %q", c.Query, up.BodyErr, up.Body)
		}
	}
	return pbt.OK
}

func renderExp(c *Case, m map[string]expectation) string {
	var parts []string
	for _, fu := range c.Fields {
		parts = append(parts, fu.Key+"="+m[fu.Key].String())
	}
	return strings.Join(parts, " ")
}

// collides: two arguments of equal type where one is a string literal whose content is the
// JSON text of the other (modulo white space).
func collides(c *Case) bool {
	for i, a := range c.Fields {
		for j, b := range c.Fields {
			if i == j || a.Mode != "literal" || b.Mode != "literal" || c.Schema.Echo(a.Echo).Arg.Type != c.Schema.Echo(b.Echo).Arg.Type {
				continue
			}
			la, err1 := ir.ParseLiteral(a.Arg, ir.LexOpts{})
			lb, err2 := ir.ParseLiteral(b.Arg, ir.LexOpts{})
			if err1 != nil || err2 != nil {
				continue
			}
			for la.K == ir.VList && lb.K == ir.VList && len(la.L) == 1 && len(lb.L) == 1 {
				la, lb = la.L[0], lb.L[0]
			}
			if la.K == ir.VStr && lb.K != ir.VStr && lb.K != ir.VVar {
				if v, err := ir.ParseJSON(la.S); err == nil && ir.Canon(v) == ir.Canon(lb) {
					return true
				}
			}
		}
	}
	return false
}

func firstWords(s string, n int) string {
	w := strings.Fields(s)
	if len(w) > n {
		w = w[:n]
	}
	return strings.Join(w, " ")
}

func litClassesJSON(text string, o *pbt.Rec) bool {
	nontrivial := false
	if strings.Contains(text, `\`) {
		o.Label("json:escape")
		nontrivial = true
	}
	if strings.ContainsAny(text, "eE") && strings.ContainsAny(text, "0123456789") {
		for _, sub := range []string{"e+", "e-", "E+", "E-", "e5", "E5", "e1", "e3"} {
			if strings.Contains(text, sub) {
				o.Label("json:exponent")
				nontrivial = true
				break
			}
		}
	}
	if strings.Contains(text, "123456789012345678901234567890") || strings.Contains(text, "9007199254740993") {
		o.Label("json:big-int")
		nontrivial = true
	}
	return nontrivial
}

func baseClass(s *ir.Schema, t *ir.Type) string {
	switch s.KindOf(t.Base()) {
	case ir.KindInput:
		if s.Input(t.Base()).OneOf {
			return "oneof-input"
		}
		return "input"
	case ir.KindEnum:
		return "enum"
	case ir.KindCustomScalar:
		return "custom-scalar"
	}
	return t.Base()
}

// secondOpinion logs where gqlparser's literal decoding differs from the spec decoder of this
// harness. Never alarmed (gqlparser is not spec-faithful for surrogate escapes, big integers
// and some block strings).
func secondOpinion(c *Case, lits map[string]*ir.Value, o *pbt.Rec) {
	doc, err := gqlparser.ParseQuery(&gqlast.Source{Input: c.Query})
	if err != nil {
		o.Label("second-opinion:gqlparser-rejects-client-query")
		return
	}
	if len(doc.Operations) != 1 {
		return
	}
	for _, sel := range doc.Operations[0].SelectionSet {
		f, ok := sel.(*gqlast.Field)
		if !ok || len(f.Arguments) != 1 {
			continue
		}
		key := f.Alias
		lit := lits[key]
		if lit == nil || lit.K != ir.VStr {
			continue
		}
		if f.Arguments[0].Value.Raw == lit.S {
			o.Label("second-opinion:gqlparser-string-agrees")
		} else {
			o.Label("second-opinion:gqlparser-string-differs")
		}
	}
}
