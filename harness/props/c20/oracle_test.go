package c20

import (
	"bytes"
	"encoding/json"
	"fmt"
	"math"
	"sort"
	"strings"

	"github.com/vektah/gqlparser/v2"
	"github.com/vektah/gqlparser/v2/ast"
)

// parsedOp is an operation validated by gqlparser against the rig's schema.
type parsedOp struct {
	text string
	doc  *ast.QueryDocument
	op   *ast.OperationDefinition
	root *ast.Definition
}

func parseOp(w *world, text string) (*parsedOp, error) {
	doc, errs := gqlparser.LoadQuery(w.schema, text)
	if errs != nil {
		return nil, fmt.Errorf("%s", errs.Error())
	}
	if len(doc.Operations) != 1 {
		return nil, fmt.Errorf("expected exactly one operation")
	}
	op := doc.Operations[0]
	root := w.schema.Query
	if op.Operation == ast.Mutation {
		root = w.schema.Mutation
	}
	return &parsedOp{text: text, doc: doc, op: op, root: root}, nil
}

// fieldSig is the identity of the underlying field: name plus canonical arguments (aliases
// do not matter).
func fieldSig(f *ast.Field) string {
	if len(f.Arguments) == 0 {
		return f.Name
	}
	parts := make([]string, 0, len(f.Arguments))
	for _, a := range f.Arguments {
		parts = append(parts, a.Name+":"+a.Value.String())
	}
	sort.Strings(parts)
	return f.Name + "(" + strings.Join(parts, ",") + ")"
}

func (w *world) typeApplies(cond string, t *ast.Definition) bool {
	if cond == "" || cond == t.Name {
		return true
	}
	cd := w.schema.Types[cond]
	if cd == nil {
		return false
	}
	for _, pt := range w.schema.GetPossibleTypes(cd) {
		if pt.Name == t.Name {
			return true
		}
	}
	return false
}

type collected struct {
	key    string
	fields []*ast.Field
}

// collect implements CollectFields for the concrete object type t over several merged
// selection sets (in order of first appearance of each response key).
func (w *world) collect(sets []ast.SelectionSet, t *ast.Definition) []collected {
	var out []collected
	idx := map[string]int{}
	var rec func(ss ast.SelectionSet)
	rec = func(ss ast.SelectionSet) {
		for _, s := range ss {
			switch x := s.(type) {
			case *ast.Field:
				i, ok := idx[x.Alias]
				if !ok {
					i = len(out)
					idx[x.Alias] = i
					out = append(out, collected{key: x.Alias})
				}
				out[i].fields = append(out[i].fields, x)
			case *ast.InlineFragment:
				if w.typeApplies(x.TypeCondition, t) {
					rec(x.SelectionSet)
				}
			case *ast.FragmentSpread:
				if x.Definition != nil && w.typeApplies(x.Definition.TypeCondition, t) {
					rec(x.Definition.SelectionSet)
				}
			}
		}
	}
	for _, ss := range sets {
		rec(ss)
	}
	return out
}

// fieldPaths is the set of underlying field paths an operation selects (aliases, fragments,
// order and duplication are invisible in it). Two operations with the same set ask for
// exactly the same data.
func fieldPaths(p *parsedOp) map[string]bool {
	out := map[string]bool{}
	var rec func(prefix string, ss ast.SelectionSet)
	rec = func(prefix string, ss ast.SelectionSet) {
		for _, s := range ss {
			switch x := s.(type) {
			case *ast.Field:
				u := prefix + "/" + fieldSig(x)
				out[u] = true
				rec(u, x.SelectionSet)
			case *ast.InlineFragment:
				rec(prefix, x.SelectionSet)
			case *ast.FragmentSpread:
				if x.Definition != nil {
					rec(prefix, x.Definition.SelectionSet)
				}
			}
		}
	}
	rec("", p.op.SelectionSet)
	return out
}

func samePaths(a, b map[string]bool) bool {
	if len(a) != len(b) {
		return false
	}
	for k := range a {
		if !b[k] {
			return false
		}
	}
	return true
}

// ---- response walk: shape oracle + value extraction -----------------------------------------

type response struct {
	Data   any
	Errors []any
	hasDat bool
}

func decodeResponse(body string) (*response, error) {
	dec := json.NewDecoder(strings.NewReader(body))
	var top map[string]json.RawMessage
	if err := dec.Decode(&top); err != nil {
		return nil, fmt.Errorf("response is not a JSON object: %v", err)
	}
	if dec.More() {
		return nil, fmt.Errorf("trailing data after the response object")
	}
	r := &response{}
	for k, v := range top {
		switch k {
		case "data":
			r.hasDat = true
			if err := json.Unmarshal(v, &r.Data); err != nil {
				return nil, err
			}
		case "errors":
			if err := json.Unmarshal(v, &r.Errors); err != nil {
				return nil, fmt.Errorf("errors is not a list: %v", err)
			}
		case "extensions":
		default:
			return nil, fmt.Errorf("unexpected top-level key %q", k)
		}
	}
	if !r.hasDat && len(r.Errors) == 0 {
		return nil, fmt.Errorf("response has neither data nor errors")
	}
	return r, nil
}

// walk is one type-safety walk of a response against its operation. It collects shape
// violations and, for positions under stable units, the value observed for every underlying
// field position (field path with list indices, aliases erased).
type walk struct {
	w               *world
	stable          func(unitKey string) bool
	viol            []string
	vals            map[string][]string // underlying position -> distinct canonical values, in order seen
	where           map[string]string   // underlying position -> a response path where it was seen
	labels          map[string]bool
	nVals           int
	nViol, nKeyViol int
	diffs           []keyDiff // objects whose keys fit no possible type: per not-contradicted type, the key difference
}

type keyDiff struct {
	U              string
	Type           string
	Missing, Extra []string
}

func newWalk(w *world, stable func(string) bool) *walk {
	return &walk{w: w, stable: stable, vals: map[string][]string{}, where: map[string]string{}, labels: map[string]bool{}}
}

func (k *walk) bad(format string, a ...any) {
	k.nViol++
	if len(k.viol) < 8 {
		k.viol = append(k.viol, fmt.Sprintf(format, a...))
	}
}

func (k *walk) record(u, path, v string, rec bool) {
	if !rec {
		return
	}
	k.nVals++
	for _, x := range k.vals[u] {
		if x == v {
			return
		}
	}
	k.vals[u] = append(k.vals[u], v)
	if _, ok := k.where[u]; !ok {
		k.where[u] = path
	}
}

func canon(v any) string {
	var b bytes.Buffer
	e := json.NewEncoder(&b)
	e.SetEscapeHTML(false)
	_ = e.Encode(v)
	return strings.TrimSpace(b.String())
}

func jsonKind(v any) string {
	switch v.(type) {
	case nil:
		return "null"
	case bool:
		return "boolean"
	case float64:
		return "number"
	case string:
		return "string"
	case []any:
		return "list"
	case map[string]any:
		return "object"
	}
	return fmt.Sprintf("%T", v)
}

func (k *walk) run(p *parsedOp, r *response) {
	if !r.hasDat || r.Data == nil {
		if len(r.Errors) == 0 {
			k.bad("data is null/absent without errors")
		}
		k.labels["data-null"] = true
		k.record("", "data", "null", true)
		return
	}
	obj, ok := r.Data.(map[string]any)
	if !ok {
		k.bad("data is a %s, expected an object", jsonKind(r.Data))
		return
	}
	k.object(obj, p.root, []ast.SelectionSet{p.op.SelectionSet}, "", "data", true)
}

// object checks one response object whose static type is def (object, interface or union).
// The concrete type is not known a priori: every possible type whose collected response keys
// equal the keys present (and whose __typename keys, if any, name it) is a consistent reading;
// the object passes if some consistent reading passes.
func (k *walk) object(obj map[string]any, def *ast.Definition, sets []ast.SelectionSet, u, path string, rec bool) {
	k.record(u, path, "{}", rec)
	keys := make([]string, 0, len(obj))
	for key := range obj {
		keys = append(keys, key)
	}
	sort.Strings(keys)
	var reasons []string
	var diffs []keyDiff
	type reading struct {
		t  *ast.Definition
		cs []collected
	}
	var readings []reading
	for _, t := range k.w.possible(def) {
		cs := k.w.collect(sets, t)
		want := make([]string, 0, len(cs))
		why := ""
		for _, c := range cs {
			want = append(want, c.key)
			if c.fields[0].Name == "__typename" {
				if s, ok := obj[c.key].(string); ok && s != t.Name {
					why = fmt.Sprintf("%s says %q", c.key, s)
				}
			}
		}
		sort.Strings(want)
		if why == "" && strings.Join(want, "\x00") != strings.Join(keys, "\x00") {
			why = fmt.Sprintf("selection yields keys %v", want)
			d := keyDiff{U: u, Type: t.Name}
			for _, x := range want {
				if _, ok := obj[x]; !ok {
					d.Missing = append(d.Missing, x)
				}
			}
			for _, x := range keys {
				if i := sort.SearchStrings(want, x); i >= len(want) || want[i] != x {
					d.Extra = append(d.Extra, x)
				}
			}
			diffs = append(diffs, d)
		}
		if why != "" {
			reasons = append(reasons, t.Name+": "+why)
			continue
		}
		readings = append(readings, reading{t, cs})
	}
	if len(readings) == 0 {
		k.diffs = append(k.diffs, diffs...)
		k.nKeyViol++
		k.bad("%s: object with keys %v matches no possible type of %s: %s", path, keys, def.Name, strings.Join(reasons, "; "))
		return
	}
	if def.Kind != ast.Object {
		k.labels["abstract-object"] = true
	}
	if len(readings) == 1 {
		k.fields(obj, readings[0].t, readings[0].cs, u, path, rec)
		return
	}
	k.labels["ambiguous-concrete-type"] = true
	var first *walk
	for _, r := range readings {
		trial := newWalk(k.w, k.stable)
		trial.fields(obj, r.t, r.cs, u, path, rec)
		if len(trial.viol) == 0 {
			k.merge(trial)
			return
		}
		if first == nil {
			first = trial
		}
	}
	k.merge(first)
}

func (k *walk) merge(o *walk) {
	k.viol = append(k.viol, o.viol...)
	k.diffs = append(k.diffs, o.diffs...)
	k.nViol += o.nViol
	k.nKeyViol += o.nKeyViol
	us := make([]string, 0, len(o.vals))
	for u := range o.vals {
		us = append(us, u)
	}
	sort.Strings(us)
	for _, u := range us {
		for _, v := range o.vals[u] {
			k.record(u, o.where[u], v, true)
		}
	}
	for l := range o.labels {
		k.labels[l] = true
	}
}

func (k *walk) fields(obj map[string]any, t *ast.Definition, cs []collected, u, path string, rec bool) {
	for _, c := range cs {
		f := c.fields[0]
		cpath := path + "." + c.key
		cu := u + "/" + fieldSig(f)
		if f.Name == "__typename" {
			s, ok := obj[c.key].(string)
			if !ok {
				k.bad("%s: __typename is %s, expected the string %q", cpath, canon(obj[c.key]), t.Name)
				continue
			}
			k.labels["typename"] = true
			k.record(cu, cpath, canon(s), rec)
			continue
		}
		fd := t.Fields.ForName(f.Name)
		if fd == nil {
			k.bad("%s: type %s has no field %s", cpath, t.Name, f.Name)
			continue
		}
		crec := rec
		if un := k.w.units[t.Name+"."+f.Name]; un != nil {
			k.labels["unit:"+string(un.Kind)] = true
			if !k.stable(un.Key) {
				crec = false
				k.labels["under-unstable-unit"] = true
			}
		}
		var sub []ast.SelectionSet
		for _, ff := range c.fields {
			if len(ff.SelectionSet) > 0 {
				sub = append(sub, ff.SelectionSet)
			}
		}
		k.value(obj[c.key], fd.Type, sub, cu, cpath, crec, 0)
	}
}

func (k *walk) value(v any, t *ast.Type, sub []ast.SelectionSet, u, path string, rec bool, listDepth int) {
	if v == nil {
		if t.NonNull {
			k.labels["null-in-non-null-position"] = true
		}
		k.record(u, path, "null", rec)
		return
	}
	if t.Elem != nil {
		l, ok := v.([]any)
		if !ok {
			k.bad("%s: %s value %s where the list type %s is declared", path, jsonKind(v), clip(canon(v)), t.String())
			return
		}
		if listDepth > 0 {
			k.labels["nested-list"] = true
		}
		k.record(u, path, fmt.Sprintf("[%d]", len(l)), rec)
		for i, e := range l {
			k.value(e, t.Elem, sub, fmt.Sprintf("%s[%d]", u, i), fmt.Sprintf("%s[%d]", path, i), rec, listDepth+1)
		}
		return
	}
	def := k.w.schema.Types[t.NamedType]
	if def == nil {
		return
	}
	switch def.Kind {
	case ast.Object, ast.Interface, ast.Union:
		obj, ok := v.(map[string]any)
		if !ok {
			k.bad("%s: %s value %s where the composite type %s is declared", path, jsonKind(v), clip(canon(v)), t.String())
			return
		}
		k.object(obj, def, sub, u, path, rec)
	case ast.Enum:
		s, ok := v.(string)
		if !ok || def.EnumValues.ForName(s) == nil {
			k.bad("%s: %s is not a value of enum %s", path, clip(canon(v)), def.Name)
			return
		}
		k.record(u, path, canon(v), rec)
	default:
		okKind := true
		switch def.Name {
		case "String":
			_, okKind = v.(string)
		case "ID":
			switch v.(type) {
			case string, float64:
			default:
				okKind = false
			}
		case "Boolean":
			_, okKind = v.(bool)
		case "Float":
			_, okKind = v.(float64)
		case "Int":
			f, isNum := v.(float64)
			okKind = isNum && f == math.Trunc(f) && f >= math.MinInt32 && f <= math.MaxInt32
		}
		if !okKind {
			k.bad("%s: %s value %s where %s is declared", path, jsonKind(v), clip(canon(v)), t.String())
			return
		}
		k.record(u, path, canon(v), rec)
	}
}

func clip(s string) string {
	if len(s) > 120 {
		return s[:120] + "…"
	}
	return s
}

// ---- comparison -----------------------------------------------------------------------------

type mismatch struct {
	U      string
	A, B   []string // values seen in q / q'
	PathA  string
	PathB  string
	Within string // "q" / "q'" when one response disagrees with itself
}

func (m mismatch) String() string {
	if m.Within != "" {
		v, p := m.A, m.PathA
		if m.Within == "q'" {
			v, p = m.B, m.PathB
		}
		return fmt.Sprintf("field position %s has different values under different response keys of %s (first at %s): %s", m.U, m.Within, p, clip(strings.Join(v, " vs ")))
	}
	return fmt.Sprintf("field position %s: q has %s (at %s), q' has %s (at %s)", m.U, clip(strings.Join(m.A, "|")), m.PathA, clip(strings.Join(m.B, "|")), m.PathB)
}

// compare returns the mismatches over all underlying positions common to both walks, highest
// (shortest) positions first.
func compare(a, b *walk) []mismatch {
	var out []mismatch
	us := make([]string, 0, len(a.vals))
	for u := range a.vals {
		us = append(us, u)
	}
	for u := range b.vals {
		if _, ok := a.vals[u]; !ok {
			us = append(us, u)
		}
	}
	sort.Slice(us, func(i, j int) bool {
		if len(us[i]) != len(us[j]) {
			return len(us[i]) < len(us[j])
		}
		return us[i] < us[j]
	})
	for _, u := range us {
		va, oka := a.vals[u]
		vb, okb := b.vals[u]
		switch {
		case oka && len(va) > 1:
			out = append(out, mismatch{U: u, A: va, B: vb, PathA: a.where[u], PathB: b.where[u], Within: "q"})
		case okb && len(vb) > 1:
			out = append(out, mismatch{U: u, A: va, B: vb, PathA: a.where[u], PathB: b.where[u], Within: "q'"})
		case oka && okb && va[0] != vb[0]:
			out = append(out, mismatch{U: u, A: va, B: vb, PathA: a.where[u], PathB: b.where[u]})
		}
	}
	return out
}

// stripIndices turns an underlying position into its field path.
func stripIndices(u string) string {
	var b strings.Builder
	depth := 0
	inArgs := 0
	for i := 0; i < len(u); i++ {
		c := u[i]
		switch {
		case c == '(':
			inArgs++
			b.WriteByte(c)
		case c == ')':
			inArgs--
			b.WriteByte(c)
		case inArgs > 0:
			b.WriteByte(c)
		case c == '[':
			depth++
		case c == ']':
			depth--
		case depth == 0:
			b.WriteByte(c)
		}
	}
	return b.String()
}

// excusedByBubbling: the two operations select different field sets, one of them has null
// at u where the other has a value, the null side reported errors and selects, below u,
// fields the other side does not select: null propagation from such a field explains the
// difference.
func excusedByBubbling(m mismatch, fa, fb map[string]bool, ra, rb *response) bool {
	if m.Within != "" {
		return false
	}
	check := func(nullSide, other map[string]bool, r *response) bool {
		if len(r.Errors) == 0 {
			return false
		}
		prefix := stripIndices(m.U) + "/"
		for f := range nullSide {
			if strings.HasPrefix(f, prefix) && !other[f] {
				return true
			}
		}
		return false
	}
	if len(m.A) == 1 && m.A[0] == "null" && check(fa, fb, ra) {
		return true
	}
	if len(m.B) == 1 && m.B[0] == "null" && check(fb, fa, rb) {
		return true
	}
	return false
}
