// Package inputref is the reference semantics for GraphQL input values shared by the C06
// and C15 checks: a plain-data schema model for input types, reference input coercion
// written from the GraphQL specification (§3 "Input Coercion" of every type kind, §6.1.2
// CoerceVariableValues, §6.4.1 CoerceArgumentValues), a literal decoder written from §2.9
// (StringValue semantics, BlockStringValue verbatim), exact-decimal number comparison,
// type-directed generators, and a single-subgraph engine rig whose fake transport records
// what the gateway sends upstream. Nothing here uses the repo's or gqlparser's value
// decoding; gqlparser appears only as an optional, logged second opinion.
package inputref

import (
	"fmt"
	"sort"
	"strings"
)

// Type is a GraphQL input type reference.
type Type struct {
	Name    string // named type when Elem == nil
	Elem    *Type  // list item type
	NonNull bool
}

func (t *Type) String() string {
	var s string
	if t.Elem != nil {
		s = "[" + t.Elem.String() + "]"
	} else {
		s = t.Name
	}
	if t.NonNull {
		s += "!"
	}
	return s
}

// Nullable returns the same type without the outer non-null wrapper.
func (t *Type) Nullable() *Type {
	c := *t
	c.NonNull = false
	return &c
}

// Required returns the same type with an outer non-null wrapper.
func (t *Type) Required() *Type {
	c := *t
	c.NonNull = true
	return &c
}

// Base returns the innermost named type.
func (t *Type) Base() string {
	for t.Elem != nil {
		t = t.Elem
	}
	return t.Name
}

// Wrappers counts list and non-null wrappers.
func (t *Type) Wrappers() int {
	n := 0
	for x := t; x != nil; x = x.Elem {
		if x.NonNull {
			n++
		}
		if x.Elem != nil {
			n++
		}
	}
	return n
}

// ListDepth counts list wrappers.
func (t *Type) ListDepth() int {
	n := 0
	for x := t; x.Elem != nil; x = x.Elem {
		n++
	}
	return n
}

// ParseType parses "[[Int!]]!" style type text.
func ParseType(s string) (*Type, error) {
	s = strings.TrimSpace(s)
	t, rest, err := parseType(s)
	if err != nil {
		return nil, err
	}
	if strings.TrimSpace(rest) != "" {
		return nil, fmt.Errorf("trailing text in type %q", s)
	}
	return t, nil
}

// MustType is ParseType for known-good text.
func MustType(s string) *Type {
	t, err := ParseType(s)
	if err != nil {
		panic(err)
	}
	return t
}

func parseType(s string) (*Type, string, error) {
	if s == "" {
		return nil, "", fmt.Errorf("empty type")
	}
	var t *Type
	if s[0] == '[' {
		el, rest, err := parseType(s[1:])
		if err != nil {
			return nil, "", err
		}
		if rest == "" || rest[0] != ']' {
			return nil, "", fmt.Errorf("missing ] in type")
		}
		t, s = &Type{Elem: el}, rest[1:]
	} else {
		i := 0
		for i < len(s) && (s[i] == '_' || s[i] >= 'a' && s[i] <= 'z' || s[i] >= 'A' && s[i] <= 'Z' || s[i] >= '0' && s[i] <= '9') {
			i++
		}
		if i == 0 {
			return nil, "", fmt.Errorf("bad type text %q", s)
		}
		t, s = &Type{Name: s[:i]}, s[i:]
	}
	if s != "" && s[0] == '!' {
		t.NonNull = true
		s = s[1:]
	}
	return t, s, nil
}

// Field is an input object field or a field argument.
type Field struct {
	Name    string `json:"name"`
	Type    string `json:"type"`
	Default string `json:"default,omitempty"` // GraphQL literal text; "" means no default
}

// T parses the field's type text.
func (f *Field) T() *Type { return MustType(f.Type) }

// HasDefault reports whether a default value is declared.
func (f *Field) HasDefault() bool { return f.Default != "" }

// Input is an input object type.
type Input struct {
	Name   string  `json:"name"`
	OneOf  bool    `json:"oneOf,omitempty"`
	Fields []Field `json:"fields"`
}

// Field finds a field by name.
func (in *Input) Field(name string) *Field {
	for i := range in.Fields {
		if in.Fields[i].Name == name {
			return &in.Fields[i]
		}
	}
	return nil
}

// Enum is an enum type.
type Enum struct {
	Name   string   `json:"name"`
	Values []string `json:"values"`
}

// Echo is one root field `name(arg: Type = Default): String`.
type Echo struct {
	Name string `json:"name"`
	Arg  Field  `json:"arg"`
}

// Schema is the plain-data schema of a case: input types plus echo fields on Query.
type Schema struct {
	Inputs  []Input  `json:"inputs,omitempty"`
	Enums   []Enum   `json:"enums,omitempty"`
	Scalars []string `json:"scalars,omitempty"` // custom scalars
	Echoes  []Echo   `json:"echoes"`
}

// Kind classifies a named type.
type Kind int

// Named type kinds.
const (
	KindUnknown Kind = iota
	KindInt
	KindFloat
	KindString
	KindBoolean
	KindID
	KindCustomScalar
	KindEnum
	KindInput
)

// KindOf classifies a named type of the schema.
func (s *Schema) KindOf(name string) Kind {
	switch name {
	case "Int":
		return KindInt
	case "Float":
		return KindFloat
	case "String":
		return KindString
	case "Boolean":
		return KindBoolean
	case "ID":
		return KindID
	}
	for _, x := range s.Scalars {
		if x == name {
			return KindCustomScalar
		}
	}
	for i := range s.Enums {
		if s.Enums[i].Name == name {
			return KindEnum
		}
	}
	for i := range s.Inputs {
		if s.Inputs[i].Name == name {
			return KindInput
		}
	}
	return KindUnknown
}

// Input finds an input object type.
func (s *Schema) Input(name string) *Input {
	for i := range s.Inputs {
		if s.Inputs[i].Name == name {
			return &s.Inputs[i]
		}
	}
	return nil
}

// Enum finds an enum type.
func (s *Schema) Enum(name string) *Enum {
	for i := range s.Enums {
		if s.Enums[i].Name == name {
			return &s.Enums[i]
		}
	}
	return nil
}

// Echo finds an echo field.
func (s *Schema) Echo(name string) *Echo {
	for i := range s.Echoes {
		if s.Echoes[i].Name == name {
			return &s.Echoes[i]
		}
	}
	return nil
}

// SDL renders the schema. The @oneOf directive definition is included only when asked
// (gqlparser needs it, the gateway's base schema already has it).
func (s *Schema) SDL(withOneOfDefinition bool) string {
	var b strings.Builder
	if withOneOfDefinition {
		b.WriteString("directive @oneOf on INPUT_OBJECT\n")
	}
	for _, sc := range s.Scalars {
		fmt.Fprintf(&b, "scalar %s\n", sc)
	}
	for _, e := range s.Enums {
		fmt.Fprintf(&b, "enum %s { %s }\n", e.Name, strings.Join(e.Values, " "))
	}
	for _, in := range s.Inputs {
		fmt.Fprintf(&b, "input %s", in.Name)
		if in.OneOf {
			b.WriteString(" @oneOf")
		}
		b.WriteString(" {\n")
		for _, f := range in.Fields {
			fmt.Fprintf(&b, "  %s: %s", f.Name, f.Type)
			if f.HasDefault() {
				fmt.Fprintf(&b, " = %s", f.Default)
			}
			b.WriteString("\n")
		}
		b.WriteString("}\n")
	}
	b.WriteString("type Query {\n")
	for _, e := range s.Echoes {
		fmt.Fprintf(&b, "  %s(%s: %s", e.Name, e.Arg.Name, e.Arg.Type)
		if e.Arg.HasDefault() {
			fmt.Fprintf(&b, " = %s", e.Arg.Default)
		}
		b.WriteString("): String\n")
	}
	b.WriteString("}\n")
	return b.String()
}

// EchoNames lists the echo field names, sorted.
func (s *Schema) EchoNames() []string {
	out := make([]string, 0, len(s.Echoes))
	for _, e := range s.Echoes {
		out = append(out, e.Name)
	}
	sort.Strings(out)
	return out
}
