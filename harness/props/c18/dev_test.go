package c18

import (
	"fmt"
	"testing"
	"time"

	"pgregory.net/rapid"
)

func TestDevTiming(t *testing.T) {
	for _, mode := range []string{"stepped", "burst"} {
		buckets := map[string]time.Duration{}
		counts := map[string]int{}
		var worst time.Duration
		var worstCase string
		for seed := 0; seed < 200; seed++ {
			var c Case
			if mode == "stepped" {
				c = rapid.Custom(genStepped).Example(seed)
			} else {
				c = rapid.Custom(genBurst).Example(seed)
			}
			t0 := time.Now()
			o := run(c)
			d := time.Since(t0)
			on := false
			for _, s := range c.Subs {
				on = on || s.On != nil
			}
			chain := false
			for _, s := range c.Steps {
				chain = chain || s.Op == "abandon"
			}
			key := fmt.Sprintf("on=%v chain=%v aid=%d", on, chain, len(o.aidExpired))
			buckets[key] += d
			counts[key]++
			if d > worst {
				worst, worstCase = d, c.key()
			}
		}
		fmt.Println(mode, "worst", worst, worstCase)
		for k, v := range buckets {
			fmt.Println("   ", k, counts[k], v/time.Duration(counts[k]))
		}
	}
}

func TestDevOne(t *testing.T) {
	c := rapid.Custom(genBurst).Example(0)
	for seed := 0; seed < 200; seed++ {
		c = rapid.Custom(genBurst).Example(seed)
		t0 := time.Now()
		o := run(c)
		if d := time.Since(t0); d > 2*time.Second {
			fmt.Println(d, c.key())
			fmt.Println("  incon", o.inconclusive, "live", o.liveness, "aid", o.aidExpired, "leak", o.leak)
			for i, st := range o.w.subs {
				fmt.Printf("  sub %d returned=%v err=%v cancel=%v done=%v acts=%v %s\n", i, st.returned, st.err, st.cancelIssued, st.cancelDone, st.handlerActs, o.w.summary(i))
			}
			for _, uc := range o.w.conns {
				fmt.Printf("  conn %d tuple=%d acked=%v closed=%v dropped=%v ids=%v\n", uc.idx, uc.tuple, uc.acked, uc.closed, uc.dropped, uc.ids)
			}
		}
	}
}

func TestDevAid(t *testing.T) {
	n := 0
	for seed := 0; seed < 1500 && n < 6; seed++ {
		c := rapid.Custom(genStepped).Example(seed)
		o := run(c)
		if len(o.aidExpired) > 0 {
			n++
			fmt.Println(o.aidExpired, c.key())
			for i, st := range o.w.subs {
				fmt.Printf("  sub %d returned=%v err=%v cancel=%v done=%v stop=%v acts=%v blocked=%v %s\n", i, st.returned, st.err, st.cancelIssued, st.cancelDone, st.stopSeen, st.handlerActs, st.blockedNow, o.w.summary(i))
			}
			for _, uc := range o.w.conns {
				fmt.Printf("  conn %d tuple=%d acked=%v closed=%v dropped=%v ids=%v\n", uc.idx, uc.tuple, uc.acked, uc.closed, uc.dropped, uc.ids)
			}
		}
	}
}
