package c01

import (
	"github.com/vektah/gqlparser/v2/ast"

	"verif/harness/internal/sim"
)

func simLoadSuper(sdl string) (*ast.Schema, error) { return sim.LoadSuper(sdl) }
