package c18

import (
	"fmt"
	"strings"

	"verif/harness/pbt"
)

var steppedPart = pbt.Part[Case]{Name: "stepped", Quick: 2400, Thorough: 40000, Gen: genStepped, Check: checkCase}

// pingPart: heartbeat silence on some connections must end exactly the subscriptions on them. Real
// timers are involved, so the part is small and its slack is one-sided (see checkPing).
var pingPart = pbt.Part[Case]{Name: "ping", Quick: 48, Thorough: 640, Gen: genPing, Check: checkPing}

// checkPing runs a ping case. Only the silent side has one-sided slack (the connection error must
// arrive eventually). The healthy side does not: pingLoop's ticks bunch up when the process is starved,
// so a healthy connection can miss a pong deadline through no fault of the client (observed on this
// machine at load average > 200, with and without the proposed fixes). A healthy subscription that the
// client ends with its own "connection closed" therefore makes the case inconclusive, never a violation.
func checkPing(c Case, rec *pbt.Rec) pbt.Verdict {
	if msg := wellFormed(c); msg != "" || c.Ping == nil {
		return pbt.Bad("malformed ping case: %s", msg)
	}
	o := run(c)
	if len(o.inconclusive) > 0 {
		rec.Discard("inconclusive:" + firstWord(o.inconclusive[0]))
		return pbt.OK
	}
	o.w.mu.Lock()
	for i, st := range o.w.subs {
		if k := st.terminalAt(); k >= 0 && k < st.snap && st.msgs[k].closedByClient && !st.silenced && !c.silentTuple(c.Subs[i].Tuple) {
			o.w.mu.Unlock()
			rec.Discard("inconclusive:healthy-connection-missed-pong-deadline")
			return pbt.OK
		}
	}
	o.w.mu.Unlock()
	vs := judge(o)
	if len(o.liveness) > 0 || o.leak != "" {
		established.Store(true)
	}
	classify(c, o, rec)
	rec.Label("ping:cases")
	o.w.mu.Lock()
	for i, st := range o.w.subs {
		if st.silenced {
			rec.Label("ping:subscription-on-silent-connection")
		} else if st.started && !c.silentTuple(c.Subs[i].Tuple) && len(st.sent) > 0 {
			rec.Label("ping:subscription-on-healthy-connection-with-traffic")
		}
	}
	o.w.mu.Unlock()
	return verdict(vs, c)
}

var burstPart = pbt.Part[Case]{Name: "burst", Quick: 2400, Thorough: 40000, Gen: genBurst, Check: checkCase}

// checkCase executes a case against the real client and judges it. Pure function of the case and
// the code under test, apart from scheduling inside the client, which the oracles are written to
// tolerate (one-sided).
func checkCase(c Case, rec *pbt.Rec) pbt.Verdict {
	if msg := wellFormed(c); msg != "" {
		return pbt.Bad("malformed case: %s", msg)
	}
	o := run(c)
	if len(o.inconclusive) > 0 {
		rec.Discard("inconclusive:" + firstWord(o.inconclusive[0]))
		return pbt.OK
	}
	vs := judge(o)
	if len(o.liveness) > 0 || o.leak != "" {
		established.Store(true)
	}
	classify(c, o, rec)

	// differential oracle: a cancelling subscriber does not change what any other subscriber experiences.
	// Only stepped cases are deterministic enough for an exact comparison.
	if c.stepped() && len(vs) == 0 {
		if twin, cancelled := withoutCancels(c, o); len(cancelled) > 0 {
			ot := run(twin)
			if len(ot.liveness) > 0 || ot.leak != "" {
				// the twin is a case in its own right: what it violates is a violation (and it must not cost the
				// full grace again and again while nobody records it)
				established.Store(true)
				for _, v := range judge(ot) {
					v.msg = "in the same case minus its cancels: " + v.msg
					vs = append(vs, v)
				}
				rec.Label("twin:violates-by-itself")
			} else if len(ot.inconclusive) > 0 {
				rec.Label("twin:inconclusive")
			} else {
				rec.Label("twin:compared")
				for i := range c.Subs {
					if cancelled[i] || o.w.subs[i].dropInSub || ot.w.subs[i].dropInSub {
						// a drop during its Subscribe call: whether it shared the failed dial or dialled for itself
						// afterwards depends on an unobservable join, so the two runs may legitimately differ
						continue
					}
					a, b := o.w.summary(i), ot.w.summary(i)
					if a != b {
						vs = append(vs, viol{msg: fmt.Sprintf("cancelling sub(s) %v changed what sub %d experienced:\n  with the cancel(s):    %s\n  without the cancel(s): %s", sortedInts(cancelled), i, a, b)})
					}
				}
			}
		}
	}
	return verdict(vs, c)
}

func firstWord(s string) string {
	f := strings.Fields(s)
	if len(f) > 3 {
		f = f[:3]
	}
	return strings.Join(f, "-")
}

func wellFormed(c Case) string {
	if len(c.Tuples) == 0 || len(c.Subs) == 0 || len(c.Subs) > 64 {
		return "needs 1+ tuples and 1..64 subscriptions"
	}
	seen := map[string]bool{}
	for _, t := range c.Tuples {
		if t.Endpoint < 0 || t.Endpoint > 1 || t.Header < 0 || t.Header >= len(headerSets) || t.Init < 0 || t.Init > 2 || t.Proto < 0 || t.Proto > 2 || (t.SSE && (t.Proto > 1 || t.Init != 0)) {
			return "tuple coordinate out of range"
		}
		if seen[t.canonical()] {
			return "duplicate tuple"
		}
		seen[t.canonical()] = true
	}
	for _, s := range c.Subs {
		if s.Tuple < 0 || s.Tuple >= len(c.Tuples) || s.Nexts < 0 || s.Nexts > 16 {
			return "subscription out of range"
		}
		if on := s.On; on != nil && (on.At < 0 || (on.Act != "cancel-self" && on.Act != "cancel-other" && on.Act != "block") || on.Other < 0 || on.Other >= len(c.Subs)) {
			return "handler behaviour out of range"
		}
	}
	subbed := map[int]bool{}
	for _, s := range c.Steps {
		switch s.Op {
		case "sub":
			if s.Sub < 0 || s.Sub >= len(c.Subs) || subbed[s.Sub] {
				return "sub step out of range or repeated"
			}
			subbed[s.Sub] = true
		case "cancel", "expire", "send", "release":
			if s.Sub < 0 || s.Sub >= len(c.Subs) {
				return "step subscription out of range"
			}
		case "abandon":
			if s.Key < 0 || s.Key >= len(c.Tuples) || s.Sub < 0 || s.Sub >= len(c.Subs) {
				return "abandon step out of range"
			}
		case "ack", "drop":
			if s.Key < 0 || s.Key >= len(c.Tuples) {
				return "step tuple out of range"
			}
		case "idle", "silence", "ticks":
		default:
			return "unknown step " + s.Op
		}
	}
	if !c.stepped() && len(c.DropAfter) != 0 && len(c.DropAfter) != len(c.Tuples) {
		return "drop_after length"
	}
	return ""
}

// withoutCancels is the same case minus every cancel.
func withoutCancels(c Case, o *outcome) (Case, map[int]bool) {
	t := c
	t.Steps = nil
	cancelled := map[int]bool{}
	for _, s := range c.Steps {
		switch s.Op {
		case "cancel", "expire":
			cancelled[s.Sub] = true
			continue
		case "abandon":
			continue // who it cancelled is known from the run only (below)
		}
		t.Steps = append(t.Steps, s)
	}
	t.Subs = append([]Sub(nil), c.Subs...)
	for i := range t.Subs {
		if on := t.Subs[i].On; on != nil && on.Act != "block" {
			t.Subs[i].On = nil // a handler that cancels is a cancel
		}
	}
	o.w.mu.Lock()
	for i, st := range o.w.subs {
		if st.cancelIssued {
			cancelled[i] = true
		}
	}
	o.w.mu.Unlock()
	return t, cancelled
}

// classify records what the case actually exercised (measured at the upstream, not assumed from the generator).
func classify(c Case, o *outcome, rec *pbt.Rec) {
	w := o.w
	w.mu.Lock()
	defer w.mu.Unlock()
	for _, a := range o.aidExpired {
		rec.Label("aid-expired:" + a)
	}
	if o.sentWhileBlocked > 0 {
		rec.Label("handler:blocked-while-upstream-sends-on-its-connection")
	}
	if o.cancelWhileBlocked > 0 {
		rec.Label("handler:blocked-while-another-subscriber-of-its-connection-cancels")
	}
	if o.subWhileBlocked > 0 {
		rec.Label("handler:blocked-while-another-subscribes-to-its-tuple")
	}
	maxSat := 0
	for _, st := range w.subs {
		if !st.cancelIssued {
			maxSat = max(maxSat, st.satThrough)
		}
	}
	if maxSat > 0 {
		rec.Labelf("survivor-waited-through-abandoned-dials:%d", min(maxSat, 4))
	}
	if maxSat >= 3 {
		rec.Label("survivor-waited-through>=3-abandoned-dials")
	}
	for i, st := range w.subs {
		for _, a := range st.handlerActs {
			switch {
			case a == "cancel-other" && c.Subs[i].On != nil && c.Subs[i].On.Other != i && w.subs[c.Subs[i].On.Other].conn != nil && w.subs[c.Subs[i].On.Other].conn == st.conn:
				rec.Label("handler:cancel-other-on-same-connection")
			case a == "cancel-self" && st.conn != nil && len(st.conn.ids) >= 2:
				rec.Label("handler:cancel-self-on-shared-connection")
			default:
				rec.Label("handler:" + a)
			}
		}
	}
	if o.idleWaited {
		rec.Label("idle-timer-pending-on-reused-conn-with-live-subs")
	}
	if c.stepped() {
		rec.Label("mode:stepped")
	} else {
		rec.Label("mode:burst")
	}
	if c.Steer {
		rec.Label("excluded-by-construction:" + fDialCtx + "+" + fCancelWrite)
	}
	rec.Labelf("tuples:%d", len(c.Tuples))
	rec.Labelf("subs:%d", min(len(c.Subs), 6))
	if c.IdleMs > 0 {
		rec.Label("idle>0")
	}
	// near-equal tuples
	for a := 0; a < len(c.Tuples); a++ {
		for b := a + 1; b < len(c.Tuples); b++ {
			if d := diffCoord(c.Tuples[a], c.Tuples[b]); d != "" {
				rec.Label("tuples-differ-only-in:" + d)
				if d == "headers" && sameFirstValues(c.Tuples[a].Header, c.Tuples[b].Header) && !c.Tuples[a].SSE {
					rec.Label("ws-tuples-differ-only-in-a-later-header-value")
				}
			}
		}
	}
	shared, maxShare := 0, 0
	perTuple := map[int]int{}
	for _, uc := range w.conns {
		if len(uc.ids) >= 2 {
			shared++
		}
		maxShare = max(maxShare, len(uc.ids))
		if uc.acked {
			perTuple[uc.tuple]++
		}
		if uc.reused {
			rec.Label("conn-reused-after-it-was-empty")
		}
		if uc.acked {
			rec.Label("ws:" + uc.proto)
		}
	}
	if len(w.streams) > 0 {
		rec.Label("sse")
	}
	if shared > 0 {
		rec.Label("conn-shared-by>=2")
	}
	if maxShare >= 3 {
		rec.Label("conn-shared-by>=3")
	}
	for _, n := range perTuple {
		if n > 1 {
			rec.Label("tuple-redialled")
			break
		}
	}
	if len(w.conns) >= 2 {
		rec.Label("ws-conns>=2")
	}
	// ordering classes on one connection: terminal / stop for one id followed by delivered traffic for another id
	type mark struct{ term, stop map[int]bool }
	per := map[int]*mark{}
	termThen, stopThen := false, false
	for _, e := range w.log {
		m := per[e.conn]
		if m == nil {
			m = &mark{map[int]bool{}, map[int]bool{}}
			per[e.conn] = m
		}
		switch e.kind {
		case "complete", "error":
			m.term[e.sub] = true
		case "stop":
			m.stop[e.sub] = true
		}
		if e.kind == "next" || e.kind == "complete" || e.kind == "error" {
			for s := range m.term {
				if s != e.sub {
					termThen = true
				}
			}
			for s := range m.stop {
				if s != e.sub {
					stopThen = true
				}
			}
		}
	}
	if termThen {
		rec.Label("terminal-for-one-then-traffic-for-another-on-same-conn")
	}
	if stopThen {
		rec.Label("cancel-of-one-then-traffic-for-another-on-same-conn")
	}
	inflightCancel, joined := false, o.joinedDial > 0
	for i, st := range w.subs {
		if !st.started {
			if st.cancelIssued {
				rec.Label("cancel:never-started")
			}
			continue
		}
		if len(st.inFlightCancel) > 0 {
			inflightCancel = true
		}
		if st.expired {
			rec.Label("left-by-own-deadline")
			if st.earlyCancel {
				for _, o := range w.subs {
					for _, j := range o.inFlightCancel {
						if j == i && !w.c.Tuples[w.c.Subs[i].Tuple].SSE {
							rec.Label("own-deadline-passed-during-subscribe-while-another-same-tuple-subscribe-in-flight")
						}
					}
				}
			}
		}
		if st.cancelIssued {
			switch {
			case st.earlyCancel && st.seen == 0:
				rec.Label("cancel:before-subscribe-reached-upstream")
			case st.earlyCancel:
				rec.Label("cancel:while-subscribing")
			case st.terminalAt() >= 0 && st.terminalAt() < st.snap:
				rec.Label("cancel:after-terminal")
			default:
				rec.Label("cancel:mid-stream")
			}
		}
		for _, m := range st.sent {
			if m.afterCancel && m.ok {
				rec.Label("upstream-kept-sending-after-cancel")
				break
			}
		}
		if st.dropped {
			rec.Label("drop:hit-established-subscription")
		}
		if st.dropInSub {
			rec.Label("drop:during-subscribe")
		}
		_ = i
	}
	if joined {
		rec.Label("subscribe-while-same-tuple-dial-in-progress")
	}
	if inflightCancel {
		rec.Label("cancel-while-another-subscribe-of-same-tuple-in-flight")
	}
	if shared > 0 || inflightCancel {
		rec.NonTrivial(c.key())
	}
}

func diffCoord(a, b Tuple) string {
	var d []string
	if a.SSE != b.SSE {
		d = append(d, "transport")
	}
	if a.Endpoint != b.Endpoint {
		d = append(d, "endpoint")
	}
	if a.Proto != b.Proto {
		d = append(d, "protocol")
	}
	if a.Header != b.Header {
		d = append(d, "headers")
	}
	if a.Init != b.Init {
		d = append(d, "init-payload")
	}
	if len(d) == 1 {
		return d[0]
	}
	return ""
}
