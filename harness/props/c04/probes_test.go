package c04

import (
	"fmt"

	"github.com/wundergraph/graphql-go-tools/execution/graphql"

	"verif/harness/internal/opgen"
	"verif/harness/internal/sim"
	"verif/harness/pbt"
)

const probeSDL = `type Query { me: User node: Node search: [U!]! echo(i: Int, c: Color, f: In): String }
input In { a: Int l: [Int!] }
interface Node { id: ID! }
type User implements Node { id: ID! name: String color(first: Int = 3): Color friend(id: ID): User }
type Product implements Node { id: ID! price: Int }
union U = User | Product
enum Color { RED GREEN }
type Subscription { tick: Int tock: Int }
`

// disagree returns a description when the repo's admission verdict differs from the spec
// verdict (gqlparser) for one fixed document.
func disagree(q string) func() string {
	return func() string {
		super, err := sim.LoadSuper(probeSDL)
		if err != nil {
			return ""
		}
		op := opgen.Op{Query: q}
		sv := specVerdict(super, op)
		if sv.parseErr || !sv.selectable {
			return ""
		}
		schema, err := graphql.NewSchemaFromString(probeSDL)
		if err != nil {
			return ""
		}
		ok, why, panicked := admitted(schema, op)
		if panicked != "" {
			return fmt.Sprintf("%s panics: %s", q, firstLine(panicked))
		}
		if ok != sv.reachValid {
			if ok {
				return fmt.Sprintf("%s is admitted; spec: %s", q, firstLine(sv.errs.Error()))
			}
			return fmt.Sprintf("%s is spec-valid but rejected: %s", q, firstLine(why))
		}
		return ""
	}
}

func first(fs ...func() string) func() string {
	return func() string {
		for _, f := range fs {
			if s := f(); s != "" {
				return s
			}
		}
		return ""
	}
}

func probes() pbt.Probes {
	return pbt.Probes{
		"C04-selection-on-typename-panics": {Input: "{ __typename { id } }", Fn: func() string {
			super, _ := sim.LoadSuper(probeSDL)
			_ = super
			schema, err := graphql.NewSchemaFromString(probeSDL)
			if err != nil {
				return ""
			}
			ok, _, panicked := admitted(schema, opgen.Op{Query: "{ __typename { id } }"})
			if panicked != "" {
				return "{ __typename { id } } panics: " + firstLine(panicked)
			}
			if ok {
				return "{ __typename { id } } is admitted"
			}
			return ""
		}},
		"C04-field-merging-non-scalar-fields": {Input: "{ me { cf: color(first: 1) cf: color(first: 2) } }", Fn: first(
			disagree("{ me { cf: color(first: 1) cf: color(first: 2) } }"),
			disagree("{ me { cf: name cf: color } }"),
			disagree(`{ me { friend(id: "a") { id } friend(id: "b") { id } } }`),
			disagree("{ me { dup: __typename dup: id } }"))},
		"C04-normalization-hides-invalid-selections": {Input: "{ me @skip(if: true) { bogus } }", Fn: first(
			disagree("{ me @skip(if: true) { bogus } }"),
			disagree("{ me { ... on Node { name } } }"),
			disagree("{ me { id } me(bogusArg: 1) { id } }"))},
		"C04-subscription-introspection-root-field":        {Input: "subscription { __typename }", Fn: disagree("subscription { __typename }")},
		"C04-duplicate-directive":                          {Input: "{ me { id @include(if: true) @include(if: true) } }", Fn: disagree("{ me { id @include(if: true) @include(if: true) } }")},
		"C04-directive-missing-required-argument":          {Input: "{ me { id @include } }", Fn: disagree("{ me { id @include } }")},
		"C04-variable-position-unchecked-in-input-objects": {Input: "query($v: String) { echo(f: {a: $v}) }", Fn: disagree("query($v: String) { echo(f: {a: $v}) }")},
		"C04-null-item-in-nested-list-literal":             {Input: "{ echo(f: {l: [1, null]}) }", Fn: disagree("{ echo(f: {l: [1, null]}) }")},
		"C04-int-min-literal-rejected":                     {Input: "{ echo(i: -2147483648) }", Fn: disagree("{ echo(i: -2147483648) }")},
	}
}
