package ref

import (
	"encoding/json"
	"fmt"
	"strconv"

	"github.com/vektah/gqlparser/v2/ast"
)

// coerceArgs implements CoerceArgumentValues (spec §6.4.1): the result holds only the
// arguments that are present (absent ≠ null).
func (e *Exec) coerceArgs(fd *ast.FieldDefinition, args ast.ArgumentList) (*OMap, error) {
	out := &OMap{}
	for _, ad := range fd.Arguments {
		a := args.ForName(ad.Name)
		var v any
		present := false
		switch {
		case a == nil:
		case a.Value.Kind == ast.Variable:
			if vv, ok := e.Vars[a.Value.Raw]; ok {
				v, present = vv, true
			}
		default:
			var err error
			v, err = e.coerceLiteral(ad.Type, a.Value)
			if err != nil {
				return nil, err
			}
			present = true
		}
		if !present && ad.DefaultValue != nil {
			var err error
			v, err = e.coerceLiteral(ad.Type, ad.DefaultValue)
			if err != nil {
				return nil, err
			}
			present = true
		}
		if !present {
			if ad.Type.NonNull {
				return nil, fmt.Errorf("argument %s of non-null type %s not provided", ad.Name, ad.Type.String())
			}
			continue
		}
		if v == nil && ad.Type.NonNull {
			return nil, fmt.Errorf("argument %s of non-null type %s is null", ad.Name, ad.Type.String())
		}
		out.Set(ad.Name, v)
	}
	return out, nil
}

func (e *Exec) typeDef(name string) *ast.Definition {
	if d := e.Schema.Types[name]; d != nil {
		return d
	}
	if e.Super != nil {
		return e.Super.Types[name]
	}
	return nil
}

// coerceLiteral coerces a literal (possibly containing variables) to type t (spec §3 input
// coercion rules for literals).
func (e *Exec) coerceLiteral(t *ast.Type, v *ast.Value) (any, error) {
	if v.Kind == ast.Variable {
		vv, ok := e.Vars[v.Raw]
		if !ok {
			return nil, nil
		}
		return vv, nil
	}
	if v.Kind == ast.NullValue {
		return nil, nil
	}
	if t.Elem != nil {
		if v.Kind != ast.ListValue {
			el, err := e.coerceLiteral(t.Elem, v)
			if err != nil {
				return nil, err
			}
			return []any{el}, nil
		}
		out := make([]any, 0, len(v.Children))
		for _, c := range v.Children {
			el, err := e.coerceLiteral(t.Elem, c.Value)
			if err != nil {
				return nil, err
			}
			out = append(out, el)
		}
		return out, nil
	}
	def := e.typeDef(t.NamedType)
	if def == nil {
		return nil, fmt.Errorf("unknown input type %s", t.NamedType)
	}
	switch def.Kind {
	case ast.Enum:
		return v.Raw, nil
	case ast.InputObject:
		if v.Kind != ast.ObjectValue {
			return nil, fmt.Errorf("expected object literal for %s", def.Name)
		}
		out := &OMap{}
		for _, fdef := range def.Fields {
			var child *ast.Value
			for _, c := range v.Children {
				if c.Name == fdef.Name {
					child = c.Value
				}
			}
			present := false
			var fv any
			if child != nil {
				if child.Kind == ast.Variable {
					if vv, ok := e.Vars[child.Raw]; ok {
						fv, present = vv, true
					}
				} else {
					var err error
					fv, err = e.coerceLiteral(fdef.Type, child)
					if err != nil {
						return nil, err
					}
					present = true
				}
			}
			if !present && fdef.DefaultValue != nil {
				var err error
				fv, err = e.coerceLiteral(fdef.Type, fdef.DefaultValue)
				if err != nil {
					return nil, err
				}
				present = true
			}
			if present {
				out.Set(fdef.Name, fv)
			}
		}
		return out, nil
	case ast.Scalar:
		switch def.Name {
		case "Int":
			return json.Number(v.Raw), nil
		case "Float":
			return json.Number(v.Raw), nil
		case "String":
			return v.Raw, nil
		case "ID":
			return v.Raw, nil
		case "Boolean":
			return v.Raw == "true", nil
		default:
			return literalToJSON(v, e.Vars), nil
		}
	}
	return nil, fmt.Errorf("type %s is not an input type", def.Name)
}

// literalToJSON converts a literal of a custom scalar into the JSON value it denotes.
func literalToJSON(v *ast.Value, vars map[string]any) any {
	switch v.Kind {
	case ast.Variable:
		return vars[v.Raw]
	case ast.IntValue, ast.FloatValue:
		return json.Number(v.Raw)
	case ast.StringValue, ast.BlockValue, ast.EnumValue:
		return v.Raw
	case ast.BooleanValue:
		return v.Raw == "true"
	case ast.NullValue:
		return nil
	case ast.ListValue:
		out := make([]any, 0, len(v.Children))
		for _, c := range v.Children {
			out = append(out, literalToJSON(c.Value, vars))
		}
		return out
	case ast.ObjectValue:
		out := &OMap{}
		for _, c := range v.Children {
			out.Set(c.Name, literalToJSON(c.Value, vars))
		}
		return out
	}
	return nil
}

// CoerceVariables implements CoerceVariableValues (spec §6.1.2) for values that are known to
// be coercible (generated that way): applies defaults, list wrapping of single values and
// input-object field defaults. raw is the decoded request "variables" object.
func CoerceVariables(schema *ast.Schema, op *ast.OperationDefinition, raw map[string]any) (map[string]any, error) {
	e := &Exec{Schema: schema, Vars: map[string]any{}}
	out := map[string]any{}
	for _, vd := range op.VariableDefinitions {
		if rv, ok := raw[vd.Variable]; ok {
			cv, err := e.coerceJSON(vd.Type, rv)
			if err != nil {
				return nil, fmt.Errorf("$%s: %w", vd.Variable, err)
			}
			if cv == nil && vd.Type.NonNull {
				return nil, fmt.Errorf("$%s: null for non-null type", vd.Variable)
			}
			out[vd.Variable] = cv
			continue
		}
		if vd.DefaultValue != nil {
			cv, err := e.coerceLiteral(vd.Type, vd.DefaultValue)
			if err != nil {
				return nil, err
			}
			out[vd.Variable] = cv
			continue
		}
		if vd.Type.NonNull {
			return nil, fmt.Errorf("$%s: required variable not provided", vd.Variable)
		}
	}
	return out, nil
}

func (e *Exec) coerceJSON(t *ast.Type, v any) (any, error) {
	if v == nil {
		return nil, nil
	}
	if t.Elem != nil {
		arr, ok := v.([]any)
		if !ok {
			el, err := e.coerceJSON(t.Elem, v)
			if err != nil {
				return nil, err
			}
			return []any{el}, nil
		}
		out := make([]any, 0, len(arr))
		for _, x := range arr {
			el, err := e.coerceJSON(t.Elem, x)
			if err != nil {
				return nil, err
			}
			if el == nil && t.Elem.NonNull {
				return nil, fmt.Errorf("null list item for %s", t.String())
			}
			out = append(out, el)
		}
		return out, nil
	}
	def := e.typeDef(t.NamedType)
	if def == nil {
		return nil, fmt.Errorf("unknown input type %s", t.NamedType)
	}
	switch def.Kind {
	case ast.InputObject:
		m, ok := v.(map[string]any)
		if !ok {
			return nil, fmt.Errorf("expected object for %s", def.Name)
		}
		out := &OMap{}
		for _, fdef := range def.Fields {
			if fv, ok := m[fdef.Name]; ok {
				cv, err := e.coerceJSON(fdef.Type, fv)
				if err != nil {
					return nil, err
				}
				out.Set(fdef.Name, cv)
				continue
			}
			if fdef.DefaultValue != nil {
				cv, err := e.coerceLiteral(fdef.Type, fdef.DefaultValue)
				if err != nil {
					return nil, err
				}
				out.Set(fdef.Name, cv)
			}
		}
		return out, nil
	case ast.Scalar:
		if def.Name == "ID" {
			switch x := v.(type) {
			case json.Number:
				return string(x), nil
			case float64:
				return strconv.FormatFloat(x, 'f', -1, 64), nil
			}
		}
		return v, nil
	}
	return v, nil
}
