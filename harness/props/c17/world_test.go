package c17

// Loading one SDL into everything the oracles need: gqlparser's schema (truth), the repo's
// schema document, introspection.Data, an execution engine.

import (
	"bytes"
	"context"
	"encoding/json"
	"fmt"
	"strings"
	"sync"

	"github.com/jensneuse/abstractlogger"
	"github.com/vektah/gqlparser/v2"
	gast "github.com/vektah/gqlparser/v2/ast"
	gparser "github.com/vektah/gqlparser/v2/parser"
	gvalidator "github.com/vektah/gqlparser/v2/validator"

	"github.com/wundergraph/graphql-go-tools/execution/engine"
	"github.com/wundergraph/graphql-go-tools/execution/graphql"
	"github.com/wundergraph/graphql-go-tools/v2/pkg/ast"
	"github.com/wundergraph/graphql-go-tools/v2/pkg/astprinter"
	"github.com/wundergraph/graphql-go-tools/v2/pkg/asttransform"
	"github.com/wundergraph/graphql-go-tools/v2/pkg/engine/datasource/staticdatasource"
	"github.com/wundergraph/graphql-go-tools/v2/pkg/engine/plan"
	"github.com/wundergraph/graphql-go-tools/v2/pkg/engine/resolve"
	"github.com/wundergraph/graphql-go-tools/v2/pkg/introspection"
	"github.com/wundergraph/graphql-go-tools/v2/pkg/operationreport"
)

// loadTruth is gqlparser's reading of the SDL (with gqlparser's own prelude): the truth of the
// fact-set comparisons.
func loadTruth(sdl string) (*gast.Schema, error) {
	s, err := gqlparser.LoadSchema(&gast.Source{Name: "case.graphql", Input: sdl})
	if err != nil {
		return nil, err
	}
	return s, nil
}

var (
	baseOnce sync.Once
	baseSDL  string
	baseErr  error
)

// repoBaseSDL is the text of the built-in definitions the repo merges into every schema
// (scalars, directives, the introspection meta types), obtained through the exported API.
func repoBaseSDL() (string, error) {
	baseOnce.Do(func() {
		doc := ast.NewSmallDocument()
		doc.Input.ResetInputString("type Query { x: Int }")
		if err := asttransform.MergeDefinitionWithBaseSchemaWithInternal(doc, false); err != nil {
			baseErr = err
			return
		}
		baseSDL, baseErr = astprinter.PrintStringIndent(doc, "  ")
	})
	return baseSDL, baseErr
}

// loadTruthWithRepoBase is gqlparser's reading of the SDL together with the repo's built-in
// definitions instead of gqlparser's prelude. Operations are validated and the reference
// introspection is computed against it, so that questions about built-ins (descriptions,
// argument order of @defer, which meta fields exist) have the answers of the configured schema.
func loadTruthWithRepoBase(sdl string) (*gast.Schema, error) {
	base, err := repoBaseSDL()
	if err != nil {
		return nil, fmt.Errorf("repo base schema: %w", err)
	}
	bd, err := gparser.ParseSchema(&gast.Source{Name: "repo-base.graphql", Input: base, BuiltIn: true})
	if err != nil {
		return nil, fmt.Errorf("repo base schema does not parse with gqlparser: %w", err)
	}
	var defs gast.DefinitionList
	for _, d := range bd.Definitions {
		if d.Name == "Query" {
			continue
		}
		var fs gast.FieldList
		for _, f := range d.Fields {
			if !strings.HasPrefix(f.Name, "__") {
				fs = append(fs, f)
			}
		}
		d.Fields = fs
		defs = append(defs, d)
	}
	bd.Definitions = defs
	bd.Schema = nil
	ud, err := gparser.ParseSchema(&gast.Source{Name: "case.graphql", Input: sdl})
	if err != nil {
		return nil, err
	}
	merged := &gast.SchemaDocument{}
	merged.Merge(bd)
	merged.Merge(ud)
	s, verr := gvalidator.ValidateSchemaDocument(merged)
	if verr != nil {
		return nil, verr
	}
	return s, nil
}

// repoGenerate runs introspection.Generator over the repo's reading of the SDL and returns the
// `__schema` object as generic JSON plus the raw JSON of introspection.Data.
func repoGenerate(schema *graphql.Schema) (jobj, []byte, error) {
	var data introspection.Data
	var report operationreport.Report
	introspection.NewGenerator().Generate(schema.Document(), &report, &data)
	if report.HasErrors() {
		return nil, nil, fmt.Errorf("generator reports: %s", report.Error())
	}
	raw, err := json.Marshal(data)
	if err != nil {
		return nil, nil, err
	}
	var top jobj
	if err := json.Unmarshal(raw, &top); err != nil {
		return nil, nil, err
	}
	s, _ := top["__schema"].(jobj)
	if s == nil {
		return nil, raw, fmt.Errorf("generator output has no __schema object")
	}
	return s, raw, nil
}

// roundTrip is print(JsonConverter(json)) reloaded by gqlparser without its prelude.
func roundTrip(raw []byte) (printed string, reloaded *gast.Schema, stage string, err error) {
	conv := introspection.JsonConverter{}
	doc, err := conv.GraphQLDocument(bytes.NewReader(raw))
	if err != nil {
		return "", nil, "convert", err
	}
	printed, err = astprinter.PrintStringIndent(doc, "  ")
	if err != nil {
		return "", nil, "print", err
	}
	s, lerr := gvalidator.LoadSchema(&gast.Source{Name: "roundtrip.graphql", Input: printed})
	if lerr != nil {
		return printed, nil, "reload", lerr
	}
	return printed, s, "", nil
}

// ---- engine --------------------------------------------------------------------------------

const staticField = "ping"

var staticData = map[string]any{staticField: "pong"}

type engineUnderTest struct {
	eng    *engine.ExecutionEngine
	cancel context.CancelFunc
	ctx    context.Context
}

// newEngine builds an execution engine over the schema. When the query type has the field
// `ping: String` it is served by a static data source; __schema/__type are served by the
// engine's built-in introspection data source.
func newEngine(schema *graphql.Schema, truth *gast.Schema) (*engineUnderTest, error) {
	ctx, cancel := context.WithCancel(context.Background())
	conf := engine.NewConfiguration(schema)
	if f := truth.Query.Fields.ForName(staticField); f != nil && len(f.Arguments) == 0 && f.Type.String() == "String" {
		ds, err := plan.NewDataSourceConfiguration[staticdatasource.Configuration]("static", &staticdatasource.Factory[staticdatasource.Configuration]{},
			&plan.DataSourceMetadata{RootNodes: []plan.TypeField{{TypeName: truth.Query.Name, FieldNames: []string{staticField}}}},
			staticdatasource.Configuration{Data: `{"ping":"pong"}`})
		if err != nil {
			cancel()
			return nil, err
		}
		conf.SetDataSources([]plan.DataSource{ds})
	}
	eng, err := engine.NewExecutionEngine(ctx, abstractlogger.Noop{}, conf, resolve.ResolverOptions{MaxConcurrency: 4})
	if err != nil {
		cancel()
		return nil, err
	}
	return &engineUnderTest{eng: eng, cancel: cancel, ctx: ctx}, nil
}

func (e *engineUnderTest) close() { e.cancel() }

// run executes one operation; it returns the decoded response or the execution error.
func (e *engineUnderTest) run(query, vars string) (resp jobj, raw string, err error) {
	req := graphql.Request{Query: query}
	if vars != "" {
		req.Variables = []byte(vars)
	}
	wr := graphql.NewEngineResultWriter()
	defer func() {
		if p := recover(); p != nil {
			resp, err = nil, fmt.Errorf("PANIC: %v", p)
		}
	}()
	if err := e.eng.Execute(e.ctx, &req, &wr); err != nil {
		return nil, wr.String(), err
	}
	raw = wr.String()
	dec := json.NewDecoder(strings.NewReader(raw))
	if err := dec.Decode(&resp); err != nil {
		return nil, raw, fmt.Errorf("response is not JSON: %v", err)
	}
	return resp, raw, nil
}
