package c05

import (
	"bytes"
	"fmt"
	"reflect"
	"sync"

	"github.com/wundergraph/graphql-go-tools/v2/pkg/ast"
	"github.com/wundergraph/graphql-go-tools/v2/pkg/lexer/position"
)

// sweepBounds is the reflective half of the bounds oracle: it visits every element of every
// exported slice of ast.Document (reachable from a root node or not) and checks
//   - every ast.ByteSliceReference: Start <= End <= len(input);
//   - every position.Position: all-zero (absent token) or line in [1, lines(input)],
//     column in [1, len(input)+1], LineStart <= LineEnd;
//   - every []int ref list and every int ref field whose owning slice is known (table below):
//     index inside the owning slice;
//   - every ast.Value / ast.Selection / ast.Node: Ref inside the slice selected by Kind.
// A struct field of type []int that the table does not know is reported through unmapped
// (counted as a label, never a violation) so that a refactoring shows up in the evidence.
//
// The typed walk in astwalk_test.go is the other half (refs reachable from root nodes).

var (
	tByteRef  = reflect.TypeOf(ast.ByteSliceReference{})
	tPosition = reflect.TypeOf(position.Position{})
	tValue    = reflect.TypeOf(ast.Value{})
	tSelect   = reflect.TypeOf(ast.Selection{})
	tNode     = reflect.TypeOf(ast.Node{})
	tIntSlice = reflect.TypeOf([]int(nil))
)

// owning slice of []int fields, keyed by "StructType.Field"
var refListOwner = map[string]string{
	"DirectiveList.Refs":                                     "Directives",
	"ArgumentList.Refs":                                      "Arguments",
	"VariableDefinitionList.Refs":                            "VariableDefinitions",
	"FieldDefinitionList.Refs":                               "FieldDefinitions",
	"InputValueDefinitionList.Refs":                          "InputValueDefinitions",
	"EnumValueDefinitionList.Refs":                           "EnumValueDefinitions",
	"TypeList.Refs":                                          "Types",
	"RootOperationTypeDefinitionList.Refs":                   "RootOperationTypeDefinitions",
	"SelectionSet.SelectionRefs":                             "Selections",
	"ListValue.Refs":                                         "Values",
	"ObjectValue.Refs":                                       "ObjectFields",
	"InterfaceTypeDefinition.ImplementedByObjectDefinitions": "ObjectTypeDefinitions",
}

// owning slice of int ref fields, keyed by "StructType.Field"; guard names a bool field of the
// same struct that must be true for the ref to be meaningful; allowInvalid admits -1.
type intRef struct {
	owner        string
	guard        string
	allowInvalid bool
}

var refIntOwner = map[string]intRef{
	"FieldDefinition.Type":             {owner: "Types"},
	"InputValueDefinition.Type":        {owner: "Types"},
	"VariableDefinition.Type":          {owner: "Types"},
	"Type.OfType":                      {owner: "Types", allowInvalid: true},
	"TypeCondition.Type":               {owner: "Types", allowInvalid: true},
	"Field.SelectionSet":               {owner: "SelectionSets", guard: "HasSelections"},
	"InlineFragment.SelectionSet":      {owner: "SelectionSets", guard: "HasSelections"},
	"OperationDefinition.SelectionSet": {owner: "SelectionSets", guard: "HasSelections"},
	"FragmentDefinition.SelectionSet":  {owner: "SelectionSets", guard: "HasSelections"},
}

type sweeper struct {
	doc      reflect.Value
	inLen    int
	lines    int
	err      string
	unmapped map[string]bool
	lens     map[string]int
}

var (
	docSlicesOnce sync.Once
	docSlices     []string // exported slice-of-struct fields of ast.Document
)

func initDocSlices() {
	t := reflect.TypeOf(ast.Document{})
	for i := 0; i < t.NumField(); i++ {
		f := t.Field(i)
		if !f.IsExported() || f.Type.Kind() != reflect.Slice || f.Type.Elem().Kind() != reflect.Struct {
			continue
		}
		docSlices = append(docSlices, f.Name)
	}
}

func (s *sweeper) fail(format string, a ...any) {
	if s.err == "" {
		s.err = fmt.Sprintf(format, a...)
	}
}

func (s *sweeper) ownerLen(name string) int {
	if n, ok := s.lens[name]; ok {
		return n
	}
	n := s.doc.FieldByName(name).Len()
	s.lens[name] = n
	return n
}

func (s *sweeper) valueRef(where string, v ast.Value) {
	owner := ""
	switch v.Kind {
	case ast.ValueKindString:
		owner = "StringValues"
	case ast.ValueKindInteger:
		owner = "IntValues"
	case ast.ValueKindFloat:
		owner = "FloatValues"
	case ast.ValueKindVariable:
		owner = "VariableValues"
	case ast.ValueKindList:
		owner = "ListValues"
	case ast.ValueKindObject:
		owner = "ObjectValues"
	case ast.ValueKindEnum:
		owner = "EnumValues"
	case ast.ValueKindBoolean:
		if v.Ref < 0 || v.Ref > 1 {
			s.fail("%s: boolean value ref %d", where, v.Ref)
		}
		return
	default:
		return // unset (zero) value or null
	}
	if n := s.ownerLen(owner); v.Ref < 0 || v.Ref >= n {
		s.fail("%s: value ref %d outside %s of length %d", where, v.Ref, owner, n)
	}
}

func (s *sweeper) visit(where string, v reflect.Value) {
	if s.err != "" {
		return
	}
	t := v.Type()
	switch t {
	case tByteRef:
		r := v.Interface().(ast.ByteSliceReference)
		if r.Start > r.End || int(r.End) > s.inLen {
			s.fail("%s = [%d,%d) outside input of %d bytes", where, r.Start, r.End, s.inLen)
		}
		return
	case tPosition:
		p := v.Interface().(position.Position)
		if p == (position.Position{}) {
			return
		}
		if p.LineStart < 1 || int(p.LineStart) > s.lines || p.LineEnd < p.LineStart || int(p.LineEnd) > s.lines ||
			p.CharStart < 1 || int(p.CharStart) > s.inLen+1 || p.CharEnd < 1 || int(p.CharEnd) > s.inLen+1 {
			s.fail("%s = %s is not a position inside an input of %d bytes / %d lines", where, p, s.inLen, s.lines)
		}
		return
	case tValue:
		s.valueRef(where, v.Interface().(ast.Value))
		return
	case tSelect:
		sel := v.Interface().(ast.Selection)
		owner := ""
		switch sel.Kind {
		case ast.SelectionKindField:
			owner = "Fields"
		case ast.SelectionKindFragmentSpread:
			owner = "FragmentSpreads"
		case ast.SelectionKindInlineFragment:
			owner = "InlineFragments"
		default:
			s.fail("%s: selection of unknown kind %d", where, sel.Kind)
			return
		}
		if n := s.ownerLen(owner); sel.Ref < 0 || sel.Ref >= n {
			s.fail("%s: selection ref %d outside %s of length %d", where, sel.Ref, owner, n)
		}
		return
	case tNode:
		return // root nodes are checked by the typed walk
	}
	if t.Kind() != reflect.Struct {
		return
	}
	for i := 0; i < t.NumField(); i++ {
		f := t.Field(i)
		if !f.IsExported() {
			continue
		}
		fv := v.Field(i)
		key := t.Name() + "." + f.Name
		switch {
		case f.Type == tIntSlice:
			owner, ok := refListOwner[key]
			if !ok {
				s.unmapped[key] = true
				continue
			}
			n := s.ownerLen(owner)
			for j := 0; j < fv.Len(); j++ {
				if r := int(fv.Index(j).Int()); r < 0 || r >= n {
					s.fail("%s.%s[%d] = %d outside %s of length %d", where, f.Name, j, r, owner, n)
					return
				}
			}
		case f.Type.Kind() == reflect.Int:
			ir, ok := refIntOwner[key]
			if !ok {
				continue
			}
			if ir.guard != "" && !v.FieldByName(ir.guard).Bool() {
				continue
			}
			r := int(fv.Int())
			if r == ast.InvalidRef && ir.allowInvalid {
				continue
			}
			if n := s.ownerLen(ir.owner); r < 0 || r >= n {
				s.fail("%s.%s = %d outside %s of length %d", where, f.Name, r, ir.owner, n)
				return
			}
		case f.Type.Kind() == reflect.Struct:
			s.visit(where+"."+f.Name, fv)
		}
	}
}

// sweepBounds returns "" when every reference is in bounds; unmapped receives the []int
// fields the table does not cover.
func sweepBounds(d *ast.Document, unmapped map[string]bool) string {
	docSlicesOnce.Do(initDocSlices)
	s := &sweeper{doc: reflect.ValueOf(d).Elem(), inLen: len(d.Input.RawBytes), lines: 1 + bytes.Count(d.Input.RawBytes, []byte{'\n'}),
		unmapped: unmapped, lens: map[string]int{}}
	if d.Input.Length != len(d.Input.RawBytes) {
		return fmt.Sprintf("Input.Length=%d but len(RawBytes)=%d", d.Input.Length, len(d.Input.RawBytes))
	}
	for _, name := range docSlices {
		sl := s.doc.FieldByName(name)
		for i := 0; i < sl.Len(); i++ {
			s.visit(fmt.Sprintf("%s[%d]", name, i), sl.Index(i))
			if s.err != "" {
				return s.err
			}
		}
	}
	return ""
}
