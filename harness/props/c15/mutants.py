#!/usr/bin/env python3
"""Regenerates the overlay mutants of MUTANTS.md under /tmp/c15mut (never touches /repo).
Usage: python3 mutants.py && VERIF_OVERLAY=/tmp/c15mut/<name>.json /verif/check C15 quick --shards 8 --scale 0.25
Remove /tmp/c15mut afterwards."""
import json, os
os.makedirs('/tmp/c15mut', exist_ok=True)

def mk(name, path, old, new, extra=None):
    src = open(path).read()
    assert src.count(old) == 1, (name, src.count(old))
    out = src.replace(old, new)
    for a, b in extra or []:
        assert out.count(a) >= 1
        out = out.replace(a, b, 1)
    open(f'/tmp/c15mut/{name}.go', 'w').write(out)
    json.dump({"Replace": {path: f"/tmp/c15mut/{name}.go"}}, open(f'/tmp/c15mut/{name}.json', 'w'))

V = '/repo/v2/pkg/ast/ast_value.go'
mk('m1_block_noescape', V, '''			enc := json.NewEncoder(buf)
			enc.SetEscapeHTML(false)
			if err := enc.Encode(content); err != nil {
				return err
			}

			// Remove the extra newline that Encode adds
			buf.Truncate(buf.Len() - 1)''', '''			_ = json.Valid
			buf.Write(quotes.WrapBytes([]byte(content)))''')
mk('m2_indent_twice', '/repo/v2/pkg/ast/ast_val_string_value.go', '''			lines[i] = lines[i][indent:]''', '''			lines[i] = bytes.TrimLeft(lines[i][indent:], " \\t")''')
mk('m3_drop_null', '/repo/v2/pkg/engine/datasource/graphql_datasource/graphql_datasource.go', '''			if slices.Contains(undefinedVariables, stringKey) {
				variables = jsonparser.Delete(variables, stringKey)
			}''', '''			_ = slices.Contains(undefinedVariables, stringKey)
			variables = jsonparser.Delete(variables, stringKey)''')
mk('m4_int_float', V, '''		buf.Write(intValueBytes)
	case ValueKindFloat:''', '''		if f, err := strconv.ParseFloat(string(intValueBytes), 64); err == nil {
			buf.WriteString(strconv.FormatFloat(f, 'f', -1, 64))
		} else {
			buf.Write(intValueBytes)
		}
	case ValueKindFloat:''', [('"io"\n', '"io"\n\t"strconv"\n')])
mk('m5_enum_upper', V, '''		buf.Write(quotes.WrapBytes(d.EnumValueNameBytes(value.Ref)))''', '''		buf.Write(quotes.WrapBytes(bytes.ToUpper(d.EnumValueNameBytes(value.Ref))))''')
mk('m6_absent_field_as_null', V, '''				if dataType == jsonparser.NotExist {
					continue
				}''', '''				if dataType == jsonparser.NotExist && false {
					continue
				}''')
# equivalent of seeded change C15-n1: de-duplication of extracted values compares without the
# quotes and ignores the stored value's JSON type
mk('m7_dedupe_ignores_quotes', '/repo/v2/pkg/astnormalization/variables_extraction.go', '''		if dataType == jsonparser.String {
			value = v.operation.Input.Variables[offset-len(value)-2 : offset]
		}
		if bytes.Equal(value, variableValue) {''', '''		candidate := variableValue
		if len(candidate) >= 2 && candidate[0] == '"' && candidate[len(candidate)-1] == '"' {
			candidate = candidate[1 : len(candidate)-1]
		}
		_, _ = dataType, offset
		if bytes.Equal(value, candidate) {''')
# equivalent of seeded change C15-n2: block strings quoted with strconv (Go escapes) instead of JSON
mk('m8_block_goquote', V, '''			enc := json.NewEncoder(buf)
			enc.SetEscapeHTML(false)
			if err := enc.Encode(content); err != nil {
				return err
			}

			// Remove the extra newline that Encode adds
			buf.Truncate(buf.Len() - 1)''', '''			_ = json.Valid
			buf.Write(strconv.AppendQuote(nil, content))''', [('"io"\n', '"io"\n\t"strconv"\n')])
print("mutants written to /tmp/c15mut")
