package c18

import (
	"flag"
	"os"
	"testing"

	"verif/harness/pbt"
)

// TestProp is the entry point the driver runs in every shard.
func TestProp(t *testing.T) {
	r := pbt.Start(t, "C18")
	defer r.Finish()
	r.Rule("a case is non-trivial when, as observed at the upstream, >=2 subscriptions were multiplexed on one connection, or a subscriber was cancelled while another Subscribe call with the same option tuple was in flight (dial/init not finished); distinct by case text")
	r.Assume(
		"the scripted upstream (httptest + coder/websocket server side, hand-written SSE handler) behaves as scripted; loopback TCP delivers in order",
		"the caller cancels a subscription the way graphql_subscription_client.go does: cancel the context passed to Subscribe and call the returned func",
		"liveness clauses (delivery, Subscribe returns, connections closed at quiescence) are bounded-time observations: watchdog, then re-sampled twice after a long grace",
	)
	r.RequireLabel("conn-shared-by>=2", "cancel-while-another-subscribe-of-same-tuple-in-flight",
		"terminal-for-one-then-traffic-for-another-on-same-conn", "cancel-of-one-then-traffic-for-another-on-same-conn",
		"twin:compared", "sse", "ws:graphql-ws", "ws:graphql-transport-ws", "drop:hit-established-subscription", "idle>0", "ws-tuples-differ-only-in-a-later-header-value",
		"own-deadline-passed-during-subscribe-while-another-same-tuple-subscribe-in-flight",
		"survivor-waited-through>=3-abandoned-dials", "handler:cancel-self-on-shared-connection", "handler:cancel-other-on-same-connection",
		"handler:blocked-while-another-subscriber-of-its-connection-cancels", "handler:blocked-while-another-subscribes-to-its-tuple",
		"ping:subscription-on-silent-connection", "ping:subscription-on-healthy-connection-with-traffic")
	// A failing liveness clause costs watch+2*grace per attempt; keep shrinking from multiplying that.
	_ = flag.Set("rapid.shrinktime", "8s")
	r.Regress(dispatch())
	r.RunProbes(probes())
	sp, bp, pp := steppedPart, burstPart, pingPart
	if os.Getenv("VERIF_RACE") != "" {
		// the -race shards of the thorough tier repeat the search at about a tenth of the speed
		sp.Thorough, bp.Thorough, pp.Thorough = sp.Thorough/8, bp.Thorough/8, pp.Thorough/4
	}
	// once a time-based violation is established the remaining parts could only add inconclusive executions
	sp.Run(r)
	if !established.Load() {
		bp.Run(r)
	}
	if !established.Load() {
		pp.Run(r)
	}
}

func TestReplay(t *testing.T) { pbt.StdReplay(t, "C18", dispatch()) }

func dispatch() pbt.Dispatch {
	return pbt.Dispatch{}.Add(steppedPart.Name, steppedPart.Handler()).Add(burstPart.Name, burstPart.Handler()).Add(pingPart.Name, pingPart.Handler()).WithProbes(probes())
}
