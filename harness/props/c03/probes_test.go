package c03

import "verif/harness/pbt"

func probes() pbt.Probes { return pbt.Probes{} }
