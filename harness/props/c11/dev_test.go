package c11

import (
	"fmt"
	"testing"
	"time"
	"context"

	"github.com/wundergraph/graphql-go-tools/v2/pkg/engine/resolve"
)

func TestDevPerf2(t *testing.T) {
	t0 := time.Now()
	for i := 0; i < 200; i++ {
		before := goroutineSet()
		ctx, cancel := context.WithCancel(context.Background())
		_ = resolve.New(ctx, resolve.ResolverOptions{MaxConcurrency: 64})
		cancel()
		leaked(before, 2*time.Second)
	}
	fmt.Println("new+leaked:", time.Since(t0)/200)
	t0 = time.Now()
	for i := 0; i < 200; i++ {
		allGoroutines()
	}
	fmt.Println("allGoroutines:", time.Since(t0)/200)
	t0 = time.Now()
	for i := 0; i < 200; i++ {
		alone(layerBoth, "query", Key{0, 0, 0}, false, scNormal)
	}
	fmt.Println("alone:", time.Since(t0)/200)
}
