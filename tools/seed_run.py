#!/usr/bin/env python3
"""seed_run.py <CID> <mN> [tier] [extra CIDs…]

Stores a confirmed seeded change as /verif/seeded/<CID>-<mN>/ (patch.diff, demo, meta.json) and runs
./check <CID> <tier> against it: git -C /repo apply <patch>; run; git -C /repo checkout -- .
Evidence and replays of these runs go to a scratch directory, never to /verif/evidence.
The outcome is appended to /verif/seeded/<CID>-<mN>/meta.json under "check_runs".
"""
import json, os, shutil, subprocess, sys, time

cid, mn = sys.argv[1], sys.argv[2]
tier = sys.argv[3] if len(sys.argv) > 3 else "quick"
checks = [cid] + sys.argv[4:]
src = os.environ.get("SEED_SRC") or "/tmp/seed/%s/OUT/%s" % (cid, mn)
dst = "/verif/seeded/%s-%s" % (cid, mn)
vres = "/tmp/sv/results/%s-%s.json" % (cid, mn)

if not os.path.isdir(dst):
    v = json.load(open(vres))
    assert v["confirmed"], "not confirmed: " + v.get("why", "")
    os.makedirs(dst)
    shutil.copy(os.path.join(src, "patch.diff"), dst)
    for f in os.listdir(src):
        if f.endswith(".go") or f == "demo.txt":
            shutil.copy(os.path.join(src, f), os.path.join(dst, f if not f.endswith("_test.go") else f + ".txt"))
    try:
        theirs = json.load(open(os.path.join(src, "meta.json")))
    except Exception as e:  # free text
        theirs = {"raw": open(os.path.join(src, "meta.json")).read()}
    meta = {
        "id": "%s-%s" % (cid, mn),
        "breaks_property": cid,
        "title": theirs.get("title"),
        "what_it_breaks": theirs.get("what_it_breaks"),
        "needs_to_manifest": theirs.get("needs_to_manifest"),
        "files": theirs.get("files"),
        "author": "isolated sub-agent (saw only the property text and its own scratch worktree of /repo)",
        "demo": {"place_in": v["demo_dir"], "tests": v["demo_tests"],
                 "note": "demo_test.go is stored as demo_test.go.txt so that no Go tooling picks it up here"},
        "confirmed_by_coordinator": {
            "how": "tools/seed_verify.py in a scratch worktree of /repo at HEAD",
            "demo_without_patch": "pass (2 runs)",
            "demo_with_patch": "fail",
            "existing_tests_with_patch": "pass: dependants of the touched packages, %s packages" % v.get("tested_pkgs"),
            "touched_pkgs": v.get("touched_pkgs"),
        },
        "check_runs": [],
    }
    json.dump(meta, open(os.path.join(dst, "meta.json"), "w"), indent=1, ensure_ascii=False)

meta = json.load(open(os.path.join(dst, "meta.json")))
OVERLAY = os.environ.get("SEED_OVERLAY") == "1"
overlay_env = {}
if OVERLAY:
    # same effect without touching /repo (other work is using it): the patched files of a
    # scratch worktree are substituted through go's -overlay (driver: VERIF_OVERLAY)
    wt = "/tmp/sv/ov-%s-%s" % (cid, mn)
    subprocess.run("git -C /repo worktree remove --force %s; rm -rf %s; git -C /repo worktree add -q --detach %s HEAD" % (wt, wt, wt), shell=True, capture_output=True)
    r = subprocess.run(["git", "-C", wt, "apply", os.path.join(dst, "patch.diff")], capture_output=True, text=True)
    if r.returncode != 0:
        r = subprocess.run(["git", "-C", wt, "apply", "--3way", os.path.join(dst, "patch.diff")], capture_output=True, text=True)
        assert r.returncode == 0, r.stderr
    files = subprocess.run("git -C %s status --porcelain" % wt, shell=True, capture_output=True, text=True).stdout.split("\n")
    repl = {}
    for l in files:
        if len(l) > 3 and l[3:].endswith(".go"):
            repl["/repo/" + l[3:]] = wt + "/" + l[3:]
    ov = "/tmp/sv/ov-%s-%s.json" % (cid, mn)
    json.dump({"Replace": repl}, open(ov, "w"))
    overlay_env = {"VERIF_OVERLAY": ov}
else:
    st = subprocess.run("git -C /repo status --porcelain", shell=True, capture_output=True, text=True).stdout.strip()
    assert st == "", "/repo is not clean:\n" + st
    r = subprocess.run(["git", "-C", "/repo", "apply", os.path.join(dst, "patch.diff")], capture_output=True, text=True)
    if r.returncode != 0:
        r = subprocess.run(["git", "-C", "/repo", "apply", "--3way", os.path.join(dst, "patch.diff")], capture_output=True, text=True)
        assert r.returncode == 0, r.stderr
try:
    for c in checks:
        scratch = "/tmp/sv/run/%s-%s-%s" % (cid, mn, c)
        shutil.rmtree(scratch, ignore_errors=True)
        os.makedirs(scratch + "/evidence")
        env = dict(os.environ, VERIF_REPLAYS_DIR=scratch + "/replays", VERIF_EVIDENCE_DIR=scratch + "/evidence", **overlay_env)
        t0 = time.time()
        p = subprocess.run(["/verif/check", c, tier], env=env, capture_output=True, text=True)
        out = p.stdout + p.stderr
        viol = [l for l in out.splitlines() if l.startswith("VIOLATION")]
        what = ""
        for l in out.splitlines():
            if "VIOLATION" in l or l.startswith("  ") and "violation" in l.lower():
                what = l
                break
        run = {"check": c, "tier": tier, "how": "go -overlay of the patched files (scratch worktree)" if OVERLAY else "git -C /repo apply; run; undo", "seed": os.environ.get("VERIF_SEED", "1"), "exit": p.returncode,
               "caught": p.returncode == 1 and bool(viol), "secs": round(time.time() - t0, 1),
               "violation_lines": viol[:3], "tail": out[-1200:]}
        meta["check_runs"].append(run)
        print("%s-%s vs %s %s: exit=%d caught=%s (%.0fs)" % (cid, mn, c, tier, p.returncode, run["caught"], run["secs"]))
finally:
    if OVERLAY:
        subprocess.run("git -C /repo worktree remove --force %s; rm -rf %s %s" % (wt, wt, ov), shell=True, capture_output=True)
    else:
        subprocess.run("git -C /repo reset -q --hard && git -C /repo clean -fdq", shell=True)
        st = subprocess.run("git -C /repo status --porcelain", shell=True, capture_output=True, text=True).stdout.strip()
        if st:
            print("WARNING /repo not clean after undo:\n" + st)
json.dump(meta, open(os.path.join(dst, "meta.json"), "w"), indent=1, ensure_ascii=False)
