package c14

import (
	"encoding/json"
	"fmt"
	"io"
	"os"
	"sort"
	"strings"
	"sync"

	"github.com/vektah/gqlparser/v2"
	"github.com/vektah/gqlparser/v2/ast"
	"pgregory.net/rapid"

	"github.com/wundergraph/graphql-go-tools/execution/engine"
	"github.com/wundergraph/graphql-go-tools/v2/pkg/engine/plan"
	"github.com/wundergraph/graphql-go-tools/v2/pkg/engine/resolve"

	"verif/harness/internal/fedgen"
	"verif/harness/internal/kit"
	"verif/harness/internal/opgen"
	"verif/harness/internal/opshrink"
	"verif/harness/internal/ref"
	"verif/harness/internal/sim"
	"verif/harness/pbt"
)

type authCase struct {
	Layout *fedgen.Layout `json:"layout"`
	Seed   uint64         `json:"seed"`
	Op     opgen.Op       `json:"op"`
	// Protected and Denied are indices into the sorted family list (modulo its length).
	Protected []int  `json:"protected"`
	Denied    []int  `json:"denied"`
	Mode      string `json:"mode"` // "post" | "pre"
	// SplitMask > 0 (post mode only): inside a denied family only the object-type coordinates
	// selected by the mask are denied, the others stay protected and allowed. The post-fetch
	// authorizer is asked with the coordinate of the runtime type, so implementers of one
	// interface field can be decided differently.
	SplitMask int `json:"split_mask,omitempty"`
}

func allowFromEnv() map[string]bool {
	m := map[string]bool{}
	for _, c := range strings.Split(os.Getenv("C14_ALLOW"), ",") {
		if c != "" {
			m[c] = true
		}
	}
	return m
}

var authPart = pbt.Part[authCase]{Name: "denied-fields-never-reach-client", Journal: true, Quick: 9000, Thorough: 180000, Check: checkAuth,
	Gen: func(t *rapid.T) authCase {
		l := fedgen.Gen(t, fedgen.Options{Allow: allowFromEnv(), NoRequires: !allowFromEnv()["requires"]})
		super, err := sim.LoadSuper(l.Super)
		if err != nil {
			t.Fatalf("generator produced an invalid supergraph: %v", err)
		}
		deferred := rapid.IntRange(0, 3).Draw(t, "defer") == 0
		c := authCase{Layout: l, Seed: rapid.Uint64Range(1, 1<<20).Draw(t, "useed"),
			Op:   opgen.Gen(t, super, opgen.Options{Mutations: !deferred, Defer: deferred, NoDeferLabels: true, UniqueKeys: deferred, Allow: allowFromEnv(), MaxDepth: 6, Budget: 30}),
			Mode: rapid.SampledFrom([]string{"post", "pre"}).Draw(t, "mode")}
		// two of three protected families are drawn from the coordinates the operation selects
		fams := families(super)
		var selectedFams []int
		if doc, perr := gqlparser.LoadQuery(super, c.Op.Query); perr == nil {
			sel := map[string]bool{}
			var walk func(set ast.SelectionSet)
			walk = func(set ast.SelectionSet) {
				for _, x := range set {
					switch y := x.(type) {
					case *ast.Field:
						if y.ObjectDefinition != nil && !strings.HasPrefix(y.Name, "__") {
							sel[y.ObjectDefinition.Name+"."+y.Name] = true
						}
						walk(y.SelectionSet)
					case *ast.InlineFragment:
						walk(y.SelectionSet)
					case *ast.FragmentSpread:
						if y.Definition != nil {
							walk(y.Definition.SelectionSet)
						}
					}
				}
			}
			for _, od := range doc.Operations {
				walk(od.SelectionSet)
			}
			for i, fam := range fams {
				for _, coord := range fam {
					if sel[coord] {
						selectedFams = append(selectedFams, i)
						break
					}
				}
			}
		}
		np := rapid.IntRange(1, 6).Draw(t, "nprotected")
		for i := 0; i < np; i++ {
			p := rapid.IntRange(0, 199).Draw(t, "p")
			if len(selectedFams) > 0 && len(fams) <= 200 && rapid.IntRange(0, 2).Draw(t, "psel") > 0 {
				p = selectedFams[p%len(selectedFams)]
			}
			c.Protected = append(c.Protected, p)
			if rapid.IntRange(0, 3).Draw(t, "deny") != 0 {
				c.Denied = append(c.Denied, c.Protected[i])
			}
		}
		if c.Mode == "post" && rapid.IntRange(0, 2).Draw(t, "split") == 0 {
			c.SplitMask = rapid.IntRange(1, 62).Draw(t, "splitmask")
		}
		return c
	}}

// families groups coordinates that must be decided together: Type.field with the same
// field on every interface Type implements that declares it, and every implementer.
func families(s *ast.Schema) [][]string {
	parent := map[string]string{}
	var find func(x string) string
	find = func(x string) string {
		if parent[x] == "" || parent[x] == x {
			parent[x] = x
			return x
		}
		r := find(parent[x])
		parent[x] = r
		return r
	}
	union := func(a, b string) { parent[find(a)] = find(b) }
	var names []string
	for n := range s.Types {
		names = append(names, n)
	}
	sort.Strings(names)
	for _, n := range names {
		def := s.Types[n]
		if strings.HasPrefix(n, "__") || (def.Kind != ast.Object && def.Kind != ast.Interface) {
			continue
		}
		for _, f := range def.Fields {
			if strings.HasPrefix(f.Name, "__") {
				continue
			}
			find(n + "." + f.Name)
			for _, in := range def.Interfaces {
				if idef := s.Types[in]; idef != nil && idef.Fields.ForName(f.Name) != nil {
					union(n+"."+f.Name, in+"."+f.Name)
				}
			}
		}
	}
	groups := map[string][]string{}
	for c := range parent {
		groups[find(c)] = append(groups[find(c)], c)
	}
	var out [][]string
	for _, g := range groups {
		sort.Strings(g)
		out = append(out, g)
	}
	sort.Slice(out, func(i, j int) bool { return out[i][0] < out[j][0] })
	return out
}

// authz implements both authorizer interfaces over one deny set and records what it is asked.
type authz struct {
	mu    sync.Mutex
	deny  map[string]bool
	asked map[string]int
}

func (a *authz) note(c resolve.GraphCoordinate) bool {
	a.mu.Lock()
	defer a.mu.Unlock()
	k := c.TypeName + "." + c.FieldName
	a.asked[k]++
	return a.deny[k]
}

func (a *authz) AuthorizePreFetch(ctx *resolve.Context, dataSourceID string, input json.RawMessage, coordinate resolve.GraphCoordinate) (*resolve.AuthorizationDeny, error) {
	if a.note(coordinate) {
		return &resolve.AuthorizationDeny{Reason: "denied by policy"}, nil
	}
	return nil, nil
}

func (a *authz) AuthorizeObjectField(ctx *resolve.Context, dataSourceID string, object json.RawMessage, coordinate resolve.GraphCoordinate) (*resolve.AuthorizationDeny, error) {
	if a.note(coordinate) {
		return &resolve.AuthorizationDeny{Reason: "denied by policy"}, nil
	}
	return nil, nil
}
func (a *authz) HasResponseExtensionData(ctx *resolve.Context) bool                { return false }
func (a *authz) RenderResponseExtension(ctx *resolve.Context, out io.Writer) error { return nil }
func (a *authz) AuthorizeFields(ctx *resolve.Context, coordinates []resolve.GraphCoordinate) ([]resolve.AuthorizationDecision, error) {
	out := make([]resolve.AuthorizationDecision, len(coordinates))
	for i, c := range coordinates {
		out[i] = resolve.AuthorizationDecision{Allowed: !a.note(c), Reason: "denied by policy"}
	}
	return out, nil
}

// scalarsAt collects the string scalars below a value.
func scalarStrings(v any, out map[string]bool) {
	switch x := v.(type) {
	case string:
		out[x] = true
	case map[string]any:
		for _, vv := range x {
			scalarStrings(vv, out)
		}
	case []any:
		for _, vv := range x {
			scalarStrings(vv, out)
		}
	}
}

func at(v any, path []any) (any, bool) {
	cur := v
	for _, seg := range path {
		switch s := seg.(type) {
		case string:
			m, ok := cur.(map[string]any)
			if !ok {
				return nil, false
			}
			cur, ok = m[s]
			if !ok {
				return nil, false
			}
		case int:
			a, ok := cur.([]any)
			if !ok || s >= len(a) {
				return nil, false
			}
			cur = a[s]
		}
	}
	return cur, true
}

func pathString(p []any) string { return ref.Canon(p) }

func reconstruct(frames []string) (any, []any, bool) {
	var data any
	var errs []any
	type pend struct{ path []any }
	pending := map[string]*pend{}
	for i, f := range frames {
		v, err := ref.Decode([]byte(f))
		if err != nil {
			return nil, nil, false
		}
		fr, _ := v.(map[string]any)
		if es, ok := fr["errors"].([]any); ok {
			errs = append(errs, es...)
		}
		if i == 0 {
			data = fr["data"]
		}
		if inc, ok := fr["incremental"].([]any); ok {
			for _, it := range inc {
				im, _ := it.(map[string]any)
				id, _ := im["id"].(string)
				p := pending[id]
				if es, ok := im["errors"].([]any); ok {
					errs = append(errs, es...)
				}
				dm, hasData := im["data"].(map[string]any)
				if p == nil || !hasData {
					continue
				}
				path := append([]any{}, p.path...)
				if sp, ok := im["subPath"].([]any); ok {
					path = append(path, sp...)
				}
				cur := data
				ok2 := true
				for _, seg := range path {
					switch x := seg.(type) {
					case string:
						m, isM := cur.(map[string]any)
						if !isM {
							ok2 = false
						} else {
							cur = m[x]
						}
					case json.Number:
						idx, _ := x.Int64()
						a, isA := cur.([]any)
						if !isA || int(idx) >= len(a) {
							ok2 = false
						} else {
							cur = a[int(idx)]
						}
					}
				}
				if tm, isM := cur.(map[string]any); ok2 && isM {
					for k, vv := range dm {
						if sm, ok := vv.(map[string]any); ok {
							if dmm, ok := tm[k].(map[string]any); ok {
								for kk, vvv := range sm {
									dmm[kk] = vvv
								}
								continue
							}
						}
						tm[k] = vv
					}
				}
			}
		}
		if comp, ok := fr["completed"].([]any); ok {
			for _, c := range comp {
				cm, _ := c.(map[string]any)
				if es, ok := cm["errors"].([]any); ok {
					errs = append(errs, es...)
				}
			}
		}
		if pe, ok := fr["pending"].([]any); ok {
			for _, p := range pe {
				pm, _ := p.(map[string]any)
				id, _ := pm["id"].(string)
				path, _ := pm["path"].([]any)
				pending[id] = &pend{path: path}
			}
		}
	}
	return data, errs, true
}

func checkAuth(c authCase, o *pbt.Rec) pbt.Verdict {
	w, err := sim.NewWorld(c.Layout, c.Seed)
	if err != nil {
		return pbt.Bad("layout does not load: %v", err)
	}
	fams := families(w.Super)
	if len(fams) == 0 {
		o.Discard("no-families")
		return pbt.OK
	}
	protected, deny := map[string]bool{}, map[string]bool{}
	var fcs []plan.FieldConfiguration
	for _, p := range c.Protected {
		for _, coord := range fams[p%len(fams)] {
			if !protected[coord] {
				protected[coord] = true
				tf := strings.SplitN(coord, ".", 2)
				fcs = append(fcs, plan.FieldConfiguration{TypeName: tf[0], FieldName: tf[1], HasAuthorizationRule: true})
			}
		}
	}
	splitUsed := false
	for _, d := range c.Denied {
		fam := fams[d%len(fams)]
		var objs []string
		for _, coord := range fam {
			if td := w.Super.Types[strings.SplitN(coord, ".", 2)[0]]; td != nil && td.Kind == ast.Object {
				objs = append(objs, coord)
			}
		}
		if c.Mode == "post" && c.SplitMask > 0 && len(objs) >= 2 {
			n := 0
			for i, coord := range objs {
				if (c.SplitMask>>uint(i%6))&1 == 1 && n < len(objs)-1 {
					deny[coord] = true
					n++
				}
			}
			if n == 0 {
				deny[objs[0]] = true
			}
			splitUsed = true
			continue
		}
		for _, coord := range fam {
			if protected[coord] {
				deny[coord] = true
			}
		}
	}
	if splitUsed {
		o.Label("split-decision-within-family")
	}
	sort.Slice(fcs, func(i, j int) bool {
		return fcs[i].TypeName+"."+fcs[i].FieldName < fcs[j].TypeName+"."+fcs[j].FieldName
	})
	refOp := c.Op
	if _, err := w.Reference(refOp); err != nil {
		o.Discard("generator-vs-gqlparser")
		return pbt.OK
	}
	// C01 agreement without authorization (otherwise not this property's business)
	plainGW, err := kit.NewOnWorld(w, kit.EngineOptions{})
	if err != nil {
		return pbt.Bad("engine construction failed: %v", err)
	}
	unauth, _ := w.Reference(refOp)
	pres := plainGW.Execute(c.Op)
	plainGW.Close()
	pframes := append(append([]string{}, pres.Frames...), pres.Body)
	if pres.Body == "" {
		pframes = pres.Frames
	}
	pdata, _, pok := reconstruct(pframes)
	if pres.Err != nil || pres.Panic != "" || !pok || !ref.Equal(pdata, ref.Plain(unauth.Data)) {
		o.Discard("unauthorized-run-differs-from-monolith(C01/C10)")
		return pbt.OK
	}
	expected, err := w.ReferenceDenied(refOp, func(tn, fn string) bool { return deny[tn+"."+fn] })
	if err != nil {
		o.Discard("generator-vs-gqlparser")
		return pbt.OK
	}
	gw, err := kit.NewOnWorld(w, kit.EngineOptions{FieldConfigs: fcs})
	if err != nil {
		return pbt.Bad("engine construction failed with authorization rules: %v", err)
	}
	defer gw.Close()
	az := &authz{deny: deny, asked: map[string]int{}}
	var opt engine.ExecutionOptions
	if c.Mode == "pre" {
		opt = engine.WithPreFetchFieldAuthorizer(az)
	} else {
		opt = engine.WithAuthorizer(az)
	}
	res := gw.Execute(c.Op, opt)
	frames := append([]string{}, res.Frames...)
	if res.Body != "" {
		frames = append(frames, res.Body)
	}
	ctx := func() string {
		var sb strings.Builder
		fmt.Fprintf(&sb, "\nmode: %s\noperation: %s\nvariables: %s\nseed: %d\nprotected: %v\ndenied: %v\nasked: %v\nframes:\n", c.Mode, c.Op.Query, c.Op.VarsJSON(), c.Seed, keys(protected), keys(deny), az.asked)
		for i, f := range frames {
			fmt.Fprintf(&sb, "  [%d] %s\n", i, f)
		}
		fmt.Fprintf(&sb, "expected data: %s\nunauthorized data: %s\n", ref.Canon(ref.Plain(expected.Data)), ref.Canon(ref.Plain(unauth.Data)))
		for _, r := range res.Requests {
			fmt.Fprintf(&sb, "  -> %s %s\n", r.Subgraph, r.Body)
		}
		return sb.String()
	}
	switch {
	case res.Panic != "":
		return pbt.Bad("Execute panicked with an authorizer: %s%s", res.Panic, ctx())
	case res.TimedOut:
		return pbt.Bad("Execute did not return within the watchdog%s", ctx())
	case res.Err != nil:
		return pbt.Bad("Execute fails with an authorizer although the request succeeds without: %v%s", res.Err, ctx())
	}
	got, gerrs, ok := reconstruct(frames)
	if !ok {
		return pbt.Bad("response is not valid JSON%s", ctx())
	}
	// no sentinel of a denied position anywhere in the bytes
	if len(expected.DeniedPaths) > 0 {
		leaked := map[string]bool{}
		plainUnauth := ref.Plain(unauth.Data)
		for _, p := range expected.DeniedPaths {
			if v, ok := at(plainUnauth, p); ok {
				scalarStrings(v, leaked)
			}
		}
		allowedStrings := map[string]bool{}
		scalarStrings(ref.Plain(expected.Data), allowedStrings)
		// values of fields that are not denied and not below a denied position are not secrets,
		// even when null propagation removed them from the expected data: an entity reachable
		// through a denied field can also be selected directly, and a deferred payload may
		// still deliver allowed fields of a parent the initial payload had to null
		denied := map[string]bool{}
		for _, p := range expected.DeniedPaths {
			denied[ref.Canon(p)] = true
		}
		var outside func(v any, path []any)
		outside = func(v any, path []any) {
			if denied[ref.Canon(path)] {
				return
			}
			switch x := v.(type) {
			case map[string]any:
				for k, c := range x {
					outside(c, append(append([]any{}, path...), k))
				}
			case []any:
				for i, c := range x {
					outside(c, append(append([]any{}, path...), i))
				}
			case string:
				allowedStrings[x] = true
			}
		}
		outside(plainUnauth, []any{})
		all := strings.Join(frames, "\n")
		for s := range leaked {
			if len(s) < 8 || allowedStrings[s] {
				continue
			}
			derived := false
			for a := range allowedStrings {
				// an allowed field may legitimately be computed from a denied one (@requires)
				if strings.Contains(a, s) {
					derived = true
				}
			}
			if derived {
				continue
			}
			b, _ := json.Marshal(s)
			if strings.Contains(all, string(b[1:len(b)-1])) {
				return pbt.Bad("the value %q of a denied field occurs in the response bytes%s", s, ctx())
			}
		}
	}
	stream := len(res.Frames) > 0
	if len(unauth.Errors) == 0 && stream {
		// incremental delivery cannot retract what the initial payload delivered: null
		// propagation out of a deferred fragment stops at the fragment. Demanded: every denied
		// position is null or absent, and nothing differs from the unauthorized data except by
		// nulling or absence.
		plainUnauth := ref.Plain(unauth.Data)
		for _, p := range expected.DeniedPaths {
			if v, ok := at(got, p); ok && v != nil {
				return pbt.Bad("a denied position %s carries a value in the reconstructed stream: %s%s", pathString(p), ref.Canon(v), ctx())
			}
		}
		if s := onlyNulledOrAbsent(plainUnauth, got, "data"); s != "" {
			return pbt.Bad("the stream under authorization differs from the unauthorized data other than by nulling/absence: %s%s", s, ctx())
		}
		if len(expected.DeniedPaths) > 0 && len(gerrs) == 0 {
			return pbt.BadKnown("C14-deferred-denial-without-error", "a denied field inside a deferred fragment was withheld but no frame reports an error%s", ctx())
		}
	} else if len(unauth.Errors) == 0 {
		if !ref.Equal(got, ref.Plain(expected.Data)) {
			return pbt.Bad("data under authorization is not the unauthorized data with exactly the denied positions null-propagated\n got:  %s\n want: %s%s", ref.Canon(got), ref.Canon(ref.Plain(expected.Data)), ctx())
		}
		// every denied position that is selected is reported by an error
		if len(expected.DeniedPaths) > 0 && len(gerrs) == 0 {
			return pbt.Bad("a denied field was selected but the response reports no error%s", ctx())
		}
	} else {
		o.Label("with-universe-errors(sentinel-only)")
	}
	// request rules
	for _, r := range res.Requests {
		if len(r.Complaints) > 0 {
			return pbt.Bad("invalid subgraph request under authorization: %s%s", strings.Join(r.Complaints, "; "), ctx())
		}
		roots, isMutation := rootCoordinates(w, r)
		if len(roots) == 0 {
			continue
		}
		allDenied, anyDenied := true, false
		for _, rc := range roots {
			if deny[rc] {
				anyDenied = true
			} else {
				allDenied = false
			}
		}
		if c.Mode == "pre" && allDenied && strings.Contains(r.Query, "_entities(") {
			o.Label("pre:entity-fetch-sent-with-all-root-fields-denied")
			return pbt.BadKnown("C14-prefetch-entity-fetch-sent-although-all-fields-denied", "pre-fetch authorization: an entity fetch was sent although all of its fields %v are denied: %s %s%s", roots, r.Subgraph, r.Body, ctx())
		}
		if c.Mode == "pre" && allDenied && len(res.Frames) > 0 {
			o.Label("pre:deferred-fetch-sent-with-all-root-fields-denied")
			return pbt.BadKnown("C14-prefetch-deferred-fetch-sent-although-all-fields-denied", "pre-fetch authorization: a request of a @defer stream was sent although all of its root fields %v are denied: %s %s%s", roots, r.Subgraph, r.Body, ctx())
		}
		if c.Mode == "pre" && allDenied {
			return pbt.Bad("pre-fetch authorization: a subgraph request was sent although all of its root fields %v are denied: %s %s%s", roots, r.Subgraph, r.Body, ctx())
		}
		if isMutation && anyDenied {
			return pbt.Bad("a mutation request with a denied root field %v reached the subgraph: %s %s%s", roots, r.Subgraph, r.Body, ctx())
		}
	}
	o.Label("mode:" + c.Mode)
	if len(res.Frames) > 0 {
		o.Label("defer-stream")
	}
	nontrivial := false
	for _, p := range expected.DeniedPaths {
		if len(p) >= 2 {
			nontrivial = true
		}
	}
	if len(expected.DeniedPaths) > 0 {
		o.Label("denied-field-selected")
		if got == nil {
			o.Label("data-null")
		}
	} else if len(az.asked) > 0 {
		o.Label("protected-selected-all-allowed")
	}
	if nontrivial {
		o.NonTrivial(ref.JSON(c.Layout.Subs) + c.Op.Query + c.Op.VarsJSON() + fmt.Sprint(c.Seed, keys(protected), keys(deny), c.Mode))
	}
	return pbt.OK
}

// rootCoordinates lists the Type.field coordinates of a subgraph request's root fields.
func rootCoordinates(w *sim.World, r *sim.Request) ([]string, bool) {
	sub := w.Subs[r.Subgraph]
	if sub == nil {
		return nil, false
	}
	doc, errs := gqlparser.LoadQuery(sub.Schema, r.Query)
	if errs != nil || len(doc.Operations) == 0 {
		return nil, false
	}
	op := doc.Operations[0]
	var out []string
	for _, sel := range op.SelectionSet {
		f, ok := sel.(*ast.Field)
		if !ok {
			continue
		}
		if f.Name == "_entities" {
			var walk func(set ast.SelectionSet, typ string)
			walk = func(set ast.SelectionSet, typ string) {
				for _, s := range set {
					switch x := s.(type) {
					case *ast.Field:
						if x.Name != "__typename" && typ != "" {
							out = append(out, typ+"."+x.Name)
						}
					case *ast.InlineFragment:
						walk(x.SelectionSet, x.TypeCondition)
					}
				}
			}
			walk(f.SelectionSet, "")
			continue
		}
		if f.Name == "__typename" {
			continue
		}
		root := "Query"
		if op.Operation == ast.Mutation {
			root = "Mutation"
		}
		out = append(out, root+"."+f.Name)
	}
	sort.Strings(out)
	return out, op.Operation == ast.Mutation
}

func keys(m map[string]bool) []string {
	var k []string
	for x := range m {
		k = append(k, x)
	}
	sort.Strings(k)
	return k
}

func minimizeAuth(raw json.RawMessage) (any, string) {
	var c authCase
	if err := json.Unmarshal(raw, &c); err != nil {
		return nil, ""
	}
	v0 := checkAuth(c, pbt.NewRec())
	if v0.Msg == "" {
		return nil, ""
	}
	class := strings.SplitN(v0.Msg, "\n", 2)[0]
	if len(class) > 45 {
		class = class[:45]
	}
	best := c
	opshrink.Minimize(c.Op, 200, func(cand opgen.Op) bool {
		cc := c
		cc.Op = cand
		if v := checkAuth(cc, pbt.NewRec()); v.Msg != "" && strings.HasPrefix(v.Msg, class) {
			best = cc
			return true
		}
		return false
	})
	// fewer protected families
	for i := 0; i < len(best.Protected); i++ {
		cc := best
		cc.Protected = append(append([]int{}, best.Protected[:i]...), best.Protected[i+1:]...)
		if v := checkAuth(cc, pbt.NewRec()); v.Msg != "" && strings.HasPrefix(v.Msg, class) {
			best = cc
			i--
		}
	}
	v := checkAuth(best, pbt.NewRec())
	if v.Msg == "" {
		return nil, ""
	}
	return best, v.Msg
}

// onlyNulledOrAbsent reports a difference between got and the unauthorized data that is not
// a null or an absent key.
func onlyNulledOrAbsent(full, got any, path string) string {
	if got == nil {
		return ""
	}
	switch x := got.(type) {
	case map[string]any:
		fm, ok := full.(map[string]any)
		if !ok {
			return fmt.Sprintf("%s: object where the unauthorized response has %s", path, ref.Canon(full))
		}
		ks := make([]string, 0, len(x))
		for k := range x {
			ks = append(ks, k)
		}
		sort.Strings(ks)
		for _, k := range ks {
			fv, ok := fm[k]
			if !ok {
				return fmt.Sprintf("%s.%s: key not in the unauthorized response", path, k)
			}
			if s := onlyNulledOrAbsent(fv, x[k], path+"."+k); s != "" {
				return s
			}
		}
		return ""
	case []any:
		fa, ok := full.([]any)
		if !ok || len(fa) != len(x) {
			return fmt.Sprintf("%s: list differs from the unauthorized response", path)
		}
		for i := range x {
			if s := onlyNulledOrAbsent(fa[i], x[i], fmt.Sprintf("%s[%d]", path, i)); s != "" {
				return s
			}
		}
		return ""
	}
	if !ref.Equal(full, got) {
		return fmt.Sprintf("%s: %s differs from the unauthorized %s", path, ref.Canon(got), ref.Canon(full))
	}
	return ""
}
