package c17

// Generator of introspection operations: the full introspection query and random partial
// __schema / __type queries.

import (
	"encoding/json"
	"fmt"
	"sort"
	"strings"

	"pgregory.net/rapid"
)

type queryCase struct {
	Query string `json:"query"`
	Vars  string `json:"vars,omitempty"`
}

const typeRefDepth = 10

func typeRefSelection(levels int) string {
	s := "kind name"
	for i := 0; i < levels; i++ {
		s = "kind name ofType { " + s + " }"
	}
	return s
}

// fullIntrospectionQuery is the usual full introspection query with every option switched on
// (descriptions, specifiedByURL, isRepeatable, schema description, deprecated input values).
func fullIntrospectionQuery() string {
	return `query IntrospectionQuery {
  __schema {
    description
    queryType { name kind }
    mutationType { name kind }
    subscriptionType { name kind }
    types { ...FullType }
    directives { name description isRepeatable locations args(includeDeprecated: true) { ...InputValue } }
  }
}
fragment FullType on __Type {
  kind name description specifiedByURL
  fields(includeDeprecated: true) {
    name description
    args(includeDeprecated: true) { ...InputValue }
    type { ...TypeRef }
    isDeprecated deprecationReason
  }
  inputFields(includeDeprecated: true) { ...InputValue }
  interfaces { ...TypeRef }
  enumValues(includeDeprecated: true) { name description isDeprecated deprecationReason }
  possibleTypes { ...TypeRef }
}
fragment InputValue on __InputValue { name description type { ...TypeRef } defaultValue isDeprecated deprecationReason }
fragment TypeRef on __Type { ` + typeRefSelection(typeRefDepth) + ` }
`
}

type metaField struct {
	name   string
	ret    string // "" = leaf
	incDep bool
}

var metaFields = map[string][]metaField{
	"__Schema": {{"description", "", false}, {"types", "__Type", false}, {"queryType", "__Type", false}, {"mutationType", "__Type", false},
		{"subscriptionType", "__Type", false}, {"directives", "__Directive", false}},
	"__Type": {{"kind", "", false}, {"name", "", false}, {"description", "", false}, {"specifiedByURL", "", false}, {"fields", "__Field", true},
		{"interfaces", "__Type", false}, {"possibleTypes", "__Type", false}, {"enumValues", "__EnumValue", true}, {"inputFields", "__InputValue", true},
		{"ofType", "__Type", false}},
	"__Field": {{"name", "", false}, {"description", "", false}, {"args", "__InputValue", true}, {"type", "__Type", false}, {"isDeprecated", "", false},
		{"deprecationReason", "", false}},
	"__InputValue": {{"name", "", false}, {"description", "", false}, {"type", "__Type", false}, {"defaultValue", "", false}, {"isDeprecated", "", false},
		{"deprecationReason", "", false}},
	"__EnumValue": {{"name", "", false}, {"description", "", false}, {"isDeprecated", "", false}, {"deprecationReason", "", false}},
	"__Directive": {{"name", "", false}, {"description", "", false}, {"locations", "", false}, {"args", "__InputValue", true}, {"isRepeatable", "", false}},
}

type qgen struct {
	t         *rapid.T
	typeNames []string
	vars      map[string]any
	varDefs   []string
	frags     []string
	nAlias    int

	// shapes of recorded findings, only produced when switched on
	nestedAlias  bool
	useVars      bool // operation variables may be used
	incDepArgs   bool // includeDeprecated arguments may be written
	varDep       bool // ... and may be given through variables (only with useVars)
	rootTypename bool
	deepRef      bool // full selections below type / ofType / interfaces / possibleTypes

	// template mode (history part): every includeDeprecated argument is a numbered placeholder
	// that is filled in per request, and the operation head is the placeholder headMark
	template bool
	nSites   int
}

const headMark = "\u00a7HEAD\u00a7"

func siteMark(k int) string { return fmt.Sprintf("\u00a7%d\u00a7", k) }

func isTypeRefField(name string) bool {
	return name == "type" || name == "ofType" || name == "interfaces" || name == "possibleTypes"
}

// refSel selects only what a type reference carries: kind, name, ofType.
func (g *qgen) refSel(levels int) string {
	t := g.t
	var parts []string
	if chance(t, 70, "ref-kind") {
		parts = append(parts, "kind")
	}
	if chance(t, 70, "ref-name") {
		parts = append(parts, "name")
	}
	if chance(t, 8, "ref-typename") {
		parts = append(parts, "__typename")
	}
	if levels > 0 && chance(t, 75, "ref-ofType") {
		parts = append(parts, "ofType { "+g.refSel(levels-1)+" }")
	}
	if len(parts) == 0 {
		parts = append(parts, "kind")
	}
	return strings.Join(parts, " ")
}

func (g *qgen) newVar(typ string, value any, provide bool) string {
	name := fmt.Sprintf("v%d", len(g.varDefs))
	g.varDefs = append(g.varDefs, "$"+name+": "+typ)
	if provide {
		g.vars[name] = value
	}
	return "$" + name
}

func (g *qgen) incDepArg() string {
	t := g.t
	if !g.incDepArgs {
		return ""
	}
	if g.template {
		if !chance(t, 85, "incdep-site") {
			return ""
		}
		g.nSites++
		return "(includeDeprecated: " + siteMark(g.nSites-1) + ")"
	}
	k := rapid.IntRange(0, 99).Draw(t, "incdep")
	switch {
	case k < 30:
		return ""
	case k < 65:
		return "(includeDeprecated: true)"
	case k < 85:
		return "(includeDeprecated: false)"
	}
	if !g.varDep {
		return "(includeDeprecated: true)"
	}
	switch rapid.IntRange(0, 4).Draw(t, "incdep-var") {
	case 0, 1:
		return "(includeDeprecated: " + g.newVar("Boolean!", true, true) + ")"
	case 2:
		return "(includeDeprecated: " + g.newVar("Boolean", rapid.Bool().Draw(t, "incdep-val"), true) + ")"
	case 3:
		return "(includeDeprecated: " + g.newVar("Boolean = true", nil, false) + ")"
	}
	return "(includeDeprecated: " + g.newVar("Boolean! = true", nil, false) + ")"
}

func (g *qgen) condDirective() string {
	t := g.t
	if !chance(t, 5, "cond") {
		return ""
	}
	name := rapid.SampledFrom([]string{"skip", "include"}).Draw(t, "cond-name")
	val := rapid.Bool().Draw(t, "cond-val")
	if g.useVars && chance(t, 35, "cond-var") {
		return fmt.Sprintf(" @%s(if: %s)", name, g.newVar("Boolean!", val, true))
	}
	return fmt.Sprintf(" @%s(if: %v)", name, val)
}

// sel produces the inside of a selection set on a meta type.
func (g *qgen) sel(meta string, depth int) string {
	t := g.t
	var parts []string
	used := map[string]bool{}
	alias := func(name string) string {
		if g.nestedAlias && chance(t, 30, "nested-alias") {
			g.nAlias++
			a := fmt.Sprintf("a%d", g.nAlias)
			used[a] = true
			return a + ": " + name
		}
		return name
	}
	for _, f := range metaFields[meta] {
		if used[f.name] {
			continue
		}
		if f.ret == "" {
			if chance(t, 45, "leaf-"+f.name) {
				used[f.name] = true
				parts = append(parts, alias(f.name)+g.condDirective())
			}
			continue
		}
		pct := 40
		if depth >= 4 {
			pct = 0
		} else if depth >= 2 {
			pct = 25
		}
		if f.name == "ofType" {
			pct = 15
		}
		if g.template && f.incDep && depth < 4 {
			pct = 70
		}
		if !chance(t, pct, "obj-"+f.name) {
			continue
		}
		used[f.name] = true
		args := ""
		if f.incDep {
			args = g.incDepArg()
		}
		var sub string
		switch {
		case isTypeRefField(f.name) && chance(t, 50, "typeref"):
			sub = typeRefSelection(rapid.IntRange(0, typeRefDepth).Draw(t, "typeref-depth"))
		case isTypeRefField(f.name) && !g.deepRef:
			sub = g.refSel(rapid.IntRange(0, typeRefDepth).Draw(t, "ref-depth"))
		default:
			sub = g.sel(f.ret, depth+1)
		}
		if chance(t, 4, "dup-field") {
			// the same field twice: selections must be merged
			second := g.leafSel(f.ret)
			if isTypeRefField(f.name) {
				second = "kind name"
			}
			parts = append(parts, f.name+args+" { "+sub+" }", f.name+args+" { "+second+" }")
			continue
		}
		parts = append(parts, alias(f.name)+args+g.condDirective()+" { "+sub+" }")
	}
	if chance(t, 10, "typename") {
		parts = append(parts, "__typename")
	}
	if len(parts) == 0 {
		def := "name"
		if meta == "__Schema" {
			def = "queryType { name }"
		}
		parts = append(parts, def)
	}
	if len(parts) > 1 && chance(t, 30, "sel-shuffle") {
		parts = rapid.Permutation(parts).Draw(t, "sel-perm")
	}
	// fragments around a suffix of the selection
	if len(parts) > 1 && chance(t, 12, "inline-frag") {
		k := rapid.IntRange(1, len(parts)-1).Draw(t, "inline-at")
		cond := " on " + meta
		if chance(t, 25, "inline-nocond") {
			cond = ""
		}
		parts = append(parts[:k:k], "..."+cond+g.condDirective()+" { "+strings.Join(parts[k:], " ")+" }")
	} else if len(parts) > 1 && chance(t, 10, "named-frag") {
		k := rapid.IntRange(0, len(parts)-1).Draw(t, "named-at")
		name := fmt.Sprintf("F%d", len(g.frags))
		g.frags = append(g.frags, "fragment "+name+" on "+meta+" { "+strings.Join(parts[k:], " ")+" }")
		parts = append(parts[:k:k], "..."+name)
	}
	return strings.Join(parts, " ")
}

// leafSel selects some leaf fields of a meta type (used for the second copy of a duplicated
// field, so that the two copies cannot conflict).
func (g *qgen) leafSel(meta string) string {
	var parts []string
	for _, f := range metaFields[meta] {
		if f.ret == "" && chance(g.t, 40, "dupleaf-"+f.name) {
			parts = append(parts, f.name)
		}
	}
	if len(parts) == 0 {
		parts = append(parts, "name")
	}
	return strings.Join(parts, " ")
}

func genQuery(t *rapid.T, typeNames []string, queryType string, allowFindingShapes bool) queryCase {
	qc, _ := genQueryOrTemplate(t, typeNames, queryType, allowFindingShapes, false)
	return qc
}

// genQueryOrTemplate: with template set, the result is an operation template (see qgen.template)
// and the number of includeDeprecated sites in it.
func genQueryOrTemplate(t *rapid.T, typeNames []string, queryType string, allowFindingShapes, template bool) (queryCase, int) {
	g := &qgen{t: t, typeNames: typeNames, vars: map[string]any{}, incDepArgs: true}
	// operation variables and includeDeprecated arguments only meet in a class of their own
	// (recorded finding: the argument is lost once the operation declares variables)
	switch m := rapid.IntRange(0, 99).Draw(t, "var-mode"); {
	case m < 60:
	case m < 88 || !allowFindingShapes:
		g.useVars, g.incDepArgs = true, false
	default:
		g.useVars, g.varDep = true, true
	}
	if template {
		g.template, g.useVars, g.varDep, g.incDepArgs = true, false, false, true
	}
	if allowFindingShapes {
		g.nestedAlias = chance(t, 7, "class-nested-alias")
		g.rootTypename = chance(t, 6, "class-root-typename")
		g.deepRef = chance(t, 6, "class-deep-type-reference")
	}
	nRoot := rapid.IntRange(1, 3).Draw(t, "n-root")
	usedKeys := map[string]bool{}
	var roots []string
	key := func(name string) string {
		if usedKeys[name] || chance(t, 25, "root-alias") {
			for i := 0; ; i++ {
				a := fmt.Sprintf("r%d", i)
				if !usedKeys[a] {
					usedKeys[a] = true
					return a + ": " + name
				}
			}
		}
		usedKeys[name] = true
		return name
	}
	for i := 0; i < nRoot; i++ {
		k := rapid.IntRange(0, 99).Draw(t, "root-kind")
		switch {
		case k < 45:
			n := rapid.SampledFrom(typeNames).Draw(t, "type-name")
			roots = append(roots, key("__type")+"(name: "+jsonString(n)+")"+g.condDirective()+" { "+g.sel("__Type", 1)+" }")
		case k < 85:
			roots = append(roots, key("__schema")+g.condDirective()+" { "+g.sel("__Schema", 0)+" }")
		case k < 95:
			n := rapid.SampledFrom(typeNames).Draw(t, "type-name")
			arg := jsonString(n)
			if g.useVars {
				arg = g.newVar("String!", n, true)
			}
			roots = append(roots, key("__type")+"(name: "+arg+") { "+g.sel("__Type", 1)+" }")
		default:
			// the static data source does not support aliases: plain, at most once
			if !usedKeys[staticField] {
				usedKeys[staticField] = true
				roots = append(roots, staticField)
			}
		}
	}
	if len(roots) == 0 {
		roots = append(roots, key("__schema")+" { "+g.sel("__Schema", 0)+" }")
	}
	if g.rootTypename {
		roots = append(roots, key("__typename"))
		if chance(t, 50, "root-typename-first") {
			roots[0], roots[len(roots)-1] = roots[len(roots)-1], roots[0]
		}
	}
	head := ""
	if g.template {
		head = headMark
	} else if len(g.varDefs) > 0 {
		head = "query Q(" + strings.Join(g.varDefs, ", ") + ") "
	} else {
		head = rapid.SampledFrom([]string{"", "query ", "query Intro "}).Draw(t, "head")
	}
	body := strings.Join(roots, " ")
	if !g.rootTypename && chance(t, 8, "root-fragment") {
		// the root fields inside a fragment on the query type
		if rapid.Bool().Draw(t, "root-fragment-named") {
			g.frags = append(g.frags, "fragment Root on "+queryType+" { "+body+" }")
			body = "...Root"
		} else {
			body = "... on " + queryType + " { " + body + " }"
		}
	}
	q := head + "{ " + body + " }"
	if len(g.frags) > 0 {
		q += " " + strings.Join(g.frags, " ")
	}
	qc := queryCase{Query: q}
	if len(g.vars) > 0 {
		qc.Vars = marshalSorted(g.vars)
	}
	return qc, g.nSites
}

func jsonString(s string) string {
	b, _ := json.Marshal(s)
	return string(b)
}

func marshalSorted(m map[string]any) string {
	keys := make([]string, 0, len(m))
	for k := range m {
		keys = append(keys, k)
	}
	sort.Strings(keys)
	var b strings.Builder
	b.WriteByte('{')
	for i, k := range keys {
		if i > 0 {
			b.WriteByte(',')
		}
		v, _ := json.Marshal(m[k])
		b.WriteString(jsonString(k) + ":" + string(v))
	}
	b.WriteByte('}')
	return b.String()
}
