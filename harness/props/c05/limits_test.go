package c05

import (
	"fmt"

	"pgregory.net/rapid"

	"verif/harness/pbt"
)

// limits part (DESIGN §4 C05 clause 5): executable documents with emphasis on nesting and many
// fields (arguments with object values, inline fragments, fragment definitions, several
// operations) and a pair of limits drawn around the document's real measures so that every
// side of both limits is exercised.

type limitsCase struct {
	Src       string   `json:"src"`
	MaxDepth  int      `json:"max_depth"`
	MaxFields int      `json:"max_fields"`
	Feat      []string `json:"feat"`
}

var limitsPart = pbt.Part[limitsCase]{Name: "limits", Quick: 80000, Thorough: 1600000, Gen: genLimits, Check: checkLimitsCase}

func genLimits(t *rapid.T) limitsCase {
	o := genOpts{maxSelDepth: rapid.IntRange(1, 9).Draw(t, "maxseldepth"), maxSel: rapid.IntRange(1, 6).Draw(t, "maxsel"),
		maxDefs: 3, wild: rapid.IntRange(0, 3).Draw(t, "wild") == 0, limitsMode: true}
	dc := genDocWith(t, o, "exec")
	// measure what was written (expected shape) to centre the limits on the real values
	depth, fields := measureShape(dc.Exp)
	L := pickLimit(t, "L", depth)
	F := pickLimit(t, "F", fields)
	return limitsCase{Src: dc.Src, MaxDepth: L, MaxFields: F, Feat: dc.Feat}
}

// pickLimit: 0 (unlimited) sometimes, otherwise a value near the real measure.
func pickLimit(t *rapid.T, label string, real int) int {
	switch rapid.IntRange(0, 9).Draw(t, label+"-mode") {
	case 0:
		return 0
	case 1, 2:
		return rapid.IntRange(1, 30).Draw(t, label+"-any")
	default:
		v := real + rapid.IntRange(-3, 2).Draw(t, label+"-delta")
		if v < 1 {
			v = 1
		}
		return v
	}
}

// measureShape computes depth and field count on the generator's expected shape (only used to
// choose interesting limits; the oracle measures on the parsed document).
func measureShape(doc *sn) (maxDepth, fields int) {
	var sel func(n *sn) int
	sel = func(n *sn) int { // n.K == "sel"
		deepest := 0
		for _, c := range n.C {
			if c.K == "field" {
				fields++
			}
			for _, cc := range c.C {
				if cc.K == "sel" {
					if d := sel(cc); d > deepest {
						deepest = d
					}
				}
			}
		}
		return 1 + deepest
	}
	for _, def := range doc.C {
		for _, c := range def.C {
			if c.K == "sel" {
				if d := sel(c); d > maxDepth {
					maxDepth = d
				}
			}
		}
	}
	return
}

func checkLimitsCase(c limitsCase, o *pbt.Rec) pbt.Verdict {
	in := []byte(c.Src)
	defer enter("limits", in)()
	for _, f := range c.Feat {
		if f == "kw-in-selection" || f == "inline-fragment" || f == "fragment-definition" || f == "value:object" || f == "keyword-as-name" {
			o.Label("limits:" + f)
		}
	}
	if c.MaxDepth == 0 {
		o.Label("limits:depth-unlimited")
	}
	if c.MaxFields == 0 {
		o.Label("limits:fields-unlimited")
	}
	d, rep := parseBytes(in)
	if rep.HasErrors() {
		// the generator writes spec-valid documents; rejection is the docs part's business
		o.Label("limits:unparseable")
		return pbt.OK
	}
	w, shape := walkDoc(d)
	if w.err == "" && nonTrivialShape(shape) {
		o.NonTrivial(fmt.Sprintf("%d/%d/%s", c.MaxDepth, c.MaxFields, c.Src))
	}
	if w.err == "" {
		o.Labelf("limits:depth=%s", bucket(w.maxDepth))
		o.Labelf("limits:fields=%s", bucket(w.fields))
	}
	return checkLimits(in, c.MaxDepth, c.MaxFields, o, "limits")
}

func bucket(n int) string {
	switch {
	case n <= 1:
		return "1"
	case n <= 3:
		return "2-3"
	case n <= 6:
		return "4-6"
	case n <= 12:
		return "7-12"
	case n <= 30:
		return "13-30"
	}
	return ">30"
}
