package c02

import (
	"fmt"
	"strings"

	"github.com/wundergraph/graphql-go-tools/v2/pkg/engine/resolve"

	"github.com/vektah/gqlparser/v2"
	gast "github.com/vektah/gqlparser/v2/ast"
	"pgregory.net/rapid"

	"verif/harness/pbt"
)

// Case is the replayable unit: plain data, self-contained (the SDL text is part of it, so a
// replay does not depend on the family generator staying unchanged).
type Case struct {
	Op      string   `json:"op"`
	Data    string   `json:"data"`
	Muts    []string `json:"muts,omitempty"`
	Steered []string `json:"steered,omitempty"` // known findings the generator steered away from
	GenErr  string   `json:"gen_err,omitempty"`
	Fam     int      `json:"fam"`
	SDL     string   `json:"sdl"`
}

const (
	// renderer / loader (v2/pkg/engine/resolve)
	findingDupPath            = "C02-error-path-repeats-last-segment"
	findingPanic              = "C02-nullable-inner-list-null-panic" // fixed by 98aa076
	findingConcreteNoTypename = "C02-concrete-object-without-typename-drops-conditioned-fields"
	findingRootNotObject      = "C02-subgraph-data-not-object-aborts-request"
	findingCopyPossible       = "C02-plan-object-copy-drops-possible-types"
	findingAliasTypename      = "C02-aliased-typename-value-not-validated"
	// planner / postprocess: the tree T is not a faithful compilation of the operation
	findingUnionTypename   = "C02-plan-union-typename-hoisted"
	findingNestedAbstract  = "C02-plan-nested-abstract-fragment-loses-outer-condition"
	findingMergeScalars    = "C02-plan-merge-scalars-mixes-type-conditions"
	findingMergeNestedList = "C02-plan-merge-nested-list-drops-selection"
)

// driver modes
type mode int

const (
	modeResolvable      mode = iota // driver (i): NewResolvable(nil, {}).Init + Resolve — the anchor
	modeEngine                      // driver (ii): execution/engine + fake subgraph (adds the loader merge)
	modeValueCompletion             // driver (i) with ApolloCompatibilityValueCompletionInExtensions: clauses 1-2 only
)

var resolvablePart = pbt.Part[Case]{Name: "resolvable", Quick: 30000, Thorough: 500000, Gen: genCase(false),
	Check: func(c Case, o *pbt.Rec) pbt.Verdict { return checkCase(c, o, modeResolvable) }}

var enginePart = pbt.Part[Case]{Name: "engine", Quick: 8000, Thorough: 120000, Gen: genCase(true),
	Check: func(c Case, o *pbt.Rec) pbt.Verdict { return checkCase(c, o, modeEngine) }}

var valueCompletionPart = pbt.Part[Case]{Name: "value-completion", Quick: 4000, Thorough: 60000, Gen: genCase(false),
	Check: func(c Case, o *pbt.Rec) pbt.Verdict { return checkCase(c, o, modeValueCompletion) }}

func partMode(name string) mode {
	switch name {
	case enginePart.Name:
		return modeEngine
	case valueCompletionPart.Name:
		return modeValueCompletion
	}
	return modeResolvable
}

// steerEvery: a case is generated WITHOUT steering away from the classes of known findings once
// in steerEvery cases, so that the classes stay observed (their failures must then be attributed
// by the recognisers, item by item — see attribute). Set it very large to exclude the classes
// by construction only.
const steerEvery = 8

func newModel(s *gast.Schema, op string) (*model, string) {
	doc, errs := gqlparser.LoadQuery(s, op)
	if errs != nil {
		return nil, errs.Error()
	}
	if len(doc.Operations) != 1 {
		return nil, "not exactly one operation"
	}
	return &model{s: s, doc: doc, op: doc.Operations[0]}, ""
}

func genCase(rootReplace bool) func(t *rapid.T) Case {
	return func(t *rapid.T) Case {
		k := uniform(t, numFamilies, "family")
		f := getFamily(k)
		steer := uniform(t, steerEvery, "steer") != 0
		var c Case
		var m *model
		for attempt := 0; ; attempt++ {
			op := newOpGen(t, f).operation()
			c = Case{Op: op, Fam: k, SDL: f.SDL, Steered: c.Steered}
			var problem string
			m, problem = newModel(f.schema, op)
			if problem != "" {
				c.GenErr = problem
				return c
			}
			if steer && attempt < 10 {
				// known planner findings: redraw the operation, count each exclusion once
				if id := m.opClass(pbt.IsKnown); id != "" {
					if !contains(c.Steered, id) {
						c.Steered = append(c.Steered, id)
					}
					continue
				}
			}
			break
		}
		dg := &dataGen{t: t, m: m}
		root := dg.object(f.schema.Query, f.schema.Query.Name, []gast.SelectionSet{m.op.SelectionSet}, true)
		nmut := []int{0, 0, 1, 1, 1, 1, 1, 2, 2, 2, 3, 3}[uniform(t, 12, "nmut")]
		for i := 0; i < nmut; i++ {
			snap := root.clone()
			var d string
			root, d = dg.mutate(root, rootReplace)
			if d == "" {
				continue
			}
			if steer && root.k == jObj {
				// known findings: drop this mutation and keep searching with the others
				id := ""
				switch {
				case pbt.IsKnown(findingPanic) && predictsInnerListPanic(m.allOffenders(root)):
					id = findingPanic // the outcome is a panic, nothing behind it could be checked
				case pbt.IsKnown(findingConcreteNoTypename) && m.concreteNoTypenameClass(root):
					id = findingConcreteNoTypename
				case pbt.IsKnown(findingAliasTypename) && aliasTypenameClass(m.allOffenders(root)):
					id = findingAliasTypename
				}
				if id != "" {
					root = snap
					if !contains(c.Steered, id) {
						c.Steered = append(c.Steered, id)
					}
					continue
				}
			}
			c.Muts = append(c.Muts, d)
		}
		c.Data = root.String()
		return c
	}
}

func (m *model) allOffenders(j *jv) []offender {
	var offs []offender
	m.offenders(gast.NonNullNamedType(m.rootName(), nil), []gast.SelectionSet{m.op.SelectionSet}, j, rootCtx(), &offs)
	return offs
}

// predictsInnerListPanic is the applicability half of the recogniser of findingPanic: some
// offender's null has to be absorbed by a nullable list that is itself a list item (the plan
// node of such a list has an empty Path). It describes the class of inputs, not the oracle.
func predictsInnerListPanic(offs []offender) bool {
	for _, o := range offs {
		if o.tolerated {
			continue
		}
		if !o.nnaInner {
			continue
		}
		if o.kind == "type" && o.selfNull {
			// values the code replaces in place without involving the enclosing list
			if o.what == "enum-invalid-value" || strings.HasPrefix(o.what, "typename-") || (o.composite && o.isItem) {
				continue
			}
		}
		return true
	}
	return false
}

// recogniseDupPath is the recogniser of findingDupPath for one replacement that no error
// covers: there is an error with one of the two messages whose path is the path of an
// ill-kinded object/list offender under the replacement with the last key repeated.
func recogniseDupPath(r replacement, errs []errEntry) bool {
	for _, e := range errs {
		if !e.hasPath || len(e.path) < 2 {
			continue
		}
		isObj := e.message == "Object cannot represent non-object value."
		isArr := e.message == "Array cannot represent non-array value."
		if !isObj && !isArr {
			continue
		}
		last, ok1 := e.path[len(e.path)-1].(string)
		prev, ok2 := e.path[len(e.path)-2].(string)
		if !ok1 || !ok2 || last != prev {
			continue
		}
		want := pathKey(e.path[:len(e.path)-1])
		for _, o := range r.offs {
			if o.kind != "type" || pathKey(o.path) != want || o.val.isNull() {
				continue
			}
			if isObj && o.composite && o.val.k != jObj || isArr && o.isList && o.val.k != jArr {
				return true
			}
		}
	}
	return false
}

func checkCase(c Case, o *pbt.Rec, md mode) pbt.Verdict {
	engine := md == modeEngine
	if c.GenErr != "" {
		o.Discard("generator-produced-invalid-operation")
		return pbt.OK
	}
	w, err := getWorld(c.SDL)
	if err != nil {
		o.Discard("sdl-rejected")
		return pbt.OK
	}
	m, problem := newModel(w.gs, c.Op)
	if problem != "" {
		o.Discard("operation-invalid-for-gqlparser")
		return pbt.OK
	}
	j, err := parseJSON([]byte(c.Data))
	if err != nil {
		o.Discard("data-not-json")
		return pbt.OK
	}
	for _, id := range c.Steered {
		o.Label("excluded:" + id)
	}

	pl := w.planTree(c.Op)
	if pl.err != "" {
		o.Discard("operation-rejected-by-repo-pipeline")
		o.Label("rejected-at:" + strings.SplitN(pl.err, ":", 2)[0])
		return pbt.OK
	}
	labelTree(o, statsOf(pl.resp))
	var r rendered
	if engine {
		o.Journal()
		r = w.renderEngine(c.Op, []byte(c.Data))
		o.Labelf("engine:requests=%d", r.requests)
		if r.err != "" && r.panicked == "" && len(r.out) == 0 {
			// the same pipeline accepted the operation above, so this is not a rejected operation:
			// the caller got a Go error and no GraphQL response at all
			o.Label("out:engine-error-no-response")
			msg := fmt.Sprintf("engine.Execute returned an error and wrote no response: %s\n  op:   %s\n  j:    %s", r.err, c.Op, clip400(c.Data))
			if j.k != jObj && j.k != jNull && r.requests == 1 && strings.Contains(r.err, "unable to merge results from subgraph") {
				o.Label("root-replaced:" + j.k.String())
				return pbt.BadKnown(findingRootNotObject, "%s", msg)
			}
			return pbt.Bad("%s", msg)
		}
	} else {
		if j.k != jObj {
			o.Discard("root-not-object-for-driver-i")
			return pbt.OK
		}
		r = renderResolvable(pl.resp, []byte(c.Data), resolve.ResolvableOptions{ApolloCompatibilityValueCompletionInExtensions: md == modeValueCompletion})
		if r.initErr != "" {
			return pbt.Bad("Resolvable.Init refused an object document: %s", r.initErr)
		}
	}
	labelOp(o, m)
	for _, mu := range c.Muts {
		o.Label("mut:" + strings.SplitN(mu, "@", 2)[0])
		if i := strings.LastIndex(mu, " ["); i >= 0 && strings.HasSuffix(mu, "]") {
			o.Label("cellmut:" + mu[i+2:len(mu)-1])
		}
	}
	o.Labelf("muts=%d", len(c.Muts))

	rootReplaced := j.k != jObj && !(engine && r.requests == 0) // no fetch: j was never consulted
	jEff := j
	if j.k != jObj {
		jEff = jobj()
	}
	if rootReplaced {
		o.Label("root-replaced:" + j.k.String())
	}
	offs := m.allOffenders(jEff)
	nontrivial := labelOffenders(o, offs) || m.maxTypeConds() >= 2
	if nontrivial {
		o.NonTrivial(c.Op + "\x00" + c.Data)
	}

	ctxt := func() string {
		return fmt.Sprintf("\n  op:   %s\n  j:    %s\n  out:  %s\n  offenders: %v", c.Op, clip400(c.Data), clip400(string(r.out)), offs)
	}
	if r.panicked != "" {
		o.Label("out:panic")
		if predictsInnerListPanic(offs) && strings.Contains(r.panicked, "index out of range [-1]") {
			return pbt.BadKnown(findingPanic, "panic while rendering: %s%s", r.panicked, ctxt())
		}
		return pbt.Bad("panic while rendering: %s%s", r.panicked, ctxt())
	}
	if r.err != "" {
		return pbt.Bad("rendering returned an error instead of a response: %s%s", r.err, ctxt())
	}

	res := m.check(jEff, r.out)
	if md == modeValueCompletion {
		// errors are moved to extensions.valueCompletion in this mode: only clauses 1 (valid
		// envelope) and 2 (type safety, exact keys) are demanded
		var keep []violation
		for _, v := range res.viol {
			switch v.kind {
			case "envelope", "kind", "null-at-nonnull", "key-missing", "key-unselected", "key-duplicate", "abstract-unknown-type-rendered",
				"typename-value", "typename-value-forwarded-alias":
				keep = append(keep, v)
			}
		}
		res.viol, res.uncovered = keep, nil
	}
	uf := m.faithful(pl.resp, jEff)
	for _, u := range uf {
		o.Label("plan:unfaithful:" + u.kind)
	}
	if rootReplaced {
		return rootReplacedVerdict(o, m, res, r.out, ctxt)
	}
	labelResult(o, m, res)
	if len(res.viol) == 0 && len(res.uncovered) == 0 {
		return pbt.OK
	}
	return attribute(res, uf, ctxt)
}

// attribute turns a failing result into a verdict. Every violation and every uncovered
// replacement must be explained by a recognised known finding for the case to count as known;
// one unexplained item makes it a plain violation (nothing is masked by a co-occurring finding).
func attribute(res result, uf []unfaithful, ctxt func() string) pbt.Verdict {
	var lines []string
	if len(res.viol) > 0 {
		lines = append(lines, violText(res.viol))
	}
	for _, u := range res.uncovered {
		lines = append(lines, fmt.Sprintf("clause 5: %s was replaced by null but no error carries the response path of an offender below it (offenders %v; error paths: %s)",
			pathKey(u.path), u.offs, res.errPaths()))
	}
	msg := strings.Join(lines, "\n  ")

	id := ""                 // first recognised finding
	var unknown []unfaithful // plan disagreements that explain a violation but match no finding
	var involved []unfaithful
	allExplained := true
	note := func(k string) {
		if id == "" {
			id = k
		}
	}
	explainedBy := func(match func(u unfaithful) bool) bool {
		ok := false
		for _, u := range uf {
			if !match(u) {
				continue
			}
			involved = append(involved, u)
			if k := recognisePlanFinding(u); k != "" {
				note(k)
				ok = true
			} else {
				unknown = append(unknown, u)
			}
		}
		return ok
	}
	for _, v := range res.viol {
		v := v
		if v.kind == "typename-value-forwarded-alias" && aliasTypenameOffenderAt(res.offs, v.path) {
			// recogniser of findingAliasTypename: j carries an invalid type name under the alias key
			// of a selected __typename and exactly that value is delivered
			note(findingAliasTypename)
			continue
		}
		if !explainedBy(func(u unfaithful) bool { return explainsViolation(u, v) }) {
			allExplained = false
		}
	}
	for _, r := range res.uncovered {
		r := r
		if recogniseDupPath(r, res.errs) {
			note(findingDupPath)
			continue
		}
		if !explainedBy(func(u unfaithful) bool { return explainsUncovered(u, r) }) {
			allExplained = false
		}
	}
	if len(involved) > 0 {
		shown := involved
		if len(shown) > 4 {
			shown = shown[:4]
		}
		msg = fmt.Sprintf("the planner-built tree disagrees with the operation: %v\n  %s", shown, msg)
	}
	if allExplained && len(unknown) == 0 && id != "" {
		return pbt.BadKnown(id, "%s%s", msg, ctxt())
	}
	return pbt.Bad("%s%s", msg, ctxt())
}

// aliasTypenameClass is the input class of findingAliasTypename: the value under the ALIAS key
// of a selected __typename is a string that names no possible type of its object.
func aliasTypenameClass(offs []offender) bool {
	for _, o := range offs {
		if o.what == "typename-field-invalid-name" && lastKey(o.path) != "__typename" {
			return true
		}
	}
	return false
}

func aliasTypenameOffenderAt(offs []offender, path []any) bool {
	for _, o := range offs {
		if o.what == "typename-field-invalid-name" && lastKey(o.path) != "__typename" && samePath(o.path, path) {
			return true
		}
	}
	return false
}

func samePath(a, b []any) bool { return len(a) == len(b) && hasPrefixPath(a, b) }

// explainsViolation: can the plan/operation disagreement u produce the violation v?
func explainsViolation(u unfaithful, v violation) bool {
	switch u.kind {
	case "key-missing-in-plan":
		// the only possible symptom: exactly this key is missing in exactly this object
		return v.kind == "key-missing" && v.key == u.key && samePath(v.path, u.p)
	case "possible-types":
		// a lost __typename guard: the object is rendered although its runtime type is unknown
		return v.kind == "abstract-unknown-type-rendered" && samePath(v.path, u.p)
	case "key-extra-in-plan", "key-duplicate-in-plan":
		switch v.kind {
		case "key-unselected", "key-duplicate":
			return v.key == u.key && samePath(v.path, u.p)
		case "errors-on-well-typed":
			return true // the plan demands a key j rightly does not have
		case "replaced-without-offender", "not-nearest-nullable":
			// ... and the resulting null bubbles to the object or above it
			return hasPrefixPath(u.p, v.path)
		}
		return false
	default: // node-kind, nullability, enum-values, path: anything at or below the node
		return hasPrefixPath(v.path, u.p)
	}
}

func explainsUncovered(u unfaithful, r replacement) bool {
	switch u.kind {
	case "possible-types":
		// the error for the bad __typename is reported at another path (a selected __typename below)
		for _, f := range r.offs {
			if samePath(f.path, u.p) && strings.HasPrefix(f.what, "typename-") {
				return true
			}
		}
		return false
	case "key-extra-in-plan":
		// the error is about the key the plan demands, which is no offender of j
		return hasPrefixPath(u.p, r.path)
	case "key-missing-in-plan", "key-duplicate-in-plan":
		return false
	default:
		return hasPrefixPath(r.path, u.p) || hasPrefixPath(u.p, r.path)
	}
}

// recognisePlanFinding maps one plan/operation disagreement to a recorded planner finding.
func recognisePlanFinding(u unfaithful) string {
	keyDiff := u.kind == "key-missing-in-plan" || u.kind == "key-extra-in-plan"
	switch {
	case keyDiff && u.typenameField && u.level.unionTypename():
		return findingUnionTypename
	case u.kind == "key-missing-in-plan" && u.absentTypename:
		return findingConcreteNoTypename
	case u.kind == "possible-types" && u.emptyPossible:
		return findingCopyPossible
	case keyDiff && u.lostGuard:
		return findingCopyPossible
	case keyDiff && u.multiParent && u.nestedListItem:
		return findingMergeNestedList
	case keyDiff && u.crossAbove && u.planParentConds:
		return findingMergeScalars
	case keyDiff && u.level.nestedAbstract > 0:
		return findingNestedAbstract
	}
	return ""
}

// rootReplacedVerdict: driver (ii) with a subgraph "data" that is not an object. The
// statement's clauses about positions below the root are applied with j := {} (every root
// field missing); data:null is always acceptable; the failure must be reported by >=1 error.
func rootReplacedVerdict(o *pbt.Rec, m *model, res result, out []byte, ctxt func() string) pbt.Verdict {
	var viol []string
	for _, v := range res.viol {
		if v.kind == "errors-on-well-typed" || (len(v.path) == 0 && (v.kind == "replaced-without-offender" || v.kind == "not-nearest-nullable")) {
			continue
		}
		viol = append(viol, v.msg)
	}
	if len(res.errs) == 0 {
		viol = append(viol, "subgraph data is not an object but no error is reported")
	}
	if res.dataNull {
		o.Label("out:data-null")
	}
	if len(viol) > 0 {
		return pbt.Bad("%s%s", strings.Join(viol, "\n  "), ctxt())
	}
	return pbt.OK
}

func clip400(s string) string {
	if len(s) > 600 {
		return s[:600] + "…"
	}
	return s
}

// ---- labels ---------------------------------------------------------------------------

func labelTree(o *pbt.Rec, st treeStats) {
	if st.onTypeNames > 0 {
		o.Label("tree:OnTypeNames")
	}
	if st.parentOnType > 0 {
		o.Label("tree:ParentOnTypeNames")
	}
	if st.abstractObjects > 0 {
		o.Label("tree:abstract-object")
	}
	switch {
	case st.nodes <= 5:
		o.Label("tree:nodes<=5")
	case st.nodes <= 20:
		o.Label("tree:nodes<=20")
	default:
		o.Label("tree:nodes>20")
	}
	o.Labelf("tree:depth=%d", st.depth)
	for _, k := range []string{"*resolve.StaticString", "*resolve.Scalar", "*resolve.BigInt", "*resolve.Enum"} {
		if st.kinds[k] > 0 {
			o.Label("tree:" + strings.TrimPrefix(k, "*resolve."))
		}
	}
}

func labelOp(o *pbt.Rec, m *model) {
	f := m.features()
	for _, k := range []string{"alias", "named-fragment", "inline-fragment", "typename", "same-key-twice"} {
		if f[k] {
			o.Label("op:" + k)
		}
	}
	if m.maxTypeConds() >= 2 {
		o.Label("op:abstract>=2conds")
	}
}

// labelOffenders labels the offender classes; returns whether a definite offender lies below
// depth 1.
func labelOffenders(o *pbt.Rec, offs []offender) (deep bool) {
	n := 0
	seen := map[string]bool{}
	lab := func(l string) {
		if !seen[l] {
			seen[l] = true
			o.Label(l)
		}
	}
	for _, f := range offs {
		if f.tolerated {
			lab("tolerated:" + f.what)
			continue
		}
		n++
		lab("off:kind:" + f.kind)
		lab("off:what:" + strings.SplitN(f.what, "<-", 2)[0])
		if f.what == "typename-not-a-possible-type" || f.what == "typename-field-invalid-name" {
			where := "object"
			tn := f.val
			if f.what == "typename-field-invalid-name" {
				where = "selected-field"
			} else {
				tn = f.val.get("__typename")
				if !f.inAbsSelf {
					lab("off:typename:concrete-position")
				}
			}
			if tn != nil && tn.k == jStr {
				switch {
				case tn.s == "":
					lab("off:typename:empty-string")
					if where == "object" && !f.inAbsSelf {
						lab("off:typename:empty-string:concrete-object")
					}
				case strings.TrimSpace(tn.s) == "" || strings.ContainsAny(tn.s, " \x00"):
					lab("off:typename:blank-or-padded:" + where)
				}
			}
		}
		if f.cell != "" && f.cell != "typename" {
			lab("cell:" + f.cell)
		}
		if f.cell == "typename" {
			lab("off:selected-typename-field")
		}
		if f.underList {
			lab("off:under-list")
		}
		if f.chain >= 2 {
			lab("off:nonnull-chain>=2")
		}
		if f.depth == 1 {
			lab("off:at-root-field")
		}
		if f.depth >= 2 {
			deep = true
			lab("off:depth>=2")
		}
		if f.depth >= 4 {
			lab("off:depth>=4")
		}
		if f.inAbs {
			lab("off:in-abstract")
		}
		if f.nna == "<data>" {
			lab("off:nearest-nullable-is-data")
		}
		if f.nnaInner {
			lab("off:nearest-nullable-is-inner-list")
		}
	}
	switch {
	case n == 0:
		o.Label("off:none")
	case n == 1:
		o.Label("off:1")
	default:
		o.Label("off:2+")
	}
	return deep
}

func labelResult(o *pbt.Rec, m *model, res result) {
	switch {
	case res.dataNull:
		o.Label("out:data-null")
	case len(res.repl) > 0:
		o.Label("out:partial-null")
	}
	if len(res.errs) == 0 {
		o.Label("out:no-errors")
	} else {
		o.Label("out:errors")
	}
	if res.orderDiff {
		o.Label("out:key-order-differs-from-selection")
	}
	if res.extraPaths > 0 {
		o.Label("out:error-path-not-an-offender-path")
	}
	for _, r := range res.repl {
		if len(r.path) == 0 {
			continue
		}
		_, isIdx := r.path[len(r.path)-1].(int)
		switch {
		case isIdx && len(r.path) >= 2 && isInt(r.path[len(r.path)-2]):
			o.Label("repl:nested-list-item")
		case isIdx:
			o.Label("repl:list-item")
		default:
			o.Label("repl:object-field")
		}
		nearest := false
		for _, f := range r.offs {
			if f.kind == "null" && f.nna == pathKey(r.path) {
				nearest = true
			}
		}
		if nearest {
			o.Label("repl:nearest-nullable-of-null-offender")
		}
	}
}

func isInt(x any) bool { _, ok := x.(int); return ok }

// features of the operation text as parsed (labels only).
func (m *model) features() map[string]bool {
	f := map[string]bool{}
	var walk func(set gast.SelectionSet)
	walk = func(set gast.SelectionSet) {
		keys := map[string]bool{}
		for _, sel := range set {
			switch x := sel.(type) {
			case *gast.Field:
				if x.Alias != "" && x.Alias != x.Name {
					f["alias"] = true
				}
				if x.Name == "__typename" {
					f["typename"] = true
				}
				k := x.Alias
				if k == "" {
					k = x.Name
				}
				if keys[k] {
					f["same-key-twice"] = true
				}
				keys[k] = true
				walk(x.SelectionSet)
			case *gast.InlineFragment:
				f["inline-fragment"] = true
				walk(x.SelectionSet)
			case *gast.FragmentSpread:
				f["named-fragment"] = true
			}
		}
	}
	walk(m.op.SelectionSet)
	for _, fr := range m.doc.Fragments {
		walk(fr.SelectionSet)
	}
	return f
}

// maxTypeConds: the largest number of distinct type conditions directly guarding the
// selections of one abstract-typed field.
func (m *model) maxTypeConds() int {
	best := 0
	var walk func(set gast.SelectionSet)
	walk = func(set gast.SelectionSet) {
		for _, sel := range set {
			switch x := sel.(type) {
			case *gast.Field:
				if x.Definition != nil && len(x.SelectionSet) > 0 {
					named := x.Definition.Type
					for named.Elem != nil {
						named = named.Elem
					}
					if def := m.s.Types[named.NamedType]; def != nil && def.IsAbstractType() {
						if n := m.countTypeConditions([]gast.SelectionSet{x.SelectionSet}, def.Name); n > best {
							best = n
						}
					}
				}
				walk(x.SelectionSet)
			case *gast.InlineFragment:
				walk(x.SelectionSet)
			}
		}
	}
	walk(m.op.SelectionSet)
	for _, fr := range m.doc.Fragments {
		walk(fr.SelectionSet)
	}
	return best
}
