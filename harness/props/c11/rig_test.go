package c11

// The engine-facing rig: hand-built plans over a fake DataSource, the harness playing the
// router (Request.ID, VariablesHash, SubgraphHeadersBuilder are all derived from the case's
// (operation, variables, headers) key), and a recording writer.

import (
	"context"
	"encoding/json"
	"fmt"
	"hash/fnv"
	"io"
	"net/http"
	"strconv"
	"strings"
	"sync"
	"time"

	"github.com/tidwall/gjson"
	"github.com/wundergraph/astjson"

	"github.com/wundergraph/graphql-go-tools/v2/pkg/ast"
	"github.com/wundergraph/graphql-go-tools/v2/pkg/engine/datasource/httpclient"
	"github.com/wundergraph/graphql-go-tools/v2/pkg/engine/resolve"
)

// Key is the de-duplication key as the router sees it: which upstream operation, which
// variables, which forwarded headers. Hdr 0 means "no headers builder at all".
type Key struct {
	Op  int `json:"op"`
	Var int `json:"var"`
	Hdr int `json:"hdr"`
}

func (k Key) String() string { return fmt.Sprintf("o%d.v%d.h%d", k.Op, k.Var, k.Hdr) }

const (
	layerInbound  = "inbound"  // whole-operation single flight only (subgraph de-dup disabled)
	layerSubgraph = "subgraph" // subgraph-request single flight only (inbound de-dup disabled)
	layerBoth     = "both"     // production default: both enabled
)

const (
	scNormal   = "normal"
	scCancel   = "cancel"    // the participant's own client context is cancelled at a scheduled point
	scDeadline = "deadline"  // the participant's own request deadline expires at a scheduled point (context.DeadlineExceeded)
	scFailLoad = "fail-load" // its DataSource.Load returns an upstream error (rendered into the body)
	scFailHard = "fail-hard" // its pre-fetch hook (rate limiter service) fails: a Go error from the resolve call
)

const payloadLen = 40

// sentinel is the distinct, fixed-length marker carried by the upstream payload of a key.
func sentinel(op, v int, hdr string) string {
	s := fmt.Sprintf("K[o%d.v%d.h%s]", op, v, hdr)
	if len(s) < payloadLen {
		s += strings.Repeat("x", payloadLen-len(s))
	}
	return s
}

func (k Key) sentinel() string { return sentinel(k.Op, k.Var, strconv.Itoa(k.Hdr)) }

// upstreamErr is the failure of the upstream work of one key.
type upstreamErr struct{ key string }

func (e *upstreamErr) Error() string { return "upstream failure for " + e.key }

// abortErr is how an "opaque" transport reports a call aborted by the end of the caller's own
// context: like a gRPC status error it does NOT wrap context.Canceled / DeadlineExceeded.
type abortErr struct {
	pid  int
	code string
}

func (e *abortErr) Error() string {
	return fmt.Sprintf("rpc error: code = %s desc = request of p%d aborted", e.code, e.pid)
}

// writeErr is the failure of one client's own connection while the response is written to it.
type writeErr struct{ pid int }

func (e *writeErr) Error() string {
	return fmt.Sprintf("write tcp (client of p%d): i/o timeout", e.pid)
}

// deadlineCtx is a request context whose own deadline "expires" when the harness says so:
// Done closes and Err is context.DeadlineExceeded (the inner context is a plain cancel context).
type deadlineCtx struct{ context.Context }

func (c deadlineCtx) Err() error {
	if c.Context.Err() != nil {
		return context.DeadlineExceeded
	}
	return nil
}

func (c deadlineCtx) Deadline() (time.Time, bool) { return time.Unix(1<<34, 0), true }

// requestContext builds the client context of one participant and the function that ends it.
func requestContext(script string) (context.Context, context.CancelFunc) {
	ctx, cancel := context.WithCancel(context.Background())
	if script == scDeadline {
		return deadlineCtx{ctx}, cancel
	}
	return ctx, cancel
}

// ended reports how the transport / hook answers a call whose context is over (nil: still live).
func (w *who) ended(ctx context.Context) error {
	err := ctx.Err()
	if err == nil {
		return nil
	}
	if w.opaque {
		code := "Canceled"
		if err == context.DeadlineExceeded {
			code = "DeadlineExceeded"
		}
		return &abortErr{w.pid, code}
	}
	return err
}

// who identifies the caller inside the fake DataSource / pre-fetch hook.
type who struct {
	pid        int
	script     string
	hardCancel bool
	opaque     bool    // the transport reports an ended context with an error that does not wrap it
	p          *pstate // nil outside a scheduled scenario
	s          *sched  // nil outside a scheduled scenario
	loads      *loadLog
	sharedGot  string // what SetDeduplicationData handed to this request (followers only)
	sharedSet  int
	spin       func() // stress mode: called inside Load to widen the overlap (never a correctness signal)
	poison     bool
}

type whoKey struct{}

func whoFrom(ctx context.Context) *who {
	w, _ := ctx.Value(whoKey{}).(*who)
	return w
}

// loadRec is one upstream call as observed by the fake DataSource.
type loadRec struct {
	Pid    int    `json:"pid"`
	Wire   string `json:"wire"`   // the key as reconstructed from the bytes and headers that reached the data source
	Result string `json:"result"` // ok | upstream-error | canceled
}

type loadLog struct {
	mu       sync.Mutex
	loads    []loadRec
	prefetch []loadRec
}

func (l *loadLog) addLoad(r loadRec) {
	l.mu.Lock()
	l.loads = append(l.loads, r)
	l.mu.Unlock()
}

func (l *loadLog) addPrefetch(r loadRec) {
	l.mu.Lock()
	l.prefetch = append(l.prefetch, r)
	l.mu.Unlock()
}

func (l *loadLog) snapshot() (loads, prefetch []loadRec) {
	l.mu.Lock()
	defer l.mu.Unlock()
	return append([]loadRec(nil), l.loads...), append([]loadRec(nil), l.prefetch...)
}

// wireKey reconstructs the key from what actually reached the data source.
func wireKey(headers http.Header, input []byte) (op, v int, hdr string, ok bool) {
	q := gjson.GetBytes(input, "body.query").String()
	i := strings.Index(q, "{f")
	if i < 0 {
		return 0, 0, "", false
	}
	j := i + 2
	for j < len(q) && q[j] >= '0' && q[j] <= '9' {
		j++
	}
	op, err := strconv.Atoi(q[i+2 : j])
	if err != nil {
		return 0, 0, "", false
	}
	vv := gjson.GetBytes(input, "body.variables.v")
	if !vv.Exists() {
		return 0, 0, "", false
	}
	hdr = headers.Get("X-Verif-H")
	if hdr == "" {
		hdr = "0"
	}
	return op, int(vv.Int()), hdr, true
}

// fakeDS is the upstream. Its answer is a function of the bytes and headers it receives only.
type fakeDS struct{}

func (fakeDS) Load(ctx context.Context, headers http.Header, input []byte) ([]byte, error) {
	w := whoFrom(ctx)
	op, v, hdr, ok := wireKey(headers, input)
	if !ok {
		return nil, fmt.Errorf("harness: unparsable fetch input %q", input)
	}
	wire := fmt.Sprintf("o%d.v%d.h%s", op, v, hdr)
	if w == nil {
		return []byte(`{"data":{"f":"` + sentinel(op, v, hdr) + `"}}`), nil
	}
	if w.poison {
		return []byte(`{"data":{"f":"` + strings.Repeat("Z", payloadLen) + `"}}`), nil
	}
	if w.s != nil {
		w.s.reach(w.p, ptLoad)
	}
	if w.spin != nil {
		w.spin()
	}
	if err := w.ended(ctx); err != nil {
		// what a real client does when the request context is gone (plain: the context error
		// itself; opaque: a status-style error that does not wrap it)
		w.loads.addLoad(loadRec{w.pid, wire, "canceled"})
		if w.s != nil {
			w.s.loadReturned(w.p, "canceled")
		}
		return nil, err
	}
	if w.script == scFailLoad {
		w.loads.addLoad(loadRec{w.pid, wire, "upstream-error"})
		if w.s != nil {
			w.s.loadReturned(w.p, "upstream-error")
		}
		return nil, &upstreamErr{wire}
	}
	w.loads.addLoad(loadRec{w.pid, wire, "ok"})
	if w.s != nil {
		w.s.loadReturned(w.p, "ok")
	}
	return []byte(`{"data":{"f":"` + sentinel(op, v, hdr) + `"}}`), nil
}

func (d fakeDS) LoadWithFiles(ctx context.Context, headers http.Header, input []byte, _ []*httpclient.FileUpload) ([]byte, error) {
	return d.Load(ctx, headers, input)
}

// preFetchHook is the router-side pre-fetch service (a rate limiter): the one place from which
// the resolve call itself fails with a Go error (FinishErr path of the inbound single flight).
type preFetchHook struct{}

func (preFetchHook) RateLimitPreFetch(ctx *resolve.Context, info *resolve.FetchInfo, input json.RawMessage) (*resolve.RateLimitDeny, error) {
	w := whoFrom(ctx.Context())
	if w == nil || w.poison {
		return nil, nil
	}
	var hs http.Header
	if ctx.SubgraphHeadersBuilder != nil {
		hs, _ = ctx.SubgraphHeadersBuilder.HeadersForSubgraph(info.DataSourceName)
	}
	op, v, hdr, _ := wireKey(hs, input)
	wire := fmt.Sprintf("o%d.v%d.h%s", op, v, hdr)
	if w.s != nil {
		w.s.reach(w.p, ptPrefetch)
	}
	if w.hardCancel {
		if err := w.ended(ctx.Context()); err != nil {
			w.loads.addPrefetch(loadRec{w.pid, wire, "canceled"})
			if w.s != nil {
				w.s.prefetchReturned(w.p, "canceled")
			}
			return nil, err
		}
	}
	if w.script == scFailHard {
		w.loads.addPrefetch(loadRec{w.pid, wire, "upstream-error"})
		if w.s != nil {
			w.s.prefetchReturned(w.p, "upstream-error")
		}
		return nil, &upstreamErr{wire}
	}
	w.loads.addPrefetch(loadRec{w.pid, wire, "ok"})
	if w.s != nil {
		w.s.prefetchReturned(w.p, "ok")
	}
	return nil, nil
}

func (preFetchHook) RenderResponseExtension(*resolve.Context, io.Writer) error { return nil }

// subgraphNames are the subgraphs a plan can list in GraphQLResponse.DataSources; the one
// fetch of every plan goes to the first.
var subgraphNames = []string{"sub", "sub2", "sub3", "sub4"}

func subgraphIndex(name string) int {
	for i, n := range subgraphNames {
		if n == name {
			return i
		}
	}
	return 0
}

// headersBuilder is what the router derives from the forwarded client headers. hdr (1..3) is
// the client's header set. Mode "" (uniform): every subgraph receives the same set ("propagate
// Authorization to all"), so the per-subgraph hashes are equal across subgraphs. Mode "rotate":
// subgraph i receives set ((hdr-1+i) mod 3)+1, so the per-subgraph hashes differ across
// subgraphs and different clients send the same multiset of sets to the first three subgraphs.
type headersBuilder struct {
	hdr  int
	mode string
}

func (b headersBuilder) setFor(name string) int {
	if b.mode == "rotate" {
		return (b.hdr-1+subgraphIndex(name))%3 + 1
	}
	return b.hdr
}

func hash64(s string) uint64 {
	h := fnv.New64a()
	h.Write([]byte(s))
	x := h.Sum64()
	if x == 0 {
		x = 1
	}
	return x
}

func (b headersBuilder) HeadersForSubgraph(name string) (http.Header, uint64) {
	v := strconv.Itoa(b.setFor(name))
	return http.Header{"X-Verif-H": []string{v}}, hash64("hdr:" + v)
}

func (b headersBuilder) HashAll() uint64 { return hash64("all:" + b.mode + ":" + strconv.Itoa(b.hdr)) }

func opTypeOf(s string) ast.OperationType {
	switch s {
	case "mutation":
		return ast.OperationTypeMutation
	case "subscription":
		return ast.OperationTypeSubscription
	}
	return ast.OperationTypeQuery
}

// clientOp is what the client sent: upstream operation Op rendered in one of two client
// shapes (Alt). Two client operations with the same Op issue the identical subgraph fetch.
func clientOpID(op int, alt bool) int {
	if alt {
		return op*2 + 1
	}
	return op * 2
}

// buildPlan is the (cached, shared between requests) plan of one client operation.
func buildPlan(op int, alt bool, opType string, nDS int) *resolve.GraphQLResponse {
	pre := fmt.Sprintf(`{"method":"POST","url":"http://sub.test","body":{"query":"query($v:Int){f%d(v:$v)}","variables":{"v":`, op)
	post := `}}}`
	fetch := &resolve.SingleFetch{
		FetchConfiguration: resolve.FetchConfiguration{
			DataSource: fakeDS{},
			Input:      pre + "$$0$$" + post,
			Variables:  resolve.NewVariables(&resolve.ContextVariable{Path: []string{"v"}, Renderer: resolve.NewPlainVariableRenderer()}),
			PostProcessing: resolve.PostProcessingConfiguration{
				SelectResponseDataPath:   []string{"data"},
				SelectResponseErrorsPath: []string{"errors"},
			},
		},
		InputTemplate: resolve.InputTemplate{Segments: []resolve.TemplateSegment{
			{SegmentType: resolve.StaticSegmentType, Data: []byte(pre)},
			{SegmentType: resolve.VariableSegmentType, VariableKind: resolve.ContextVariableKind, VariableSourcePath: []string{"v"}, Renderer: resolve.NewPlainVariableRenderer()},
			{SegmentType: resolve.StaticSegmentType, Data: []byte(post)},
		}},
		DataSourceIdentifier: []byte("fake"),
		Info: &resolve.FetchInfo{
			DataSourceID:   "ds-sub",
			DataSourceName: "sub",
			RootFields:     []resolve.GraphCoordinate{{TypeName: "Query", FieldName: fmt.Sprintf("f%d", op)}},
			OperationType:  opTypeOf(opType),
		},
	}
	fields := []*resolve.Field{{Name: []byte("f"), Value: &resolve.String{Path: []string{"f"}, Nullable: true}}}
	if alt {
		fields = []*resolve.Field{
			{Name: []byte("alias"), Value: &resolve.String{Path: []string{"f"}, Nullable: true}},
			{Name: []byte("f"), Value: &resolve.String{Path: []string{"f"}, Nullable: true}},
		}
	}
	// what postprocess.CollectDataSourceInfo() leaves on the plan: the subgraphs the operation
	// talks to (the fetched one first; the others stand for further fetches of the operation)
	var dss []resolve.DataSourceInfo
	for i := 0; i < nDS && i < len(subgraphNames); i++ {
		dss = append(dss, resolve.DataSourceInfo{ID: "ds-" + subgraphNames[i], Name: subgraphNames[i]})
	}
	return &resolve.GraphQLResponse{
		Fetches:     resolve.SingleWithPath(fetch, "query"),
		Data:        &resolve.Object{Nullable: true, Fields: fields},
		Info:        &resolve.GraphQLResponseInfo{OperationType: opTypeOf(opType)},
		DataSources: dss,
	}
}

// rig is one resolver plus the (cached, immutable) plans of the client operations.
type rig struct {
	resolver *resolve.Resolver
	stop     context.CancelFunc
	mu       sync.Mutex
	plans    map[string]*resolve.GraphQLResponse
	uses     int
	maxConc  int
}

func newRig(maxConc int) *rig {
	if maxConc <= 0 {
		maxConc = 64
	}
	ctx, cancel := context.WithCancel(context.Background())
	return &rig{
		resolver: resolve.New(ctx, resolve.ResolverOptions{MaxConcurrency: maxConc, PropagateSubgraphErrors: true}),
		stop:     cancel,
		plans:    map[string]*resolve.GraphQLResponse{},
		maxConc:  maxConc,
	}
}

var (
	sharedMu   sync.Mutex
	sharedRigs = map[int]*rig{}
)

// acquireRig hands out the process-wide resolver for one MaxConcurrency setting (recreated every
// few hundred scenarios and after every scenario that did not end cleanly). Sharing it between
// scenarios keeps the arena pools warm, so buffers really are recycled between and during scenarios.
func acquireRig(maxConc int) *rig {
	if maxConc <= 0 {
		maxConc = 64
	}
	sharedMu.Lock()
	defer sharedMu.Unlock()
	r := sharedRigs[maxConc]
	if r != nil && r.uses >= 400 {
		r.stop()
		r = nil
	}
	if r == nil {
		r = newRig(maxConc)
		sharedRigs[maxConc] = r
	}
	r.uses++
	return r
}

// discardRig drops the shared resolver (after a violation, a wedge or a watchdog expiry).
func discardRig(r *rig) {
	sharedMu.Lock()
	defer sharedMu.Unlock()
	r.stop()
	if sharedRigs[r.maxConc] == r {
		delete(sharedRigs, r.maxConc)
	}
}

func (r *rig) plan(op int, alt bool, opType string, nDS int) *resolve.GraphQLResponse {
	id := fmt.Sprintf("%d/%s/%d", clientOpID(op, alt), opType, nDS)
	r.mu.Lock()
	defer r.mu.Unlock()
	if p, ok := r.plans[id]; ok {
		return p
	}
	p := buildPlan(op, alt, opType, nDS)
	r.plans[id] = p
	return p
}

// request builds the resolve.Context exactly as a router would for (client operation, key).
func (r *rig) request(ctx context.Context, layer, opType, hdrMode string, k Key, alt bool, w *who) *resolve.Context {
	ctx = context.WithValue(ctx, whoKey{}, w)
	rc := resolve.NewContext(ctx)
	rc.Request.ID = hash64(fmt.Sprintf("op:%d:%s", clientOpID(k.Op, alt), opType))
	rc.Variables = astjson.MustParseBytes([]byte(fmt.Sprintf(`{"v":%d}`, k.Var)))
	rc.VariablesHash = hash64(fmt.Sprintf("vars:%d", k.Var))
	if k.Hdr != 0 {
		rc.SubgraphHeadersBuilder = headersBuilder{k.Hdr, hdrMode}
	}
	rc.RateLimitOptions.Enable = true
	rc.SetRateLimiter(preFetchHook{})
	switch layer {
	case layerInbound:
		rc.ExecutionOptions.DisableSubgraphRequestDeduplication = true
	case layerSubgraph:
		rc.ExecutionOptions.DisableInboundRequestDeduplication = true
	}
	if w != nil && w.poison {
		rc.ExecutionOptions.DisableSubgraphRequestDeduplication = true
		rc.ExecutionOptions.DisableInboundRequestDeduplication = true
	}
	if w != nil && !w.poison {
		// the router's leader→follower side channel (response header propagation state)
		resolve.SetDeduplicationCallbacks(rc,
			func(context.Context) string { return "shared:" + k.String() },
			func(_ context.Context, v string) { w.sharedGot = v; w.sharedSet++ })
	}
	return rc
}

// outcome is what one participant observed.
type outcome struct {
	Returned  bool   `json:"returned"`
	Panic     string `json:"panic,omitempty"`
	Stack     string `json:"-"`
	Out       string `json:"out"` // what the engine handed to the client's writer
	Delivered string `json:"-"`   // what the writer accepted (empty when the client's connection failed)
	Err       string `json:"err,omitempty"`
	err       error
	Dedup     bool `json:"dedup"`
	subErr    error
}

// alone runs one request on a fresh resolver with nothing else in flight.
func alone(layer, opType string, k Key, alt bool, script string) outcome {
	r := newRig(0)
	defer r.stop()
	w := &who{pid: -1, script: script, loads: &loadLog{}}
	rc := r.request(context.Background(), layer, opType, "", k, alt, w)
	var out strings.Builder
	info, err := r.resolver.ArenaResolveGraphQLResponse(rc, r.plan(k.Op, alt, opType, 0), &out)
	o := outcome{Returned: true, Out: out.String(), err: err}
	if err != nil {
		o.Err = err.Error()
	}
	if info != nil {
		o.Dedup = info.ResolveDeduplicated
	}
	return o
}

type aloneKey struct {
	layer, opType string
	k             Key
	alt           bool
	script        string
}

var (
	aloneMu    sync.Mutex
	aloneCache = map[aloneKey]outcome{}
)

// outAlone is out_alone(r): deterministic, so cached for the process lifetime.
func outAlone(layer, opType string, k Key, alt bool, script string) outcome {
	ak := aloneKey{layer, opType, k, alt, script}
	aloneMu.Lock()
	o, ok := aloneCache[ak]
	aloneMu.Unlock()
	if ok {
		return o
	}
	o = alone(layer, opType, k, alt, script)
	aloneMu.Lock()
	aloneCache[ak] = o
	aloneMu.Unlock()
	return o
}

// expectOK is the hand-computed success body (cross-check of out_alone; a mismatch is a harness bug).
func expectOK(k Key, alt bool) string {
	if alt {
		return `{"data":{"alias":"` + k.sentinel() + `","f":"` + k.sentinel() + `"}}`
	}
	return `{"data":{"f":"` + k.sentinel() + `"}}`
}
