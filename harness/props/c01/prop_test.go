package c01

import (
	"encoding/json"
	"testing"

	"verif/harness/pbt"
)

func TestProp(t *testing.T) {
	r := pbt.Start(t, "C01")
	defer r.Finish()
	r.Rule("F-gen federation layouts x generated operations x variables x universe seeds through ExecutionEngine.Execute with simulated subgraphs; non-trivial = the gateway issued >= 2 subgraph requests; distinct by (layout, operation, variables, seed)")
	r.Assume("gqlparser v2.5.30 validates operations and subgraph requests", "the reference executor (harness/internal/ref) implements spec section 6 execution", "F-gen layouts are satisfiable by construction (DESIGN 3.3)")
	r.Regress(dispatch())
	r.RunProbes(probes())
	fedPart.Run(r)
}

func TestReplay(t *testing.T) { pbt.StdReplay(t, "C01", dispatch()) }

func dispatch() pbt.Dispatch {
	return pbt.Dispatch{}.Add(fedPart.Name, fedPart.Handler()).WithProbes(probes())
}

func probes() pbt.Probes {
	return pbt.KnownCaseProbes("known", func(part string, raw json.RawMessage) pbt.Verdict { return fedPart.CheckRaw(raw) })
}

func TestMinimize(t *testing.T) {
	pbt.StdMinimize(t, "C01", pbt.Minimizers{fedPart.Name: minimizeFed})
}
