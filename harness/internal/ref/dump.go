package ref

import (
	"fmt"
	"reflect"
	"sort"
	"strings"
)

// Dump renders any Go value deterministically without pointer addresses: pointers are
// followed, maps are sorted by key, funcs and channels are named only, unexported fields
// are included (they decide behaviour too), depth is bounded (cycles).
func Dump(v any) string {
	var sb strings.Builder
	dump(&sb, reflect.ValueOf(v), 0, map[uintptr]bool{})
	return sb.String()
}

func dump(sb *strings.Builder, v reflect.Value, depth int, seen map[uintptr]bool) {
	if !v.IsValid() {
		sb.WriteString("nil")
		return
	}
	if depth > 14 {
		sb.WriteString("…")
		return
	}
	switch v.Kind() {
	case reflect.Ptr:
		if v.IsNil() {
			sb.WriteString("nil")
			return
		}
		p := v.Pointer()
		if seen[p] {
			sb.WriteString("<cycle>")
			return
		}
		seen[p] = true
		sb.WriteString("&")
		dump(sb, v.Elem(), depth+1, seen)
		delete(seen, p)
	case reflect.Interface:
		if v.IsNil() {
			sb.WriteString("nil")
			return
		}
		sb.WriteString(v.Elem().Type().String())
		sb.WriteString(":")
		dump(sb, v.Elem(), depth+1, seen)
	case reflect.Struct:
		sb.WriteString("{")
		t := v.Type()
		for i := 0; i < v.NumField(); i++ {
			if i > 0 {
				sb.WriteString(" ")
			}
			sb.WriteString(t.Field(i).Name)
			sb.WriteString(":")
			if t.Field(i).Name == "DataSource" || t.Field(i).Name == "Trace" {
				// runtime instances (http client, transport, logs): not part of the plan
				sb.WriteString("-")
				continue
			}
			dump(sb, v.Field(i), depth+1, seen)
		}
		sb.WriteString("}")
	case reflect.Slice, reflect.Array:
		if v.Kind() == reflect.Slice && v.IsNil() {
			sb.WriteString("[]")
			return
		}
		if v.Type().Elem().Kind() == reflect.Uint8 {
			b := make([]byte, v.Len())
			for i := range b {
				b[i] = byte(v.Index(i).Uint())
			}
			fmt.Fprintf(sb, "%q", b)
			return
		}
		sb.WriteString("[")
		for i := 0; i < v.Len(); i++ {
			if i > 0 {
				sb.WriteString(" ")
			}
			dump(sb, v.Index(i), depth+1, seen)
		}
		sb.WriteString("]")
	case reflect.Map:
		keys := v.MapKeys()
		strs := make([]string, len(keys))
		for i, k := range keys {
			var kb strings.Builder
			dump(&kb, k, depth+1, seen)
			strs[i] = kb.String()
		}
		idx := make([]int, len(keys))
		for i := range idx {
			idx[i] = i
		}
		sort.Slice(idx, func(a, b int) bool { return strs[idx[a]] < strs[idx[b]] })
		sb.WriteString("map[")
		for n, i := range idx {
			if n > 0 {
				sb.WriteString(" ")
			}
			sb.WriteString(strs[i])
			sb.WriteString(":")
			dump(sb, v.MapIndex(keys[i]), depth+1, seen)
		}
		sb.WriteString("]")
	case reflect.Func:
		if v.IsNil() {
			sb.WriteString("nil-func")
		} else {
			sb.WriteString("func")
		}
	case reflect.Chan, reflect.UnsafePointer:
		sb.WriteString(v.Kind().String())
	case reflect.String:
		fmt.Fprintf(sb, "%q", v.String())
	case reflect.Bool:
		fmt.Fprintf(sb, "%v", v.Bool())
	case reflect.Int, reflect.Int8, reflect.Int16, reflect.Int32, reflect.Int64:
		fmt.Fprintf(sb, "%d", v.Int())
	case reflect.Uint, reflect.Uint8, reflect.Uint16, reflect.Uint32, reflect.Uint64, reflect.Uintptr:
		fmt.Fprintf(sb, "%d", v.Uint())
	case reflect.Float32, reflect.Float64:
		fmt.Fprintf(sb, "%v", v.Float())
	default:
		fmt.Fprintf(sb, "<%s>", v.Kind())
	}
}
