package c03

import (
	"bytes"
	"encoding/json"
	"fmt"
	"os"
	"strings"

	"github.com/vektah/gqlparser/v2"
	"github.com/vektah/gqlparser/v2/ast"
	"github.com/vektah/gqlparser/v2/formatter"
	"pgregory.net/rapid"

	"github.com/wundergraph/graphql-go-tools/execution/graphql"

	"verif/harness/internal/fedgen"
	"verif/harness/internal/opgen"
	"verif/harness/internal/opshrink"
	"verif/harness/internal/ref"
	"verif/harness/internal/sim"
	"verif/harness/pbt"
)

// canonCase is a pair of operations related by one meaning-preserving rewrite.
type canonCase struct {
	Super   string   `json:"super"`
	Op1     opgen.Op `json:"op1"`
	Rewrite string   `json:"rewrite"`
	A       int      `json:"a"` // which selection set / argument (modulo what exists)
	B       int      `json:"b"` // which selection / variant
}

var canonPart = pbt.Part[canonCase]{Name: "norm-canonical-form", Quick: 8000, Thorough: 160000, Gen: genCanon, Check: checkCanon}

func format(doc *ast.QueryDocument) string {
	var b bytes.Buffer
	formatter.NewFormatter(&b, formatter.WithIndent(" ")).FormatQueryDocument(doc)
	return strings.Join(strings.Fields(b.String()), " ")
}

type setRef struct {
	set *ast.SelectionSet
	typ string
}

// typedSets lists every selection set with the type it selects on.
func typedSets(s *ast.Schema, doc *ast.QueryDocument) []setRef {
	var out []setRef
	var walk func(set *ast.SelectionSet, typ string)
	walk = func(set *ast.SelectionSet, typ string) {
		out = append(out, setRef{set, typ})
		for _, sel := range *set {
			switch x := sel.(type) {
			case *ast.Field:
				if len(x.SelectionSet) > 0 && x.Definition != nil {
					walk(&x.SelectionSet, x.Definition.Type.Name())
				}
			case *ast.InlineFragment:
				t := x.TypeCondition
				if t == "" {
					t = typ
				}
				walk(&x.SelectionSet, t)
			}
		}
	}
	for _, o := range doc.Operations {
		root := s.Query
		if o.Operation == ast.Mutation {
			root = s.Mutation
		}
		walk(&o.SelectionSet, root.Name)
	}
	for _, f := range doc.Fragments {
		walk(&f.SelectionSet, f.TypeCondition)
	}
	return out
}

func litJSON(v *ast.Value) (any, bool) {
	switch v.Kind {
	case ast.Variable:
		return nil, false
	case ast.IntValue, ast.FloatValue:
		return json.Number(v.Raw), true
	case ast.StringValue, ast.BlockValue, ast.EnumValue:
		return v.Raw, true
	case ast.BooleanValue:
		return v.Raw == "true", true
	case ast.NullValue:
		return nil, true
	case ast.ListValue:
		out := make([]any, 0, len(v.Children))
		for _, c := range v.Children {
			x, ok := litJSON(c.Value)
			if !ok {
				return nil, false
			}
			out = append(out, x)
		}
		return out, true
	case ast.ObjectValue:
		out := map[string]any{}
		for _, c := range v.Children {
			x, ok := litJSON(c.Value)
			if !ok {
				return nil, false
			}
			out[c.Name] = x
		}
		return out, true
	}
	return nil, false
}

func renameVarsInValue(v *ast.Value, suffix string) {
	if v == nil {
		return
	}
	if v.Kind == ast.Variable {
		v.Raw += suffix
	}
	for _, c := range v.Children {
		renameVarsInValue(c.Value, suffix)
	}
}

func genCanon(t *rapid.T) canonCase {
	l := fedgen.Gen(t, fedgen.Options{MaxSubs: 2})
	super, err := sim.LoadSuper(l.Super)
	if err != nil {
		t.Fatalf("generator produced an invalid schema: %v", err)
	}
	al := allow()
	if !strings.Contains(os.Getenv("C03_ALLOW"), "fragment-in-abstract-fragment") {
		// fragment structure inside fragments on abstract types is not canonicalised
		// (finding C03-nested-abstract-fragments-not-canonical): keep it out of this part
		delete(al, "fragment-in-abstract-fragment")
	}
	op := opgen.Gen(t, super, opgen.Options{Mutations: true, NoVarInObject: true, Allow: al})
	return canonCase{Super: l.Super, Op1: op,
		Rewrite: rapid.SampledFrom([]string{"rename-vars", "wrap-inline", "wrap-named", "dup-selection", "lit-to-var"}).Draw(t, "rewrite"),
		A:       rapid.IntRange(0, 40).Draw(t, "a"), B: rapid.IntRange(0, 7).Draw(t, "b")}
}

// applyRewrite derives the related operation deterministically; ok=false when the rewrite
// does not apply.
func applyRewrite(super *ast.Schema, op opgen.Op, kind string, a, b int) (opgen.Op, bool) {
	doc, errs := gqlparser.LoadQuery(super, op.Query)
	if errs != nil {
		return op, false
	}
	vars2 := map[string]any{}
	for k, v := range op.Variables {
		vars2[k] = v
	}
	sets := typedSets(super, doc)
	switch kind {
	case "rename-vars":
		var walk func(set ast.SelectionSet)
		walkDirs := func(ds ast.DirectiveList) {
			for _, d := range ds {
				for _, a := range d.Arguments {
					renameVarsInValue(a.Value, "_r")
				}
			}
		}
		walk = func(set ast.SelectionSet) {
			for _, s := range set {
				switch x := s.(type) {
				case *ast.Field:
					for _, a := range x.Arguments {
						renameVarsInValue(a.Value, "_r")
					}
					walkDirs(x.Directives)
					walk(x.SelectionSet)
				case *ast.InlineFragment:
					walkDirs(x.Directives)
					walk(x.SelectionSet)
				case *ast.FragmentSpread:
					walkDirs(x.Directives)
				}
			}
		}
		n := 0
		for _, o := range doc.Operations {
			for _, vd := range o.VariableDefinitions {
				vd.Variable += "_r"
				n++
			}
			walk(o.SelectionSet)
		}
		for _, f := range doc.Fragments {
			walk(f.SelectionSet)
		}
		if n == 0 {
			return op, false
		}
		vars2 = map[string]any{}
		for k, v := range op.Variables {
			vars2[k+"_r"] = v
		}
	case "wrap-inline", "wrap-named":
		sr := sets[a%len(sets)]
		// wrapping the body of a selection set of abstract type builds the fragment-inside-an-
		// abstract-fragment structure this part keeps out (finding
		// C03-nested-abstract-fragments-not-canonical: also the order of the merged fields then
		// depends on the wrapping)
		if td := super.Types[sr.typ]; td != nil && (td.Kind == ast.Interface || td.Kind == ast.Union) && !strings.Contains(os.Getenv("C03_ALLOW"), "fragment-in-abstract-fragment") {
			return op, false
		}
		content := append(ast.SelectionSet{}, (*sr.set)...)
		if kind == "wrap-inline" {
			cond := sr.typ
			if b%2 == 1 {
				cond = ""
			}
			*sr.set = ast.SelectionSet{&ast.InlineFragment{TypeCondition: cond, SelectionSet: content}}
		} else {
			doc.Fragments = append(doc.Fragments, &ast.FragmentDefinition{Name: "RW", TypeCondition: sr.typ, SelectionSet: content})
			*sr.set = ast.SelectionSet{&ast.FragmentSpread{Name: "RW"}}
		}
	case "dup-selection":
		sr := sets[a%len(sets)]
		i := b % len(*sr.set)
		*sr.set = append(*sr.set, (*sr.set)[i])
	case "lit-to-var":
		type cand struct {
			arg *ast.Argument
			typ *ast.Type
		}
		var cands []cand
		for _, sr := range sets {
			for _, sel := range *sr.set {
				if f, ok := sel.(*ast.Field); ok && f.Definition != nil {
					for _, a := range f.Arguments {
						ad := f.Definition.Arguments.ForName(a.Name)
						if ad == nil || a.Value.Kind == ast.Variable {
							continue
						}
						if _, ok := litJSON(a.Value); !ok {
							continue
						}
						cands = append(cands, cand{a, ad.Type})
					}
				}
			}
		}
		// extraction shares one variable between equal literals, so only a literal whose
		// (type, value) occurs once can be compared with its single-use-variable form
		occ := map[string]int{}
		for _, cd := range cands {
			occ[cd.typ.String()+"|"+format(&ast.QueryDocument{Operations: ast.OperationList{{Operation: ast.Query, SelectionSet: ast.SelectionSet{&ast.Field{Name: "x", Alias: "x", Arguments: ast.ArgumentList{{Name: "a", Value: cd.arg.Value}}}}}}})]++
		}
		var uniq []cand
		for _, cd := range cands {
			if occ[cd.typ.String()+"|"+format(&ast.QueryDocument{Operations: ast.OperationList{{Operation: ast.Query, SelectionSet: ast.SelectionSet{&ast.Field{Name: "x", Alias: "x", Arguments: ast.ArgumentList{{Name: "a", Value: cd.arg.Value}}}}}}})] == 1 {
				uniq = append(uniq, cd)
			}
		}
		cands = uniq
		if len(cands) == 0 || len(doc.Operations) != 1 {
			return op, false
		}
		cd := cands[a%len(cands)]
		val, _ := litJSON(cd.arg.Value)
		doc.Operations[0].VariableDefinitions = append(doc.Operations[0].VariableDefinitions, &ast.VariableDefinition{Variable: "lv", Type: cd.typ})
		cd.arg.Value = &ast.Value{Kind: ast.Variable, Raw: "lv"}
		vars2["lv"] = val
	default:
		return op, false
	}
	op2 := opgen.Op{Query: format(doc), OperationName: op.OperationName}
	if len(vars2) > 0 {
		op2.Variables = vars2
	}
	return op2, true
}

func coerced(super *ast.Schema, n *normalized) (string, error) {
	doc, errs := gqlparser.LoadQuery(super, n.Print)
	if errs != nil {
		return "", errs
	}
	raw := ref.Plain(n.CanonVars()).(map[string]any)
	v, err := ref.CoerceVariables(super, doc.Operations[0], raw)
	if err != nil {
		return "", err
	}
	return ref.Canon(v), nil
}

func checkCanon(c canonCase, o *pbt.Rec) pbt.Verdict {
	l := &fedgen.Layout{Super: c.Super}
	w, err := sim.NewWorld(l, 1)
	if err != nil {
		return pbt.Bad("schema load: %v", err)
	}
	op2, ok := applyRewrite(w.Super, c.Op1, c.Rewrite, c.A, c.B)
	if !ok {
		o.Discard("no-rewrite-applicable")
		return pbt.OK
	}
	r1, err1 := w.Reference(c.Op1)
	r2, err2 := w.Reference(op2)
	if err1 != nil || err2 != nil {
		o.Discard("pair-not-valid-for-gqlparser")
		return pbt.OK
	}
	if !ref.Equal(ref.Plain(r1.Data), ref.Plain(r2.Data)) {
		// the rewrite itself is not meaning preserving: harness defect, never alarm
		o.Discard("rewrite-not-meaning-preserving")
		return pbt.OK
	}
	schema, err := graphql.NewSchemaFromString(c.Super)
	if err != nil {
		return pbt.Bad("schema rejected: %v", err)
	}
	n1, _, e1 := normalize(schema, c.Op1)
	n2, _, e2 := normalize(schema, op2)
	if e1 != nil || e2 != nil {
		o.Discard("normalization-failed(reported-by-semantic-part)")
		return pbt.OK
	}
	ctx := fmt.Sprintf("\nrewrite: %s\nq1: %s  vars %s\nq2: %s  vars %s\nn1: %s  vars %s\nn2: %s  vars %s", c.Rewrite, c.Op1.Query, c.Op1.VarsJSON(), op2.Query, op2.VarsJSON(), n1.Print, ref.Canon(n1.CanonVars()), n2.Print, ref.Canon(n2.CanonVars()))
	if n1.Print != n2.Print {
		return pbt.Bad("operations related by %s do not reach the same printed form%s", c.Rewrite, ctx)
	}
	cv1, ce1 := coerced(w.Super, n1)
	cv2, ce2 := coerced(w.Super, n2)
	if ce1 == nil && ce2 == nil && cv1 != cv2 {
		return pbt.Bad("operations related by %s reach the same print but their canonical variables denote different values: %s vs %s%s", c.Rewrite, cv1, cv2, ctx)
	}
	o.Label("rewrite:" + c.Rewrite)
	if squash(n1.Print) != squash(c.Op1.Query) {
		o.NonTrivial(c.Super + "\x00" + c.Op1.Query + "\x00" + c.Rewrite + "\x00" + op2.Query)
	}
	return pbt.OK
}

// minimizeCanon shrinks the first operation while some (a, b) choice of the same rewrite
// still fails in the same way.
func minimizeCanon(raw json.RawMessage) (any, string) {
	var c canonCase
	if err := json.Unmarshal(raw, &c); err != nil {
		return nil, ""
	}
	v0 := checkCanon(c, pbt.NewRec())
	if v0.Msg == "" {
		return nil, ""
	}
	class := strings.SplitN(v0.Msg, "\n", 2)[0]
	best := c
	small := opshrink.Minimize(c.Op1, 400, func(cand opgen.Op) bool {
		for a := 0; a < 14; a++ {
			for b := 0; b < 3; b++ {
				cc := canonCase{Super: c.Super, Op1: cand, Rewrite: c.Rewrite, A: a, B: b}
				if v := checkCanon(cc, pbt.NewRec()); v.Msg != "" && strings.SplitN(v.Msg, "\n", 2)[0] == class {
					best = cc
					return true
				}
			}
		}
		return false
	})
	_ = small
	v := checkCanon(best, pbt.NewRec())
	if v.Msg == "" {
		return nil, ""
	}
	return best, v.Msg
}
