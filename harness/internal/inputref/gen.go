package inputref

import (
	"fmt"
	"strings"

	"pgregory.net/rapid"
)

// Type-directed generators. All randomness comes from rapid draws.

// Gen is the generation context.
type Gen struct {
	T     *rapid.T
	S     *Schema
	Fancy bool     // exotic spellings of strings/numbers (C15)
	Vars  []GenVar // variables created while generating literals
	// below > 0 while a default for a field of input In<below-1> is generated: objects of
	// inputs with index < below are not generated (no default cycles).
	below int
	// NoSingle suppresses the single-value-for-a-list spelling of literals.
	NoSingle bool
}

func (g *Gen) backRef(t *Type) bool {
	if g.below == 0 || g.S.KindOf(t.Base()) != KindInput {
		return false
	}
	var j int
	fmt.Sscanf(t.Base(), "In%d", &j)
	return j < g.below
}

// GenVar is a variable created for a literal position.
type GenVar struct {
	Decl  VarDecl
	Value *Value // nil: the client omits the variable
}

func (g *Gen) n(lo, hi int, label string) int { return rapid.IntRange(lo, hi).Draw(g.T, label) }
func (g *Gen) p(num, den int, label string) bool {
	return rapid.IntRange(0, den-1).Draw(g.T, label) < num
}

// rare is true with a probability of roughly 0.4/den: rapid's integers are biased towards
// the ends of a range, so a rare event is keyed to the middle of the range.
func (g *Gen) rare(den int, label string) bool {
	return rapid.IntRange(0, den-1).Draw(g.T, label) == den/2
}

// Rare is rare for callers outside the package.
func (g *Gen) Rare(den int, label string) bool { return g.rare(den, label) }

func pick[X any](g *Gen, xs []X, label string) X {
	return xs[rapid.IntRange(0, len(xs)-1).Draw(g.T, label)]
}

var (
	fieldNamePool = []string{"a", "b", "c", "d", "e", "f", "g", "h", "type", "on", "id", "x1", "_u"}
	enumValuePool = []string{"RED", "GREEN", "BLUE", "red", "Mixed_1", "A", "B2", "_X"}
)

// GenSchema draws input types: enums, custom scalars, 1–4 input objects (nested, recursive
// through nullable or list fields, defaults, @oneOf). Echo fields are added by the caller.
func GenSchema(t *rapid.T) *Schema {
	g := &Gen{T: t, S: &Schema{Scalars: []string{"JSON"}}}
	s := g.S
	for i, ne := 0, g.n(1, 2, "enums"); i < ne; i++ {
		nv := g.n(2, 4, "enumvalues")
		start := g.n(0, len(enumValuePool)-1, "enumstart")
		e := Enum{Name: fmt.Sprintf("E%d", i)}
		for k := 0; k < nv; k++ {
			e.Values = append(e.Values, enumValuePool[(start+k)%len(enumValuePool)])
		}
		s.Enums = append(s.Enums, e)
	}
	// A single value as the default of a list-typed input field is spec-valid but trips a
	// recorded defect on every use of the type; keep it rare.
	g.NoSingle = !g.rare(10, "allow-singleton-list-default")
	ni := g.n(1, 4, "inputs")
	for i := 0; i < ni; i++ {
		s.Inputs = append(s.Inputs, Input{Name: fmt.Sprintf("In%d", i)})
	}
	// Fields are drawn from the last type to the first so that defaults of forward
	// references can be generated against complete types.
	for i := ni - 1; i >= 0; i-- {
		in := &s.Inputs[i]
		in.OneOf = g.p(1, 5, "oneof")
		nf := g.n(1, 5, "fields")
		if in.OneOf {
			nf = g.n(2, 3, "oneoffields")
		}
		start := g.n(0, len(fieldNamePool)-1, "fieldstart")
		for k := 0; k < nf; k++ {
			f := Field{Name: fieldNamePool[(start+k*3)%len(fieldNamePool)]}
			for in.Field(f.Name) != nil {
				f.Name += "_"
			}
			t := g.genFieldType(i, ni)
			if in.OneOf && k == 0 {
				t = &Type{Name: pick(g, []string{"Int", "String"}, "oneoffirst")}
			}
			back := false
			if s.KindOf(t.Base()) == KindInput {
				var j int
				fmt.Sscanf(t.Base(), "In%d", &j)
				back = j <= i
			}
			if in.OneOf {
				t.NonNull = false
			}
			if back && t.Elem == nil {
				t.NonNull = false
			}
			f.Type = t.String()
			if !in.OneOf && g.p(3, 10, "default") {
				switch {
				case back && t.Elem != nil:
					f.Default = "[]"
				case back && !t.NonNull:
					f.Default = "null"
				case back:
				default:
					g.below = i + 1
					f.Default = g.ConstLiteral(t, 2)
					g.below = 0
				}
			}
			in.Fields = append(in.Fields, f)
		}
	}
	return s
}

func (g *Gen) genFieldType(self, ninputs int) *Type {
	named := []string{"Int", "Int", "Int", "String", "String", "Float", "Boolean", "ID", "JSON"}
	for _, e := range g.S.Enums {
		named = append(named, e.Name, e.Name)
	}
	for i := 0; i < ninputs; i++ {
		named = append(named, fmt.Sprintf("In%d", i))
		if i > self {
			named = append(named, fmt.Sprintf("In%d", i))
		}
	}
	return g.wrap(&Type{Name: pick(g, named, "named")})
}

func (g *Gen) wrap(t *Type) *Type {
	t.NonNull = g.p(2, 5, "nn")
	depth := pick(g, []int{0, 0, 0, 0, 0, 0, 1, 1, 1, 1, 2, 2, 3}, "listdepth")
	for i := 0; i < depth; i++ {
		t = &Type{Elem: t, NonNull: g.p(2, 5, "nn")}
	}
	return t
}

// GenVarType draws a variable/argument type over the schema's named types, biased towards
// input objects and wrappers.
func (g *Gen) GenVarType() *Type {
	named := []string{"Int", "Int", "String", "Float", "Boolean", "ID", "JSON"}
	for _, e := range g.S.Enums {
		named = append(named, e.Name)
	}
	for _, in := range g.S.Inputs {
		named = append(named, in.Name, in.Name, in.Name)
	}
	return g.wrap(&Type{Name: pick(g, named, "vnamed")})
}

// ---- sentinels ---------------------------------------------------------------------------------

const sentinelAlphabet = "bcdfghjkmnpqrstvwxz23456789"

// SentinelString draws a unique-looking string that cannot collide with schema names.
func (g *Gen) SentinelString() string {
	var b strings.Builder
	b.WriteString("zq")
	for i := 0; i < 6; i++ {
		b.WriteByte(sentinelAlphabet[g.n(0, len(sentinelAlphabet)-1, "sch")])
	}
	return b.String()
}

// SentinelInt draws a 6–9 digit integer inside the Int range.
func (g *Gen) SentinelInt() string { return fmt.Sprint(g.n(100000, 2147483647, "sint")) }

// ---- JSON values -----------------------------------------------------------------------------

// bs+"u…" spells a \u escape without writing the sequence literally in this file.
const bs = "\\"

var jsonStringPieces = []string{"a", "xyz", " ", "\xc3\xa9", "\xf0\x9f\x98\x80", bs + `"`, bs + bs, bs + "/", bs + "b", bs + "f", bs + "n", bs + "r", bs + "t",
	bs + "u00e9", bs + "u0041", bs + "u0000", bs + "uD83D" + bs + "uDE00", bs + "ud83d" + bs + "ude00", "\xe2\x80\xa8", "'", "{", "$x", "#", ",", "\x7f", "/"}

func (g *Gen) jsonString() *Value {
	if !g.Fancy || g.p(1, 2, "plainstr") {
		if g.p(1, 6, "empty") {
			return Str("")
		}
		return Str(g.SentinelString())
	}
	var b strings.Builder
	b.WriteByte('"')
	for i, n := 0, g.n(0, 6, "npieces"); i < n; i++ {
		b.WriteString(pick(g, jsonStringPieces, "jpiece"))
	}
	b.WriteByte('"')
	v, err := ParseJSON(b.String())
	if err != nil {
		panic("generator produced invalid JSON string " + b.String() + ": " + err.Error())
	}
	v.Raw = b.String()
	return v
}

func (g *Gen) jsonInt() *Value {
	switch g.n(0, 9, "intform") {
	case 0:
		return Num(pick(g, []string{"0", "1", "-1", "7", "-0"}, "smallint"))
	case 1:
		return Num(pick(g, []string{"2147483647", "-2147483648"}, "edgeint"))
	case 2:
		return Num("-" + g.SentinelInt())
	}
	return Num(g.SentinelInt())
}

var fancyFloats = []string{"1.5", "-1.5", "0.0", "-0.0", "1e5", "1E5", "1e+5", "1E+5", "1e-5", "1E-5", "1.5e10", "1.50", "0.1",
	"100.001", "3.14159265358979323846264338327950288", "0.000000000000000000000000000001", "123456789.123456789e+10",
	"123456789012345678901234567890", "9007199254740993", "1e308", "4.9e-324"}

func (g *Gen) jsonFloat() *Value {
	if g.Fancy && g.p(1, 2, "fancyfloat") {
		return Num(pick(g, fancyFloats, "ffloat"))
	}
	switch g.n(0, 4, "floatform") {
	case 0:
		return g.jsonInt()
	case 1:
		return Num(pick(g, []string{"1.5", "-0.25", "1e3", "2.5E-3"}, "smallfloat"))
	}
	return Num(g.SentinelInt() + "." + fmt.Sprint(g.n(1, 99, "frac")*5%100+1))
}

func (g *Gen) jsonAny(depth int) *Value {
	k := g.n(0, 7, "anykind")
	if depth > 2 && k > 4 {
		k = 0
	}
	switch k {
	case 0:
		return g.jsonString()
	case 1:
		return g.jsonFloat()
	case 2:
		return Bool(g.p(1, 2, "b"))
	case 3:
		return g.jsonInt()
	case 4:
		return Null()
	case 5:
		v := &Value{K: VList, L: []*Value{}}
		for i, n := 0, g.n(0, 3, "anylen"); i < n; i++ {
			v.L = append(v.L, g.jsonAny(depth+1))
		}
		return v
	}
	v := &Value{K: VObj, O: []Member{}}
	for i, n := 0, g.n(0, 3, "anymembers"); i < n; i++ {
		k := pick(g, []string{"k", "a", "typ e", "é", "n0"}, "anykey")
		if v.Has(k) {
			continue
		}
		v.O = append(v.O, Member{k, g.jsonAny(depth + 1)})
	}
	return v
}

// JSONValue draws a JSON value that is coercible to t by construction.
func (g *Gen) JSONValue(t *Type, depth int) *Value {
	if !t.NonNull && (g.p(1, 7, "null") || depth > 6) {
		return Null()
	}
	if t.Elem != nil {
		if depth > 6 {
			return &Value{K: VList, L: []*Value{}}
		}
		if g.p(1, 8, "single") {
			// single value for a list position (coerced to a list of one, recursively)
			v := g.JSONValue((&Type{Name: t.Base(), NonNull: true}), depth+1)
			if v.K != VList {
				return v
			}
		}
		v := &Value{K: VList, L: []*Value{}}
		for i, n := 0, g.n(0, 3, "len"); i < n; i++ {
			v.L = append(v.L, g.JSONValue(t.Elem, depth+1))
		}
		return v
	}
	switch g.S.KindOf(t.Name) {
	case KindInt:
		return g.jsonInt()
	case KindFloat:
		return g.jsonFloat()
	case KindString:
		return g.jsonString()
	case KindBoolean:
		return Bool(g.p(1, 2, "b"))
	case KindID:
		if g.p(1, 3, "idint") {
			return Num(g.SentinelInt())
		}
		return g.jsonString()
	case KindCustomScalar:
		v := g.jsonAny(0)
		if v.K == VNull && t.NonNull {
			return g.jsonString()
		}
		return v
	case KindEnum:
		return Str(pick(g, g.S.Enum(t.Name).Values, "enumv"))
	case KindInput:
		in := g.S.Input(t.Name)
		v := &Value{K: VObj, O: []Member{}}
		if in.OneOf {
			f := pick(g, in.Fields, "oneofpick")
			if depth > 6 {
				f = in.Fields[0] // always a scalar: ends every recursion through @oneOf members
			}
			v.O = append(v.O, Member{f.Name, g.JSONValue(f.T().Required(), depth+1)})
			return v
		}
		for _, f := range in.Fields {
			ft := f.T()
			required := ft.NonNull && !f.HasDefault()
			if required || (depth < 4 && g.p(1, 2, "include")) {
				v.O = append(v.O, Member{f.Name, g.JSONValue(ft, depth+1)})
			}
		}
		// rotate member order
		if len(v.O) > 1 {
			k := g.n(0, len(v.O)-1, "rot")
			v.O = append(v.O[k:], v.O[:k]...)
		}
		return v
	}
	panic("unknown type " + t.Name)
}

// ---- literals --------------------------------------------------------------------------------

// ConstLiteral draws plain-spelled constant literal text valid for t (used for defaults).
func (g *Gen) ConstLiteral(t *Type, depth int) string {
	saved := g.Fancy
	g.Fancy = false
	defer func() { g.Fancy = saved }()
	return g.Literal(t, depth, false, false)
}

var (
	quotedPieces = []struct{ text, class string }{
		{"a", ""}, {"xyz", ""}, {" ", ""}, {"  ", ""}, {"'", ""}, {"{", ""}, {"}", ""}, {"$x", ""}, {"#", ""}, {",", ""}, {":", ""}, {"...", ""}, {"/", ""},
		{bs + `"`, "escape"}, {bs + bs, "escape"}, {bs + "/", "escape"}, {bs + "b", "escape"}, {bs + "f", "escape"}, {bs + "n", "escape"}, {bs + "r", "escape"}, {bs + "t", "escape"},
		{bs + "u00e9", "unicode-escape"}, {bs + "u0041", "unicode-escape"}, {bs + "u0000", "unicode-escape"}, {bs + "u001f", "unicode-escape"}, {bs + "u00E9", "unicode-escape"},
		{bs + "uD83D" + bs + "uDE00", "surrogate-pair"}, {bs + "ud83d" + bs + "ude00", "surrogate-pair"},
		{bs + "u{1F600}", "brace-escape"},
		{"\xc3\xa9", "raw-nonascii"}, {"\xf0\x9f\x98\x80", "raw-nonascii"}, {"\xe2\x80\xa8", "raw-nonascii"}, {"\xef\xbb\xbf", "raw-bom"}, {"\xc2\xa0", "raw-nonascii"},
		{"\t", "raw-tab"}, {"\x7f", "raw-del"}, {"\x01", "raw-c0"}, {"\x1f", "raw-c0"}, {"\x0b", "raw-c0"},
		{"\xf3\xa0\x80\x81", "astral-nonprintable"}, {"\xf4\x8f\xbf\xbf", "astral-nonprintable"},
	}
	blockPieces = []struct{ text, class string }{
		{"a", ""}, {"xyz", ""}, {"x y", ""}, {" ", "space"}, {"  ", "space"}, {"\t", "space"}, {"\n", "newline"}, {"\n  ", "indent"}, {"\n    ", "indent"},
		{"\n\t", "indent"}, {"\r\n", "crlf"}, {"\r", "cr"}, {"\n\n", "blank-line"},
		{bs + `"""`, "escaped-triple-quote"}, {`"`, "quote"}, {`""`, "quote"}, {bs, "backslash"}, {bs + "n", "backslash"}, {bs + bs, "backslash"}, {bs + "u0041", "backslash"},
		{"\xc3\xa9", "raw-nonascii"}, {"\xf0\x9f\x98\x80", "raw-nonascii"}, {"#", ""}, {",", ""},
		// characters that a JSON encoder must escape or pass through but that Go-style quoting
		// (strconv.Quote) spells with non-JSON escapes: DEL, C0 controls other than \b \f \n \r \t
		// (SourceCharacters since the 2025 edition), non-printable code points above U+FFFF
		{"\x7f", "del"}, {"a\x7fb", "del"}, {"\x01", "c0-control"}, {"\x07", "c0-control"}, {"\x0b", "c0-control"}, {"\x1b", "c0-control"}, {"\x1f", "c0-control"},
		{"\x08", "c0-control"}, {"\x0c", "c0-control"},
		{"\xf3\xa0\x80\x81", "astral-nonprintable"}, {"\xf4\x8f\xbf\xbf", "astral-nonprintable"}, {"\xf0\x9f\xbf\xbe", "astral-nonprintable"}, {"\xf0\xbf\xbf\xbd", "astral-nonprintable"},
		{"\xc2\x85", "c1-control"}, {"\xe2\x80\xa8", "raw-nonascii"}, {"\xef\xbf\xbe", "bmp-noncharacter"},
	}
	// InvalidUTF8Pieces are byte sequences that are not UTF-8; a document containing one is not
	// valid GraphQL, so only "never invalid JSON, never a panic" can be demanded for it.
	InvalidUTF8Pieces = []string{"\xff", "\xc3", "\xed\xa0\x80", "a\x80b", "\xf8\x88\x80\x80\x80"}
)

// BlockStringWith draws a block string literal that contains the given piece.
func (g *Gen) BlockStringWith(piece string) string {
	var b strings.Builder
	for i, n := 0, g.n(0, 3, "nbpre"); i < n; i++ {
		b.WriteString(pick(g, []string{"a", " ", "\n  ", "xyz", "\n"}, "bpre"))
	}
	b.WriteString(piece)
	for i, n := 0, g.n(0, 3, "nbpost"); i < n; i++ {
		b.WriteString(pick(g, []string{"a", " ", "\n  ", "xyz", "\n"}, "bpost"))
	}
	return `"""` + b.String() + `"""`
}

// LiteralClasses collects the spelling classes of the most recent literals (for labels).
type LiteralClasses map[string]bool

// StringLiteral draws a string literal (quoted or block) in an exotic spelling.
func (g *Gen) StringLiteral() string {
	if !g.Fancy {
		if g.p(1, 8, "emptystr") {
			return `""`
		}
		return `"` + g.SentinelString() + `"`
	}
	if g.p(3, 5, "quoted") {
		var b strings.Builder
		b.WriteByte('"')
		for i, n := 0, g.n(0, 7, "npieces"); i < n; i++ {
			b.WriteString(pick(g, quotedPieces, "qpiece").text)
		}
		b.WriteByte('"')
		return b.String()
	}
	var b strings.Builder
	trailingQuotes := func() int {
		s := b.String()
		n := 0
		for n < len(s) && s[len(s)-1-n] == '"' {
			n++
		}
		return n
	}
	for i, n := 0, g.n(0, 8, "nbpieces"); i < n; i++ {
		p := pick(g, blockPieces, "bpiece").text
		if p[0] == '"' && trailingQuotes()+len(p) >= 3 {
			continue
		}
		b.WriteString(p)
	}
	s := b.String()
	if strings.HasSuffix(s, `"`) || strings.HasSuffix(s, `\`) {
		s += pick(g, []string{" ", "\n", "\n  "}, "blocktail")
	}
	return `"""` + s + `"""`
}

var (
	intSpellings   = []string{"0", "-0", "1", "-1", "7", "42", "2147483647", "-2147483647"}
	floatSpellings = []string{"1.5", "-1.5", "0.0", "-0.0", "1e5", "1E5", "1.0e+5", "1.5E+5", "2.5e-5", "1.0E-5", "1.5e10", "1.5E-10", "1.50", "0.1",
		"100.001", "3.14159265358979323846264338327950288", "0.000000000000000000000000000001", "123456789.123456789e+10",
		"1e400", "1.0e-400", "0e0", "-0.0e-0", "10.0E+2"}
	// signed exponent without a fraction: valid, but the repo lexer does not accept it (recorded
	// finding); generated rarely so that the search continues behind it
	expSignNoFraction = []string{"1e+5", "1E+5", "1e-5", "1E-5", "1e-400", "-0e-0"}
	bigIntSpellings   = []string{"123456789012345678901234567890", "9007199254740993", "-9223372036854775809", "2147483648", "4294967296"}
)

func (g *Gen) intLiteral() string {
	if g.p(1, 2, "sentint") {
		if g.p(1, 4, "negint") {
			return "-" + g.SentinelInt()
		}
		return g.SentinelInt()
	}
	if g.rare(100, "intmin") {
		return "-2147483648" // trips a recorded defect of operation validation: rare
	}
	return pick(g, intSpellings, "intsp")
}

func (g *Gen) floatLiteral() string {
	if !g.Fancy {
		return pick(g, []string{"1.5", "-0.25", "2.0", "100.5"}, "plainfloat")
	}
	switch g.n(0, 5, "floatkind") {
	case 0:
		return g.intLiteral()
	case 1:
		return pick(g, bigIntSpellings, "bigint")
	}
	if g.rare(12, "expsign") {
		return pick(g, expSignNoFraction, "expsignsp")
	}
	return pick(g, floatSpellings, "floatsp")
}

func (g *Gen) sep() string {
	if !g.Fancy {
		return ", "
	}
	return pick(g, []string{", ", ",", " ", "\n", " , ", ",,", " #c\n "}, "sep")
}

// anyLiteral draws a literal for a custom scalar position.
func (g *Gen) anyLiteral(depth int) string {
	k := g.n(0, 8, "anylit")
	if depth > 2 && k > 5 {
		k = 0
	}
	switch k {
	case 0:
		return g.StringLiteral()
	case 1:
		return g.floatLiteral()
	case 2:
		return pick(g, []string{"true", "false"}, "b")
	case 3:
		return g.intLiteral()
	case 4:
		return "null"
	case 5:
		return pick(g, []string{"RED", "someEnum", "_x", "nullish", "truex", "on"}, "anyenum")
	case 6:
		var parts []string
		for i, n := 0, g.n(0, 3, "anylen"); i < n; i++ {
			parts = append(parts, g.anyLiteral(depth+1))
		}
		return "[" + g.join(parts) + "]"
	}
	var parts []string
	seen := map[string]bool{}
	for i, n := 0, g.n(0, 3, "anymembers"); i < n; i++ {
		k := pick(g, []string{"k", "a", "type", "_n0", "null"}, "anykey")
		if seen[k] {
			continue
		}
		seen[k] = true
		parts = append(parts, k+":"+pick(g, []string{"", " "}, "colon")+g.anyLiteral(depth+1))
	}
	return "{" + g.join(parts) + "}"
}

func (g *Gen) join(parts []string) string {
	var b strings.Builder
	for i, p := range parts {
		if i > 0 {
			b.WriteString(g.sep())
		}
		b.WriteString(p)
	}
	return b.String()
}

// Literal draws literal text valid for t. With vars, some positions become variables that
// are appended to g.Vars together with a coercible JSON value. inList tells that a variable
// here must have a runtime value.
func (g *Gen) Literal(t *Type, depth int, vars bool, inList bool) string {
	if vars && depth > 0 && g.S.KindOf(t.Base()) != KindUnknown && g.p(1, 6, "usevar") {
		return g.NewVar(t, inList, false)
	}
	if !t.NonNull && (g.p(1, 8, "nulllit") || depth > 6) {
		return "null"
	}
	if t.Elem != nil {
		if depth > 6 {
			return "[]"
		}
		if !g.NoSingle && g.p(1, 8, "singlelit") {
			// a single literal for a list position
			s := g.Literal(&Type{Name: t.Base(), NonNull: true}, depth+1, false, false)
			if !strings.HasPrefix(s, "[") {
				return s
			}
		}
		var parts []string
		for i, n := 0, g.n(0, 3, "litlen"); i < n; i++ {
			parts = append(parts, g.Literal(t.Elem, depth+1, vars, true))
		}
		return "[" + g.join(parts) + "]"
	}
	switch g.S.KindOf(t.Name) {
	case KindInt:
		return g.intLiteral()
	case KindFloat:
		return g.floatLiteral()
	case KindString:
		return g.StringLiteral()
	case KindBoolean:
		return pick(g, []string{"true", "false"}, "b")
	case KindID:
		if g.p(1, 3, "idint") {
			if g.Fancy && g.p(1, 3, "bigid") {
				return pick(g, []string{"123456789012345678901234567890", "4294967296"}, "bigidv")
			}
			return g.SentinelInt()
		}
		return g.StringLiteral()
	case KindCustomScalar:
		s := g.anyLiteral(0)
		if s == "null" && t.NonNull {
			return g.StringLiteral()
		}
		return s
	case KindEnum:
		return pick(g, g.S.Enum(t.Name).Values, "enumv")
	case KindInput:
		in := g.S.Input(t.Name)
		if in.OneOf {
			f := pick(g, in.Fields, "oneofpick")
			if g.backRef(f.T()) || depth > 6 {
				f = in.Fields[0] // always a scalar: ends every recursion through @oneOf members
			}
			ft := f.T().Required()
			var val string
			if vars && g.p(1, 6, "oneofvar") {
				val = g.NewVar(ft, true, true)
			} else {
				val = g.Literal(ft, depth+1, vars, true)
			}
			return "{" + f.Name + ": " + val + "}"
		}
		var parts []string
		for _, f := range in.Fields {
			ft := f.T()
			required := ft.NonNull && !f.HasDefault()
			if g.backRef(ft) {
				if required {
					parts = append(parts, f.Name+": []")
				}
				continue
			}
			if required || (depth < 4 && g.p(1, 2, "include")) {
				parts = append(parts, f.Name+":"+pick(g, []string{"", " "}, "colon")+g.Literal(ft, depth+1, vars, false))
			}
		}
		if len(parts) > 1 {
			k := g.n(0, len(parts)-1, "rot")
			parts = append(parts[k:], parts[:k]...)
		}
		return "{" + g.join(parts) + "}"
	}
	panic("unknown type " + t.Name)
}

// NewVar declares a fresh variable usable at a position of type t and returns "$name".
// mustHaveValue: the position needs a runtime value (list item, oneOf field).
func (g *Gen) NewVar(t *Type, mustHaveValue, nonNullValue bool) string {
	name := fmt.Sprintf("x%d", len(g.Vars))
	vt := t
	if !t.NonNull && g.p(1, 3, "stricter") {
		vt = t.Required()
	}
	gv := GenVar{Decl: VarDecl{Name: name, Type: vt.String()}}
	if g.p(1, 4, "vardefault") {
		dt := vt
		if nonNullValue {
			dt = vt.Required()
		}
		gv.Decl.Default = g.ConstLiteral(dt, 3)
	}
	omit := false
	if !mustHaveValue || gv.Decl.Default != "" {
		omit = (!vt.NonNull || gv.Decl.Default != "") && g.p(1, 4, "omitvar")
	}
	if !omit {
		vt2 := vt
		if nonNullValue {
			vt2 = vt.Required()
		}
		gv.Value = g.JSONValue(vt2, 1)
	}
	g.Vars = append(g.Vars, gv)
	return "$" + name
}

// VarsObject renders the variables object for g.Vars (nil when no variable has a value and
// the draw says to send none).
func VarsObject(vars []GenVar) *Value {
	o := &Value{K: VObj, O: []Member{}}
	for _, v := range vars {
		if v.Value != nil {
			o.O = append(o.O, Member{v.Decl.Name, v.Value})
		}
	}
	return o
}

// VarDefsText renders "($a: T = d, …)" or "".
func VarDefsText(decls []VarDecl) string {
	if len(decls) == 0 {
		return ""
	}
	var parts []string
	for _, d := range decls {
		s := "$" + d.Name + ": " + d.Type
		if d.Default != "" {
			s += " = " + d.Default
		}
		parts = append(parts, s)
	}
	return "(" + strings.Join(parts, ", ") + ")"
}

// JSONWhitespace draws a whitespace style for rendering variables.
func (g *Gen) JSONWhitespace() *JSONStyle {
	if g.p(2, 3, "compact") {
		return nil
	}
	n := g.n(1, 4, "wslen")
	st := &JSONStyle{}
	for i := 0; i < n; i++ {
		st.Spaces = append(st.Spaces, pick(g, []string{"", " ", "\n", "\t", "  ", "\r\n"}, "ws"))
	}
	return st
}
