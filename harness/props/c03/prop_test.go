package c03

import (
	"testing"

	"verif/harness/pbt"
)

func TestProp(t *testing.T) {
	r := pbt.Start(t, "C03")
	defer r.Finish()
	r.Rule("generated schemas x valid operations x variables through the engine's normalization sequence (Normalize with the Execute option set, ValidateForSchema, Normalize(ExtractVariables), VariablesMapper); non-trivial = the normalized print differs from the input by more than whitespace and the operation has >= 2 of {fragment on abstract type, duplicate/overlapping field, @skip/@include on a variable, literal needing extraction, default value, list coercion}; distinct by (schema, operation, variables)")
	r.Assume("gqlparser v2.5.30 is the validity second opinion", "harness/internal/ref executes operations per spec section 6 (the 'any backend' is the monolith over two universe seeds)")
	r.Rule("history part: 2-5 valid operations normalized in sequence by one set of long-lived normalizer/validator/mapper instances; oracle: print, variables and remap table equal those of fresh instances; non-trivial = at least two operations of the history end with variables")
	r.Regress(dispatch())
	r.RunProbes(probes())
	semPart.Run(r)
	canonPart.Run(r)
	reusePart.Run(r)
}

func TestReplay(t *testing.T) { pbt.StdReplay(t, "C03", dispatch()) }

func dispatch() pbt.Dispatch {
	return pbt.Dispatch{}.Add(semPart.Name, semPart.Handler()).Add(canonPart.Name, canonPart.Handler()).Add(reusePart.Name, reusePart.Handler()).WithProbes(probes())
}

func TestMinimize(t *testing.T) {
	pbt.StdMinimize(t, "C03", pbt.Minimizers{canonPart.Name: minimizeCanon, semPart.Name: minimizeSem})
}
