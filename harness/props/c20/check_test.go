package c20

import (
	"fmt"
	"os"
	"sort"
	"strings"

	"pgregory.net/rapid"

	"verif/harness/pbt"
)

// opCase is one generated case: an operation q and a reformulation q' of it, both as text.
// Check derives everything else (validity, field sets, response positions) from the texts,
// so hand-written replay cases work.
type opCase struct {
	Rig      string   `json:"rig"`                // plain | fed
	Q        string   `json:"q"`                  // base operation
	Q2       string   `json:"q2"`                 // reformulation
	Kind     string   `json:"kind"`               // informational: reformulation steps applied by the generator
	Excluded []string `json:"excluded,omitempty"` // informational: known findings the generator steered away from
}

var opsPart = pbt.Part[opCase]{Name: "reformulations", Quick: 16000, Thorough: 240000, Gen: genOpCase, Check: checkOpCase}

// unitCase executes the solo probe of one unit (shape oracle only): no unit may be silently
// unusable.
type unitCase struct {
	Rig  string `json:"rig"`
	Unit string `json:"unit"`
	Q    string `json:"q"`
}

var unitsPart = pbt.Part[unitCase]{Name: "unit-probes", Quick: 480, Thorough: 2400, Gen: genUnitCase, Check: checkUnitCase}

func genUnitCase(t *rapid.T) unitCase {
	rigName := rapid.SampledFrom([]string{"plain", "fed"}).Draw(t, "rig")
	st, err := unitStates(rigName)
	if err != nil {
		panic(err)
	}
	w, _ := worldByName(rigName)
	var keys []string
	for _, k := range w.sortedUnitKeys() {
		if st[k].Probe != "" {
			keys = append(keys, k)
		}
	}
	k := rapid.SampledFrom(keys).Draw(t, "unit")
	return unitCase{Rig: rigName, Unit: k, Q: st[k].Probe}
}

func checkUnitCase(c unitCase, o *pbt.Rec) pbt.Verdict {
	w, err := worldByName(c.Rig)
	if err != nil {
		return pbt.Bad("rig setup failed: %v", err)
	}
	g, _ := rigByName(c.Rig)
	p, err := parseOp(w, c.Q)
	if err != nil {
		return pbt.Bad("unit probe %s is not a valid operation: %v", c.Q, err)
	}
	o.Journal()
	o.Label("rig:" + c.Rig)
	if u := w.units[c.Unit]; u != nil {
		o.Label("unit-probe:" + string(u.Kind))
	}
	out, f := runOne(g, w, p, func(string) bool { return false }, "q")
	if len(out.res.RPCs) >= 1 {
		o.NonTrivial(c.Rig + "\x00" + c.Q)
	}
	if f != nil {
		return classify(w, p, nil, *f)
	}
	return pbt.OK
}

func contains(l []string, s string) bool {
	for _, x := range l {
		if x == s {
			return true
		}
	}
	return false
}

func usableFor(rigName string) func(string) (bool, string) {
	st, err := unitStates(rigName)
	if err != nil {
		panic(err)
	}
	return func(k string) (bool, string) {
		s := st[k]
		if s == nil {
			return true, ""
		}
		return s.Status != "unavailable" && s.Status != "broken", s.Finding
	}
}

func genOpCase(t *rapid.T) opCase {
	rigName := "plain"
	if rapid.IntRange(0, 2).Draw(t, "rig") == 0 {
		rigName = "fed"
	}
	w, err := worldByName(rigName)
	if err != nil {
		panic(err)
	}
	hi := 5
	if os.Getenv("VERIF_TIER") == "thorough" {
		hi = 6 // tier size parameter (configuration, not randomness)
	}
	maxDepth := rapid.IntRange(2, hi).Draw(t, "maxDepth")
	excluded := map[string]bool{}
	base := genBase(t, w, usableFor(rigName), maxDepth, excluded)
	re, kind := reformulate(t, w, base)
	pruneFrags(re)
	c := opCase{Rig: rigName, Kind: kind}
	c.Q = steer(w, base, excluded)
	c.Q2 = steer(w, re, excluded)
	for k := range excluded {
		c.Excluded = append(c.Excluded, k)
	}
	sort.Strings(c.Excluded)
	return c
}

// steer moves a generated operation out of the recorded finding classes that depend on the
// arrangement of aliases (the search continues behind them; the directed probes keep
// watching the findings themselves):
//   - findAliasDrop: aliased fields are put in front of the plain ones (which works); where
//     that is not enough (abstract resolver results: the planner injects a plain __typename
//     first) the alias is removed;
//   - findTypenameKeys: aliases of __typename directly inside abstract selections are removed.
func steer(w *world, o *opTree, excluded map[string]bool) string {
	text := o.render()
	for round := 0; round < 3; round++ {
		p, err := parseOp(w, text)
		if err != nil {
			return text
		}
		drops := w.aliasDropSites(p)
		multi := w.typenameMultiSites(p)
		if len(drops) == 0 && len(multi) == 0 {
			return text
		}
		if !steering(findAliasDrop) {
			drops = nil
		}
		if !steering(findTypenameKeys) {
			multi = nil
		}
		if len(drops) == 0 && len(multi) == 0 {
			return text
		}
		if len(drops) > 0 {
			excluded[findAliasDrop] = true
			if round == 0 {
				aliasedFirst(o)
			} else {
				lost := map[string]bool{}
				for _, d := range drops {
					lost[d.alias+"\x00"+d.name] = true
				}
				forNodes(o, func(_ string, n *node) {
					if isField(n) && lost[n.Alias+"\x00"+n.Name] {
						n.Alias = ""
					}
				})
			}
		}
		if len(multi) > 0 {
			excluded[findTypenameKeys] = true
			forNodes(o, func(scope string, n *node) {
				if d := w.schema.Types[scope]; isField(n) && n.Name == "__typename" && d != nil && d.Kind != "OBJECT" {
					n.Alias = ""
				}
			})
		}
		text = o.render()
	}
	return text
}

func forNodes(o *opTree, fn func(scope string, n *node)) {
	var rec func(scope string, kids []*node)
	rec = func(scope string, kids []*node) {
		for _, k := range kids {
			fn(scope, k)
			if len(k.Kids) > 0 {
				rec(k.scope, k.Kids)
			}
		}
	}
	rec(o.rootType, o.Roots)
	for _, f := range o.Frags {
		rec(f.On, f.Kids)
	}
}

// aliasedFirst stably moves aliased fields in front of the other selections everywhere.
func aliasedFirst(o *opTree) {
	var rec func(kids *[]*node)
	rec = func(kids *[]*node) {
		sort.SliceStable(*kids, func(i, j int) bool {
			ai := isField((*kids)[i]) && (*kids)[i].Alias != ""
			aj := isField((*kids)[j]) && (*kids)[j].Alias != ""
			return ai && !aj
		})
		for _, k := range *kids {
			rec(&k.Kids)
		}
	}
	rec(&o.Roots)
	for _, f := range o.Frags {
		rec(&f.Kids)
	}
}

// pruneFrags drops fragment definitions no spread refers to any more (a subset step may
// have removed the spread).
func pruneFrags(o *opTree) {
	usedNames := map[string]bool{}
	var rec func(kids []*node)
	byName := map[string]*fragDef{}
	for _, f := range o.Frags {
		byName[f.Name] = f
	}
	rec = func(kids []*node) {
		for _, k := range kids {
			if k.Spread != "" && !usedNames[k.Spread] {
				usedNames[k.Spread] = true
				if f := byName[k.Spread]; f != nil {
					rec(f.Kids)
				}
			}
			rec(k.Kids)
		}
	}
	rec(o.Roots)
	var keep []*fragDef
	for _, f := range o.Frags {
		if usedNames[f.Name] {
			keep = append(keep, f)
		}
	}
	o.Frags = keep
}

type outcome struct {
	res          execResult
	resp         *response
	walk         *walk
	fetchFailure string
}

// subgraph names of the gRPC datasource in the two rigs
var grpcSubgraphs = []string{"'id'", "'grpc-subgraph'"}

// runOne executes one operation and applies the single-operation oracles: the operation is
// executed at all, the datasource does not fail while every RPC succeeded, and the response
// has the shape of the selection.
func runOne(g *rig, w *world, p *parsedOp, stable func(string) bool, side string) (*outcome, *failure) {
	return evaluate(w, p, g.execVars(p.text, p.vars), stable, side)
}

// evaluate applies the single-operation oracles to an execution result.
func evaluate(w *world, p *parsedOp, res execResult, stable func(string) bool, side string) (*outcome, *failure) {
	out := &outcome{res: res}
	if res.Err != "" {
		return out, &failure{kind: "not-executed", side: side, msg: fmt.Sprintf("valid operation is not executed: %s\n %s = %s", clip(res.Err), side, p.text)}
	}
	resp, err := decodeResponse(res.Body)
	if err != nil {
		return out, &failure{kind: "shape", side: side, msg: fmt.Sprintf("malformed response: %v\n %s = %s\n response = %s", err, side, p.text, clip(res.Body))}
	}
	out.resp = resp
	var failures []string
	for _, e := range resp.Errors {
		m, _ := e.(map[string]any)
		msg, _ := m["message"].(string)
		if !strings.HasPrefix(msg, "Failed to fetch from Subgraph") {
			continue
		}
		inner := canon(m["extensions"])
		if strings.Contains(msg, "'owning-subgraph'") {
			return out, &failure{kind: "harness", side: side, msg: fmt.Sprintf("harness defect: the in-process owning subgraph failed: %s\n %s = %s", clip(inner), side, p.text)}
		}
		isGRPC := false
		for _, n := range grpcSubgraphs {
			if strings.Contains(msg, n) {
				isGRPC = true
			}
		}
		if isGRPC {
			failures = append(failures, inner)
		}
	}
	sort.Strings(failures)
	out.fetchFailure = strings.Join(failures, " ; ")
	// The mock's LookupWarehouseById deliberately returns one entity too few; the datasource
	// rightly refuses that answer.
	if out.fetchFailure != "" && len(res.RPCErrors) == 0 && !strings.Contains(out.fetchFailure, "entities in the subgraph response, but") {
		return out, &failure{kind: "fetch-failed", side: side, a: out, msg: fmt.Sprintf("the datasource fails although the service answered every RPC (%v) successfully: %s\n %s = %s\n response = %s",
			res.RPCs, clip(out.fetchFailure), side, p.text, clip(res.Body))}
	}
	// The engine type-checks what the datasource returned and replaces an ill-typed value by an
	// error: such an error is the shape violation observed one step later.
	for _, e := range resp.Errors {
		m, _ := e.(map[string]any)
		msg, _ := m["message"].(string)
		for _, marker := range []string{"cannot represent", "for __typename field", "no runtime types are able to provide"} {
			if strings.Contains(msg, marker) {
				return out, &failure{kind: "shape", side: side, msg: fmt.Sprintf("shape: the engine rejects a value the datasource returned: %s (path %v)\n %s = %s\n response = %s", msg, m["path"], side, p.text, clip(res.Body))}
			}
		}
	}
	out.walk = newWalk(w, stable)
	out.walk.run(p, resp)
	if len(out.walk.viol) > 0 {
		return out, &failure{kind: "shape", side: side, a: out, msg: fmt.Sprintf("shape: response of %s does not match its selection: %s\n %s = %s\n response = %s", side, strings.Join(out.walk.viol, "; "), side, p.text, clip(res.Body))}
	}
	// A null in a non-null position is normally the mock's doing (it leaves messages unset).
	// Not so when the field is a unit whose RPC was never issued and no fetch failed: then the
	// service was not even asked, the datasource dropped the call.
	if out.fetchFailure == "" {
		for _, e := range resp.Errors {
			m, _ := e.(map[string]any)
			msg, _ := m["message"].(string)
			path, _ := m["path"].([]any)
			if !strings.HasPrefix(msg, "Cannot return null for non-nullable field") || len(path) == 0 {
				continue
			}
			if u := w.unitAtResponsePath(p, path); u != nil && u.RPC != "" && !contains(res.RPCs, u.RPC) {
				return out, &failure{kind: "call-dropped", side: side, a: out, msg: fmt.Sprintf("the field %s at %v is answered null (non-null error) although its RPC %s was never issued (RPCs: %v) and no fetch failed\n %s = %s\n response = %s",
					u.Key, path, u.RPC, res.RPCs, side, p.text, clip(res.Body))}
			}
		}
	}
	return out, nil
}

func checkOpCase(c opCase, o *pbt.Rec) pbt.Verdict {
	w, err := worldByName(c.Rig)
	if err != nil {
		return pbt.Bad("rig setup failed: %v", err)
	}
	g, _ := rigByName(c.Rig)
	states, err := unitStates(c.Rig)
	if err != nil {
		return pbt.Bad("stability pre-pass failed: %v", err)
	}
	stable := func(k string) bool { s := states[k]; return s != nil && s.Status == "stable" }

	pa, err := parseOp(w, c.Q)
	if err != nil {
		o.Discard("gen-invalid-q")
		return pbt.OK
	}
	pb, err := parseOp(w, c.Q2)
	if err != nil {
		o.Discard("gen-invalid-q2")
		return pbt.OK
	}
	for _, p := range []*parsedOp{pa, pb} {
		if why := g.engineRejects(p.text); why != "" {
			// two validators disagree about a generated operation: drop and count
			o.Discard("engine-validation-disagrees")
			return pbt.OK
		}
	}
	o.Journal()
	o.Label("rig:" + c.Rig)
	for _, k := range strings.Split(c.Kind, "+") {
		if k != "" {
			o.Label("reform:" + k)
		}
	}
	for _, k := range c.Excluded {
		o.Label("excluded:" + k)
	}
	sameFields := samePaths(fieldPaths(pa), fieldPaths(pb))
	if sameFields {
		o.Label("fieldset:same")
	} else {
		o.Label("fieldset:differs")
	}
	if pa.op.Operation == "mutation" {
		o.Label("op:mutation")
	}

	a, failA := runOne(g, w, pa, stable, "q")
	b, failB := runOne(g, w, pb, stable, "q'")
	labelOutcome(o, a, b, c)
	for _, f := range []*failure{failA, failB} {
		if f != nil {
			f.msg += fmt.Sprintf("\n (case: q = %s ; q' = %s)", c.Q, c.Q2)
			return classify(w, pa, pb, *f)
		}
	}

	// (2) consistency
	cmp := comparison{a: a, b: b, sameFields: sameFields}
	ms := cmp.run()
	if cmp.explained > 0 {
		o.Label("consistency:null-explained-by-extra-selection")
	}
	if cmp.serviceFailure > 0 {
		o.Label("consistency:null-explained-by-service-failure")
	}
	if len(ms) == 0 {
		if a.walk.nVals > 1 && b.walk.nVals > 1 {
			o.Label("consistency:compared")
		}
		return pbt.OK
	}
	// A real reformulation defect is deterministic. Re-run both operations: the first
	// mismatch must come back identically every time, otherwise the difference is
	// service randomness the pre-pass did not see.
	for i := 0; i < 3; i++ {
		a2, f1 := runOne(g, w, pa, stable, "q")
		b2, f2 := runOne(g, w, pb, stable, "q'")
		if f1 != nil || f2 != nil {
			o.Discard("mismatch-not-reproducible")
			return pbt.OK
		}
		found := false
		ms2 := (&comparison{a: a2, b: b2, sameFields: sameFields}).run()
		for _, m := range ms2 {
			if m.sig() == ms[0].sig() {
				found = true
			}
		}
		if !found {
			if os.Getenv("C20_DEBUG") != "" {
				fmt.Fprintf(os.Stderr, "FLAKY %s\n  q=%s\n  q2=%s\n", ms[0].String(), c.Q, c.Q2)
			}
			o.Discard("mismatch-not-reproducible")
			return pbt.OK
		}
	}
	lines := make([]string, 0, 3)
	for i, m := range ms {
		if i == 3 {
			break
		}
		lines = append(lines, m.String())
	}
	return classify(w, pa, pb, failure{kind: "consistency", ms: ms, a: a, b: b, msg: fmt.Sprintf("consistency: %d field position(s) differ (reformulation: %s): %s\n q  = %s\n q' = %s\n resp(q)  = %s\n resp(q') = %s",
		len(ms), c.Kind, strings.Join(lines, "; "), c.Q, c.Q2, clip(a.res.Body), clip(b.res.Body))})
}

func labelOutcome(o *pbt.Rec, a, b *outcome, c opCase) {
	lab := map[string]bool{}
	nRPC := 0
	for _, x := range []*outcome{a, b} {
		if len(x.res.RPCs) > nRPC {
			nRPC = len(x.res.RPCs)
		}
		for _, r := range x.res.RPCs {
			lab["rpc-method:"+r] = true
			switch {
			case strings.HasPrefix(r, "Lookup"):
				lab["rpc:entity-lookup"] = true
			case strings.HasPrefix(r, "Require"):
				lab["rpc:requires"] = true
			case strings.HasPrefix(r, "Resolve"):
				lab["rpc:field-resolver"] = true
			case strings.HasPrefix(r, "Mutation"):
				lab["rpc:mutation"] = true
			}
		}
		if x.res.Err != "" {
			lab["outcome:engine-error"] = true
		}
		if len(x.res.RPCErrors) > 0 {
			lab["outcome:service-error"] = true
		}
		if x.resp != nil && len(x.resp.Errors) > 0 {
			lab["outcome:response-errors"] = true
		}
		if x.walk != nil {
			for l := range x.walk.labels {
				lab["seen:"+l] = true
			}
		}
	}
	switch {
	case nRPC == 0:
		lab["rpcs:0"] = true
	case nRPC == 1:
		lab["rpcs:1"] = true
	case nRPC <= 3:
		lab["rpcs:2-3"] = true
	default:
		lab["rpcs:4+"] = true
	}
	ls := make([]string, 0, len(lab))
	for l := range lab {
		ls = append(ls, l)
	}
	sort.Strings(ls)
	for _, l := range ls {
		o.Label(l)
	}
	if nRPC >= 2 || lab["seen:abstract-object"] || lab["seen:nested-list"] || lab["seen:unit:resolver"] || lab["seen:unit:requires"] {
		o.NonTrivial(c.Rig + "\x00" + c.Q + "\x00" + c.Q2)
	}
}

// classify attributes a violation to a recorded finding when its narrow recogniser matches.
func classify(w *world, pa, pb *parsedOp, f failure) pbt.Verdict {
	if f.kind != "harness" {
		if id := recognise(w, pa, pb, f); id != "" {
			return pbt.BadKnown(id, "%s", f.msg)
		}
	}
	return pbt.Bad("%s", f.msg)
}
