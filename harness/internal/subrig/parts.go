//go:build verif

package subrig

import (
	"context"
	"errors"
	"fmt"
	"io"
	"net/http"
	"sync"
	"sync/atomic"
	"time"

	"github.com/cespare/xxhash/v2"

	"github.com/wundergraph/graphql-go-tools/v2/pkg/engine/resolve"
)

// ---- notification bus ------------------------------------------------------------------

// Bus lets the driving goroutine wait for an observable condition without polling.
type Bus struct {
	mu sync.Mutex
	ch chan struct{}
}

func newBus() *Bus { return &Bus{ch: make(chan struct{})} }

// Notify wakes every waiter.
func (b *Bus) Notify() {
	b.mu.Lock()
	close(b.ch)
	b.ch = make(chan struct{})
	b.mu.Unlock()
}

// Wait blocks until pred holds or d expired; it reports pred().
func (b *Bus) Wait(d time.Duration, pred func() bool) bool {
	var timer *time.Timer
	for {
		b.mu.Lock()
		ch := b.ch
		b.mu.Unlock()
		if pred() {
			if timer != nil {
				timer.Stop()
			}
			return true
		}
		if timer == nil {
			timer = time.NewTimer(d)
		}
		select {
		case <-ch:
		case <-timer.C:
			return pred()
		}
	}
}

// Clock is the global sequence counter of one rig.
type Clock struct{ n atomic.Int64 }

// Tick returns the next sequence number.
func (c *Clock) Tick() int64 { return c.n.Add(1) }

// ---- recording writer ------------------------------------------------------------------

// Call kinds of the writer log.
const (
	CWrite     = "write"
	CFlush     = "flush"
	CComplete  = "complete"
	CError     = "error"
	CHeartbeat = "heartbeat"
)

// Call is one method call on a Writer.
type Call struct {
	Kind        string
	Data        string // flush: the message flushed; error: the data
	Enter, Exit int64  // global sequence numbers
	Failed      bool   // the call returned an error (injected)
	ViaErr      bool   // flush issued by the rig's AsyncErrorWriter (its result is ignored by the resolver)
}

// Writer is the recording SubscriptionResponseWriter of one subscriber.
type Writer struct {
	Sub         int
	clock       *Clock
	bus         *Bus
	flushFailAt int
	hbFail      bool
	park        func(point string, key any) // called inside Flush/Complete/Error/Heartbeat (harness-owned windows)

	inCall   atomic.Int32
	viaErr   atomic.Bool
	mu       sync.Mutex
	calls    []Call
	buf      []byte
	flushes  int
	overlaps []string
}

var _ resolve.SubscriptionResponseWriter = (*Writer)(nil)

func (w *Writer) enter(kind string) (int64, bool) {
	over := w.inCall.Add(1) != 1
	return w.clock.Tick(), over
}

func (w *Writer) exit(kind, data string, enter int64, over, failed bool, notify bool) {
	exit := w.clock.Tick()
	w.mu.Lock()
	w.calls = append(w.calls, Call{Kind: kind, Data: data, Enter: enter, Exit: exit, Failed: failed, ViaErr: kind == CFlush && w.viaErr.Load()})
	if over {
		w.overlaps = append(w.overlaps, fmt.Sprintf("%s entered at %d while another call was in progress", kind, enter))
	}
	w.mu.Unlock()
	w.inCall.Add(-1)
	if notify {
		w.bus.Notify()
	}
}

func (w *Writer) Write(p []byte) (int, error) {
	e, over := w.enter(CWrite)
	w.mu.Lock()
	w.buf = append(w.buf, p...)
	w.mu.Unlock()
	w.exit(CWrite, "", e, over, false, false)
	return len(p), nil
}

func (w *Writer) Flush() error {
	e, over := w.enter(CFlush)
	w.mu.Lock()
	msg := string(w.buf)
	w.buf = nil
	w.flushes++
	fail := w.flushFailAt != 0 && w.flushes == w.flushFailAt
	w.mu.Unlock()
	if w.park != nil {
		w.park(PtWFlush, w.Sub)
	}
	w.exit(CFlush, msg, e, over, fail, true)
	if fail {
		return errors.New("injected flush failure")
	}
	return nil
}

func (w *Writer) Complete() {
	e, over := w.enter(CComplete)
	if w.park != nil {
		w.park(PtWComplete, w.Sub)
	}
	w.exit(CComplete, "", e, over, false, true)
}

func (w *Writer) Error(data []byte) {
	e, over := w.enter(CError)
	if w.park != nil {
		w.park(PtWError, w.Sub)
	}
	w.exit(CError, string(data), e, over, false, true)
}

func (w *Writer) Heartbeat() error {
	e, over := w.enter(CHeartbeat)
	if w.park != nil {
		w.park(PtWHeartbeat, w.Sub)
	}
	w.exit(CHeartbeat, "", e, over, w.hbFail, true)
	if w.hbFail {
		return errors.New("injected heartbeat failure")
	}
	return nil
}

// Snapshot returns a copy of the log and the overlap reports.
func (w *Writer) Snapshot() ([]Call, []string) {
	w.mu.Lock()
	defer w.mu.Unlock()
	return append([]Call(nil), w.calls...), append([]string(nil), w.overlaps...)
}

// Items counts the finished items other than heartbeats (flushes, Complete, Error).
func (w *Writer) Items() int {
	w.mu.Lock()
	defer w.mu.Unlock()
	n := 0
	for _, c := range w.calls {
		if c.Kind != CWrite && c.Kind != CHeartbeat {
			n++
		}
	}
	return n
}

// errorWriter is the AsyncErrorWriter the rig installs: one message, flushed.
type errorWriter struct{}

func (errorWriter) WriteError(ctx *resolve.Context, err error, res *resolve.GraphQLResponse, w io.Writer) {
	if ww, ok := w.(*Writer); ok {
		ww.viaErr.Store(true)
		defer ww.viaErr.Store(false)
	}
	_, _ = fmt.Fprintf(w, `{"errors":[{"message":%q}]}`, err.Error())
	if f, ok := w.(interface{ Flush() error }); ok {
		_ = f.Flush()
	}
}

// ErrorMessage is what errorWriter renders for err.
func ErrorMessage(err string) string { return fmt.Sprintf(`{"errors":[{"message":%q}]}`, err) }

// ---- recording reporter ----------------------------------------------------------------

// Reporter records the resolver's counters (values and number of calls).
type Reporter struct {
	bus                                              *Bus
	SubInc, SubDec, TrigInc, TrigDec, Updates        atomic.Int64
	SubIncCalls, SubDecCalls, TrigIncCalls, TrigDecs atomic.Int64
}

func (r *Reporter) SubscriptionUpdateSent() { r.Updates.Add(1) }
func (r *Reporter) SubscriptionCountInc(n int) {
	r.SubInc.Add(int64(n))
	r.SubIncCalls.Add(1)
	r.bus.Notify()
}
func (r *Reporter) SubscriptionCountDec(n int) {
	r.SubDec.Add(int64(n))
	r.SubDecCalls.Add(1)
	r.bus.Notify()
}
func (r *Reporter) TriggerCountInc(n int) {
	r.TrigInc.Add(int64(n))
	r.TrigIncCalls.Add(1)
	r.bus.Notify()
}
func (r *Reporter) TriggerCountDec(n int) {
	r.TrigDec.Add(int64(n))
	r.TrigDecs.Add(1)
	r.bus.Notify()
}

// ---- fake data source ------------------------------------------------------------------

type subKey struct{}

// subOf extracts the subscriber index the rig put into the subscriber's context (it survives
// xcontext.Detach, so the Start context of a trigger names the subscriber that created it).
func subOf(ctx context.Context) int {
	if v, ok := ctx.Value(subKey{}).(int); ok {
		return v
	}
	return -1
}

// StartRec is one call of SubscriptionDataSource.Start.
type StartRec struct {
	Creator  int // subscriber whose subscribe created the trigger
	Input    string
	Header   string
	Ctx      *resolve.Context
	Updater  resolve.SubscriptionUpdater
	Seq      int64
	release  chan error
	Returned atomic.Bool
}

// HookRec is one call of SubscriptionOnStart.
type HookRec struct {
	Sub    int
	Input  string
	Exited atomic.Bool
}

// Source is the fake SubscriptionDataSource shared by every plan of a rig. Start calls are
// keyed by the (input, headers) they carry and by the creating subscriber.
type Source struct {
	bus       *Bus
	clock     *Clock
	mu        sync.Mutex
	starts    []*StartRec
	hooks     []*HookRec
	startMode func(creator int) string
	hookMode  func(sub int) string
}

var _ resolve.SubscriptionDataSource = (*Source)(nil)

func (s *Source) HashTriggerInput(input []byte, xxh *xxhash.Digest) error {
	_, err := xxh.Write(input)
	return err
}

var errStart = errors.New("injected start failure")
var errHook = errors.New("injected hook failure")

func (s *Source) Start(ctx *resolve.Context, headers http.Header, input []byte, updater resolve.SubscriptionUpdater) error {
	rec := &StartRec{Creator: subOf(ctx.Context()), Input: string(input), Header: headers.Get("X-Verif"), Ctx: ctx, Updater: updater,
		Seq: s.clock.Tick(), release: make(chan error, 1)}
	s.mu.Lock()
	s.starts = append(s.starts, rec)
	s.mu.Unlock()
	mode := s.startMode(rec.Creator)
	s.bus.Notify()
	var err error
	switch mode {
	case StartErr:
		err = errStart
	case StartBlock:
		err = <-rec.release
	}
	rec.Returned.Store(true)
	s.bus.Notify()
	return err
}

// Starts returns the Start calls so far.
func (s *Source) Starts() []*StartRec {
	s.mu.Lock()
	defer s.mu.Unlock()
	return append([]*StartRec(nil), s.starts...)
}

// StartOf returns the Start calls made for the trigger created by subscriber creator.
func (s *Source) StartOf(creator int) []*StartRec {
	var out []*StartRec
	for _, r := range s.Starts() {
		if r.Creator == creator {
			out = append(out, r)
		}
	}
	return out
}

// HookOf returns the hook calls of subscriber sub.
func (s *Source) HookOf(sub int) []*HookRec {
	s.mu.Lock()
	defer s.mu.Unlock()
	var out []*HookRec
	for _, h := range s.hooks {
		if h.Sub == sub {
			out = append(out, h)
		}
	}
	return out
}

// HookSource is Source plus the SubscriptionOnStart hook.
type HookSource struct{ *Source }

var _ resolve.HookableSubscriptionDataSource = HookSource{}

func (s HookSource) SubscriptionOnStart(ctx resolve.StartupHookContext, input []byte) error {
	rec := &HookRec{Sub: subOf(ctx.Context), Input: string(input)}
	s.mu.Lock()
	s.hooks = append(s.hooks, rec)
	s.mu.Unlock()
	var err error
	switch s.hookMode(rec.Sub) {
	case HookFail:
		err = errHook
	case HookEmit:
		ctx.Updater([]byte(HookEmitPayload(rec.Sub)))
	}
	rec.Exited.Store(true)
	s.bus.Notify()
	return err
}

// headers implements resolve.SubgraphHeadersBuilder for one header value.
type headers struct{ v string }

func (h headers) HeadersForSubgraph(string) (http.Header, uint64) {
	return http.Header{"X-Verif": []string{h.v}}, xxhash.Sum64String("hdr:" + h.v)
}
func (h headers) HashAll() uint64 { return xxhash.Sum64String("hdr:" + h.v) }

// ---- scheduler over the yield points ---------------------------------------------------

// Arrival is one call of verifhook.Yield.
type Arrival struct {
	Point string
	Key   any
}

// Sched parks the first arrival that matches the armed window.
type Sched struct {
	bus      *Bus
	mu       sync.Mutex
	armed    bool
	point    string
	match    func(key any) bool
	parked   chan struct{}
	parkedAt *Arrival
	arrivals []Arrival
}

func (s *Sched) handler(point string, key any) {
	if soloBusy.Load() {
		return // a resolver of the "alone" oracle is running (cache miss during a case): not ours
	}
	s.mu.Lock()
	s.arrivals = append(s.arrivals, Arrival{point, key})
	if s.armed && s.point == point && (s.match == nil || s.match(key)) {
		s.armed = false
		ch := make(chan struct{})
		s.parked = ch
		s.parkedAt = &Arrival{point, key}
		s.mu.Unlock()
		s.bus.Notify()
		<-ch
		return
	}
	s.mu.Unlock()
	s.bus.Notify()
}

// Arm asks for the next matching arrival to be parked.
func (s *Sched) Arm(point string, match func(key any) bool) {
	s.mu.Lock()
	s.armed, s.point, s.match = true, point, match
	s.mu.Unlock()
}

// Disarm cancels an unused Arm.
func (s *Sched) Disarm() { s.mu.Lock(); s.armed = false; s.mu.Unlock() }

// Parked reports whether a goroutine is parked, and where.
func (s *Sched) Parked() *Arrival {
	s.mu.Lock()
	defer s.mu.Unlock()
	if s.parked == nil {
		return nil
	}
	return s.parkedAt
}

// Resume lets the parked goroutine continue.
func (s *Sched) Resume() {
	s.mu.Lock()
	ch := s.parked
	s.parked, s.parkedAt = nil, nil
	s.mu.Unlock()
	if ch != nil {
		close(ch)
	}
}

// Count returns the number of arrivals at point so far.
func (s *Sched) Count(point string) int {
	s.mu.Lock()
	defer s.mu.Unlock()
	n := 0
	for _, a := range s.arrivals {
		if a.Point == point {
			n++
		}
	}
	return n
}
