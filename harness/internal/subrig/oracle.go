//go:build verif

package subrig

import (
	"fmt"
	"sort"
	"strings"
)

type window struct{ enter, exit int64 }

// finalOracle evaluates the clauses that look at the whole run. complete tells whether
// quiescence was established (every goroutine of the case has finished): only then is a
// missing effect known to be missing. modelSound is false when a wait expired while something
// was still running: later steps then ran in an order the model does not describe, and only the
// clauses that compare sequence numbers of real calls remain.
func (g *Rig) finalOracle(complete, modelSound bool) {
	m := g.m
	if complete {
		g.checkQuiet("at quiescence")
	}
	// event number -> windows of the writer calls that delivered it, per period
	evWin := map[int]map[int]*window{}
	for _, s := range m.Subs {
		rs := g.subs[s.Idx]
		calls, overlaps := rs.w.Snapshot()
		for _, o := range overlaps {
			g.viol(ClOverlap, s.Idx, "", "writer of s%d: %s", s.Idx, o)
		}
		// no writer call after the completion was signalled
		if rs.signalSeq != 0 {
			for _, c := range calls {
				if c.Exit > rs.signalSeq {
					g.viol(ClAfterCompletion, s.Idx, c.Kind, "writer of s%d: %s%s at sequence %d..%d, after its completion was signalled at %d by %s; writer log: %s",
						s.Idx, c.Kind, dataSuffix(c), c.Enter, c.Exit, rs.signalSeq, rs.signalBy, logText(calls))
					break
				}
			}
		}
		// Complete/Error at most once
		term := 0
		for _, c := range calls {
			if c.Kind == CComplete || c.Kind == CError {
				term++
			}
		}
		if term > 1 {
			g.viol(ClTerminalTwice, s.Idx, "", "writer of s%d got %d Complete/Error calls: %s", s.Idx, term, logText(calls))
		}
		if !s.HB {
			for _, c := range calls {
				if c.Kind == CHeartbeat {
					g.viol(ClDelivery, s.Idx, "", "writer of s%d got a heartbeat although SendHeartbeat is off", s.Idx)
					break
				}
			}
		}
		if !modelSound {
			continue // only the clauses above are independent of the model
		}
		// exact delivery
		type actItem struct {
			Item
			win window
		}
		var act []actItem
		cur := window{}
		for _, c := range calls {
			if cur.enter == 0 {
				cur.enter = c.Enter
			}
			cur.exit = c.Exit
			if c.Kind == CWrite {
				continue
			}
			k := c.Kind
			if c.Kind == CFlush {
				k = IMsg
				if c.ViaErr {
					k = IErrMsg
				}
			}
			act = append(act, actItem{Item{k, c.Data}, cur})
			cur = window{}
		}
		if cur.enter != 0 && complete {
			g.viol(ClDelivery, s.Idx, "", "writer of s%d: bytes written but never flushed: %s", s.Idx, logText(calls))
		}
		i, j := 0, 0
		bad, badKind := "", ""
		for j < len(act) {
			switch {
			case i < len(s.Exp) && s.Exp[i].Item == act[j].Item:
				if n := s.Exp[i].Event; n != 0 {
					pw := evWin[s.Period]
					if pw == nil {
						pw = map[int]*window{}
						evWin[s.Period] = pw
					}
					w := pw[n]
					if w == nil {
						w = &window{enter: act[j].win.enter, exit: act[j].win.exit}
						pw[n] = w
					}
					if act[j].win.enter < w.enter {
						w.enter = act[j].win.enter
					}
					if act[j].win.exit > w.exit {
						w.exit = act[j].win.exit
					}
				}
				i++
				j++
			case i < len(s.Exp) && s.Exp[i].Optional:
				i++
			case act[j].Kind == CHeartbeat && s.HB && !s.HBFail:
				j++
			default:
				badKind = "unexpected:" + act[j].Kind
				bad = fmt.Sprintf("item %d is %s", j, act[j].Item)
				if i < len(s.Exp) {
					bad += fmt.Sprintf(", expected %s (from %s)", s.Exp[i].Item, s.Exp[i].Why)
				} else {
					bad += ", expected nothing more"
				}
				j = len(act)
			}
		}
		if bad == "" && complete {
			for ; i < len(s.Exp); i++ {
				if !s.Exp[i].Optional {
					badKind = "missing:" + s.Exp[i].Kind
					bad = fmt.Sprintf("missing %s (from %s)", s.Exp[i].Item, s.Exp[i].Why)
					break
				}
			}
		}
		if bad != "" {
			var exp []string
			for _, e := range s.Exp {
				t := e.Item.String()
				if e.Optional {
					t = "[" + t + "]"
				}
				exp = append(exp, t)
			}
			var got []string
			for _, a := range act {
				got = append(got, a.Item.String())
			}
			g.viol(ClDelivery, s.Idx, badKind, "subscriber s%d (key%d filter=%q shape=%d): %s; got %s; expected %s", s.Idx, s.Key, s.Filter, s.Shape, bad,
				"["+strings.Join(got, ", ")+"]", "["+strings.Join(exp, ", ")+"]")
		}
		if complete && s.Sync && rs.returned.Load() == 0 {
			g.viol(ClNotCompleted, s.Idx, "", "ResolveGraphQLSubscription of s%d never returned", s.Idx)
		}
	}
	// the fan-out of event A finishes before any write of event B (same trigger, source order)
	for _, p := range m.Periods {
		if !modelSound {
			break
		}
		pw := evWin[p.Idx]
		var maxExit int64
		var maxEv int
		for _, n := range p.Events {
			w := pw[n]
			if w == nil {
				continue
			}
			if w.enter < maxExit {
				g.viol(ClFanout, -1, "", "trigger period p%d: a write of event n%d (sequence %d) happened before the fan-out of the earlier event n%d had finished (sequence %d)",
					p.Idx, n, w.enter, maxEv, maxExit)
			}
			if w.exit > maxExit {
				maxExit, maxEv = w.exit, n
			}
		}
	}
	// labels from the model and the run
	keys := make([]string, 0, len(m.Seen))
	for k := range m.Seen {
		keys = append(keys, k)
	}
	sort.Strings(keys)
	for _, k := range keys {
		g.label(k)
	}
}

func dataSuffix(c Call) string {
	if c.Data == "" {
		return ""
	}
	return "(" + c.Data + ")"
}

func logText(calls []Call) string {
	var b strings.Builder
	w := 0
	flush := func() {
		if w > 0 {
			fmt.Fprintf(&b, " write×%d", w)
			w = 0
		}
	}
	for _, c := range calls {
		if c.Kind == CWrite {
			w++
			continue
		}
		flush()
		fmt.Fprintf(&b, " %d:%s%s", c.Exit, c.Kind, dataSuffix(c))
	}
	flush()
	return strings.TrimSpace(b.String())
}
