//go:build verif

// Package c13 checks property C13: subscription triggers are shared, started once, and always
// cleaned up. The machinery (fake source, recording writer and reporter, scheduler over the
// verifhook yield points, model, generator, executor, oracle) is shared with C12 and lives in
// verif/harness/internal/subrig; this package runs it with a generator biased towards trigger
// churn, start-up faults and the start-up windows.
package c13

import (
	"encoding/json"
	"flag"
	"fmt"
	"os"
	"testing"

	"pgregory.net/rapid"

	"verif/harness/internal/subrig"
	"verif/harness/pbt"
)

const prop = "C13"

var machine = pbt.Part[subrig.History]{
	Name: "machine", Quick: 240000, Thorough: 3200000,
	Gen:   func(t *rapid.T) subrig.History { return subrig.Gen(t, subrig.BiasC13, pbt.IsKnown) },
	Check: func(h subrig.History, o *pbt.Rec) pbt.Verdict { return subrig.Check(prop, h, o) },
}

// TestProp is the entry point the driver runs in every shard.
func TestProp(t *testing.T) {
	r := pbt.Start(t, prop)
	defer r.Finish()
	_ = flag.Set("rapid.steps", "16")
	r.Rule("a history is non-trivial when a trigger's last subscriber leaves (or the trigger is torn down) before or while it starts - start goroutine parked at trigger.start.begin / trigger.init.before_store or inside a blocking Start - or when the resolver is shut down with >= 2 live triggers; distinct by history")
	r.Assume(
		"trigger identity is observed through the fake source: every Start call carries the (input, headers) it was made for and the context of the subscriber that created the trigger",
		"registry sizes are read through (*Resolver).VerifRegistrySizes (verif tag); counters through a recording Reporter; both are compared with the model after every step, not only at the end",
		"the completed channel of an async subscription is internal: 'every subscriber completed' is checked through the registry being empty, through no writer call after the signalling call returned, and for the sync API through ResolveGraphQLSubscription returning",
		"sources are well-behaved: after Complete or Error they only call Done; a source may call Done late (after its trigger ended)",
		"the end of shutdownResolver (run by context.AfterFunc) is observed through its SubscriptionCountDec report",
	)
	r.RequireLabel("trigger-removed-while-starting", "shutdown-with-2+-live-triggers", "split-reached:"+subrig.PtStart, "split-reached:"+subrig.PtInit,
		"start-failure", "start-blocked", "trigger-key-recreated", "joiner-hook-fails", "start-called-for-dead-trigger", "done-on-dead-trigger", "enum-cases", "start-failure-broadcast-parked", "joined-during-start-failure-broadcast",
		"real:pair-must-not-share", "real:pair-must-share", "real:diff:extensions", "real:diff:extensions.nested", "real:diff:variables.nested", "real:diff:header",
		"real:mutation:body.extensions.token", "real:mutation:body.variables.in.a.b", "real:mutation:url", "real:mutation:initial_payload.authorization")
	r.Regress(dispatch())
	r.RunProbes(probes())
	if r.FirstShard() {
		if msg := r.Direct("solo-sanity", "solo-sanity", "", func(*pbt.Rec) string { return subrig.SoloSanity() }); msg != "" {
			failDirect(t, r, "solo-sanity", struct{}{}, msg)
		}
	}
	runEnum(t, r)
	realSourcePart.Run(r)
	m := machine
	if os.Getenv("VERIF_RACE") != "" {
		// the -race build of the thorough tier runs the same machine about ten times slower
		m.Quick, m.Thorough = m.Quick/16, m.Thorough/16
	}
	m.Run(r)
	if n := subrig.Expiries.Load(); n > 3 {
		t.Errorf("INCONCLUSIVE: %d liveness watchdogs expired in this shard (overloaded machine or a wedged resolver)", n)
	}
}

// runEnum runs this shard's slice of the enumerated window x action-pair histories.
func runEnum(t *testing.T, r *pbt.Run) {
	all := subrig.EnumHistories()
	for i, raw := range all {
		if i%r.Shards != r.Shard {
			continue
		}
		h, ok, shapes := subrig.EnumAdmissible(raw)
		if !ok {
			continue
		}
		skip := false
		for _, id := range shapes {
			if pbt.IsKnown(id) {
				skip = true
				h.Excluded = append(h.Excluded, id)
			}
		}
		var verdict pbt.Verdict
		msg := r.Direct("enum", h, "", func(o *pbt.Rec) string {
			o.Label("enum-cases")
			if skip {
				for _, id := range h.Excluded {
					o.Label("excluded:" + id)
				}
				o.Label("enum-excluded")
				return ""
			}
			verdict = subrig.Check(prop, h, o)
			if verdict.Msg != "" && verdict.Finding != "" && pbt.IsKnown(verdict.Finding) {
				o.Known(verdict.Finding)
				return ""
			}
			return verdict.Msg
		})
		if msg != "" {
			failDirect(t, r, "enum", h, msg)
			return
		}
	}
}

// failDirect records a violation found outside rapid as a replayable file.
func failDirect(t *testing.T, r *pbt.Run, part string, c any, msg string) {
	b, _ := json.Marshal(c)
	doc, _ := json.MarshalIndent(map[string]any{"property": prop, "part": part, "case": json.RawMessage(b), "why": msg, "seed": r.Seed, "shard": r.Shard}, "", " ")
	writeViolation(r, part, doc)
	t.Errorf("%s: %s", part, msg)
}

func TestReplay(t *testing.T) { pbt.StdReplay(t, prop, dispatch()) }

func dispatch() pbt.Dispatch {
	return pbt.Dispatch{}.
		Add(machine.Name, machine.Handler()).
		Add("enum", machine.Handler()).
		Add(realSourcePart.Name, realSourcePart.Handler()).
		Add("solo-sanity", func(json.RawMessage) string { return subrig.SoloSanity() }).
		WithProbes(probes())
}

func probes() pbt.Probes {
	p := pbt.Probes{}
	for _, id := range []string{subrig.F20, subrig.FStaleDone, subrig.FStaleStart} {
		id := id
		p[id] = pbt.ProbeDef{Input: subrig.ProbeHistory(id), Fn: func() string { return subrig.Probe(id) }}
	}
	return p
}

var _ = fmt.Sprint
