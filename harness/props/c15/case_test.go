package c15

import (
	"fmt"
	"strings"

	"pgregory.net/rapid"

	ir "verif/harness/internal/inputref"
)

// FieldUse is one echo field selected by the operation.
type FieldUse struct {
	Key  string `json:"key"`           // response key (alias or field name)
	Echo string `json:"echo"`          // echo field name
	Arg  string `json:"arg,omitempty"` // literal text of the argument; "" = argument not given
	Mode string `json:"mode"`          // literal | variable | omitted
}

// Case is one forwarding experiment.
type Case struct {
	Schema   ir.Schema    `json:"schema"`
	Decls    []ir.VarDecl `json:"decls,omitempty"`
	Fields   []FieldUse   `json:"fields"`
	Query    string       `json:"query"`
	VarsForm string       `json:"varsForm"` // object | absent | null
	Vars     string       `json:"vars"`
	// Lenient: the document contains bytes that are not UTF-8 (inside a block string), so it
	// is not valid GraphQL and has no reference value; only "no panic, never invalid JSON" is
	// demanded.
	Lenient bool `json:"lenient,omitempty"`
}

// collision pairs: a literal and the JSON text the gateway writes for it. A string literal
// whose CONTENT is that text must stay a different value.
type collidePair struct{ lit, json string }

var collidePairs = map[string][]collidePair{
	"String": {{"null", "null"}},
	"ID":     {{"null", "null"}, {"1", "1"}, {"0", "0"}, {"-5", "-5"}, {"42", "42"}, {"123456789012", "123456789012"}},
	"JSON": {{"null", "null"}, {"1", "1"}, {"true", "true"}, {"false", "false"}, {"1.0", "1.0"}, {"1e3", "1e3"}, {"-0", "-0"},
		{"[1,2]", "[1,2]"}, {"[1, 2]", "[1,2]"}, {"[]", "[]"}, {"{}", "{}"}, {"{a: 1}", `{"a":1}`}, {"[null]", "[null]"},
		{`"a"`, `"a"`}, {`""`, `""`}, {"RED", `"RED"`}, {`[true,"x"]`, `[true,"x"]`}},
}

func stringLiteralOf(content string) string {
	r := strings.NewReplacer(`\`, `\\`, `"`, `\"`)
	return `"` + r.Replace(content) + `"`
}

// genCollision: two or three arguments of deeply equal type whose extracted JSON spellings
// differ only in the quotes (f(v: null) next to f(v: "null")), in either order.
func genCollision(t *rapid.T) Case {
	s := &ir.Schema{Scalars: []string{"JSON"}, Enums: []ir.Enum{{Name: "E0", Values: []string{"RED", "GREEN"}}}}
	base := rapid.SampledFrom([]string{"JSON", "ID", "String", "JSON", "ID"}).Draw(t, "cbase")
	wrap := rapid.SampledFrom([]string{"none", "none", "list", "single-for-list", "list-of-list"}).Draw(t, "cwrap")
	nonNull := rapid.IntRange(0, 3).Draw(t, "cnn") == 0
	outerNonNull := wrap != "none" && rapid.IntRange(0, 3).Draw(t, "couter") == 0
	var pairs []collidePair
	for _, p := range collidePairs[base] {
		if (nonNull || outerNonNull && wrap == "single-for-list") && (p.lit == "null" || nonNull && wrap == "single-for-list" && p.lit == "[null]") {
			continue
		}
		pairs = append(pairs, p)
	}
	if len(pairs) == 0 { // String has only the null pair
		nonNull, outerNonNull = false, false
		pairs = collidePairs[base]
	}
	typ := base
	if nonNull {
		typ += "!"
	}
	switch wrap {
	case "list", "single-for-list":
		typ = "[" + typ + "]"
	case "list-of-list":
		typ = "[[" + typ + "]]"
	}
	if outerNonNull {
		typ += "!"
	}
	necho := rapid.IntRange(1, 2).Draw(t, "cechoes")
	for i := 0; i < necho; i++ {
		s.Echoes = append(s.Echoes, ir.Echo{Name: fmt.Sprintf("f%d", i), Arg: ir.Field{Name: "v", Type: typ}})
	}
	wrapLit := func(x string) string {
		switch wrap {
		case "list":
			return "[" + x + "]"
		case "list-of-list":
			return "[[" + x + "]]"
		}
		return x
	}
	p := pairs[rapid.IntRange(0, len(pairs)-1).Draw(t, "cpair")]
	args := []string{wrapLit(p.lit), wrapLit(stringLiteralOf(p.json))}
	if rapid.Bool().Draw(t, "corder") {
		args[0], args[1] = args[1], args[0]
	}
	switch rapid.IntRange(0, 3).Draw(t, "cthird") {
	case 0:
		args = append(args, args[0])
	case 1:
		q := pairs[rapid.IntRange(0, len(pairs)-1).Draw(t, "cpair2")]
		args = append(args, wrapLit(stringLiteralOf(q.json)))
	case 2:
		q := pairs[rapid.IntRange(0, len(pairs)-1).Draw(t, "cpair3")]
		args = append([]string{wrapLit(q.lit)}, args...)
	}
	c := Case{VarsForm: rapid.SampledFrom([]string{"absent", "object", "null"}).Draw(t, "cvarsform")}
	var sels []string
	for i, a := range args {
		fu := FieldUse{Key: fmt.Sprintf("r%d", i), Echo: fmt.Sprintf("f%d", rapid.IntRange(0, necho-1).Draw(t, "cecho")), Arg: a, Mode: "literal"}
		c.Fields = append(c.Fields, fu)
		sels = append(sels, sel(fu))
	}
	c.Query = "{ " + strings.Join(sels, " ") + " }"
	switch c.VarsForm {
	case "object":
		c.Vars = "{}"
	case "null":
		c.Vars = "null"
	}
	c.Schema = *s
	return c
}

// genInvalidUTF8: one block string literal that contains a byte sequence that is not UTF-8.
func genInvalidUTF8(t *rapid.T) Case {
	s := &ir.Schema{Scalars: []string{"JSON"}, Echoes: []ir.Echo{{Name: "f0", Arg: ir.Field{Name: "v", Type: "String"}}, {Name: "f1", Arg: ir.Field{Name: "v", Type: "JSON"}}}}
	g := &ir.Gen{T: t, S: s, Fancy: true}
	lit := g.BlockStringWith(rapid.SampledFrom(ir.InvalidUTF8Pieces).Draw(t, "badpiece"))
	fu := FieldUse{Key: "r0", Echo: "f0", Arg: lit, Mode: "literal"}
	if rapid.Bool().Draw(t, "nested") {
		fu = FieldUse{Key: "r0", Echo: "f1", Arg: "{k: [" + lit + "]}", Mode: "literal"}
	}
	return Case{Schema: *s, Fields: []FieldUse{fu}, Query: "{ " + sel(fu) + " }", VarsForm: "absent", Lenient: true}
}

func genCase(t *rapid.T) Case {
	switch rapid.SampledFrom([]string{"general", "collision", "general", "general", "collision", "general", "general", "invalid-utf8", "general", "general"}).Draw(t, "family") {
	case "collision":
		return genCollision(t)
	case "invalid-utf8":
		return genInvalidUTF8(t)
	}
	s := ir.GenSchema(t)
	g := &ir.Gen{T: t, S: s, Fancy: true}
	var c Case
	nf := rapid.SampledFrom([]int{1, 1, 1, 2, 2, 3}).Draw(t, "nfields")
	var sels []string
	for i := 0; i < nf; i++ {
		if i > 0 && rapid.IntRange(0, 6).Draw(t, "dup") == 0 {
			// the same echo field again, with the same or a new literal (extraction de-duplicates
			// equal values of equal type)
			prev := c.Fields[rapid.IntRange(0, i-1).Draw(t, "dupof")]
			fu := FieldUse{Key: fmt.Sprintf("r%d", i), Echo: prev.Echo, Arg: prev.Arg, Mode: prev.Mode}
			if prev.Mode == "literal" && rapid.Bool().Draw(t, "newlit") {
				fu.Arg = g.Literal(s.Echo(prev.Echo).Arg.T(), 0, true, false)
			}
			c.Fields = append(c.Fields, fu)
			sels = append(sels, sel(fu))
			continue
		}
		at := g.GenVarType()
		echo := ir.Echo{Name: fmt.Sprintf("f%d", i), Arg: ir.Field{Name: "v", Type: at.String()}}
		if !at.NonNull && rapid.IntRange(0, 7).Draw(t, "argdefault") == 0 {
			g.Fancy, g.NoSingle = false, true
			echo.Arg.Default = g.Literal(at, 2, false, false)
			g.Fancy, g.NoSingle = true, false
		}
		s.Echoes = append(s.Echoes, echo)
		fu := FieldUse{Key: echo.Name, Echo: echo.Name}
		if rapid.IntRange(0, 3).Draw(t, "alias") == 0 {
			fu.Key = fmt.Sprintf("r%d", i)
		}
		optional := !at.NonNull || echo.Arg.Default != ""
		switch m := rapid.IntRange(0, 19).Draw(t, "mode"); {
		case m == 0 && optional:
			fu.Mode = "omitted"
		case m <= 6:
			fu.Mode = "variable"
			fu.Arg = g.NewVar(at, false, false)
		default:
			fu.Mode = "literal"
			fu.Arg = g.Literal(at, 0, true, false)
		}
		c.Fields = append(c.Fields, fu)
		sels = append(sels, sel(fu))
	}
	for _, gv := range g.Vars {
		c.Decls = append(c.Decls, gv.Decl)
	}
	name := ""
	if rapid.Bool().Draw(t, "named") {
		name = " Q"
	}
	head := "query" + name + ir.VarDefsText(c.Decls)
	if len(c.Decls) == 0 && name == "" && rapid.Bool().Draw(t, "shorthand") {
		head = ""
	}
	c.Query = head + "{ " + strings.Join(sels, rapid.SampledFrom([]string{" ", "\n", ", "}).Draw(t, "selsep")) + " }"
	c.Schema = *s

	obj := ir.VarsObject(g.Vars)
	if len(obj.O) > 1 && rapid.Bool().Draw(t, "rotvars") {
		obj.O = append(obj.O[1:], obj.O[0])
	}
	c.VarsForm = "object"
	if len(obj.O) == 0 {
		c.VarsForm = rapid.SampledFrom([]string{"object", "absent", "null"}).Draw(t, "varsform")
	}
	switch c.VarsForm {
	case "object":
		c.Vars = strings.TrimLeft(ir.JSONTextStyled(obj, g.JSONWhitespace()), " \t\r\n")
	case "null":
		c.Vars = "null"
	}
	return c
}

func sel(fu FieldUse) string {
	s := fu.Echo
	if fu.Key != fu.Echo {
		s = fu.Key + ": " + s
	}
	if fu.Mode != "omitted" {
		s += "(v: " + fu.Arg + ")"
	}
	return s
}
