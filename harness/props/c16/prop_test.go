package c16

import (
	"encoding/json"
	"testing"

	"verif/harness/pbt"
)

func TestProp(t *testing.T) {
	r := pbt.Start(t, "C16")
	defer r.Finish()
	r.Rule("header part: Cache-Control values generated from a grammar whose meaning is known by construction (directives in any order/case, quoted arguments containing directive names, split header lines, ages 0..2^40), non-trivial = a refusal directive combined with public, or >= 2 age directives; transparency part: histories of 3-8 requests (repeats, overlapping entity sets, alternative variables) on one engine with a recording entity cache, one generated Cache-Control value per step, cache faults (GetMany/SetMany errors, dropped keys, empty values), non-trivial = the history has >= 1 cache hit, or a fault fired; distinct by case text")
	r.Assume("subgraph data does not change during a history (fixed universe)", "all subgraph responses of one history step carry that step's Cache-Control value, so every SetMany during the step is judged against it")
	r.Regress(dispatch())
	r.RunProbes(probes())
	headerPart.Run(r)
	cachePart.Run(r)
}

func TestReplay(t *testing.T) { pbt.StdReplay(t, "C16", dispatch()) }

func dispatch() pbt.Dispatch {
	return pbt.Dispatch{}.Add(headerPart.Name, headerPart.Handler()).Add(cachePart.Name, cachePart.Handler()).WithProbes(probes())
}

func probes() pbt.Probes {
	return pbt.KnownCaseProbes("known", func(part string, raw json.RawMessage) pbt.Verdict {
		if part == headerPart.Name {
			return headerPart.CheckRaw(raw)
		}
		return cachePart.CheckRaw(raw)
	})
}
