package c18

import (
	"encoding/json"
	"fmt"
	"net/http"
	"sort"
	"strings"

	"github.com/wundergraph/graphql-go-tools/v2/pkg/engine/datasource/graphql_datasource/subscriptionclient/common"
)

// ---- the case: plain data, everything the upstream and the subscribers do is in here ----

// Tuple is one option tuple (the connection key the client is supposed to pool by), chosen from a
// small product so that equal and nearly-equal tuples are frequent.
type Tuple struct {
	Endpoint int  `json:"ep"`    // 0..1 -> path /e0, /e1
	Proto    int  `json:"proto"` // ws: 0 graphql-transport-ws, 1 graphql-ws, 2 auto; sse: 0 POST, 1 GET
	Header   int  `json:"hdr"`   // index into headerSets: 0 none, 1 X-T: a, 2 X-T: b, 3.. multi-valued / second key / other key spelling
	Init     int  `json:"init"`  // ws only: 0 nil, 1 {"t":"a"}, 2 {"t":"b"}
	SSE      bool `json:"sse"`   // transport
	Gate     bool `json:"gate"`  // upstream holds connection_ack (ws) / the response headers (sse) until an "ack" step
}

// Sub is one Subscribe call: option tuple + what the upstream will send for it.
type Sub struct {
	Tuple int    `json:"tuple"`
	Nexts int    `json:"nexts"` // number of next messages in the script
	Term  string `json:"term"`  // "complete" | "error" | "none"
	// burst parts only: cancel point
	// On scripts what the subscriber's handler does, synchronously, when it receives its message number At
	// (0-based, any type): cancel its own subscription, cancel subscription Other, or block until a "release"
	// step (the documented contract only says that a slow handler delays delivery on its connection).
	On       *OnMsg `json:"on,omitempty"`
	Deadline bool   `json:"deadline,omitempty"` // burst: the cancel point is the expiry of the subscriber's own deadline (ctx.Err() == DeadlineExceeded) instead of a cancel
	Cancel   string `json:"cancel,omitempty"`   // "" never | "pre" ctx already cancelled | "race" right after launch | "init" after upstream saw the init (+settle) | "mid" after CancelAt messages
	At       int    `json:"at,omitempty"`
}

// OnMsg is a scripted handler behaviour.
type OnMsg struct {
	At    int    `json:"at"`
	Act   string `json:"act"` // cancel-self | cancel-other | block
	Other int    `json:"other,omitempty"`
}

// Step is one scheduled action of a stepped case. After every step the harness waits for the
// step's observable effect (at the upstream or at a handler), never for wall-clock time, except
// for the one-sided settle interval when a subscriber is expected to join a dial in progress.
type Step struct {
	Op  string `json:"op"`            // sub | cancel | expire (the subscriber's own context deadline passes) | release (a blocked handler continues) | abandon (Key: tuple; cancel whoever is dialling it right now, never an index >= Sub) | send | ack | drop | idle | silence | ticks (Key = number of ping intervals to let pass)
	Sub int    `json:"sub,omitempty"` // sub, cancel, send
	Key int    `json:"key,omitempty"` // ack, drop: tuple index
}

// Case is a whole scenario.
type Case struct {
	IdleMs      int     `json:"idle_ms"`      // Config.WSIdleTimeout
	LegacyFirst bool    `json:"legacy_first"` // upstream prefers graphql-ws when the client offers both
	Steer       bool    `json:"steer"`        // generator avoided the known-finding classes by construction (informational)
	Tuples      []Tuple `json:"tuples"`
	Subs        []Sub   `json:"subs"`
	Burst       bool    `json:"burst"` // false: stepped mode (Steps), true: burst mode
	Steps       []Step  `json:"steps,omitempty"`
	// burst mode: all Subscribe calls start together, the upstream streams every script
	// as soon as it sees the subscribe; DropAfter[k] >= 0 drops a connection of tuple k after that many
	// messages were written on it.
	DropAfter []int `json:"drop_after,omitempty"`
	Ping      *Ping `json:"ping,omitempty"`
}

// Ping configures client-initiated heartbeats for the ping part: the upstream stops answering
// pings on the connections of the Silent tuples at the "silence" step.
type Ping struct {
	IntervalMs int   `json:"interval_ms"`
	TimeoutMs  int   `json:"timeout_ms"`
	Silent     []int `json:"silent"` // tuple indices whose connections stop answering pings
}

func (c Case) silentTuple(k int) bool {
	if c.Ping == nil {
		return false
	}
	for _, s := range c.Ping.Silent {
		if s == k {
			return true
		}
	}
	return false
}

// hasDeadline reports whether subscription i is scripted to run into its own deadline.
func (c Case) hasDeadline(i int) bool {
	if c.Subs[i].Deadline {
		return true
	}
	for _, s := range c.Steps {
		if s.Op == "expire" && s.Sub == i {
			return true
		}
	}
	return false
}

func (c Case) stepped() bool { return !c.Burst }

func (c Case) key() string { b, _ := json.Marshal(c); return string(b) }

// ---- option tuples -> client options and the canonical key the upstream reconstructs ----

var wsProtoName = []string{"graphql-transport-ws", "graphql-ws", "auto"}

// headerSets is the small universe of request headers. Beyond "none / one value" it has what a
// connection key must not blur: several values under one key (later value differs, order differs,
// count differs), a second key, and a key spelled non-canonically (same wire form as its canonical
// twin, so the two never occur together in one case).
var headerSets = []http.Header{
	0:  nil,
	1:  {"X-T": {"a"}},
	2:  {"X-T": {"b"}},
	3:  {"X-T": {"a", "b"}},
	4:  {"X-T": {"a", "c"}},
	5:  {"X-T": {"b", "a"}},
	6:  {"X-T": {"a", "b", "c"}},
	7:  {"X-T": {"a"}, "X-U": {"u"}},
	8:  {"X-T": {"a"}, "X-U": {"u", "v"}},
	9:  {"x-t": {"a", "b"}},
	10: {"x-t": {"a", "c"}},
	11: {"x-t": {"b"}},
}

// headerCanon is the header set as the upstream sees it: canonical key spelling, every value, in order.
func headerCanon(h http.Header) string {
	var t, u []string
	for k, v := range h {
		switch http.CanonicalHeaderKey(k) {
		case "X-T":
			t = append(t, v...)
		case "X-U":
			u = append(u, v...)
		}
	}
	s := strings.Join(t, ",")
	if len(u) > 0 {
		s += ";X-U=" + strings.Join(u, ",")
	}
	return s
}

func (t Tuple) headers() http.Header {
	if t.Header <= 0 || t.Header >= len(headerSets) {
		return nil
	}
	return headerSets[t.Header].Clone()
}

func (t Tuple) headerValue() string { return headerCanon(t.headers()) }

// sameFirstValues reports whether two header sets have the same keys (as spelled) and the same first
// value under each key while not being the same set: exactly what a key that hashes only values[0] blurs.
func sameFirstValues(a, b int) bool {
	ha, hb := headerSets[a], headerSets[b]
	if a == b || len(ha) != len(hb) || len(ha) == 0 || headerCanon(ha) == headerCanon(hb) {
		return false
	}
	for k, v := range ha {
		w, ok := hb[k]
		if !ok || len(v) == 0 || len(w) == 0 || v[0] != w[0] {
			return false
		}
	}
	return true
}

func (t Tuple) initPayload() map[string]any {
	switch t.Init {
	case 1:
		return map[string]any{"t": "a"}
	case 2:
		return map[string]any{"t": "b"}
	}
	return nil
}

func (t Tuple) path() string { return fmt.Sprintf("/e%d", t.Endpoint) }

// canonical is the tuple as the upstream can observe it on a connection: transport, path, the
// offered subprotocol list (distinguishes auto from an explicit protocol), every header value in
// order and the init payload. Two tuples are equal iff their canonical strings are equal.
func (t Tuple) canonical() string {
	if t.SSE {
		m := "POST"
		if t.Proto == 1 {
			m = "GET"
		}
		return fmt.Sprintf("sse|%s|%s|X-T=%s", t.path(), m, t.headerValue())
	}
	var offered string
	switch t.Proto {
	case 0:
		offered = "graphql-transport-ws"
	case 1:
		offered = "graphql-ws"
	default:
		offered = "graphql-transport-ws,graphql-ws"
	}
	return fmt.Sprintf("ws|%s|%s|X-T=%s|%s", t.path(), offered, t.headerValue(), canonJSON(t.initPayload()))
}

func canonJSON(v any) string {
	if v == nil {
		return ""
	}
	if m, ok := v.(map[string]any); ok && m == nil {
		return ""
	}
	b, _ := json.Marshal(v) // encoding/json sorts map keys
	return string(b)
}

func (t Tuple) options(base string) common.Options {
	o := common.Options{}
	o.Headers = t.headers()
	if t.SSE {
		o.Endpoint = base + t.path()
		o.Transport = common.TransportSSE
		o.SSEMethod = common.SSEMethodPOST
		if t.Proto == 1 {
			o.SSEMethod = common.SSEMethodGET
		}
		return o
	}
	o.Endpoint = "ws" + strings.TrimPrefix(base, "http") + t.path()
	o.Transport = common.TransportWS
	switch t.Proto {
	case 0:
		o.WSSubprotocol = common.SubprotocolGraphQLTransportWS
	case 1:
		o.WSSubprotocol = common.SubprotocolGraphQLWS
	default:
		o.WSSubprotocol = common.SubprotocolAuto
	}
	o.InitPayload = t.initPayload()
	return o
}

func opName(i int) string { return fmt.Sprintf("S%d", i) }

func request(i int) *common.Request {
	return &common.Request{Query: fmt.Sprintf("subscription %s { v }", opName(i)), OperationName: opName(i)}
}

func subIndex(op string) int {
	var i int
	if _, err := fmt.Sscanf(op, "S%d", &i); err != nil {
		return -1
	}
	return i
}

// script is what the upstream sends for subscription i, in order.
type scriptMsg struct {
	Kind string // next | complete | error
	N    int
}

func (s Sub) script() []scriptMsg {
	out := make([]scriptMsg, 0, s.Nexts+1)
	for n := 0; n < s.Nexts; n++ {
		out = append(out, scriptMsg{"next", n})
	}
	switch s.Term {
	case "complete", "error":
		out = append(out, scriptMsg{s.Term, 0})
	}
	return out
}

func sortedInts(m map[int]bool) []int {
	out := make([]int, 0, len(m))
	for k := range m {
		out = append(out, k)
	}
	sort.Ints(out)
	return out
}
