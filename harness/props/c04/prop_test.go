package c04

import (
	"testing"

	"verif/harness/pbt"
)

func TestProp(t *testing.T) {
	r := pbt.Start(t, "C04")
	defer r.Finish()
	r.Rule("generated schemas x documents that are valid by construction, valid with one rule-targeted mutation in the reachable part, or token-level mutants labelled by gqlparser; admission = Normalize (Execute option set) then ValidateForSchema; non-trivial = every mutant, and valid documents with >= 3 distinct constructs; distinct by (schema, document, variables)")
	r.Assume("gqlparser v2.5.30 validator (graphql-js port) is the spec reading; a case counts only when the construction label and gqlparser agree; token-level mutants are labelled by gqlparser alone (verdict fixed per input; disagreement classes on the unchanged tree were triaged once)")
	r.Rule("history part: 2-5 documents (valid, normalization-aborting mutants, variable-rule mutants, other mutants) admitted in sequence by one set of long-lived normalizer/validator/mapper instances; oracle: each outcome equals the outcome on fresh instances; non-trivial = history containing a refused document")
	r.Regress(dispatch())
	r.RunProbes(probes())
	validPart.Run(r)
	mutantPart.Run(r)
	tokenPart.Run(r)
	reusePart.Run(r)
}

func TestReplay(t *testing.T) { pbt.StdReplay(t, "C04", dispatch()) }

func dispatch() pbt.Dispatch {
	return pbt.Dispatch{}.Add(validPart.Name, validPart.Handler()).Add(mutantPart.Name, mutantPart.Handler()).Add(tokenPart.Name, tokenPart.Handler()).Add(reusePart.Name, reusePart.Handler()).WithProbes(probes())
}

func TestMinimize(t *testing.T) {
	pbt.StdMinimize(t, "C04", pbt.Minimizers{validPart.Name: minimizeDoc, mutantPart.Name: minimizeDoc, tokenPart.Name: minimizeDoc})
}
