package c02

// Plan faithfulness: does the planner-built tree T say the same as the operation?
//
// The oracle proper (oracle_test.go) judges the rendered output against the OPERATION. When it
// fails, the cause is either the renderer (resolvable.go mis-renders T) or the planner (T is not
// a faithful compilation of the operation: a selected key is missing from T, a type condition is
// lost or widened, a node has the wrong kind or nullability). This file evaluates T *along the
// runtime types that occur in j* with an evaluator of its own for OnTypeNames/ParentOnTypeNames
// (written from their documented meaning in postprocess/merge_fields.go) and compares, object by
// object, the keys T selects with the keys CollectFields selects. It is used for attribution of
// violations and for labels; it never makes a failing case pass.

import (
	"fmt"
	"sort"
	"strings"

	gast "github.com/vektah/gqlparser/v2/ast"

	"github.com/wundergraph/graphql-go-tools/v2/pkg/engine/resolve"
)

type unfaithful struct {
	path string
	kind string // "key-missing-in-plan" | "key-extra-in-plan" | "key-duplicate-in-plan" | "node-kind" | "nullability" | "possible-types" | "enum-values" | "path"
	what string

	p   []any
	key string // response key concerned (key-* kinds)
	// attributes used by the recognisers of the planner findings
	typenameField   bool      // the key concerned is a __typename selection (in the operation or in the plan)
	level           levelInfo // of the object's selection level
	crossParent     bool      // the object's own field is cross-context merged on its parent's level
	crossAbove      bool      // ... or some enclosing field is
	multiParent     bool      // the object's own field occurs >= 2 times on its parent's level (any contexts)
	lostGuard       bool      // the object is at a concrete position, its data __typename names another type and the plan node has no PossibleTypes (a copy)
	absentTypename  bool      // key-missing only: the plan selects the key once absent __typename entries are read as the statically known type
	emptyPossible   bool      // possible-types only: the plan node has no PossibleTypes at all
	planParentConds bool      // the plan has a field with this key that carries ParentOnTypeNames
	planHasKey      bool      // the plan has some field with this key (under whatever conditions)
	nestedListItem  bool      // the object is an item of a list of lists
}

func (u unfaithful) String() string { return u.kind + "@" + u.path + ": " + u.what }

type tview struct {
	m    *model
	out  []unfaithful
	seen map[string]bool
}

func (tv *tview) add(path []any, kind, format string, a ...any) *unfaithful {
	u := unfaithful{path: pathKey(path), p: path, kind: kind, what: fmt.Sprintf(format, a...)}
	k := u.String()
	if tv.seen[k] || len(tv.out) >= 2000 {
		return &unfaithful{}
	}
	tv.seen[k] = true
	tv.out = append(tv.out, u)
	return &tv.out[len(tv.out)-1]
}

// faithful compares T with the operation along j; empty result = faithful on this document.
func (m *model) faithful(resp *resolve.GraphQLResponse, j *jv) []unfaithful {
	tv := &tview{m: m, seen: map[string]bool{}}
	if resp == nil || resp.Data == nil {
		return nil
	}
	rootT := gast.NonNullNamedType(m.rootName(), nil)
	tv.object(resp.Data, rootT, []gast.SelectionSet{m.op.SelectionSet}, j, nil, nil, nil, true, crossFlags{})
	return tv.out
}

// selectedByPlan evaluates the type conditions of T's fields for the typename stack
// (innermost last; nil = the JSON object has no string __typename).
func selectedByPlan(obj *resolve.Object, stack []*string) []*resolve.Field {
	var out []*resolve.Field
	inNames := func(tn *string, names [][]byte) bool {
		if tn == nil {
			return false
		}
		for _, n := range names {
			if string(n) == *tn {
				return true
			}
		}
		return false
	}
	for _, f := range obj.Fields {
		ok := true
		if f.OnTypeNames != nil && !inNames(stack[len(stack)-1], f.OnTypeNames) {
			ok = false
		}
		for _, p := range f.ParentOnTypeNames {
			i := len(stack) - 1 - p.Depth
			if i < 0 || !inNames(stack[i], p.Names) {
				ok = false
			}
		}
		if ok {
			out = append(out, f)
		}
	}
	return out
}

type crossFlags struct{ parent, above, multi, lostGuard bool }

func (tv *tview) node(n resolve.Node, t *gast.Type, sets []gast.SelectionSet, v *jv, stack []*string, rts []string, path []any, key string, isItem bool, cf crossFlags) {
	if n.NodeNullable() == t.NonNull {
		tv.add(path, "nullability", "plan node %T nullable=%v, declared type %s", n, n.NodeNullable(), t.String())
	}
	wantPath := []string{key}
	if isItem {
		wantPath = nil
	}
	if strings.Join(n.NodePath(), "/") != strings.Join(wantPath, "/") {
		if _, static := n.(*resolve.StaticString); !static {
			tv.add(path, "path", "plan node %T reads %v, response key is %q", n, n.NodePath(), key)
		}
	}
	if t.Elem != nil {
		arr, ok := n.(*resolve.Array)
		if !ok {
			tv.add(path, "node-kind", "plan node %T for list type %s", n, t.String())
			return
		}
		if v != nil && v.k == jArr {
			for i, it := range v.arr {
				tv.node(arr.Item, t.Elem, sets, it, stack, rts, pathAppend(path, i), "", true, cf)
			}
		} else {
			tv.node(arr.Item, t.Elem, sets, nil, stack, rts, pathAppend(path, 0), "", true, cf)
		}
		return
	}
	def := tv.m.s.Types[t.NamedType]
	if !def.IsCompositeType() {
		want := ""
		switch {
		case def.Kind == gast.Enum:
			want = "*resolve.Enum"
		case def.Name == "String":
			want = "*resolve.String"
		case def.Name == "Int":
			want = "*resolve.Integer"
		case def.Name == "Float":
			want = "*resolve.Float"
		case def.Name == "Boolean":
			want = "*resolve.Boolean"
		case def.Name == "BigInt":
			want = "*resolve.BigInt"
		default:
			want = "*resolve.Scalar"
		}
		if got := fmt.Sprintf("%T", n); got != want {
			tv.add(path, "node-kind", "plan node %s for %s", got, t.String())
		}
		if e, ok := n.(*resolve.Enum); ok {
			var want []string
			for _, ev := range def.EnumValues {
				want = append(want, ev.Name)
			}
			got := append([]string(nil), e.Values...)
			sort.Strings(want)
			sort.Strings(got)
			if strings.Join(want, ",") != strings.Join(got, ",") || len(e.InaccessibleValues) != 0 {
				tv.add(path, "enum-values", "plan enum values %v inaccessible %v, schema %v", e.Values, e.InaccessibleValues, want)
			}
		}
		return
	}
	obj, ok := n.(*resolve.Object)
	if !ok {
		tv.add(path, "node-kind", "plan node %T for composite type %s", n, t.String())
		return
	}
	var got []string
	for k := range obj.PossibleTypes {
		got = append(got, k)
	}
	sort.Strings(got)
	if want := possibleNames(tv.m.s, def); strings.Join(got, ",") != strings.Join(want, ",") {
		tv.add(path, "possible-types", "plan PossibleTypes %v, schema %v", got, want).emptyPossible = len(got) == 0
	}
	if obj.Unresolvable {
		tv.add(path, "node-kind", "plan object marked Unresolvable")
	}
	tv.object(obj, t, sets, v, stack, rts, path, false, cf)
}

func (tv *tview) object(obj *resolve.Object, t *gast.Type, sets []gast.SelectionSet, v *jv, stack []*string, rts []string, path []any, root bool, cf crossFlags) {
	if v == nil || v.k != jObj {
		return
	}
	def := tv.m.s.Types[t.NamedType]
	rt, ok := tv.m.runtimeType(def, v)
	if !ok && def.Kind == gast.Object {
		rt, ok = def.Name, true // contradicting __typename at a concrete position: handled below
	}
	if !ok {
		return
	}
	var tn *string
	if x := v.get("__typename"); x != nil && x.k == jStr {
		s := x.s
		tn = &s
	}
	if def.Kind == gast.Object && tn != nil && *tn != def.Name && !root {
		// j contradicts the static type. With its guard intact the renderer rejects the object, so
		// T's type conditions are never evaluated with the wrong name: nothing to compare. A copy
		// that lost PossibleTypes does evaluate them: its disagreements are marked.
		if len(obj.PossibleTypes) > 0 {
			return
		}
		cf.lostGuard = true
	}
	stack = append(append([]*string(nil), stack...), tn)
	rts = append(append([]string(nil), rts...), rt)
	filled := make([]*string, len(stack))
	for i := range stack {
		filled[i] = stack[i]
		if filled[i] == nil {
			filled[i] = &rts[i]
		}
	}
	li := tv.m.levelInfo(sets, def.Name)
	cross := tv.m.crossMerged(sets, def.Name)
	occCount := map[string]int{}
	for _, oc := range tv.m.levelOccurrences(sets, def.Name) {
		occCount[oc.key]++
	}
	planFields := selectedByPlan(obj, stack)
	planFilled := map[string]bool{}
	for _, f := range selectedByPlan(obj, filled) {
		planFilled[string(f.Name)] = true
	}
	opFields := tv.m.collect(sets, rt)
	byKey := map[string]*resolve.Field{}
	for _, f := range planFields {
		k := string(f.Name)
		if _, dup := byKey[k]; dup {
			tv.add(path, "key-duplicate-in-plan", "plan renders key %q twice for runtime type %s", k, rt)
			continue
		}
		byKey[k] = f
	}
	opKeys := map[string]bool{}
	for _, f := range opFields {
		opKeys[f.key] = true
		pf, ok := byKey[f.key]
		if !ok {
			u := tv.add(path, "key-missing-in-plan", "operation selects %q (%s) for runtime type %s (__typename in data: %s), plan does not%s", f.key, f.name, rt, tnText(tn), conditionsOf(obj, f.key))
			u.key, u.typenameField, u.level, u.absentTypename = f.key, f.name == "__typename", li, planFilled[f.key]
			tv.mergeAttrs(u, obj, f.key, cf, path)
			continue
		}
		if f.name == "__typename" {
			switch x := pf.Value.(type) {
			case *resolve.StaticString:
				if !root || x.Value != rt {
					tv.add(pathAppend(path, f.key), "node-kind", "static __typename %q at a non-root position or wrong value", x.Value)
				}
			case *resolve.String:
				if x.Nullable || strings.Join(x.Path, "/") != f.key {
					tv.add(pathAppend(path, f.key), "node-kind", "__typename node nullable=%v path=%v", x.Nullable, x.Path)
				}
			default:
				tv.add(pathAppend(path, f.key), "node-kind", "__typename rendered by %T", pf.Value)
			}
			continue
		}
		_, crossed := cross[f.key]
		tv.node(pf.Value, f.typ, f.sets, v.get(f.key), stack, rts, pathAppend(path, f.key), f.key, false, crossFlags{parent: crossed, above: crossed || cf.above, multi: occCount[f.key] >= 2})
	}
	for _, f := range planFields {
		if !opKeys[string(f.Name)] {
			u := tv.add(path, "key-extra-in-plan", "plan renders %q for runtime type %s (__typename in data: %s), operation does not select it%s", f.Name, rt, tnText(tn), conditionsOf(obj, string(f.Name)))
			_, isStr := f.Value.(*resolve.String)
			u.key, u.typenameField, u.level = string(f.Name), isStr && f.Value.(*resolve.String).IsTypeName, li
			tv.mergeAttrs(u, obj, string(f.Name), cf, path)
		}
	}
}

func (tv *tview) mergeAttrs(u *unfaithful, obj *resolve.Object, key string, cf crossFlags, path []any) {
	u.crossParent, u.crossAbove, u.multiParent, u.lostGuard = cf.parent, cf.above, cf.multi, cf.lostGuard
	for _, f := range obj.Fields {
		if string(f.Name) == key {
			u.planHasKey = true
			if len(f.ParentOnTypeNames) > 0 {
				u.planParentConds = true
			}
		}
	}
	u.nestedListItem = len(path) >= 2 && isInt(path[len(path)-1]) && isInt(path[len(path)-2])
}

func tnText(tn *string) string {
	if tn == nil {
		return "absent"
	}
	return *tn
}

// conditionsOf describes the type conditions T carries for a key (diagnostics).
func conditionsOf(obj *resolve.Object, key string) string {
	var parts []string
	for _, f := range obj.Fields {
		if string(f.Name) != key {
			continue
		}
		var on []string
		for _, b := range f.OnTypeNames {
			on = append(on, string(b))
		}
		s := fmt.Sprintf("on=%v", on)
		for _, p := range f.ParentOnTypeNames {
			var ns []string
			for _, b := range p.Names {
				ns = append(ns, string(b))
			}
			s += fmt.Sprintf(" parent[%d]=%v", p.Depth, ns)
		}
		parts = append(parts, s)
	}
	if len(parts) == 0 {
		return " [plan has no field with this key]"
	}
	return " [plan conditions: " + strings.Join(parts, " | ") + "]"
}
