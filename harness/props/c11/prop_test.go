package c11

import (
	"os"
	"runtime"
	"testing"

	"verif/harness/pbt"
)

var (
	inboundPart  = pbt.Part[Case]{Name: "sched-inbound", Quick: 30000, Thorough: 800000, Gen: genCase(layerInbound), Check: checkScheduled}
	subgraphPart = pbt.Part[Case]{Name: "sched-subgraph", Quick: 18000, Thorough: 500000, Gen: genCase(layerSubgraph), Check: checkScheduled}
	bothPart     = pbt.Part[Case]{Name: "sched-both", Quick: 28000, Thorough: 800000, Gen: genCase(layerBoth), Check: checkScheduled}
)

// TestProp is the entry point the driver runs in every shard.
func TestProp(t *testing.T) {
	r := pbt.Start(t, "C11")
	defer r.Finish()
	r.Rule("a scenario of 2-6 concurrent requests over 1-3 keys run under a harness-owned schedule is non-trivial when at least one request actually joined a leader (it reached the follower branch of the inbound or subgraph single flight) and at least one participant was parked at a window or gate; distinct by the full case text (requests, scripts, park sets, schedule)")
	r.Assume(
		"only the yield windows of the verif hooks plus the gates in the fake data source / pre-fetch hook / writer are scheduled; interleavings inside sync.Map, channel operations and the runtime are sampled by the -race stress part only",
		"a participant that is neither parked nor finished is taken to be blocked in the follower wait when its goroutine is in state select inside GetOrCreate / loadByContext (runtime.Stack); the clock is used for watchdogs only (expiry = discarded case, or 'wedged' when the same blocking call is seen twice)",
		"the fake data source answers like an HTTP client: it returns the context error when the request context is cancelled; out_alone is computed on a fresh resolver with nothing else in flight",
		"a follower may legitimately receive the upstream failure of the shared work (upstream failures are not deterministic); it may never receive a failure that is private to another participant: its cancellation, its own deadline (however the transport words the aborted call), or the failure of its client connection while the response is written",
		"a participant whose own context has ended may return anything of {its context error, an abort error, out_alone, out_alone-with-failed-upstream}: nobody is listening",
	)
	if os.Getenv("VERIF_RACE") == "1" {
		// race-detector build (thorough only): real goroutines, no scheduler
		r.Regress(dispatch())
		stressRun(t, r, 3000, 100000)
		return
	}
	r.RequireLabel("shared", "joined:inbound-follower", "joined:subgraph-follower", "parked:before_add", "parked:finish_ok", "parked:before_close",
		"parked:joined", "parked:loaded", "parked:write", "aliasing:follower-bytes-taken-after-poison", "multi-key-in-flight",
		"optype:mutation", "cancel:fired:waiting-for-leader",
		"slot:leader-gave-up-while-queued-with-followers", "write-fail:leader-with-followers",
		"deadline:subgraph-leader-expired-with-followers", "opaque:subgraph-leader-aborted-with-followers",
		"headers-only-differ:uniform:datasources=2", "headers-only-differ:uniform:datasources=4", "headers-only-differ:rotate:datasources=3")
	r.Regress(dispatch())
	r.RunProbes(probes())
	// the scheduled parts have one or two runnable goroutines at a time; fewer Ps make the
	// stop-the-world goroutine snapshots cheap on a shared machine
	procs := runtime.GOMAXPROCS(4)
	inboundPart.Run(r)
	subgraphPart.Run(r)
	bothPart.Run(r)
	runtime.GOMAXPROCS(procs)
	stressRun(t, r, 4000, 160000)
}

func TestReplay(t *testing.T) { pbt.StdReplay(t, "C11", dispatch()) }

func dispatch() pbt.Dispatch {
	return pbt.Dispatch{}.
		Add(inboundPart.Name, inboundPart.Handler()).
		Add(subgraphPart.Name, subgraphPart.Handler()).
		Add(bothPart.Name, bothPart.Handler()).
		Add(stressName, stressHandler).
		WithProbes(probes())
}
