#!/usr/bin/env python3
"""Regenerates MANIFEST.json from manifest_src.json (per-property texts) — keeps the file valid."""
import json, os
root = os.path.dirname(os.path.abspath(__file__))
src = json.load(open(os.path.join(root, "manifest_src.json")))
props = [json.loads(l) for l in open(os.path.join(root, "properties.jsonl"))]
checks, na = [], []
for p in props:
    pid = p["id"]
    s = src["checks"].get(pid)
    if not s or s.get("not_applicable"):
        na.append({"property_id": pid, "reason": (s or {}).get("not_applicable", "check under construction in this session; not claimed until it runs clean")})
        continue
    checks.append({
        "property_id": pid,
        "quick_cmd": f"./check {pid} quick",
        "thorough_cmd": f"./check {pid} thorough",
        "evidence_file": f"/verif/evidence/{pid}.json",
        "replay_cmd_template": f"./check {pid} quick --replay {{path}}",
        "engine": "pbt-harness",
        "level_claimed": {"category": s.get("level", "exploration"), "text": s["text"], "design_ref": s.get("design_ref", f"DESIGN.md §4 {pid}")},
        "level_note": s["note"],
        "technique": s["technique"],
    })
m = {
    "version": 1,
    "setup_cmd": "./setup.sh",
    "hooks": {
        "guard": "verif (Go build tag)",
        "enable": "go test -tags verif (the harness module replaces the repo modules with /repo/v2 and /repo/execution, so every check compiles the current working tree)",
        "baseline_off_cmd": "for m in . ./execution ./v2; do (cd /repo/$m && go test -json -vet=off -count=1 -timeout 25m ./...); done",
        "source_commits": src["hook_commits"],
        "add_only": True,
    },
    "engines": [{"name": "pbt-harness", "path": "/verif/harness", "serves_properties": [c["property_id"] for c in checks],
                 "kind_free_text": "Go module outside /repo: pgregory.net/rapid v1.3.0 generators and state machines + native go fuzzing, independent oracles on gqlparser ASTs, driver /verif/check (sharding, replay, evidence merge)"}],
    "checks": checks,
    "notes": src.get("notes", ""),
    "not_applicable": na,
}
json.dump(m, open(os.path.join(root, "MANIFEST.json"), "w"), indent=1)
print("claimed", [c["property_id"] for c in checks], "not claimed", [n["property_id"] for n in na])
