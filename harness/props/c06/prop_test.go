package c06

import (
	"strings"
	"testing"

	ir "verif/harness/internal/inputref"
	"verif/harness/pbt"
)

var admissionPart = pbt.Part[Case]{Name: "admission", Quick: 80000, Thorough: 1500000, Gen: genCase, Check: checkCase}

// TestProp is the entry point the driver runs in every shard.
func TestProp(t *testing.T) {
	r := pbt.Start(t, "C06")
	defer r.Finish()
	r.Rule("admission: generated schema (input objects nested/recursive/defaults/@oneOf, enums, custom scalar, wrappers to depth 3) x operation with 1-4 variables used as argument, list item or input field x variables coercible by construction, optionally broken at one position; non-trivial when a variable type has >=2 wrappers or is an input object and, for rejects, the deepest fault is at depth >=1; distinct by operation+variables text")
	r.Assume("reference input coercion (harness/internal/inputref, written from spec §3 input coercion and §6.1.2) is the oracle; it is validated on the spec's own coercion tables and re-checks the generator's coercible-by-construction claim (disagreements are discarded and counted)",
		"accepted = at least one request reached the fake subgraph; rejected = Execute returned an error (or wrote errors) before any subgraph request",
		"Int given an integral number spelled with fraction/exponent (1.0, 1e2) is not generated (gray zone)")
	r.RequireLabel("agree:accept", "agree:reject", "raw:agree", "multi-operation:2", "multi-operation:3", "msg:variable-named", "msg:path-compatible", "msg:sentinels-checked",
		"fault:null-in-nonnull", "fault:missing-required-field", "fault:unknown-field", "fault:wrong-kind", "fault:bad-enum-value", "fault:oneof-count", "fault:missing-variable")
	r.Regress(dispatch())
	r.RunProbes(probes())
	admissionPart.Run(r)
}

func TestReplay(t *testing.T) { pbt.StdReplay(t, "C06", dispatch()) }

func dispatch() pbt.Dispatch {
	return pbt.Dispatch{}.Add(admissionPart.Name, admissionPart.Handler()).WithProbes(probes())
}

// ---- directed probes of the recorded findings ----------------------------------------------------

var probeSchema = ir.Schema{
	Scalars: []string{"JSON"},
	Enums:   []ir.Enum{{Name: "E", Values: []string{"X", "Y"}}},
	Inputs: []ir.Input{
		{Name: "In", Fields: []ir.Field{{Name: "a", Type: "Int!"}, {Name: "c", Type: "In"}, {Name: "d", Type: "E", Default: "X"}}},
		{Name: "Sing", Fields: []ir.Field{{Name: "l", Type: "[String!]!", Default: `"x"`}}},
		{Name: "Def", Fields: []ir.Field{{Name: "s", Type: "String"}, {Name: "t", Type: "[In!]", Default: "[]"}, {Name: "r", Type: "Int!", Default: "5"}}},
	},
	Echoes: []ir.Echo{
		{Name: "fInt", Arg: ir.Field{Name: "v", Type: "Int"}},
		{Name: "fID", Arg: ir.Field{Name: "v", Type: "ID"}},
		{Name: "fReq", Arg: ir.Field{Name: "v", Type: "Int!"}},
		{Name: "fIn", Arg: ir.Field{Name: "v", Type: "In"}},
		{Name: "fIns", Arg: ir.Field{Name: "v", Type: "[In]"}},
		{Name: "fDef", Arg: ir.Field{Name: "v", Type: "Def"}},
		{Name: "fIntsR", Arg: ir.Field{Name: "v", Type: "[Int]"}},
		{Name: "fSing", Arg: ir.Field{Name: "v", Type: "Sing"}},
		{Name: "fEs", Arg: ir.Field{Name: "v", Type: "[E]"}},
		{Name: "fLL", Arg: ir.Field{Name: "v", Type: "[[Int]]"}},
	},
}

func probeCase(field, typ, vars, form string) Case {
	return Case{Schema: probeSchema, Decls: []ir.VarDecl{{Name: "v", Type: typ}}, Query: "query($v: " + typ + "){ " + field + "(v: $v) }",
		VarsForm: form, Vars: vars, Break: "probe"}
}

func probeOf(id string, cases ...Case) pbt.ProbeDef {
	return pbt.ProbeDef{Input: cases, Fn: func() string {
		var out []string
		for _, c := range cases {
			v := checkCase(c, &pbt.Rec{})
			if v.Msg != "" && v.Finding == id {
				m := v.Msg
				if i := strings.Index(m, "\nschema:"); i >= 0 {
					m = m[:i]
				}
				out = append(out, c.Query+" "+c.Vars+" => "+m)
			}
		}
		return strings.Join(out, " | ")
	}}
}

func probes() pbt.Probes {
	return pbt.Probes{
		fIntID: probeOf(fIntID, probeCase("fInt", "Int", `{"v":1.5}`, "object"), probeCase("fInt", "Int", `{"v":3000000000}`, "object"),
			probeCase("fID", "ID", `{"v":1.5}`, "object")),
		fNullItem: probeOf(fNullItem, probeCase("fDef", "Def", `{"v":{"t":[null]}}`, "object"), probeCase("fDef", "Def", `{"v":{"r":null}}`, "object")),
		fShift: probeOf(fShift, probeCase("fIns", "[In]", `{"v":[1,{"a":-5},{"a":-4,"d":"Y"}]}`, "object"),
			probeCase("fIns", "[In]", `{"v":[null,{"a":1}]}`, "object")),
		fNoVars:   probeOf(fNoVars, probeCase("fReq", "Int!", "", "absent"), probeCase("fReq", "Int!", "null", "null")),
		fVarDflt:  probeOf(fVarDflt, Case{Schema: probeSchema, Decls: []ir.VarDecl{{Name: "v", Type: "Int!", Default: "0"}}, Query: "query($v: Int! = 0){ fIntsR(v: [$v]) }", VarsForm: "object", Vars: "{}", Break: "probe"}),
		fSynth:    probeOf(fSynth, Case{Schema: probeSchema, Decls: []ir.VarDecl{{Name: "v", Type: "Int"}}, Query: "query($v: Int){ fIntsR(v: [$v]) }", VarsForm: "object", Vars: `{"v":"zq5x8k2m"}`, Break: "probe"}),
		fIntMin:   probeOf(fIntMin, Case{Schema: probeSchema, Decls: []ir.VarDecl{{Name: "v", Type: "Int", Default: intMin}}, Query: "query($v: Int = " + intMin + "){ fInt(v: $v) }", VarsForm: "object", Vars: `{"v":1}`, Break: "probe"}),
		fNullDflt: probeOf(fNullDflt, Case{Schema: probeSchema, Decls: []ir.VarDecl{{Name: "v", Type: "[Int!]", Default: "null"}}, Query: "query($v: [Int!] = null){ fIntsR(v: $v) }", VarsForm: "object", Vars: "{}", Break: "probe"}),
		fSingle: probeOf(fSingle, probeCase("fSing", "Sing", `{"v":{}}`, "object"),
			Case{Schema: probeSchema, Decls: []ir.VarDecl{{Name: "v", Type: "[[Int]]", Default: "[1]"}}, Query: "query($v: [[Int]] = [1]){ fLL(v: $v) }", VarsForm: "object", Vars: "{}", Break: "probe"}),
		fCoerceOp: probeOf(fCoerceOp, Case{Schema: probeSchema, Decls: []ir.VarDecl{{Name: "v", Type: "[Int]"}}, OperationName: "Q",
			Query: "query D0 { fInt } query Q($v: [Int]){ fIntsR(v: $v) }", VarsForm: "object", Vars: `{"v":1}`, Break: "probe"}),
		fEnumList: probeOf(fEnumList, probeCase("fEs", "[E]", `{"v":[{}]}`, "object")),
		fNoPath: probeOf(fNoPath, probeCase("fIn", "In", `{"v":{"a":1,"c":{}}}`, "object"), probeCase("fIn", "In", `{"v":{"a":1,"c":{"a":2,"c":"zq5x8k2m"}}}`, "object"),
			probeCase("fIntsR", "[Int!]", `{"v":[null]}`, "object")),
	}
}
