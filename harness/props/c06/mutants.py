#!/usr/bin/env python3
"""Regenerates the overlay mutants of MUTANTS.md under /tmp/c06mut (never touches /repo).
Usage: python3 mutants.py && VERIF_OVERLAY=/tmp/c06mut/<name>.json /verif/check C06 quick --shards 8 --scale 0.25
Remove /tmp/c06mut afterwards."""
import json, os
os.makedirs('/tmp/c06mut', exist_ok=True)
P = '/repo/v2/pkg/variablesvalidation/variablesvalidation.go'
src = open(P).read()

def mk(name, old, new):
    assert src.count(old) == 1, (name, src.count(old))
    open(f'/tmp/c06mut/{name}.go', 'w').write(src.replace(old, new))
    json.dump({"Replace": {P: f"/tmp/c06mut/{name}.go"}}, open(f'/tmp/c06mut/{name}.json', 'w'))

mk('m1_skip_unknown', '''			if inputValueDefinitionRef == -1 {
				v.renderVariableFieldNotDefinedError(inputFieldName, typeName)
				return
			}''', '''			if inputValueDefinitionRef == -1 {
				continue
			}''')
mk('m2_null_in_list', '''		values := jsonValue.GetArray()
		for i, arrayValue := range values {
			v.pushArrayPath(i)''', '''		values := jsonValue.GetArray()
		for i, arrayValue := range values {
			if arrayValue.Type() == astjson.TypeNull {
				continue
			}
			v.pushArrayPath(i)''')
mk('m3_default_required', '''			if objectFieldValue == nil && v.definition.InputValueDefinitionHasDefaultValue(inputFieldRef) {
				continue
			}''', '''			if false && objectFieldValue == nil && v.definition.InputValueDefinitionHasDefaultValue(inputFieldRef) {
				continue
			}''')
mk('m4_oneof_offbyone', '''	if totalFieldCount != 1 {''', '''	if totalFieldCount > 2 || totalFieldCount < 1 {''')
mk('m5_enum_case', '''		value := jsonValue.GetStringBytes()
		hasValue, isInaccessible :=''', '''		value := bytes.ToUpper(jsonValue.GetStringBytes())
		hasValue, isInaccessible :=''')
mk('m6_echo_content', '''func (v *variablesVisitor) invalidEnumValueIfAllowed(variableContent string) string {
	if v.opts.DisableExposingVariablesContent {
		return ""
	}''', '''func (v *variablesVisitor) invalidEnumValueIfAllowed(variableContent string) string {
	if false {
		return ""
	}''')
mk('m7_path_index', '''func (v *variablesVisitor) pushArrayPath(index int) {
	v.path = append(v.path, pathItem{
		kind:       pathItemKindArray,
		arrayIndex: index,''', '''func (v *variablesVisitor) pushArrayPath(index int) {
	v.path = append(v.path, pathItem{
		kind:       pathItemKindArray,
		arrayIndex: index + 1,''')
# equivalent of seeded change C06-n2: every operation of the arena is judged, including the
# operations that normalization detached from the document
mk('m8_arena_loop', '''	v.walker.Walk(operation, definition, report)
	if report.HasErrors() {
		return report
	}
	return v.visitor.err''', '''	v.walker.Walk(operation, definition, report)
	if report.HasErrors() {
		return report
	}
	for i := range operation.OperationDefinitions {
		if !operation.OperationDefinitions[i].HasVariableDefinitions {
			continue
		}
		for _, ref := range operation.OperationDefinitions[i].VariableDefinitions.Refs {
			v.visitor.EnterVariableDefinition(ref)
		}
	}
	return v.visitor.err''')
print("mutants written to /tmp/c06mut")
