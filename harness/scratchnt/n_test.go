package nt
import ("fmt";"testing";"os"
 "github.com/wundergraph/graphql-go-tools/execution/graphql"
 "github.com/wundergraph/graphql-go-tools/v2/pkg/astnormalization"
 "github.com/wundergraph/graphql-go-tools/v2/pkg/astprinter")
const sdl = `type Query { e0: E0 e1: E1 node: Node } interface Node { id: ID! } union U = E0 | E1 type E0 implements Node { id: ID! f1: String f4(first: Int = 3): Int } type E1 implements Node { id: ID! f1: String}`
func TestN(t *testing.T){
 b,_ := os.ReadFile("/tmp/super.graphql"); schema,_ := graphql.NewSchemaFromString(string(b))
 req := graphql.Request{Query: os.Getenv("Q")}
 if os.Getenv("NONORM") == "" {
 res, err := req.Normalize(schema, astnormalization.WithRemoveFragmentDefinitions(), astnormalization.WithRemoveUnusedVariables(), astnormalization.WithInlineFragmentSpreads())
 fmt.Println("NORM", err, res.Errors)
 s,_ := astprinter.PrintString(req.Document())
 fmt.Println(s)
 }
 vr, err := req.ValidateForSchema(schema)
 fmt.Println("VALID", vr.Valid, err, vr.Errors)
}
