package c18

import (
	"fmt"
	"strings"
	"sync"

	"verif/harness/pbt"
)

// Directed probes: one concrete schedule per recorded finding. Fn returns a description while the
// defect reproduces on this tree, "" otherwise.

// probeDialCtx: the upstream holds connection_ack; A subscribes (its connection_init is seen);
// B subscribes with equal options and joins A's dial (settle interval); A is cancelled; the ack is
// released. B must end up subscribed.
var probeDialCtxCase = Case{
	Tuples: []Tuple{{Gate: true}},
	Subs:   []Sub{{Tuple: 0, Nexts: 1, Term: "complete"}, {Tuple: 0, Nexts: 1, Term: "complete"}},
	Steps: []Step{{Op: "sub", Sub: 0}, {Op: "sub", Sub: 1}, {Op: "cancel", Sub: 0}, {Op: "ack", Key: 0},
		{Op: "send", Sub: 1}, {Op: "send", Sub: 1}},
}

func probeDialCtx() string {
	// The settle interval is one-sided: if B had not joined A's dial yet it dials for itself and the
	// probe misses. A few attempts make a miss on a loaded machine unlikely.
	for attempt := 0; attempt < 3; attempt++ {
		o := run(probeDialCtxCase)
		for _, v := range judge(o) {
			if v.finding == fDialCtx {
				return v.msg
			}
		}
	}
	return ""
}

// probeCancelWrite: A is subscribed and streaming on an established connection; subscribers with
// the same options whose context is already cancelled call Subscribe. Each such call closes the
// shared connection with probability ~1/4 (two select statements in coder/websocket choose at random
// between "context done" and "lock acquired"; when both pick the lock, the write arms
// context.AfterFunc(ctx, conn.close) with a context that is already done).
func probeCancelWriteCase(n int) Case {
	c := Case{Tuples: []Tuple{{}}, Subs: []Sub{{Tuple: 0, Nexts: 2, Term: "none"}}}
	c.Steps = []Step{{Op: "sub", Sub: 0}, {Op: "send", Sub: 0}}
	for j := 1; j <= n; j++ {
		c.Subs = append(c.Subs, Sub{Tuple: 0, Nexts: 0, Term: "none"})
		c.Steps = append(c.Steps, Step{Op: "cancel", Sub: j}, Step{Op: "sub", Sub: j})
	}
	c.Steps = append(c.Steps, Step{Op: "send", Sub: 0})
	return c
}

func probeCancelWrite() string {
	o := run(probeCancelWriteCase(40)) // miss probability 0.75^40 ~ 1e-5
	for _, v := range judge(o) {
		if v.finding == fCancelWrite && strings.HasPrefix(v.msg, "sub 0 ") {
			return v.msg
		}
	}
	return ""
}

// probeCloseRace: the upstream holds connection_ack while A..H subscribe with equal options (one
// dial, seven waiters); on release the upstream answers A's subscribe with an immediate complete.
// When A's completion is processed before a waiter has registered, the client closes the connection
// as empty and the waiter's Subscribe fails with "connection closed". The window needs a waiter to be
// scheduled late, so the probe runs the scenario concurrently in many worlds to load the scheduler.
func probeCloseRaceCase() Case {
	c := Case{Burst: true, Tuples: []Tuple{{Gate: true}}, Subs: []Sub{{Tuple: 0, Nexts: 0, Term: "complete"}}, DropAfter: []int{-1}}
	for j := 0; j < 7; j++ {
		c.Subs = append(c.Subs, Sub{Tuple: 0, Nexts: 1, Term: "none"})
	}
	return c
}

func probeCloseRace() string {
	c := probeCloseRaceCase()
	var mu sync.Mutex
	found, rounds := "", 0
	var wg sync.WaitGroup
	for g := 0; g < 32; g++ {
		wg.Add(1)
		go func() {
			defer wg.Done()
			for r := 0; r < 120; r++ {
				mu.Lock()
				stop := found != ""
				rounds++
				mu.Unlock()
				if stop {
					return
				}
				o := run(c)
				for _, v := range judge(o) {
					if v.finding == fCloseRace {
						mu.Lock()
						if found == "" {
							found = fmt.Sprintf("%s (stress probe: hit after %d concurrent rounds)", v.msg, rounds)
						}
						mu.Unlock()
					}
				}
			}
		}()
	}
	wg.Wait()
	return found
}

func probes() pbt.Probes {
	return pbt.Probes{
		fDialCtx:     {Input: probeDialCtxCase, Fn: probeDialCtx},
		fCancelWrite: {Input: probeCancelWriteCase(40), Fn: probeCancelWrite},
		fCloseRace:   {Input: probeCloseRaceCase(), Fn: probeCloseRace},
	}
}
