package c03

import (
	"fmt"
	"strings"

	"pgregory.net/rapid"

	"github.com/wundergraph/graphql-go-tools/execution/graphql"

	"verif/harness/internal/admit"
	"verif/harness/internal/fedgen"
	"verif/harness/internal/opgen"
	"verif/harness/internal/sim"
	"verif/harness/pbt"
)

// seqCase: valid operations normalized one after the other by the same long-lived
// normalizer / validator / variables-mapper instances.
type seqCase struct {
	Super string     `json:"super"`
	Ops   []opgen.Op `json:"ops"`
}

// reusePart: norm(q, v) is a function of (schema, q, v) alone. Each operation of a history is
// normalized on reused instances (admit.Pipeline, the engine's option sets and order of
// steps) and on fresh ones; print, variables and remap table must be equal, so everything
// the other parts establish for fresh instances holds for a long-lived server too.
var reusePart = pbt.Part[seqCase]{Name: "norm-independent-of-instance-history", Quick: 15000, Thorough: 100000, Check: checkSeq,
	Gen: func(t *rapid.T) seqCase {
		l := fedgen.Gen(t, fedgen.Options{MaxSubs: 2})
		super, err := sim.LoadSuper(l.Super)
		if err != nil {
			t.Fatalf("generator produced an invalid schema: %v", err)
		}
		c := seqCase{Super: l.Super}
		n := rapid.IntRange(2, 5).Draw(t, "ops")
		for i := 0; i < n; i++ {
			c.Ops = append(c.Ops, opgen.Gen(t, super, opgen.Options{Mutations: true, SecondOp: true, NoVarInObject: true, Allow: allow(), Budget: 10}))
		}
		return c
	}}

func checkSeq(c seqCase, o *pbt.Rec) pbt.Verdict {
	schema, err := graphql.NewSchemaFromString(c.Super)
	if err != nil {
		return pbt.Bad("schema rejected by the repo: %v", err)
	}
	p := admit.NewPipeline()
	var history []string
	withVars, short, extracted := 0, 0, 0
	for i, op := range c.Ops {
		got := p.Run(schema, op)
		want := admit.NewPipeline().Run(schema, op)
		history = append(history, fmt.Sprintf("  %d. %s  variables %s  operationName %q -> %s", i+1, op.Query, op.VarsJSON(), op.OperationName, want.String()))
		if want.Stage == "panic" || got.Stage == "panic" {
			p = admit.NewPipeline()
			o.Label("reuse:panic-step")
			continue
		}
		if !got.Same(want) {
			return pbt.Bad("normalization depends on what the reused instances processed before: operation %d\n  reused instances: %s\n  fresh instances:  %s\nhistory (one schema, same instances):\n%s", i+1, got, want, strings.Join(history, "\n"))
		}
		if want.Stage != "" {
			o.Label("reuse:refused-at:" + want.Stage) // recorded findings of the other parts; same verdict on both sides
			continue
		}
		if want.Vars != "{}" {
			withVars++
		}
		for _, f := range op.Features {
			if f == "short-var-names" {
				short++
			}
		}
		if want.Remap != "{}" && want.Vars != op.VarsJSON() {
			extracted++
		}
	}
	o.Label(fmt.Sprintf("reuse:ops=%d", len(c.Ops)))
	if short > 0 {
		o.Label("reuse:history-with-short-variable-names")
	}
	if withVars >= 2 {
		o.Label("reuse:two-or-more-operations-with-variables")
		o.NonTrivial(strings.Join(history, "\n"))
	}
	return pbt.OK
}
