package c19

import (
	"fmt"
	"sort"
	"strconv"

	"verif/harness/pbt"
)

// The reference protocol state machine (acceptor). It is a pure function of the case and
// of the interleaved history the rig recorded. What it demands is DESIGN.md §4 C19:
//
//   transport-ws: nothing but connection_ack answers the first init; subscribe before init ->
//   close 4401 and no operation starts; second init -> 4429; unknown type / non-JSON -> 4400;
//   subscribe for a live id -> 4409; (init-timeout part) no init in time -> 4408.
//   both: per operation INSTANCE (an id may be re-used after its operation ended) the server's
//   messages are next* terminal?, at most one terminal, nothing after it until the next
//   instance of that id begins; the next payloads are exactly the results the instance's
//   executor produced, in order; the terminal is present where the code path has a terminal
//   event (query/mutation finished, client-completed operation, failed subscription); no
//   next/error for an id without an instance; every close is answered to a message that
//   justifies it; only message types of the negotiated protocol are written.
//
// Deliberately lenient (not alarmed): a complete echoed for an id that was never started;
// messages of wrong JSON shape may be ignored or closed with 4400 (well-formed messages of a
// server-only type are invalid messages: 4400 under transport-ws, connection_error under graphql-ws); a subscribe whose payload the pool refuses may be ignored or answered with
// error(id); ping/pong/ka may be written at any time; graphql-ws has no init guard in the
// statement, so start before init is not alarmed; after a rejected init under graphql-ws the
// liveness of earlier ids is "unknown" (both a duplicate answer and a fresh start are fine).

const (
	fStop   = "C19-stop-completes-unconditionally"
	fEmit   = "C19-emit-after-client-complete"
	fFailed = "C19-failed-subscription-stays-active"
)

type viol struct {
	Msg     string
	Finding string // recogniser verdict ("" = unattributed)
	Seq     int
	ID      string
}

type inst struct {
	id        string
	m         int
	op        string
	startSeq  int
	termSeq   int
	termType  string
	nexts     []string
	cancelSeq int    // R seq of the client message that ended it while it was live
	cancelMsg int    // index of that message
	cancelBy  string // complete | terminate | reject
	lastOut   int    // seq of the executor's last output event (XE / reporting XR) after cancelSeq
	xs, xr    int
	xp        int
	xerr      bool
	xeAfter   bool // the executor produced output (XE, or a terminal-producing return) after cancelSeq
	emits     []event
	pairDone  bool // the complete that follows a query's result document has been attributed
}

// parseDoc recognises a result document of the fake executors.
func parseDoc(p string) (m, k int, ok bool) {
	n, err := fmt.Sscanf(p, `{"data":{"m":%d,"k":%d}}`, &m, &k)
	return m, k, err == nil && n == 2 && p == resultDoc(m, k)
}

type result struct {
	viols       []viol
	labels      []string
	nontrivial  bool
	expectStart map[int]bool
	acked       bool
	inited      bool // reference state at the end of the (prefix of the) history
	started     int
	closeCode   int
	delivered   int
	// inconclusive: the verdict would depend on a window the rig cannot close (see below)
	inconclusive string
}

func (r *result) label(l string) { r.labels = append(r.labels, l) }

type msgFacts struct {
	rseq, syncEnd int
	dropped       bool
	xs, xr, xp    int
	xerr          bool
	xget          bool
	sync          []event // W and C events by the handler goroutine in the sync window (before XS of this message)
}

func isPerID(proto, typ string) bool {
	if proto == protoGWS {
		return typ == "data" || typ == "error" || typ == "complete"
	}
	return typ == "next" || typ == "error" || typ == "complete"
}

func isData(typ string) bool     { return typ == "next" || typ == "data" }
func isTerminal(typ string) bool { return typ == "error" || typ == "complete" }

// accept runs the reference machine. final=false is used by the driver on a prefix of the
// history only to learn which subscribes the reference expects to start executing.
func accept(c Case, h []event, final bool) *result {
	res := &result{expectStart: map[int]bool{}}
	proto := c.Proto
	n := len(c.Msgs)
	facts := make([]msgFacts, n)
	endSeq := 1 << 30 // seq of the event that ended the connection (C or EOF)
	lastSeq := 0
	// ---- pass 1: per-message facts
	cur := -1
	open := false
	for _, e := range h {
		lastSeq = e.Seq
		switch e.K {
		case evR:
			cur = e.M
			open = true
			facts[cur].rseq = e.Seq
		case evRDROP:
			facts[e.M].dropped = true
			open = false
		case evRQ, evDONE:
			if open {
				facts[cur].syncEnd = e.Seq
				open = false
			}
		case evC, evEOF:
			if e.Seq < endSeq {
				endSeq = e.Seq
			}
			if open && e.K == evC && facts[cur].xs == 0 {
				facts[cur].sync = append(facts[cur].sync, e)
			}
		case evW:
			if open && facts[cur].xs == 0 {
				facts[cur].sync = append(facts[cur].sync, e)
			}
		case evXGET:
			facts[e.M].xget = true
		case evXS:
			if facts[e.M].xs == 0 {
				facts[e.M].xs = e.Seq
			}
		case evXR:
			if facts[e.M].xr == 0 {
				facts[e.M].xr = e.Seq
				facts[e.M].xerr = e.Err
			}
		case evXP:
			if facts[e.M].xp == 0 {
				facts[e.M].xp = e.Seq
			}
		}
	}
	for i := range facts {
		if facts[i].rseq != 0 && facts[i].syncEnd == 0 {
			facts[i].syncEnd = lastSeq + 1
		}
	}
	inSync := func(i int, seq int) bool { return i >= 0 && seq > facts[i].rseq && seq < facts[i].syncEnd }

	// ---- pass 2: chronological
	var (
		inited    bool
		closed    bool
		allInst   []*inst
		latest    = map[string]*inst{}
		maybeLive = map[string]bool{} // gws after a rejected init: liveness of these ids is unknown
		consumed  = map[int]bool{}    // W events that answer a message as such (not attributed to an instance)
		instOf    = map[int]*inst{}   // by message index
		ackOK     = map[int]bool{}    // seq of connection_ack events that answer an accepted init
		connErrOK = map[int]bool{}
		curMsg    = -1
		// ids for which the hook refused a subscribe while the id was free (it must still be free)
		hookRefusedID = map[string]bool{}
		lastW         *event             // previous message written to the client
		pendErr       = map[string]int{} // by id: 1 + message index of the executor whose Execute returned an error most recently and whose error message is due
	)
	// subject is the operation id the event being judged is about ("" = connection level).
	// Once a violation on an id has been attributed to a recorded finding, the reference and
	// the server disagree about that id's state (e.g. the stale operation's deferred Cancel(id)
	// kills the operation that re-used the id), so later violations about the same id in the
	// same case are knock-on effects and carry the same attribution. Other ids and everything
	// at connection level stay fully judged.
	subject := ""
	polluted := map[string]string{}
	bad := func(seq int, finding string, f string, a ...any) {
		msg := fmt.Sprintf(f, a...)
		if subject != "" {
			if finding == "" && polluted[subject] != "" {
				finding = polluted[subject]
				msg += " [knock-on: an earlier violation on id " + subject + " in this history was attributed to " + finding + "]"
			} else if finding != "" && polluted[subject] == "" {
				polluted[subject] = finding
			}
		}
		res.viols = append(res.viols, viol{Msg: msg, Finding: finding, Seq: seq, ID: subject})
	}
	liveSpec := func(id string) *inst {
		l := latest[id]
		if l != nil && l.termSeq == 0 && l.cancelSeq == 0 {
			return l
		}
		return nil
	}
	// a failed subscription: the server sent error(id) (a terminal), the client did not complete it
	failedShape := func(l *inst) bool {
		return l != nil && l.op == "subscription" && l.termSeq != 0 && l.termType == "error" && (l.cancelSeq == 0 || l.cancelSeq > l.termSeq)
	}
	// emitRecognised: some instance of this id was cancelled by the client while its executor
	// was still running, and that executor produced output afterwards.
	// It explains a violation on instance j of the same id when it is j itself or an earlier
	// instance whose late output arrived after j began.
	emitRecognised := func(j *inst) bool {
		for _, x := range allInst {
			if x.id == j.id && x.cancelSeq != 0 && x.xeAfter && (x == j || x.startSeq < j.startSeq && x.lastOut > j.startSeq) {
				return true
			}
		}
		return false
	}
	closeExpect := func(i int, what string, want int, required bool, lenient44 bool) {
		// evaluates the C events in the sync window of message i
		var cs []event
		for _, e := range facts[i].sync {
			if e.K == evC {
				cs = append(cs, e)
			}
		}
		if len(cs) == 0 {
			if required {
				bad(facts[i].rseq, "", "%s (message #%d) must close the connection with %d, but the connection stayed open", what, i, want)
			}
			return
		}
		code := cs[0].Code
		if lenient44 {
			if code < 4400 || code > 4499 {
				bad(cs[0].Seq, "", "%s (message #%d): closed with %d, not a 44xx code", what, i, code)
			}
			return
		}
		if want == 0 {
			bad(cs[0].Seq, "", "%s (message #%d) does not justify a close, but the server closed with %d", what, i, code)
			return
		}
		if code != want {
			bad(cs[0].Seq, "", "%s (message #%d) must close with %d, server closed with %d", what, i, want, code)
		}
	}
	syncHasClose := func(i int) (int, bool) {
		for _, e := range facts[i].sync {
			if e.K == evC {
				return e.Code, true
			}
		}
		return 0, false
	}

	onRead := func(i int) {
		m := c.Msgs[i]
		f := &facts[i]
		res.delivered++
		if closed {
			return // raced with an asynchronous close (init-timeout part); not modelled
		}
		s := classify(proto, m)
		tws := proto == protoTWS
		subject = ""
		if s == semSub || s == semComplete {
			subject = m.ID
		}
		if code, ok := syncHasClose(i); ok && tws && c.TimeoutMs > 0 && code == 4408 && !inited {
			// init-timeout part: the timer fired while this message was being handled
			res.label("close-4408-during-message")
			return
		}
		switch s {
		case semInit:
			switch {
			case tws && inited:
				res.label("second-init")
				closeExpect(i, "a second connection_init", 4429, true, false)
			case initRejected(m):
				res.label("init-rejected")
				if tws {
					closeExpect(i, "a rejected connection_init", 0, false, true)
				} else {
					closeExpect(i, "a rejected connection_init", 0, false, true)
					for _, e := range f.sync {
						if e.K == evW && e.Type == "connection_error" {
							connErrOK[e.Seq] = true
						}
					}
					// the code terminates all operations here; the statement does not say: unknown
					for id := range latest {
						if l := liveSpec(id); l != nil {
							maybeLive[id] = true
							l.cancelSeq, l.cancelMsg, l.cancelBy = f.rseq, i, "reject"
						}
					}
				}
			default:
				res.label("init-accepted")
				got := 0
				for _, e := range f.sync {
					if e.K == evW && e.Type == "connection_ack" {
						if got == 0 {
							ackOK[e.Seq] = true
						}
						got++
					} else if e.K == evW && tws && !(e.Type == "pong" || e.Type == "ping") {
						bad(e.Seq, "", "the first connection_init (message #%d) must be answered by connection_ack only, server wrote %s", i, e)
					}
				}
				if got != 1 && (final || f.syncEnd <= lastSeq) {
					bad(f.rseq, "", "connection_init (message #%d) must be answered by exactly one connection_ack, got %d", i, got)
				}
				closeExpect(i, "an accepted connection_init", 0, false, false)
				inited = true
				if got > 0 {
					res.acked = true
				}
			}
		case semSub:
			valid := subPayloadValid(m.V)
			if tws && !inited {
				res.label("sub-before-init")
				closeExpect(i, "subscribe before connection_init", 4401, true, false)
				if f.xs != 0 {
					bad(f.xs, "", "an operation started executing for a subscribe (message #%d) that arrived before a successful connection_init", i)
				}
				return
			}
			if !valid {
				res.label("sub-invalid-payload")
				closeExpect(i, "a subscribe with an unusable payload", 4400, false, false)
				for _, e := range f.sync {
					if e.K == evW && e.Type == "error" && e.ID == m.ID {
						consumed[e.Seq] = true // spec-conformant answer, accepted
					}
				}
				if f.xs != 0 {
					bad(f.xs, "", "an operation started executing for a subscribe (message #%d) whose payload the executor pool refused", i)
				}
				return
			}
			if hookRefused(c, m) {
				// Refused by the before-start hook: exactly one terminal error(id) with the hook's
				// message, no executor, no operation instance, and the id stays as it was.
				res.label("hook-refused")
				hookErrs, otherErrs := 0, 0
				for _, e := range f.sync {
					if e.K == evW && e.Type == "error" && e.ID == m.ID {
						consumed[e.Seq] = true
						if e.Payload == hookErrPayload {
							hookErrs++
						} else {
							otherErrs++
						}
					}
				}
				code, closedNow := syncHasClose(i)
				if liveSpec(m.ID) != nil || maybeLive[m.ID] {
					// the id is live: the duplicate rule and the hook both apply; either answer is
					// accepted (the unchanged tree asks the hook first), but exactly one
					res.label("hook-refused:on-live-id")
					switch {
					case closedNow && (!tws || code != 4409):
						bad(f.rseq, "", "subscribe (message #%d) refused by the before-start hook for the live id %q: closed with %d (neither the hook's error(id) nor 4409)", i, m.ID, code)
					case closedNow && hookErrs+otherErrs != 0, !closedNow && hookErrs+otherErrs != 1, !closedNow && tws && hookErrs != 1:
						bad(f.rseq, "", "subscribe (message #%d) refused by the before-start hook for the live id %q must get exactly one answer (error(%s) %s or the duplicate-id answer), got %d hook errors, %d other errors, close=%v", i, m.ID, m.ID, hookErrPayload, hookErrs, otherErrs, closedNow)
					}
					return
				}
				if closedNow {
					bad(f.rseq, "", "subscribe (message #%d, id %q) refused by the before-start hook must be answered by error(%s), but the server closed with %d", i, m.ID, m.ID, code)
					return
				}
				if hookErrs != 1 || otherErrs != 0 {
					bad(f.rseq, "", "subscribe (message #%d, id %q) refused by the before-start hook must be answered by exactly one error(%s) with payload %s, got %d such and %d other error messages", i, m.ID, m.ID, hookErrPayload, hookErrs, otherErrs)
				}
				if latest[m.ID] != nil {
					res.label("hook-refused:id-of-ended-operation")
				}
				hookRefusedID[m.ID] = true
				return
			}
			// did the server refuse it as a duplicate?
			refusedBy := 0
			if code, ok := syncHasClose(i); ok {
				refusedBy = code
			} else if !tws && f.xs == 0 {
				for _, e := range f.sync {
					if e.K == evW && e.Type == "error" && e.ID == m.ID {
						refusedBy = e.Seq
						consumed[e.Seq] = true
						break
					}
				}
			}
			live := liveSpec(m.ID)
			switch {
			case live != nil && !maybeLive[m.ID]:
				res.label("duplicate-id")
				if tws {
					closeExpect(i, "subscribe for an id that is still live", 4409, true, false)
				}
				if f.xs == 0 {
					return
				}
				bad(f.xs, "", "a second operation started executing for id %q (message #%d) while the operation of message #%d with the same id was live", m.ID, i, live.m)
				// Follow the server from here on: the operation it started is the id's current one
				// (the instance is created below), so that what is written for the id afterwards
				// is judged, and attributed, against the operation it really belongs to. This
				// happens on the unchanged tree when a cancelled query's deferred Cancel(id) has
				// unregistered the operation that re-used its id (C19-emit-after-client-complete).
			case refusedBy != 0 && maybeLive[m.ID]:
				res.label("gws-maybe-live-refused")
				return
			case refusedBy != 0:
				fd := ""
				if failedShape(latest[m.ID]) && (!tws || refusedBy == 4409) {
					fd = fFailed
					if l := latest[m.ID]; !pbt.IsKnown(fFailed) && (l.xp == 0 || l.xp > f.rseq) {
						// an engine that ends failed subscriptions may still have been between the
						// error message and freeing the id when this subscribe arrived
						res.inconclusive = "re-subscribe raced with the end of a failed subscription"
					}
				}
				why := "its last operation ended"
				if hookRefusedID[m.ID] && latest[m.ID] == nil {
					why = "the only earlier subscribe for it was refused by the before-start hook"
				} else if hookRefusedID[m.ID] {
					why += "; a later subscribe for it was refused by the before-start hook"
				} else if latest[m.ID] == nil {
					why = "never used before"
				}
				if tws {
					bad(f.rseq, fd, "subscribe (message #%d) for id %q, which has no live operation (%s), was refused: server closed with %d", i, m.ID, why, refusedBy)
				} else {
					bad(f.rseq, fd, "start (message #%d) for id %q, which has no live operation (%s), was refused with error(%s) and never executed", i, m.ID, why, m.ID)
				}
				return
			}
			delete(maybeLive, m.ID)
			if latest[m.ID] != nil {
				res.label("id-reused")
			}
			if hookRefusedID[m.ID] {
				res.label("id-reused-after-hook-refusal")
			}
			sc := effectiveScript(m)
			x := &inst{id: m.ID, m: i, op: sc.Op, startSeq: f.rseq}
			allInst = append(allInst, x)
			latest[m.ID] = x
			instOf[i] = x
			res.expectStart[i] = true
			res.started++
			res.label("started:" + sc.Op)
			if !tws && !res.acked {
				res.label("gws-start-before-init")
			}
		case semComplete:
			if l := liveSpec(m.ID); l != nil {
				l.cancelSeq, l.cancelMsg, l.cancelBy = f.rseq, i, "complete"
				res.label("client-complete:live")
				if l.xs != 0 && l.xp == 0 {
					res.label("client-complete:executor-running")
				}
			} else if latest[m.ID] != nil {
				res.label("client-complete:ended-operation")
			} else {
				res.label("client-complete:never-started")
			}
			delete(maybeLive, m.ID)
			closeExpect(i, "complete", 0, false, false)
		case semPing, semPong, semEmpty:
			closeExpect(i, m.K, 0, false, false)
		case semTerminate:
			res.label("gws-terminate")
			ids := make([]string, 0, len(latest))
			for id := range latest {
				ids = append(ids, id)
			}
			sort.Strings(ids)
			for _, id := range ids {
				if l := liveSpec(id); l != nil {
					l.cancelSeq, l.cancelMsg, l.cancelBy = f.rseq, i, "terminate"
				}
			}
			maybeLive = map[string]bool{}
			closeExpect(i, "connection_terminate", 1000, false, false)
		case semUnknown, semSrvType:
			// A message type the server does not accept from a client - one the protocol does
			// not define, or one only the server may send - is an invalid message.
			// graphql-transport-ws: close 4400 in any connection state (protocol document:
			// "receiving a message of a type or format which is not specified in this document
			// will result in an immediate socket closure with 4400"). graphql-ws: pinned from
			// the unchanged tree (protocol_graphql_ws.go, Handle, default branch): exactly one
			// connection_error carrying "unexpected message type: <type>", the connection stays
			// open and nothing else happens (live operations are not disturbed).
			typ := wireType(wire(proto, i, m))
			what := fmt.Sprintf("a message of unknown type %q", typ)
			if s == semSrvType {
				what = fmt.Sprintf("a client message of the server-only type %q", typ)
				res.label("server-only-type")
				res.label("server-only-type:" + typ)
				if tws && inited || !tws && res.acked {
					res.label("server-only-type:after-init")
				} else {
					res.label("server-only-type:before-init")
				}
				if _, shape := srvType(proto, m.V); shape > 0 && liveSpec(m.ID) != nil {
					res.label("server-only-type:id-of-live-operation")
				}
			} else {
				res.label("unknown-type")
			}
			if tws {
				closeExpect(i, what, 4400, true, false)
			} else {
				closeExpect(i, what, 0, false, false)
				want := strconv.Quote("unexpected message type: " + typ)
				n := 0
				for _, e := range f.sync {
					if e.K == evW && e.Type == "connection_error" && e.Payload == want {
						connErrOK[e.Seq] = true
						n++
					}
				}
				if _, closedNow := syncHasClose(i); n != 1 && !closedNow && (final || f.syncEnd <= lastSeq) {
					bad(f.rseq, "", "%s (message #%d) must be answered by exactly one connection_error %s (graphql-ws, pinned behaviour), got %d", what, i, want, n)
				}
			}
		case semNonJSON:
			res.label("non-json")
			if tws {
				closeExpect(i, "a message that is not JSON", 4400, true, false)
			} else {
				closeExpect(i, "a message that is not JSON", 0, false, true)
				for _, e := range f.sync {
					if e.K == evW && (e.Type == "connection_error" || e.Type == "error" && e.ID == "") {
						connErrOK[e.Seq] = true
						consumed[e.Seq] = true
					}
				}
			}
		case semEither:
			if _, ok := syncHasClose(i); ok {
				res.label("wrong-shape:closed")
			} else {
				res.label("wrong-shape:ignored")
			}
			if tws {
				closeExpect(i, "a message of wrong shape", 4400, false, false)
			} else {
				closeExpect(i, "a message of wrong shape", 0, false, true)
				for _, e := range f.sync {
					if e.K == evW && (e.Type == "connection_error" || e.Type == "error" && e.ID == "") {
						connErrOK[e.Seq] = true
						consumed[e.Seq] = true
					}
				}
			}
		}
	}

	onWrite := func(e event) {
		subject = ""
		if e.BadJSON {
			bad(e.Seq, "", "the server wrote something that is not a protocol message object: %q", e.Raw)
			return
		}
		if consumed[e.Seq] {
			return
		}
		if !isPerID(proto, e.Type) {
			switch {
			case e.Type == "connection_ack":
				if !ackOK[e.Seq] {
					bad(e.Seq, "", "unsolicited connection_ack (not the answer to an accepted connection_init)")
				}
			case proto == protoTWS && (e.Type == "ping" || e.Type == "pong"):
			case proto == protoGWS && e.Type == "ka":
			case proto == protoGWS && e.Type == "connection_error":
				if !connErrOK[e.Seq] {
					bad(e.Seq, "", "connection_error that does not answer a rejected init or a malformed/unknown message: %s", e.Raw)
				}
			default:
				bad(e.Seq, "", "message type %q is not a server message of the negotiated protocol: %s", e.Type, e.Raw)
			}
			return
		}
		if e.ID == "" {
			bad(e.Seq, "", "%s message without an id: %s", e.Type, e.Raw)
			return
		}
		subject = e.ID
		// Who produced it? The rig knows more than a client: data carries the tag of its
		// executor, an error follows the failing return of an executor with that id, and the
		// complete that directly follows a query's result document is that query's.
		var prod *inst
		switch {
		case isData(e.Type):
			if m, _, ok := parseDoc(e.Payload); ok {
				if prod = instOf[m]; prod == nil {
					bad(e.Seq, "", "%s(%s) delivers a result of the executor of message #%d, for which the reference has no started operation: %s", e.Type, e.ID, m, e.Raw)
					return
				}
			}
		case e.Type == "error":
			if m := pendErr[e.ID]; m > 0 {
				prod = instOf[m-1]
				delete(pendErr, e.ID)
			}
		case e.Type == "complete":
			if lastW != nil && isData(lastW.Type) && lastW.ID == e.ID {
				if m, _, ok := parseDoc(lastW.Payload); ok && instOf[m] != nil && instOf[m].op != "subscription" && !instOf[m].pairDone {
					prod = instOf[m]
					prod.pairDone = true
				}
			}
		}
		x := latest[e.ID]
		if prod != nil && prod != x {
			// output of an operation that is not the id's current one: the client can only take
			// it for the newer operation's
			fd := ""
			if prod.cancelSeq != 0 && prod.xeAfter {
				fd = fEmit
			}
			cur := "no operation"
			if x != nil {
				cur = fmt.Sprintf("the operation started by message #%d", x.m)
			}
			bad(e.Seq, fd, "%s(%s) is output of the operation started by message #%d (id %q, ended at history seq %d), but the current operation of id %q is %s: %s", e.Type, e.ID, prod.m, prod.id, maxInt(prod.termSeq, prod.cancelSeq), e.ID, cur, e.Raw)
			return
		}
		if x == nil {
			if e.Type == "complete" {
				res.label("lenient:complete-for-never-started-id")
				return
			}
			bad(e.Seq, "", "%s for id %q, for which no operation was started: %s", e.Type, e.ID, e.Raw)
			return
		}
		// recognisers
		fd := ""
		if emitRecognised(x) {
			fd = fEmit
		}
		if x.termSeq != 0 {
			// something for the id after its terminal
			if e.Type == "complete" && curMsg >= 0 && inSync(curMsg, e.Seq) && classify(proto, c.Msgs[curMsg]) == semComplete && c.Msgs[curMsg].ID == e.ID && x.cancelSeq != facts[curMsg].rseq {
				// the echo of a client complete for an operation that had already ended
				if failedShape(x) {
					fd = fFailed
					if !pbt.IsKnown(fFailed) && (x.xp == 0 || x.xp > facts[curMsg].rseq) {
						res.inconclusive = "client complete raced with the end of a failed subscription"
					}
				} else if rs := facts[curMsg].rseq; polluted[e.ID] == "" && (x.op != "subscription" && x.xp != 0 && x.xp < rs || x.cancelSeq != 0 && x.cancelSeq < rs) {
					// C19-stop-completes-unconditionally, narrowly: the id's last operation had ended
					// AND the engine was done with it (a query/mutation returned to the pool, or an
					// operation the client had already completed) when this complete arrived, so
					// nothing was registered that StopSubscription could have stopped. On an id whose
					// state already diverged (an earlier attributed violation) the knock-on rule
					// applies instead.
					fd = fStop
				}
			}
			kind := "message"
			if isTerminal(e.Type) {
				kind = "second terminal"
			}
			bad(e.Seq, fd, "%s %s(%s) after the server's %s(%s) for the operation started by message #%d [history seq %d after seq %d]", kind, e.Type, e.ID, x.termType, e.ID, x.m, e.Seq, x.termSeq)
			return
		}
		if isData(e.Type) {
			want := resultDoc(x.m, len(x.nexts))
			if e.Payload != want {
				bad(e.Seq, fd, "data for id %q (operation of message #%d): payload %s, but the next result of that operation's executor is %s", e.ID, x.m, e.Payload, want)
			}
			x.nexts = append(x.nexts, e.Payload)
			return
		}
		x.termSeq = e.Seq
		x.termType = e.Type
	}

	for _, e := range h {
		switch e.K {
		case evR:
			curMsg = e.M
			if !facts[e.M].dropped {
				onRead(e.M)
			}
		case evW:
			onWrite(e)
			ev := e
			lastW = &ev
		case evC:
			subject = ""
			if !closed {
				closed = true
				res.closeCode = e.Code
				// was it justified? (sync-window closes were judged with their message)
				just := curMsg >= 0 && inSync(curMsg, e.Seq)
				if !just {
					if proto == protoTWS && c.TimeoutMs > 0 && e.Code == 4408 && !inited {
						// the init timer fired (init-timeout part only)
					} else {
						bad(e.Seq, "", "the server closed the connection with %d although no client message was being handled", e.Code)
					}
				}
			}
		case evXS:
			if x := instOf[e.M]; x != nil && x.xs == 0 {
				x.xs = e.Seq
			}
		case evXE:
			if x := instOf[e.M]; x != nil {
				if e.Seq < endSeq {
					x.emits = append(x.emits, e)
				}
				if x.cancelSeq != 0 && e.Seq > x.cancelSeq {
					x.xeAfter, x.lastOut = true, e.Seq
				}
			}
		case evXR:
			if e.Err {
				pendErr[e.ID] = e.M + 1
			}
			if x := instOf[e.M]; x != nil && x.xr == 0 {
				x.xr = e.Seq
				x.xerr = e.Err
				if x.cancelSeq != 0 && e.Seq > x.cancelSeq && (x.op != "subscription" || e.Err) {
					x.xeAfter, x.lastOut = true, e.Seq // a query always reports its result/failure; a failed subscription reports the failure
				}
			}
		case evXP:
			if x := instOf[e.M]; x != nil && x.xp == 0 {
				x.xp = e.Seq
			}
		case evPANIC:
			subject = ""
			bad(e.Seq, "", "Handle panicked: %s", e.Raw)
		}
	}

	if closed && res.closeCode >= 4400 && res.closeCode <= 4499 {
		res.label(fmt.Sprintf("close-%d", res.closeCode))
	}
	res.inited = inited
	res.nontrivial = res.acked && res.started > 0 || proto == protoGWS && res.started > 0 || closed && res.closeCode >= 4400 && res.closeCode <= 4499

	if !final {
		return res
	}
	// ---- end-of-history demands
	for _, x := range allInst {
		f := facts[x.m]
		subject = x.id
		if x.xs == 0 {
			if f.rseq < endSeq && f.syncEnd < endSeq {
				bad(f.rseq, "", "subscribe (message #%d, id %q) was accepted by the reference (initialised connection, id not live, usable payload) but no operation ever started executing and nothing was answered", x.m, x.id)
			}
			continue
		}
		// data fidelity: everything the executor produced while the connection was up was delivered
		if len(x.nexts) < len(x.emits) {
			// an emission is delivered synchronously by the emitting goroutine, except the single
			// result document of a query, which is delivered after Execute returned
			missing := x.emits[len(x.nexts)]
			switch {
			case x.cancelSeq != 0 && missing.Seq > x.cancelSeq:
				// produced after the operation was cancelled: need not (should not) be delivered
			case x.termSeq != 0 && x.termSeq < missing.Seq:
				// produced after the server's terminal: judged where it was written
			case x.op == "subscription" || x.xp != 0 && x.xp < endSeq:
				bad(missing.Seq, "", "result %s produced by the executor of message #%d (id %q) while the connection was open was never delivered under that id", missing.Payload, x.m, x.id)
			}
		}
		want := ""
		switch {
		case x.cancelBy == "complete" && x.cancelSeq < endSeq && facts[x.cancelMsg].syncEnd <= endSeq:
			want = "the client completed it while it was live"
		case x.op != "subscription" && x.cancelSeq == 0 && x.xp != 0 && x.xp < endSeq:
			want = "its executor finished"
		case x.op == "subscription" && x.xerr && x.xr != 0 && x.xr < endSeq && (x.cancelSeq == 0 || x.xr < x.cancelSeq):
			want = "its executor failed"
			if x.termSeq == 0 && lateErr(h, x, endSeq) {
				want = "" // the error message was attempted after the connection ended
			}
		}
		if want != "" && x.termSeq == 0 {
			bad(f.rseq, "", "the operation started by message #%d (id %q, %s) never got a terminal message although %s", x.m, x.id, x.op, want)
		}
	}
	return res
}

func maxInt(a, b int) int {
	if a > b {
		return a
	}
	return b
}

// lateErr: the failed subscription's error message was attempted only after the connection
// had ended (WX), so its absence from the delivered trace is not the server's fault.
func lateErr(h []event, x *inst, endSeq int) bool {
	for _, e := range h {
		if e.K == evWX && e.Type == "error" && e.ID == x.id && e.Seq > x.xr {
			return true
		}
	}
	return false
}
