package c18

import (
	"strings"
	"sync"
	"fmt"
	"testing"
	"time"
)

func dump(o *outcome) {
	w := o.w
	for i, st := range w.subs {
		fmt.Printf("  sub %d: started=%v returned=%v err=%v seen=%d dropped=%v cancel=%v early=%v inflight=%v %s | sent=%v\n", i, st.started, st.returned, st.err, st.seen, st.dropped, st.cancelIssued, st.earlyCancel, st.inFlightCancel, w.summary(i), st.sent)
	}
	for _, uc := range w.conns {
		fmt.Printf("  conn %d: key=%q acked=%v closed=%v dropped=%v ids=%v\n", uc.idx, uc.key, uc.acked, uc.closed, uc.dropped, uc.ids)
	}
	fmt.Printf("  incon=%v live=%v leak=%q stats=%+v joined=%d\n", o.inconclusive, o.liveness, o.leak, o.stats, o.joinedDial)
}

func TestDev2(t *testing.T) {
	for n := 1; n <= 8; n++ {
		c := Case{Tuples: []Tuple{{}}, Subs: []Sub{{Tuple: 0, Nexts: 3, Term: "none"}}}
		c.Steps = []Step{{Op: "sub", Sub: 0}, {Op: "send", Sub: 0}}
		for j := 1; j <= n; j++ {
			c.Subs = append(c.Subs, Sub{Tuple: 0, Nexts: 1, Term: "complete"})
			c.Steps = append(c.Steps, Step{Op: "cancel", Sub: j}, Step{Op: "sub", Sub: j})
		}
		c.Steps = append(c.Steps, Step{Op: "send", Sub: 0})
		t0 := time.Now()
		o := run(c)
		fmt.Println("case2 n=", n, time.Since(t0))
		dump(o)
		for _, v := range judge(o) {
			fmt.Println("  VIOL", v)
		}
	}
}

func TestDev(t *testing.T) {
	c := Case{Tuples: []Tuple{{Gate: true}}, Subs: []Sub{{Tuple: 0, Nexts: 1, Term: "complete"}, {Tuple: 0, Nexts: 2, Term: "complete"}},
		Steps: []Step{{Op: "sub", Sub: 0}, {Op: "sub", Sub: 1}, {Op: "cancel", Sub: 0}, {Op: "ack", Key: 0}, {Op: "send", Sub: 1}, {Op: "send", Sub: 1}, {Op: "send", Sub: 1}}}
	t0 := time.Now()
	o := run(c)
	fmt.Println("case1", time.Since(t0))
	dump(o)
	for _, v := range judge(o) {
		fmt.Println("  VIOL", v)
	}
}

func TestDev3(t *testing.T) {
	const rounds = 3000
	c := Case{Tuples: []Tuple{{}}}
	for r := 0; r < rounds; r++ {
		c.Subs = append(c.Subs, Sub{Tuple: 0, Nexts: 0, Term: "complete"}, Sub{Tuple: 0, Nexts: 1, Term: "none"})
	}
	c.Steps = []Step{{Op: "idle"}} // stepped mode: upstream does not stream by itself
	w := newWorld(c, clientCfg{})
	defer w.close()
	hits1, hits2 := 0, 0
	t0 := time.Now()
	for r := 0; r < rounds; r++ {
		a, b := 2*r, 2*r+1
		sa, sb := w.subs[a], w.subs[b]
		w.start(a)
		if !w.wait(watch, 0, func() bool { return sa.returned && (sa.err != nil || sa.seen > 0) }) || sa.err != nil {
			fmt.Printf("round %d: A returned=%v err=%v seen=%d msgs=%v stats=%+v\n", r, sa.returned, sa.err, sa.seen, sa.msgs, w.cl.Stats())
			for _, uc := range w.conns[max(0, len(w.conns)-4):] {
				fmt.Printf("  conn %d: acked=%v closed=%v dropped=%v ids=%v init=%v\n", uc.idx, uc.acked, uc.closed, uc.dropped, uc.ids, uc.initSeen)
			}
			t.Fatalf("round %d: A did not subscribe: %v", r, sa.err)
		}
		go w.sendNext(a)
		for y := 0; y < r%64; y++ {
			spin()
		}
		w.start(b)
		w.wait(watch, 0, func() bool { return sb.returned })
		if sb.err != nil {
			hits1++
			if hits1 < 3 {
				fmt.Println("round", r, "B Subscribe err:", sb.err)
			}
			continue
		}
		w.wait(watch, 0, func() bool { return sb.seen > 0 || sb.terminalAt() >= 0 })
		w.wait(2*time.Millisecond, 0, func() bool { return sb.terminalAt() >= 0 })
		w.mu.Lock()
		if k := sb.terminalAt(); k >= 0 {
			hits2++
			if hits2 < 3 {
				fmt.Println("round", r, "B got", sb.msgs[k].describe(), sb.msgs[k].closedByClient)
			}
		}
		w.mu.Unlock()
		w.cancelSub(b, false)
		w.wait(watch, time.Millisecond, func() bool { return w.cl.Stats().WSConns == 0 })
	}
	fmt.Println("rounds", rounds, "subscribe-failed", hits1, "conn-error", hits2, time.Since(t0))
}

var sink int

func spin() {
	for i := 0; i < 200; i++ {
		sink += i
	}
}

func TestDev4(t *testing.T) {
	const rounds = 1500
	const nb = 6
	c := Case{Tuples: []Tuple{{}}}
	for r := 0; r < rounds; r++ {
		c.Subs = append(c.Subs, Sub{Tuple: 0, Nexts: 0, Term: "complete"})
		for j := 0; j < nb; j++ {
			c.Subs = append(c.Subs, Sub{Tuple: 0, Nexts: 1, Term: "none"})
		}
	}
	c.Steps = []Step{{Op: "idle"}}
	w := newWorld(c, clientCfg{})
	defer w.close()
	hits1, hits2 := 0, 0
	t0 := time.Now()
	for r := 0; r < rounds; r++ {
		a := (nb + 1) * r
		sa := w.subs[a]
		w.start(a)
		if !w.wait(watch, 0, func() bool { return sa.returned && (sa.err != nil || sa.seen > 0) }) || sa.err != nil {
			t.Fatalf("round %d: A did not subscribe: %v", r, sa.err)
		}
		if r%2 == 0 {
			go w.sendNext(a)
			for y := 0; y < r%97; y++ {
				spin()
			}
		}
		for j := 1; j <= nb; j++ {
			w.start(a + j)
		}
		if r%2 == 1 {
			for y := 0; y < r%97; y++ {
				spin()
			}
			w.sendNext(a)
		}
		for j := 1; j <= nb; j++ {
			sb := w.subs[a+j]
			w.wait(watch, 0, func() bool { return sb.returned })
			if sb.err != nil {
				hits1++
				if hits1 < 4 {
					fmt.Println("round", r, "B Subscribe err:", sb.err)
				}
				continue
			}
		}
		w.wait(watch, 0, func() bool { return sa.terminalAt() >= 0 })
		time.Sleep(300 * time.Microsecond)
		w.mu.Lock()
		for j := 1; j <= nb; j++ {
			sb := w.subs[a+j]
			if k := sb.terminalAt(); k >= 0 {
				hits2++
				if hits2 < 4 {
					fmt.Println("round", r, "B got", sb.msgs[k].describe(), sb.msgs[k].closedByClient)
				}
			}
		}
		w.mu.Unlock()
		for j := 1; j <= nb; j++ {
			w.cancelSub(a+j, false)
		}
		w.wait(watch, time.Millisecond, func() bool {
			for _, uc := range w.conns {
				if !uc.closed {
					return false
				}
			}
			return w.cl.Stats().WSConns == 0
		})
	}
	fmt.Println("rounds", rounds, "subscribe-failed", hits1, "conn-error", hits2, time.Since(t0))
}

func TestDev5(t *testing.T) {
	c := Case{IdleMs: 10, Tuples: []Tuple{{Endpoint: 1, Header: 2}}, Subs: []Sub{{Tuple: 0, Nexts: 1, Term: "complete"}, {Tuple: 0, Nexts: 1, Term: "complete"}, {Tuple: 0, Nexts: 0, Term: "complete"}},
		Steps: []Step{{Op: "cancel", Sub: 2}, {Op: "sub", Sub: 0}, {Op: "sub", Sub: 2}, {Op: "drop"}}}
	o := run(c)
	dump(o)
	for _, v := range judge(o) {
		fmt.Println("  VIOL", v)
	}
}

func TestDevTiming(t *testing.T) {
	for _, mode := range []string{"stepped", "burst"} {
		var total time.Duration
		var worst time.Duration
		var worstCase string
		n := 0
		buckets := map[string]time.Duration{}
		counts := map[string]int{}
		for seed := 0; seed < 150; seed++ {
			var c Case
			if mode == "stepped" {
				c = genSteppedSeed(seed)
			} else {
				c = genBurstSeed(seed)
			}
			t0 := time.Now()
			o := run(c)
			d := time.Since(t0)
			_ = o
			total += d
			n++
			key := fmt.Sprintf("idle=%v gate=%v", c.IdleMs > 0, anyGate(c))
			buckets[key] += d
			counts[key]++
			if d > worst {
				worst, worstCase = d, c.key()
			}
		}
		fmt.Println(mode, "avg", total/time.Duration(n), "worst", worst, worstCase)
		for k, v := range buckets {
			fmt.Println("   ", k, counts[k], v/time.Duration(counts[k]))
		}
	}
}

func anyGate(c Case) bool {
	for _, t := range c.Tuples {
		if t.Gate {
			return true
		}
	}
	return false
}

func TestDev6(t *testing.T) {
	c := Case{Burst: true, Tuples: []Tuple{{Gate: true}}, Subs: []Sub{{Tuple: 0, Nexts: 0, Term: "complete"}, {Tuple: 0, Nexts: 1, Term: "none"}, {Tuple: 0, Nexts: 1, Term: "none"}, {Tuple: 0, Nexts: 1, Term: "none"}}, DropAfter: []int{-1}}
	hits := 0
	t0 := time.Now()
	const rounds = 300
	for r := 0; r < rounds; r++ {
		o := run(c)
		for _, v := range judge(o) {
			if v.finding == fCloseRace {
				hits++
				if hits < 3 {
					fmt.Println(r, v)
				}
				break
			}
		}
	}
	fmt.Println("hits", hits, "of", rounds, time.Since(t0))
}

func TestDev7(t *testing.T) {
	c := Case{Burst: true, Tuples: []Tuple{{Gate: true}}, Subs: []Sub{{Tuple: 0, Nexts: 0, Term: "complete"}}, DropAfter: []int{-1}}
	for j := 0; j < 7; j++ {
		c.Subs = append(c.Subs, Sub{Tuple: 0, Nexts: 1, Term: "none"})
	}
	var mu sync.Mutex
	hits, total := 0, 0
	t0 := time.Now()
	var wg sync.WaitGroup
	for g := 0; g < 32; g++ {
		wg.Add(1)
		go func() {
			defer wg.Done()
			for r := 0; r < 60; r++ {
				o := run(c)
				hit := false
				for _, v := range judge(o) {
					if v.finding == fCloseRace {
						hit = true
					}
				}
				mu.Lock()
				total++
				if hit {
					hits++
				}
				mu.Unlock()
			}
		}()
	}
	wg.Wait()
	fmt.Println("hits", hits, "of", total, time.Since(t0))
}

func TestDevPing(t *testing.T) {
	for seed := 0; seed < 6; seed++ {
		c := rapidExamplePing(seed)
		t0 := time.Now()
		o := run(c)
		fmt.Println("ping case", seed, time.Since(t0), c.key())
		dump(o)
		for _, v := range judge(o) {
			fmt.Println("  VIOL", v)
		}
	}
}

func TestDevPing2(t *testing.T) {
	c := rapidExamplePing(5)
	fmt.Println(c.key())
	for r := 0; r < 5; r++ {
		o := run(c)
		w := o.w
		for _, uc := range w.conns {
			fmt.Printf("  conn %d tuple=%d proto=%s pings=%d closed=%v abrupt=%v\n", uc.idx, uc.tuple, uc.proto, uc.pings, uc.closed, uc.abrupt)
		}
		for i := range w.subs {
			fmt.Println("  ", i, w.summary(i))
		}
	}
}

func TestDevPing3(t *testing.T) {
	var wg sync.WaitGroup
	var mu sync.Mutex
	kills, total := 0, 0
	for g := 0; g < 8; g++ {
		wg.Add(1)
		go func(g int) {
			defer wg.Done()
			c := rapidExamplePing(4 + g%2)
			for r := 0; r < 6; r++ {
				o := run(c)
				hit := false
				for _, v := range judge(o) {
					if strings.Contains(v.msg, "client itself closed") {
						hit = true
						mu.Lock()
						for _, uc := range o.w.conns {
							fmt.Printf("  conn %d tuple=%d pings=%d closed=%v\n", uc.idx, uc.tuple, uc.pings, uc.closed)
						}
						fmt.Println(" ", v.msg[:60], c.Ping)
						mu.Unlock()
					}
				}
				mu.Lock()
				total++
				if hit {
					kills++
				}
				mu.Unlock()
			}
		}(g)
	}
	wg.Wait()
	fmt.Println("healthy kills", kills, "of", total)
}

func TestDevPingProbe(t *testing.T) {
	for r := 0; r < 4; r++ {
		t0 := time.Now()
		fmt.Println(probePingRace(), time.Since(t0))
	}
}
