package c04

import (
	"fmt"
	"strings"

	"pgregory.net/rapid"

	"github.com/wundergraph/graphql-go-tools/execution/graphql"

	"verif/harness/internal/admit"
	"verif/harness/pbt"
)

// seqCase: a history of documents admitted one after the other by the same long-lived
// normalizer / validator / variables-mapper instances (admit.Pipeline).
type seqCase struct {
	Super string    `json:"super"`
	Steps []docCase `json:"steps"`
}

// mutators whose documents make normalization itself give up half-way (the walker stops
// between the stages); state collected before the stop is what a later document may inherit
var abortingMutators = []string{"unknown-fragment-spread", "fragment-on-unknown-type", "fragment-cycle", "fragment-on-non-composite", "impossible-fragment-spread"}

// mutators around variable bookkeeping, which is per-document state in several visitors
var variableMutators = []string{"unused-variable", "undefined-variable", "duplicate-variable", "variable-in-disallowed-position", "variable-of-non-input-type"}

// reusePart: the verdict (and, for admitted operations, the normalized text and variables)
// of every document equals what fresh instances give: admission is a function of
// (schema, document, variables, operation name) alone, not of what the instances saw before.
// Both sides are the repository's own code; the oracle is the metamorphic relation
// "history does not matter", so recorded validation findings need no exclusion here.
var reusePart = pbt.Part[seqCase]{Name: "reused-instances-agree-with-fresh", Quick: 20000, Thorough: 120000, Check: checkSeq,
	Gen: func(t *rapid.T) seqCase {
		sdl, super := genSchema(t)
		c := seqCase{Super: sdl}
		n := rapid.IntRange(2, 5).Draw(t, "steps")
		for i := 0; i < n; i++ {
			st := docCase{Super: sdl, A: rapid.IntRange(0, 30).Draw(t, "a"), B: rapid.IntRange(0, 19).Draw(t, "b")}
			switch k := rapid.IntRange(0, 9).Draw(t, "kind"); {
			case k < 4: // valid, full generator (directives, variables, fragments)
				st.Base = genOp(t, super, false)
			case k < 6:
				st.Base = genOp(t, super, false)
				st.Mutator = rapid.SampledFrom(abortingMutators).Draw(t, "abort")
			case k < 8:
				st.Base = genOp(t, super, rapid.Bool().Draw(t, "simple"))
				st.Mutator = rapid.SampledFrom(variableMutators).Draw(t, "varmut")
			default:
				st.Base = genOp(t, super, true)
				st.Mutator = rapid.SampledFrom(mutatorNames).Draw(t, "mutator")
			}
			c.Steps = append(c.Steps, st)
		}
		return c
	}}

func checkSeq(c seqCase, o *pbt.Rec) pbt.Verdict {
	schema, err := graphql.NewSchemaFromString(c.Super)
	if err != nil {
		return pbt.Bad("schema rejected by the repo: %v", err)
	}
	p := admit.NewPipeline()
	var history []string
	refused, admittedAfterRefusal, applied := 0, 0, 0
	for i, st := range c.Steps {
		op, _, ok := derive(st)
		if !ok {
			continue // mutator not applicable to this base: the step is skipped on both sides
		}
		applied++
		got := p.Run(schema, op)
		want := admit.NewPipeline().Run(schema, op)
		history = append(history, fmt.Sprintf("  %d. %s  variables %s  operationName %q  (%s) -> %s", i+1, op.Query, op.VarsJSON(), op.OperationName, st.Mutator, firstLine(want.String())))
		if want.Stage == "panic" || got.Stage == "panic" {
			// a panic is C04's "neither accepts nor rejects" (other parts); instance state after
			// a panic is undefined, a server would drop the instances
			o.Label("reuse:panic-step")
			p = admit.NewPipeline()
			continue
		}
		if !got.Same(want) {
			return pbt.Bad("admission depends on what the reused normalizer/validator instances processed before: step %d\n  reused instances: %s\n  fresh instances:  %s\nhistory (one schema, same instances):\n%s", i+1, got, want, strings.Join(history, "\n"))
		}
		if want.Stage != "" {
			refused++
			o.Label("reuse:refused-at:" + want.Stage)
		} else if refused > 0 {
			admittedAfterRefusal++
		}
	}
	if applied >= 2 {
		o.Label(fmt.Sprintf("reuse:steps=%d", applied))
	}
	if refused > 0 && applied >= 2 {
		o.Label("reuse:history-with-refusal")
		o.NonTrivial(strings.Join(history, "\n"))
	}
	if admittedAfterRefusal > 0 {
		o.Label("reuse:admitted-after-refusal")
	}
	return pbt.OK
}
