#!/bin/bash
# seed_pass.sh <glob-suffix, e.g. n or m> [tier]: runs ./check <its property> against every stored seeded
# change /verif/seeded/*-<suffix>* through go -overlay (never touching /repo) and appends the
# outcome to each meta.json.
suffix=${1:-n}; tier=${2:-quick}
cd /verif
for d in seeded/*-${suffix}[0-9]*; do
  id=$(basename $d); cid=${id%%-*}; mn=${id#*-}
  SEED_OVERLAY=1 python3 tools/seed_run.py $cid $mn $tier 2>&1 | tail -1
done
