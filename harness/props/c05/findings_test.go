package c05

import (
	"bytes"
	"fmt"
	"regexp"
	"strings"

	"github.com/wundergraph/graphql-go-tools/v2/pkg/ast"
	"github.com/wundergraph/graphql-go-tools/v2/pkg/astparser"
	"github.com/wundergraph/graphql-go-tools/v2/pkg/astprinter"
	"github.com/wundergraph/graphql-go-tools/v2/pkg/lexer"
	"github.com/wundergraph/graphql-go-tools/v2/pkg/lexer/keyword"
	"github.com/wundergraph/graphql-go-tools/v2/pkg/operationreport"

	"verif/harness/pbt"
)

// Finding ids (FINDINGS.json). Every recogniser below is deliberately narrow: it names the
// syntactic class the defect is confined to AND the kind of failure it can explain.
const (
	fLimitsKeyword   = "C05-limits-keyword-in-selection"
	fBlockQuotes     = "C05-block-string-quotes"
	fBlockTrim       = "C05-block-string-trim"
	fNulInString     = "C05-nul-byte-in-string"
	fFloatExpSign    = "C05-float-exponent-sign"
	fSchemaEmpty     = "C05-schema-empty-braces"
	fSchemaDesc      = "C05-schema-description-dropped"
	fExtImplements   = "C05-extension-implements-dropped"
	fBOM             = "C05-bom-rejected"
	fQueryKeyword    = "C05-query-keyword-omitted"
	fBlockBackslash  = "C05-block-string-leading-backslash"
	fDescLoneCR      = "C05-description-lone-cr"
	fInputValueName  = "C05-input-value-name-unchecked"
	fStringLineBreak = "C05-string-escaped-line-break"
	fImplementsIdent = "C05-implements-followed-by-definition"
)

// failure kinds a recogniser can explain
const (
	kReject  = "reject"   // a spec-valid document is rejected
	kReparse = "reparse"  // the print of an accepted document does not parse
	kShape   = "shape"    // the re-parsed print has a different shape
	kFix     = "fixpoint" // print(parse(print(d))) != print(d)
	kDiffer  = "differ"   // gqlparser reads the print differently from the source
)

// blockLits lists every block string literal of an accepted document (values and
// descriptions) as (content reference, recovered raw text, cleanly delimited?).
type blockLit struct {
	content    string
	raw        string
	clean      bool
	extraQuote bool
}

func blockLiterals(d *ast.Document) []blockLit {
	w := &walker{d: d}
	var out []blockLit
	add := func(r ast.ByteSliceReference) {
		if r.Start > r.End || int(r.End) > len(d.Input.RawBytes) {
			return
		}
		raw, ok, xq := w.blockRawQ(r)
		out = append(out, blockLit{content: string(d.Input.RawBytes[r.Start:r.End]), raw: raw, clean: ok, extraQuote: xq})
	}
	for _, s := range d.StringValues {
		if s.BlockString {
			add(s.Content)
		}
	}
	forEachDescription(d, func(ds ast.Description) {
		if ds.IsDefined && ds.IsBlockString {
			add(ds.Content)
		}
	})
	return out
}

func forEachDescription(d *ast.Document, fn func(ast.Description)) {
	for _, x := range d.SchemaDefinitions {
		fn(x.Description)
	}
	for _, x := range d.ObjectTypeDefinitions {
		fn(x.Description)
	}
	for _, x := range d.FieldDefinitions {
		fn(x.Description)
	}
	for _, x := range d.InputValueDefinitions {
		fn(x.Description)
	}
	for _, x := range d.InputObjectTypeDefinitions {
		fn(x.Description)
	}
	for _, x := range d.ScalarTypeDefinitions {
		fn(x.Description)
	}
	for _, x := range d.InterfaceTypeDefinitions {
		fn(x.Description)
	}
	for _, x := range d.UnionTypeDefinitions {
		fn(x.Description)
	}
	for _, x := range d.EnumTypeDefinitions {
		fn(x.Description)
	}
	for _, x := range d.EnumValueDefinitions {
		fn(x.Description)
	}
	for _, x := range d.DirectiveDefinitions {
		fn(x.Description)
	}
	for _, x := range d.OperationDefinitions {
		fn(x.Description)
	}
	for _, x := range d.FragmentDefinitions {
		fn(x.Description)
	}
	for _, x := range d.VariableDefinitions {
		fn(x.Description)
	}
}

// nulInString: a string/description literal that was ended by a NUL byte (the lexer's EOF
// sentinel) instead of its closing quote, or a block string containing one.
func nulInString(d *ast.Document) bool {
	in := d.Input.RawBytes
	hit := false
	chk := func(block bool, r ast.ByteSliceReference) {
		if r.Start > r.End || int(r.End) > len(in) {
			return
		}
		if bytes.IndexByte(in[r.Start:r.End], 0) >= 0 {
			hit = true
		}
		// regular string: the byte after the content must be the closing quote (or a line end /
		// end of input, which the lexer also accepts); a NUL there is the defect. For a block
		// string the lexer's end-of-input branch subtracts the white space it counted before
		// trailing quotes, so the NUL may sit behind white space and quotes.
		e := int(r.End)
		if block {
			for e < len(in) && (isWS(in[e]) || in[e] == '"') {
				e++
			}
		}
		if e < len(in) && in[e] == 0 {
			hit = true
		}
	}
	for _, s := range d.StringValues {
		chk(s.BlockString, s.Content)
	}
	forEachDescription(d, func(ds ast.Description) {
		if ds.IsDefined {
			chk(ds.IsBlockString, ds.Content)
		}
	})
	return hit
}

// reBlockQuoteAdjacent: in the *input*, a quote or backslash touches a block-string delimiter
// (white space aside): four or more quotes in a row, a quote before white space before """,
// """ before white space before a quote, or a backslash and white space before """ (without
// white space it is the escape \"""; the escape followed by a quote is four quotes). The
// recogniser deliberately looks at the input bytes and not at the parsed content, so that a
// lexer that starts cutting block strings in the wrong place is not mistaken for this finding.
var reBlockQuoteAdjacent = regexp.MustCompile(`"{4,}|"[ \t\r\n]+"""|"""[ \t\r\n]+"|\\[ \t\r\n]+"""`)

// blockQuotesInDoc: the document has a block string and its input a quote/backslash next to a
// block-string delimiter.
func blockQuotesInDoc(d *ast.Document) bool {
	return len(blockLiterals(d)) > 0 && reBlockQuoteAdjacent.Match(d.Input.RawBytes)
}

// blockTrimInDoc: a block string whose BlockStringValue changes when the white space around
// the text is removed (what the lexer does to the content reference).
func blockTrimInDoc(d *ast.Document) bool {
	for _, b := range blockLiterals(d) {
		if b.clean && blockTrimClass(b.raw) {
			return true
		}
	}
	return false
}

// reBlockLeadingBackslash: in the *input*, a block-string delimiter followed by white space and
// quotes only and then a backslash. After a closing delimiter a backslash cannot start a token,
// so in an accepted document this is an opening delimiter.
var reBlockLeadingBackslash = regexp.MustCompile(`"""[ \t\r\n]*"*\\`)

// blockBackslashInDoc: a block string with a backslash before its first character that is
// neither white space nor a quote (judged on the input bytes: the lexer then mis-places the
// start of the content, so the parsed content cannot be trusted).
func blockBackslashInDoc(d *ast.Document) bool {
	return len(blockLiterals(d)) > 0 && reBlockLeadingBackslash.Match(d.Input.RawBytes)
}

// floatDanglingExponent: a float value whose literal ends in e/E. Such a literal is not a
// FloatValue of the grammar; the lexer produces it when it stops at the sign of 1e-5 / 1E+5
// (the rest is then read as a separate negative number where the context allows one).
func floatDanglingExponent(d *ast.Document) bool {
	in := d.Input.RawBytes
	for _, f := range d.FloatValues {
		if f.Raw.Start < f.Raw.End && int(f.Raw.End) <= len(in) {
			if c := in[f.Raw.End-1]; c == 'e' || c == 'E' {
				return true
			}
		}
	}
	return false
}

// descWithLineBreak: a quoted (non-block) description whose content contains a line
// terminator (only possible through the lexer's "escaped line break" in a quoted string).
func descWithLineBreak(d *ast.Document) bool {
	hit := false
	forEachDescription(d, func(ds ast.Description) {
		if ds.IsDefined && !ds.IsBlockString && ds.Content.Start <= ds.Content.End && int(ds.Content.End) <= len(d.Input.RawBytes) {
			if bytes.ContainsAny(d.Input.RawBytes[ds.Content.Start:ds.Content.End], "\r\n") {
				hit = true
			}
		}
	})
	return hit
}

var reAstparserName = regexp.MustCompile(`^[_A-Za-z][_0-9A-Za-z-]*$`)

// inputValueNameNotAName: an argument / input field definition whose name is not an
// identifier token (the parser takes whatever token follows a description as the name).
func inputValueNameNotAName(d *ast.Document) bool {
	in := d.Input.RawBytes
	for _, iv := range d.InputValueDefinitions {
		if iv.Name.Start > iv.Name.End || int(iv.Name.End) > len(in) {
			continue
		}
		if iv.Description.IsDefined && !reAstparserName.Match(in[iv.Name.Start:iv.Name.End]) {
			return true
		}
	}
	return false
}

// descLoneCRInDoc: a block-string description whose text contains a carriage return that is
// not followed by a line feed.
func descLoneCRInDoc(d *ast.Document) bool {
	hit := false
	forEachDescription(d, func(ds ast.Description) {
		if ds.IsDefined && ds.IsBlockString && ds.Content.Start <= ds.Content.End && int(ds.Content.End) <= len(d.Input.RawBytes) {
			if blockLoneCRClass(string(d.Input.RawBytes[ds.Content.Start:ds.Content.End])) {
				hit = true
			}
		}
	})
	return hit
}

func schemaEmptyInDoc(d *ast.Document) bool {
	for _, rn := range d.RootNodes {
		switch rn.Kind {
		case ast.NodeKindSchemaDefinition:
			if rn.Ref >= 0 && rn.Ref < len(d.SchemaDefinitions) && len(d.SchemaDefinitions[rn.Ref].RootOperationTypeDefinitions.Refs) == 0 {
				return true
			}
		case ast.NodeKindSchemaExtension:
			if rn.Ref >= 0 && rn.Ref < len(d.SchemaExtensions) {
				s := d.SchemaExtensions[rn.Ref]
				if len(s.RootOperationTypeDefinitions.Refs) == 0 && len(s.Directives.Refs) == 0 {
					return true
				}
			}
		}
	}
	return false
}

func schemaDescInDoc(d *ast.Document) bool {
	for _, s := range d.SchemaDefinitions {
		if s.Description.IsDefined {
			return true
		}
	}
	return false
}

func extImplementsInDoc(d *ast.Document) bool {
	for _, x := range d.ObjectTypeExtensions {
		if len(x.ImplementsInterfaces.Refs) > 0 {
			return true
		}
	}
	for _, x := range d.InterfaceTypeExtensions {
		if len(x.ImplementsInterfaces.Refs) > 0 {
			return true
		}
	}
	return false
}

// queryKeywordNeededInDoc: an operation of type query without name and variables (the printer
// then omits the `query` keyword) that needs the keyword: it has directives or a description,
// or it follows a type-system definition (whose optional body the '{' would become).
func queryKeywordNeededInDoc(d *ast.Document) bool {
	for i, rn := range d.RootNodes {
		if rn.Kind != ast.NodeKindOperationDefinition || rn.Ref < 0 || rn.Ref >= len(d.OperationDefinitions) {
			continue
		}
		o := d.OperationDefinitions[rn.Ref]
		if o.OperationType != ast.OperationTypeQuery || o.Name.Length() != 0 || len(o.VariableDefinitions.Refs) != 0 {
			continue
		}
		if len(o.Directives.Refs) > 0 || o.Description.IsDefined {
			return true
		}
		if i > 0 && d.RootNodes[i-1].Kind != ast.NodeKindOperationDefinition && d.RootNodes[i-1].Kind != ast.NodeKindFragmentDefinition {
			return true
		}
	}
	return false
}

// pick returns the first candidate that is listed as a known finding, else the first
// candidate ("" when there is none). Classes overlap (a block string can have a quote next to
// its delimiter and trailing white space); once one of two overlapping findings is repaired the
// remaining failures must still be attributed to the one that is left.
func pick(candidates []string) string {
	for _, c := range candidates {
		if pbt.IsKnown(c) {
			return c
		}
	}
	if len(candidates) > 0 {
		return candidates[0]
	}
	return ""
}

// classifyAccepted attributes a failure of kind k on an accepted document to a recorded
// finding ("" when none explains it). diff is the shape difference text for kShape/kDiffer,
// print the printed text that failed to parse (kReparse).
func classifyAccepted(d *ast.Document, k string, diff string, print string) string {
	var c []string
	add := func(cond bool, id string) {
		if cond {
			c = append(c, id)
		}
	}
	switch k {
	case kReparse, kFix:
		add(nulInString(d), fNulInString)
		add(blockQuotesInDoc(d), fBlockQuotes)
		add(k == kReparse && schemaEmptyInDoc(d), fSchemaEmpty)
		add(queryKeywordNeededInDoc(d), fQueryKeyword)
		add(blockBackslashInDoc(d), fBlockBackslash)
		add(inputValueNameNotAName(d), fInputValueName)
		// the print itself is a (valid) document of the class the parser rejects: a definition
		// ending with its implements list, directly followed by the next definition (the input
		// had something in between that the printer legitimately or otherwise left out)
		add(k == kReparse && print != "" && implementsWithoutBodyInDoc(d) && identAfterInterfaceList([]byte(print)), fImplementsIdent)
	case kShape, kDiffer:
		inBlock := strings.Contains(diff, "blockstring") || strings.Contains(diff, "desc")
		add(nulInString(d), fNulInString)
		add(strings.Contains(diff, "/schema") && strings.Contains(diff, "desc") && schemaDescInDoc(d), fSchemaDesc)
		add(strings.Contains(diff, "/extend-") && strings.Contains(diff, "implements") && extImplementsInDoc(d), fExtImplements)
		add(inBlock && blockQuotesInDoc(d), fBlockQuotes)
		add(inBlock && blockBackslashInDoc(d), fBlockBackslash)
		add(inBlock && blockTrimInDoc(d), fBlockTrim)
		add(strings.Contains(diff, "desc") && descLoneCRInDoc(d), fDescLoneCR)
		add(strings.Contains(diff, "desc") && descWithLineBreak(d), fStringLineBreak)
		add(strings.Contains(diff, "float") && floatDanglingExponent(d), fFloatExpSign)
		add(queryKeywordNeededInDoc(d), fQueryKeyword)
		add(inputValueNameNotAName(d), fInputValueName)
	}
	return pick(c)
}

// ---- rejected spec-valid documents ----

// a float literal without fraction whose exponent carries a sign: 1e-5, 1E+5
var reFloatExpSign = regexp.MustCompile(`(^|[^0-9A-Za-z_.+\-])-?(0|[1-9][0-9]*)[eE][+-][0-9]+`)

func classifyRejected(src string, feat map[string]bool) string {
	var c []string
	if strings.HasPrefix(src, "\ufeff") {
		c = append(c, fBOM)
	}
	if feat["float-exp-sign"] && reFloatExpSign.MatchString(src) {
		c = append(c, fFloatExpSign)
	}
	if feat["implements-without-body"] && identAfterInterfaceList([]byte(src)) {
		c = append(c, fImplementsIdent)
	}
	if feat["block-quote-class"] && strings.Contains(src, `\""""`) {
		c = append(c, fBlockQuotes)
	}
	return pick(c)
}

// implementsWithoutBodyInDoc: a type or interface definition with an implements list and
// neither directives nor fields, that is not the last root node.
func implementsWithoutBodyInDoc(d *ast.Document) bool {
	for i, rn := range d.RootNodes {
		if i == len(d.RootNodes)-1 {
			break
		}
		switch rn.Kind {
		case ast.NodeKindObjectTypeDefinition:
			if rn.Ref >= 0 && rn.Ref < len(d.ObjectTypeDefinitions) {
				o := d.ObjectTypeDefinitions[rn.Ref]
				if len(o.ImplementsInterfaces.Refs) > 0 && len(o.Directives.Refs) == 0 && len(o.FieldsDefinition.Refs) == 0 {
					return true
				}
			}
		case ast.NodeKindInterfaceTypeDefinition:
			if rn.Ref >= 0 && rn.Ref < len(d.InterfaceTypeDefinitions) {
				o := d.InterfaceTypeDefinitions[rn.Ref]
				if len(o.ImplementsInterfaces.Refs) > 0 && len(o.Directives.Refs) == 0 && len(o.FieldsDefinition.Refs) == 0 {
					return true
				}
			}
		}
	}
	return false
}

// identAfterInterfaceList: the token stream has `implements [&] Name (& Name)*` directly
// followed by another Name (the next definition's keyword): the parser's interface-list loop
// reports that Name as unexpected instead of ending the list.
func identAfterInterfaceList(in []byte) bool {
	var l lexer.Lexer
	var input ast.Input
	input.ResetInputBytes(in)
	l.SetInput(&input)
	state := 0 // 0 outside, 1 after `implements` (or after &): name expected, 2 after a name
	for i := 0; i < 1_000_000; i++ {
		tok := l.Read()
		switch tok.Keyword {
		case keyword.EOF:
			return false
		case keyword.COMMENT:
			continue
		case keyword.IDENT:
			lit := string(input.RawBytes[tok.Literal.Start:tok.Literal.End])
			switch state {
			case 0:
				if lit == "implements" {
					state = 1
				}
			case 1:
				state = 2
			case 2:
				return true
			}
		case keyword.AND:
			if state == 2 || state == 1 {
				state = 1
			}
		default:
			state = 0
		}
	}
	return false
}

// ---- limits ----

// keywordIdentInBraces: an IDENT token query|mutation|subscription|fragment at brace depth
// >= 1 (the tokenizer's limit accounting treats it as the start of a new definition).
func keywordIdentInBraces(in []byte) bool {
	var l lexer.Lexer
	var input ast.Input
	input.ResetInputBytes(in)
	l.SetInput(&input)
	depth := 0
	for i := 0; i < 1_000_000; i++ {
		tok := l.Read()
		switch tok.Keyword {
		case keyword.EOF:
			return false
		case keyword.LBRACE:
			depth++
		case keyword.RBRACE:
			depth--
		case keyword.IDENT:
			if depth >= 1 && limitKeywords[string(input.RawBytes[tok.Literal.Start:tok.Literal.End])] {
				return true
			}
		}
	}
	return false
}

// ---- probes: one directed input per finding; non-empty result = still reproduces ----

func parseStr(s string) (*ast.Document, bool) {
	d := ast.NewSmallDocument()
	d.Input.ResetInputString(s)
	var rep operationreport.Report
	astparser.NewParser().Parse(d, &rep)
	return d, !rep.HasErrors()
}

func printOf(d *ast.Document, indent bool) string {
	var s string
	if indent {
		s, _ = astprinter.PrintStringIndent(d, "  ")
	} else {
		s, _ = astprinter.PrintString(d)
	}
	return s
}

// probeRoundTrip: input must be accepted; reproduces when the print does not re-parse, is not
// a fixed point, or re-parses to a different shape.
func probeRoundTrip(in string) func() string {
	return func() string {
		d, ok := parseStr(in)
		if !ok {
			return ""
		}
		_, s1 := walkDoc(d)
		p1 := printOf(d, false)
		d2, ok := parseStr(p1)
		if !ok {
			return fmt.Sprintf("%q is accepted, prints as %q, and the print does not parse", in, p1)
		}
		_, s2 := walkDoc(d2)
		if df := diffShape(s1, s2); df != "" {
			return fmt.Sprintf("%q prints as %q which parses to a different document: %s", in, p1, df)
		}
		if p2 := printOf(d2, false); p2 != p1 {
			return fmt.Sprintf("%q prints as %q, whose re-print is %q", in, p1, p2)
		}
		return ""
	}
}

func probeRejected(in string) func() string {
	return func() string {
		if _, ok := parseStr(in); !ok {
			return fmt.Sprintf("the spec-valid document %q is rejected", in)
		}
		return ""
	}
}

func probes() pbt.Probes {
	return pbt.Probes{
		fLimitsKeyword: {Input: `{ query a b c d e f } with MaxFields:3`, Fn: func() string {
			d := ast.NewSmallDocument()
			d.Input.ResetInputString(`{ query a b c d e f }`)
			var rep operationreport.Report
			st, err := astparser.NewParser().ParseWithLimits(astparser.TokenizerLimits{MaxDepth: 10, MaxFields: 3}, d, &rep)
			if err == nil && !rep.HasErrors() {
				return fmt.Sprintf("`{ query a b c d e f }` (7 fields) is accepted with MaxFields:3; reported stats %+v", st)
			}
			return ""
		}},
		// a quote before the closing delimiter, separated by a line break only (so that the value
		// has no trailing white space and the input is outside the C05-block-string-trim class)
		fBlockQuotes:   {Input: "{ a(x: \"\"\"a\"\n\"\"\") }", Fn: probeRoundTrip("{ a(x: \"\"\"a\"\n\"\"\") }")},
		fBlockTrim:     {Input: "{ a(x: \"\"\"\n    a\n  b\n\"\"\") }", Fn: probeBlockTrim},
		fNulInString:   {Input: "{ a(x: \"0\x00) }", Fn: probeRoundTrip("{ a(x: \"0\x00) }")},
		fFloatExpSign:  {Input: `{ a(x: 1e-5) }`, Fn: probeRejected(`{ a(x: 1e-5) }`)},
		fSchemaEmpty:   {Input: `schema { }`, Fn: probeRoundTrip(`schema { }`)},
		fSchemaDesc:    {Input: `"d" schema { query: Q }`, Fn: probeRoundTrip(`"d" schema { query: Q }`)},
		fExtImplements: {Input: `extend type T implements A { a: Int }`, Fn: probeRoundTrip(`extend type T implements A { a: Int }`)},
		fBOM:           {Input: "\ufeff{ a }", Fn: probeRejected("\ufeff{ a }")},
		fQueryKeyword:  {Input: `query @d { a }`, Fn: probeRoundTrip(`query @d { a }`)},
		fDescLoneCR: {Input: "type T { \"\"\"\na\rb\n\"\"\" f: Int }", Fn: func() string {
			in := "type T { \"\"\"\na\rb\n\"\"\" f: Int }"
			d, ok := parseStr(in)
			if !ok {
				return ""
			}
			_, s1 := walkDoc(d)
			p1 := printOf(d, true)
			d2, ok := parseStr(p1)
			if !ok {
				return ""
			}
			_, s2 := walkDoc(d2)
			if df := diffShape(s1, s2); df != "" {
				return fmt.Sprintf("%q prints (indented) as %q: the description value changes: %s", in, p1, df)
			}
			return ""
		}},
		fStringLineBreak: {Input: "type T { \"\\\na\" f: Int }", Fn: func() string {
			in := "type T { \"\\\na\" f: Int }"
			d, ok := parseStr(in)
			if !ok {
				return ""
			}
			_, s1 := walkDoc(d)
			p1 := printOf(d, true)
			d2, ok := parseStr(p1)
			if !ok {
				return fmt.Sprintf("%q is accepted and its indented print %q does not parse", in, p1)
			}
			_, s2 := walkDoc(d2)
			if df := diffShape(s1, s2); df != "" {
				return fmt.Sprintf("%q is accepted (a backslash continues the quoted string over the line break) and prints (indented) as %q: the description changes: %s", in, p1, df)
			}
			return ""
		}},
		fInputValueName:  {Input: `type T { a("d" "": Int): Int }`, Fn: probeRoundTrip(`type T { a("d" "": Int): Int }`)},
		fBlockBackslash:  {Input: "\"\"\"\\a\"\"\" type T { a: Int }", Fn: probeRoundTrip("\"\"\"\\a\"\"\" type T { a: Int }")},
		fImplementsIdent: {Input: `type T implements A type U { a: Int }`, Fn: probeRejected(`type T implements A type U { a: Int }`)},
	}
}

// probeBlockTrim: the value of a block string argument must survive print+parse.
func probeBlockTrim() string {
	in := "{ a(x: \"\"\"\n    a\n  b\n\"\"\") }"
	d, ok := parseStr(in)
	if !ok {
		return ""
	}
	_, s1 := walkDoc(d)
	p1 := printOf(d, false)
	d2, ok := parseStr(p1)
	if !ok {
		return ""
	}
	_, s2 := walkDoc(d2)
	if df := diffShape(s1, s2); df != "" {
		return fmt.Sprintf("%q prints as %q: the BlockStringValue changes: %s", in, p1, df)
	}
	return ""
}
