// Package pbt is the shared runner for every property check in /verif: it wraps
// pgregory.net/rapid, counts what the generators actually produced, records
// non-trivial fingerprints, samples and known-finding exclusions, writes violations
// as self-contained replay files and writes one shard result file that the driver
// (/verif/check) merges into /verif/evidence/<id>.json.
//
// Contract with the driver (environment):
//
//	VERIF_ID      property id (C01…)
//	VERIF_TIER    quick | thorough
//	VERIF_SEED    integer seed (driver already mixed the shard in; never 0)
//	VERIF_SHARD   shard index, VERIF_SHARDS shard count
//	VERIF_OUT     directory for shard-<k>.json, viol-*.json, journal-<k>.json
//	VERIF_REPLAY  path of a replay file (TestReplay only)
//	VERIF_SCALE   optional float multiplier on case counts (calibration only)
package pbt

import (
	"encoding/json"
	"flag"
	"fmt"
	"hash/fnv"
	"os"
	"path/filepath"
	"runtime/debug"
	"sort"
	"strconv"
	"strings"
	"sync"
	"testing"
	"time"

	"pgregory.net/rapid"
)

// Run is one shard's execution of one property.
type Run struct {
	ID      string
	Tier    string
	Seed    uint64
	Shard   int
	Shards  int
	OutDir  string
	start   time.Time
	mu      sync.Mutex
	evals   int
	labels  map[string]int
	known   map[string]int
	fps     map[uint64]struct{}
	samples []any
	viols   []string
	rule    string
	assume  []string
	extra   map[string]any
	parts   map[string]int
	t       *testing.T
}

const maxFingerprints = 1 << 20

func envInt(name string, def int) int {
	if v := os.Getenv(name); v != "" {
		if n, err := strconv.Atoi(v); err == nil {
			return n
		}
	}
	return def
}

// Start reads the environment. Outside the driver it falls back to a tiny local run.
func Start(t *testing.T, id string) *Run {
	r := &Run{
		ID: id, Tier: os.Getenv("VERIF_TIER"), Shard: envInt("VERIF_SHARD", 0), Shards: envInt("VERIF_SHARDS", 1),
		OutDir: os.Getenv("VERIF_OUT"), start: time.Now(), labels: map[string]int{}, known: map[string]int{},
		fps: map[uint64]struct{}{}, extra: map[string]any{}, parts: map[string]int{}, t: t,
	}
	if r.Tier == "" {
		r.Tier = "quick"
	}
	seed, _ := strconv.ParseUint(os.Getenv("VERIF_SEED"), 10, 64)
	if seed == 0 {
		seed = 0x9E3779B97F4A7C15
	}
	r.Seed = seed
	if r.OutDir == "" {
		r.OutDir = filepath.Join(os.TempDir(), "verif-local-"+id)
	}
	_ = os.MkdirAll(r.OutDir, 0o755)
	return r
}

// Thorough reports whether the thorough tier is running.
func (r *Run) Thorough() bool { return r.Tier == "thorough" }

// Rule sets the stated non-triviality rule (evidence.coverage.rule).
func (r *Run) Rule(s string) { r.rule = s }

// Assume adds an assumption line to the evidence.
func (r *Run) Assume(s ...string) { r.assume = append(r.assume, s...) }

// Extra adds a free-form key to evidence.coverage (summed when numeric across shards).
func (r *Run) Extra(k string, v any) { r.mu.Lock(); r.extra[k] = v; r.mu.Unlock() }

// Cases returns the number of cases this shard should run for a part whose whole-run
// budget is quick/thorough.
func (r *Run) Cases(quick, thorough int) int {
	n := quick
	if r.Thorough() {
		n = thorough
	}
	if s := os.Getenv("VERIF_SCALE"); s != "" {
		if f, err := strconv.ParseFloat(s, 64); err == nil && f > 0 {
			n = int(float64(n) * f)
		}
	}
	per := (n + r.Shards - 1) / r.Shards
	if per < 1 {
		per = 1
	}
	return per
}

// Rec is handed to the property body for one generated case.
type Rec struct {
	r        *Run
	part     string
	c        any
	labels   []string
	fp       string
	nontriv  bool
	known    []string
	failed   bool
	discard  bool
	journald bool
	sub      int      // sub-evaluations inside this case (batched cases)
	subKeys  []string // non-trivial sub-evaluations (distinct keys)
}

// Sub counts one sub-evaluation of a batched case (e.g. one operation of a layout's
// batch); a non-empty key marks it non-trivial and distinct by that key.
func (c *Rec) Sub(nontrivialKey string) {
	c.sub++
	if nontrivialKey != "" {
		c.subKeys = append(c.subKeys, nontrivialKey)
	}
}

// Case sets the replayable case value (must be JSON-serialisable plain data).
func (c *Rec) Case(v any) { c.c = v }

// Label counts the case under a class.
func (c *Rec) Label(l string) { c.labels = append(c.labels, l) }

// Labelf is Label with formatting.
func (c *Rec) Labelf(f string, a ...any) { c.labels = append(c.labels, fmt.Sprintf(f, a...)) }

// NonTrivial marks the case as non-trivial by the stated rule; key identifies the case for
// distinctness (usually the canonical case text).
func (c *Rec) NonTrivial(key string) { c.nontriv = true; c.fp = key }

// Known records that this case fell into a listed known finding (excluded from alarm).
func (c *Rec) Known(id string) { c.known = append(c.known, id) }

// Discard marks the case as not counted (oracle disagreement etc.); label says why.
func (c *Rec) Discard(why string) { c.discard = true; c.labels = append(c.labels, "discard:"+why) }

// Journal writes the case to disk before executing code that may kill the process.
func (c *Rec) Journal() {
	if c.c == nil {
		return
	}
	b, _ := json.Marshal(map[string]any{"property": c.r.ID, "part": c.part, "case": c.c, "why": "process died while executing this case"})
	_ = os.WriteFile(filepath.Join(c.r.OutDir, fmt.Sprintf("journal-%d.json", c.r.Shard)), b, 0o644)
	c.journald = true
}

func fp64(s string) uint64 { h := fnv.New64a(); h.Write([]byte(s)); return h.Sum64() }

// Violation writes the replay file and returns its path; it does not stop the test.
func (c *Rec) violation(msg string) string {
	c.failed = true
	b, _ := json.Marshal(c.c)
	name := fmt.Sprintf("viol-%s-%s-%d.json", c.r.ID, sanitize(c.part), c.r.Shard)
	path := filepath.Join(c.r.OutDir, name)
	doc, _ := json.MarshalIndent(map[string]any{"property": c.r.ID, "part": c.part, "case": json.RawMessage(b), "why": msg, "seed": c.r.Seed, "shard": c.r.Shard}, "", " ")
	_ = os.WriteFile(path, doc, 0o644)
	return path
}

func sanitize(s string) string {
	return strings.Map(func(r rune) rune {
		if r >= 'a' && r <= 'z' || r >= 'A' && r <= 'Z' || r >= '0' && r <= '9' || r == '-' || r == '_' {
			return r
		}
		return '_'
	}, s)
}

// T is the minimal failing interface shared by rapid.T and testing.T.
type T interface {
	Fatalf(format string, args ...any)
	Logf(format string, args ...any)
}

// Fail records a violation (replay file) and fails the case.
func (c *Rec) Fail(t T, format string, args ...any) {
	msg := fmt.Sprintf(format, args...)
	c.violation(msg)
	t.Fatalf("%s", msg)
}

// Prop is a property body.
type Prop func(t *rapid.T, c *Rec)

func isRapidInternal(p any) bool {
	s := fmt.Sprintf("%T", p)
	return s == "rapid.stopTest" || s == "rapid.invalidData"
}

// Check runs prop for this shard's share of quick/thorough cases under rapid.
func (r *Run) Check(part string, quick, thorough int, prop Prop) {
	n := r.Cases(quick, thorough)
	r.CheckN(part, n, prop)
}

// CheckN runs prop exactly n times (per shard).
func (r *Run) CheckN(part string, n int, prop Prop) {
	r.t.Run(part, func(t *testing.T) {
		_ = flag.Set("rapid.checks", strconv.Itoa(n))
		_ = flag.Set("rapid.seed", strconv.FormatUint(r.Seed^fp64(part)|1, 10))
		_ = flag.Set("rapid.nofailfile", "true")
		if st := os.Getenv("VERIF_SHRINK"); st != "" {
			_ = flag.Set("rapid.shrinktime", st)
		} else if flag.Lookup("rapid.shrinktime").Value.String() == "30s" {
			_ = flag.Set("rapid.shrinktime", "20s")
		}
		rapid.Check(t, func(rt *rapid.T) {
			rec := &Rec{r: r, part: part}
			defer func() {
				if p := recover(); p != nil {
					if !isRapidInternal(p) && !rec.failed {
						rec.violation(fmt.Sprintf("panic: %v\n%s", p, debug.Stack()))
					}
					if fmt.Sprintf("%T", p) == "rapid.invalidData" {
						r.mu.Lock()
						r.labels["rapid-invalid-data"]++
						r.mu.Unlock()
					}
					panic(p)
				}
			}()
			prop(rt, rec)
			r.commit(rec)
		})
		r.mu.Lock()
		r.parts[part] += n
		r.mu.Unlock()
	})
}

func (r *Run) commit(rec *Rec) {
	r.mu.Lock()
	defer r.mu.Unlock()
	for _, l := range rec.labels {
		r.labels[l]++
	}
	if rec.discard {
		r.labels["discarded"]++
		return
	}
	if rec.sub > 0 {
		r.evals += rec.sub
		r.labels["batches:"+rec.part]++
		r.labels["part:"+rec.part] += rec.sub
		for _, k := range rec.subKeys {
			r.labels["nontrivial:"+rec.part]++
			if len(r.fps) < maxFingerprints {
				r.fps[fp64(rec.part+"\x00"+k)] = struct{}{}
			}
		}
		if len(rec.subKeys) > 0 && rec.c != nil && len(r.samples) < 6 && (r.evals%5 == 1 || len(r.samples) == 0) {
			r.samples = append(r.samples, map[string]any{"part": rec.part, "case": truncate(rec.c)})
		}
		for _, k := range rec.known {
			r.known[k]++
		}
		return
	}
	r.evals++
	r.labels["part:"+rec.part]++
	for _, k := range rec.known {
		r.known[k]++
	}
	if rec.nontriv {
		r.labels["nontrivial:"+rec.part]++
		if len(r.fps) < maxFingerprints {
			r.fps[fp64(rec.part+"\x00"+rec.fp)] = struct{}{}
		}
		if rec.c != nil && len(r.samples) < 6 && (r.evals%7 == 1 || len(r.samples) == 0) {
			r.samples = append(r.samples, map[string]any{"part": rec.part, "case": truncate(rec.c)})
		}
	}
}

// Direct runs a non-rapid case (regression/replay/probe/enumeration) with the same
// accounting. fn returns "" when the property held.
func (r *Run) Direct(part string, c any, nontrivialKey string, fn func(rec *Rec) string) (msg string) {
	rec := &Rec{r: r, part: part, c: c}
	defer func() {
		if p := recover(); p != nil {
			msg = fmt.Sprintf("panic: %v\n%s", p, debug.Stack())
		}
		if msg == "" {
			if nontrivialKey != "" {
				rec.NonTrivial(nontrivialKey)
			}
			r.commit(rec)
		}
	}()
	return fn(rec)
}

func truncate(v any) any {
	b, err := json.Marshal(v)
	if err != nil {
		return fmt.Sprint(v)
	}
	if len(b) <= 1500 {
		return json.RawMessage(b)
	}
	return string(b[:1500]) + "…(truncated)"
}

// ShardResult is what one shard writes.
type ShardResult struct {
	ID           string         `json:"id"`
	Tier         string         `json:"tier"`
	Seed         uint64         `json:"seed"`
	Shard        int            `json:"shard"`
	Evaluations  int            `json:"evaluations"`
	Fingerprints []uint64       `json:"fingerprints"`
	Labels       map[string]int `json:"labels"`
	Known        map[string]int `json:"known"`
	Samples      []any          `json:"samples"`
	Rule         string         `json:"rule"`
	Assumptions  []string       `json:"assumptions"`
	Extra        map[string]any `json:"extra"`
	Parts        map[string]int `json:"parts"`
	WallS        float64        `json:"wall_s"`
	Failed       bool           `json:"failed"`
	Reproduced   []KnownHit     `json:"reproduced"`
	Required     []string       `json:"required_labels"`
}

// KnownHit is one known finding whose directed probe reproduced on this tree.
type KnownHit struct {
	ID   string `json:"id"`
	What string `json:"what"`
}

var (
	hitsMu sync.Mutex
	hits   []KnownHit
	reqMu  sync.Mutex
	req    []string
)

// ReportKnown is called by a probe that still reproduces a listed finding.
func ReportKnown(id, what string) {
	hitsMu.Lock()
	hits = append(hits, KnownHit{id, what})
	hitsMu.Unlock()
}

// RequireLabel declares a class that must be non-empty over the whole run (all shards);
// the driver exits 2 (inconclusive), not 0, when it is empty.
func (r *Run) RequireLabel(l ...string) { reqMu.Lock(); req = append(req, l...); reqMu.Unlock() }

// Finish writes the shard file.
func (r *Run) Finish() {
	r.mu.Lock()
	defer r.mu.Unlock()
	fps := make([]uint64, 0, len(r.fps))
	for f := range r.fps {
		fps = append(fps, f)
	}
	sort.Slice(fps, func(i, j int) bool { return fps[i] < fps[j] })
	res := ShardResult{ID: r.ID, Tier: r.Tier, Seed: r.Seed, Shard: r.Shard, Evaluations: r.evals, Fingerprints: fps,
		Labels: r.labels, Known: r.known, Samples: r.samples, Rule: r.rule, Assumptions: r.assume, Extra: r.extra,
		Parts: r.parts, WallS: time.Since(r.start).Seconds(), Failed: r.t.Failed(), Reproduced: hits, Required: req}
	b, _ := json.Marshal(res)
	_ = os.WriteFile(filepath.Join(r.OutDir, fmt.Sprintf("shard-%d.json", r.Shard)), b, 0o644)
	_ = os.Remove(filepath.Join(r.OutDir, fmt.Sprintf("journal-%d.json", r.Shard)))
}

// ReplayFile is the on-disk form of a violation / regression case.
type ReplayFile struct {
	Property string          `json:"property"`
	Part     string          `json:"part"`
	Case     json.RawMessage `json:"case"`
	Why      string          `json:"why"`
}

// LoadReplay reads a replay file.
func LoadReplay(path string) (*ReplayFile, error) {
	b, err := os.ReadFile(path)
	if err != nil {
		return nil, err
	}
	var rf ReplayFile
	if err := json.Unmarshal(b, &rf); err != nil {
		return nil, err
	}
	return &rf, nil
}

// RegressFiles lists /verif/regress/<id>/*.json (sorted).
func RegressFiles(id string) []string {
	root := os.Getenv("VERIF_ROOT")
	if root == "" {
		root = "/verif"
	}
	m, _ := filepath.Glob(filepath.Join(root, "regress", id, "*.json"))
	sort.Strings(m)
	return m
}

// FirstShard reports whether this shard should run the once-only tiers (regress, probes).
func (r *Run) FirstShard() bool { return r.Shard == 0 }

// Dispatch is a registry of part name → function that re-checks a raw case; used by
// TestReplay and the regression tier so that replays bypass rapid entirely.
type Dispatch map[string]func(raw json.RawMessage) string

// Replay runs one replay file through the dispatch table; returns "" when it passes.
func (d Dispatch) Replay(path string) (msg string) {
	rf, err := LoadReplay(path)
	if err != nil {
		return "cannot load replay: " + err.Error()
	}
	fn, ok := d[rf.Part]
	if !ok {
		return "unknown part " + rf.Part
	}
	defer func() {
		if p := recover(); p != nil {
			msg = fmt.Sprintf("panic: %v\n%s", p, debug.Stack())
		}
	}()
	return fn(rf.Case)
}

// StdReplay implements TestReplay (VERIF_REPLAY) and the regression tier for a property.
func StdReplay(t *testing.T, id string, d Dispatch) {
	if p := os.Getenv("VERIF_REPLAY"); p != "" {
		if msg := d.Replay(p); msg != "" {
			t.Fatalf("replay %s still violates %s: %s", p, id, msg)
		}
		t.Logf("replay %s: property holds", p)
	}
}

// Regress runs every saved regression case on the first shard; failures are violations
// whose replay is the regression file itself.
func (r *Run) Regress(d Dispatch) {
	if !r.FirstShard() {
		return
	}
	for _, f := range RegressFiles(r.ID) {
		msg := d.Replay(f)
		r.mu.Lock()
		r.labels["regress-cases"]++
		r.mu.Unlock()
		if msg != "" {
			doc, _ := json.Marshal(map[string]any{"property": r.ID, "part": "regress", "replay": f, "why": msg})
			_ = os.WriteFile(filepath.Join(r.OutDir, "viol-"+r.ID+"-regress-"+sanitize(filepath.Base(f))+".json"), doc, 0o644)
			r.t.Errorf("regression case %s violates %s: %s", f, r.ID, msg)
		}
	}
}

// ---- known findings -------------------------------------------------------------------

// Finding is one entry of /verif/known_findings.json.
type Finding struct {
	Property string `json:"property"`
	ID       string `json:"id"`
	Status   string `json:"status"` // "known" (recorded, not repaired) or "fixed"
	What     string `json:"what"`
	Line     string `json:"line,omitempty"` // for fixed entries: "fixed: property=<id> <commit> <what failed>"
}

var (
	findingsOnce sync.Once
	findings     map[string]Finding
)

func loadFindings() {
	findings = map[string]Finding{}
	root := os.Getenv("VERIF_ROOT")
	if root == "" {
		root = "/verif"
	}
	path := filepath.Join(root, "known_findings.json")
	if p := os.Getenv("VERIF_FINDINGS_FILE"); p != "" {
		path = p // probe collection only: treat recorded findings as unknown so that they are saved as cases
	}
	b, err := os.ReadFile(path)
	if err != nil {
		return
	}
	var doc struct {
		Findings []Finding `json:"findings"`
	}
	if json.Unmarshal(b, &doc) != nil {
		return
	}
	for _, f := range doc.Findings {
		findings[f.ID] = f
	}
}

// IsKnown reports whether id is listed as a known (recorded, unrepaired) finding. A finding
// listed as "fixed" is NOT known: if it shows up again it is a violation.
func IsKnown(id string) bool {
	findingsOnce.Do(loadFindings)
	f, ok := findings[id]
	return ok && f.Status == "known"
}

// KnownOrFail is called when the oracle saw a violation that a recogniser attributes to
// finding id. Listed as known → counted as an exclusion and the case passes; otherwise it
// is reported as a violation like any other.
func (c *Rec) KnownOrFail(t T, id string, format string, args ...any) {
	if IsKnown(id) {
		c.Known(id)
		return
	}
	c.Fail(t, "[recognised as %s, which is not listed as a known finding] %s", id, fmt.Sprintf(format, args...))
}

// Probe runs the directed probe of one finding on the first shard. reproduces returns a
// non-empty description when the defect is still present on this tree. Known+reproduces →
// KNOWN-FINDING line. Not listed as known (fixed or never recorded) + reproduces → violation.
func (r *Run) Probe(id string, input any, reproduces func() string) {
	if !r.FirstShard() {
		return
	}
	var what string
	// journal the probe: a probe whose defect has become process-killing (again) must end as a
	// violation with a replay file, not as a dead shard
	if r.OutDir != "" {
		b, _ := json.Marshal(map[string]any{"property": r.ID, "part": "probe:" + id, "case": input, "why": "process died while executing this probe"})
		_ = os.WriteFile(filepath.Join(r.OutDir, fmt.Sprintf("journal-%d.json", r.Shard)), b, 0o644)
	}
	func() {
		defer func() {
			if p := recover(); p != nil {
				what = fmt.Sprintf("panic: %v", p)
			}
		}()
		what = reproduces()
	}()
	if r.OutDir != "" {
		_ = os.Remove(filepath.Join(r.OutDir, fmt.Sprintf("journal-%d.json", r.Shard)))
	}
	r.mu.Lock()
	r.labels["probe-runs"]++
	r.mu.Unlock()
	if what == "" {
		if IsKnown(id) {
			// listed as known but the probe is silent: the entry may be stale (informational)
			r.mu.Lock()
			r.labels["known-finding-probe-silent:"+id]++
			r.mu.Unlock()
			fmt.Fprintf(os.Stderr, "NOTE: known finding %s: its probe does not reproduce on this tree\n", id)
		}
		return
	}
	if IsKnown(id) {
		findingsOnce.Do(loadFindings)
		ReportKnown(id, findings[id].What+" — probe: "+what)
		return
	}
	rec := &Rec{r: r, part: "probe:" + id, c: input}
	rec.violation("finding " + id + " is not listed as known (fixed or unrecorded) but its probe reproduces: " + what)
	r.t.Errorf("probe %s reproduces: %s", id, what)
}

// ProbeDef is a directed probe for one finding.
type ProbeDef struct {
	Input any
	Fn    func() string // non-empty: the defect reproduces
}

// Probes maps finding id → probe.
type Probes map[string]ProbeDef

// RunProbes runs all probes (first shard only), in id order.
func (r *Run) RunProbes(p Probes) {
	ids := make([]string, 0, len(p))
	for id := range p {
		ids = append(ids, id)
	}
	sort.Strings(ids)
	for _, id := range ids {
		r.Probe(id, p[id].Input, p[id].Fn)
	}
}

// WithProbes registers "probe:<id>" replay handlers.
func (d Dispatch) WithProbes(p Probes) Dispatch {
	for id, def := range p {
		fn := def.Fn
		d["probe:"+id] = func(json.RawMessage) string { return fn() }
	}
	return d
}

// ---- generator/check pairs ---------------------------------------------------------------

// Verdict is the outcome of checking one case: Msg == "" means the property held. Finding
// names the known-finding recogniser that matched (optional).
type Verdict struct {
	Msg     string
	Finding string
}

// OK is the passing verdict.
var OK = Verdict{}

// Bad builds a failing verdict.
func Bad(format string, args ...any) Verdict { return Verdict{Msg: fmt.Sprintf(format, args...)} }

// BadKnown builds a failing verdict attributed to a finding id by a recogniser.
func BadKnown(finding, format string, args ...any) Verdict {
	return Verdict{Msg: fmt.Sprintf(format, args...), Finding: finding}
}

// Part couples a generator with a check over plain-data cases of type C.
type Part[C any] struct {
	Name     string
	Quick    int // whole-run case budget, quick tier
	Thorough int
	Gen      func(t *rapid.T) C
	Check    func(c C, o *Rec) Verdict
	// Journal writes every case to disk before it is checked: for parts that execute code
	// which can kill the process (stack overflow, fatal runtime errors), so that the driver
	// can report the case a dead shard was executing.
	Journal bool
}

// Run executes the part under rapid.
func (p Part[C]) Run(r *Run) {
	r.Check(p.Name, p.Quick, p.Thorough, func(t *rapid.T, rec *Rec) {
		c := p.Gen(t)
		rec.Case(c)
		if p.Journal {
			rec.Journal()
		}
		v := p.Check(c, rec)
		if v.Msg == "" {
			return
		}
		if v.Finding != "" {
			rec.KnownOrFail(t, v.Finding, "%s", v.Msg)
			return
		}
		rec.Fail(t, "%s", v.Msg)
	})
}

// Handler returns the replay handler of the part: it re-checks a saved case without rapid.
// A case that only reproduces a listed known finding passes.
func (p Part[C]) Handler() func(raw json.RawMessage) string {
	return func(raw json.RawMessage) string {
		var c C
		if err := json.Unmarshal(raw, &c); err != nil {
			return "cannot decode case: " + err.Error()
		}
		v := p.Check(c, &Rec{r: &Run{ID: "replay"}, part: p.Name})
		if v.Msg != "" && v.Finding != "" && IsKnown(v.Finding) {
			return ""
		}
		return v.Msg
	}
}

// Add registers the part's handler.
func (d Dispatch) Add(name string, h func(raw json.RawMessage) string) Dispatch {
	d[name] = h
	return d
}

// Bytes is a byte string that stays readable and lossless in JSON case files: it is
// encoded as the Go-quoted ASCII form of the bytes.
type Bytes []byte

// MarshalJSON implements json.Marshaler.
func (b Bytes) MarshalJSON() ([]byte, error) { return json.Marshal(strconv.QuoteToASCII(string(b))) }

// UnmarshalJSON implements json.Unmarshaler.
func (b *Bytes) UnmarshalJSON(data []byte) error {
	var q string
	if err := json.Unmarshal(data, &q); err != nil {
		return err
	}
	s, err := strconv.Unquote(q)
	if err != nil {
		return err
	}
	*b = Bytes(s)
	return nil
}

// NewRec returns a detached recorder (calibration helpers and replays).
func NewRec() *Rec { return &Rec{r: &Run{ID: "detached"}, part: "detached"} }

// ---- minimisation of saved violations (post-processing by the driver) ---------------------

// Minimizers maps part name → function that rewrites a failing raw case into a smaller
// failing raw case (or returns nil to keep it).
type Minimizers map[string]func(raw json.RawMessage) (smaller any, why string)

// StdMinimize implements TestMinimize: VERIF_REPLAY is the violation file, VERIF_MIN_OUT the
// path the minimised replay file is written to.
func StdMinimize(t *testing.T, id string, m Minimizers) {
	in, out := os.Getenv("VERIF_REPLAY"), os.Getenv("VERIF_MIN_OUT")
	if in == "" || out == "" {
		t.Skip("driver post-processing only")
	}
	rf, err := LoadReplay(in)
	if err != nil {
		t.Fatal(err)
	}
	fn, ok := m[rf.Part]
	if !ok {
		t.Skipf("no minimiser for part %s", rf.Part)
	}
	smaller, why := fn(rf.Case)
	if smaller == nil {
		t.Skip("no smaller case found")
	}
	b, _ := json.Marshal(smaller)
	doc, _ := json.MarshalIndent(map[string]any{"property": id, "part": rf.Part, "case": json.RawMessage(b), "why": why, "minimised_from": filepath.Base(in)}, "", " ")
	if err := os.WriteFile(out, doc, 0o644); err != nil {
		t.Fatal(err)
	}
}

// KnownCaseProbes builds probes from saved cases: dir/<finding-id>.json (replay-file format)
// reproduces while check still returns a failing verdict for it.
func KnownCaseProbes(dir string, check func(part string, raw json.RawMessage) Verdict) Probes {
	out := Probes{}
	files, _ := filepath.Glob(filepath.Join(dir, "*.json"))
	sort.Strings(files)
	for _, f := range files {
		id := strings.TrimSuffix(filepath.Base(f), ".json")
		file := f
		out[id] = ProbeDef{Input: "saved case " + filepath.Base(f), Fn: func() string {
			rf, err := LoadReplay(file)
			if err != nil {
				return ""
			}
			v := check(rf.Part, rf.Case)
			if v.Msg == "" {
				return ""
			}
			first := strings.SplitN(v.Msg, "\n", 2)[0]
			if len(first) > 300 {
				first = first[:300]
			}
			return first
		}}
	}
	return out
}

// CheckRaw decodes a raw case and runs the part's check (for KnownCaseProbes).
func (p Part[C]) CheckRaw(raw json.RawMessage) Verdict {
	var c C
	if err := json.Unmarshal(raw, &c); err != nil {
		return OK
	}
	return p.Check(c, NewRec())
}
