//go:build verif

package subrig

import (
	"fmt"
	"strings"
)

// Attribute decides whether every violation of a run is explained by the history having the
// shape of recorded findings (Model.Shapes). It returns the id of the finding when all are
// explained, "" otherwise. The recognisers are deliberately narrow: a violation is explained
// only by a shape that predicts exactly that clause for exactly that subscriber/trigger.
func Attribute(res *Result) string {
	id, un := attribute(res)
	if len(un) > 0 {
		return ""
	}
	return id
}

// Unexplained returns the violations no recorded finding's shape explains.
func Unexplained(res *Result) []Violation { _, un := attribute(res); return un }

func attribute(res *Result) (first string, unexplained []Violation) {
	if len(res.Violations) == 0 {
		return "", nil
	}
	if res.Model == nil || len(res.Model.Shapes) == 0 {
		return "", res.Violations
	}
	m := res.Model
	for _, v := range res.Violations {
		id := ""
		for _, sh := range m.Shapes {
			if explains(m, sh, v) {
				id = sh.Finding
				break
			}
		}
		if id == "" {
			unexplained = append(unexplained, v)
			continue
		}
		if first == "" {
			first = id
		}
	}
	return first, unexplained
}

func explains(m *Model, sh Shape, v Violation) bool {
	later := v.Step == -1 || v.Step >= sh.Step
	if !later {
		return false
	}
	switch sh.Finding {
	case F19:
		if v.Sub != sh.Sub {
			return false
		}
		return v.Clause == ClAfterCompletion && (v.Call == CComplete || v.Call == CError) ||
			v.Clause == ClDelivery && (v.Call == "unexpected:"+CComplete || v.Call == "unexpected:"+CError)
	case F20:
		// (once one unpaired Inc has happened the executor's own waiting on counter totals is
		// off, so later start-ups can race for real: any surplus is attributed)
		return v.Clause == ClTrigCounter && v.Got > v.Want
	case FStaleDone, FStaleStart:
		if sh.ExtraInc {
			// the stale goroutine marks the victim initialised and reports it: the victim's own
			// Inc/Dec pairing is off in either direction from then on
			return v.Clause == ClTrigCounter && v.Got != v.Want
		}
		// the victim trigger is torn down behind the model's back: everything that follows about
		// the registry, the counters and the victim's subscribers is off
		switch v.Clause {
		case ClRegistry, ClSubCounter, ClTrigCounter:
			return true
		}
		if v.Sub >= 0 && v.Sub < len(m.Subs) && m.Subs[v.Sub].Key == m.Periods[sh.Period].Key && m.Subs[v.Sub].Period >= sh.Period {
			switch v.Clause {
			case ClCtxCancelled, ClStartCount, ClStartArgs:
				return true
			case ClDelivery:
				return strings.HasPrefix(v.Call, "missing:") || v.Call == "unexpected:"+CComplete || v.Call == "unexpected:"+CError
			case ClAfterCompletion:
				// the teardown happened while a Complete/Error for the victim's subscriber was
				// parked: the other recorded defect (F19) reached through this one
				return v.Call == CComplete || v.Call == CError
			}
		}
	}
	return false
}

// ProbeHistory returns the directed history of a finding.
func ProbeHistory(id string) History {
	switch id {
	case F19:
		return History{Steps: []Step{
			{Op: OpSubscribe, Sub: 0, Conn: 1, Key: 0},
			{Op: OpEvent, Period: 0, N: 1, K: 0},
			{Op: OpComplete, Period: 0, Split: &Split{Point: PtComplete, Target: 0, Nested: []Step{{Op: OpUnsubscribe, Sub: 0}}}},
			{Op: OpDone, Period: 0},
		}}
	case F20:
		return History{Steps: []Step{
			{Op: OpSubscribe, Sub: 0, Conn: 1, Key: 0, Split: &Split{Point: PtInit, Nested: []Step{{Op: OpUnsubscribe, Sub: 0}}}},
		}}
	case FStaleDone:
		return History{Steps: []Step{
			{Op: OpSubscribe, Sub: 0, Conn: 1, Key: 0},
			{Op: OpUnsubscribe, Sub: 0},
			{Op: OpSubscribe, Sub: 1, Conn: 2, Key: 0},
			{Op: OpDone, Period: 0},
			{Op: OpEvent, Period: 1, N: 1, K: 0},
		}}
	case FStaleStart:
		return History{Steps: []Step{
			{Op: OpSubscribe, Sub: 0, Conn: 1, Key: 0, StartMode: StartBlock},
			{Op: OpUnsubscribe, Sub: 0},
			{Op: OpSubscribe, Sub: 1, Conn: 2, Key: 0},
			{Op: OpReleaseStart, Period: 0, Err: true},
			{Op: OpEvent, Period: 1, N: 1, K: 0},
		}}
	}
	panic("no probe for " + id)
}

// Probe runs the directed history of a finding; it returns a description while the defect
// reproduces (every violation attributed to this finding), "" when the history is clean, and
// panics... never: anything else is reported in the description with a marker so that the
// caller can tell.
func Probe(id string) string {
	h := ProbeHistory(id)
	res := Execute(h)
	if len(res.Violations) == 0 {
		return ""
	}
	got := Attribute(res)
	var msgs []string
	for i, v := range res.Violations {
		if i == 3 {
			msgs = append(msgs, fmt.Sprintf("… %d more", len(res.Violations)-3))
			break
		}
		msgs = append(msgs, v.String())
	}
	if got != id {
		return fmt.Sprintf("history %s fails, but not (only) in the way %s predicts: %s", h, id, strings.Join(msgs, "; "))
	}
	return fmt.Sprintf("history %s: %s", h, strings.Join(msgs, "; "))
}

// FindingIDs lists the findings of both properties.
var FindingIDs = []string{F19, F20, FStaleDone, FStaleStart}
