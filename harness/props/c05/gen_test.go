package c05

import (
	"sort"
	"strings"

	"pgregory.net/rapid"

	"verif/harness/pbt"
)

// Grammar generator: writes a GraphQL document (executable, type-system or mixed) that is
// valid by construction against the October-2021 grammar (plus, optionally and flagged, the
// September-2025 descriptions on executable definitions) and, in the same pass, the shape the
// document must parse to. All randomness comes from rapid.

type tk int

const (
	tkStart tk = iota
	tkPunct
	tkWord   // names and numbers: two adjacent ones need an ignored token in between
	tkString // two adjacent strings need one too ("" "x" would lex as a block string)
)

type genOpts struct {
	maxSelDepth int  // selection-set nesting
	maxSel      int  // selections per set
	maxDefs     int  // root definitions
	wild        bool // random ignored tokens (commas, comments, CRLF…) instead of single spaces
	limitsMode  bool // limits part: only executable constructs, more fields/nesting
}

type gen struct {
	t    *rapid.T
	o    genOpts
	b    strings.Builder
	prev tk
	feat map[string]bool
}

func (g *gen) flag(f string) { g.feat[f] = true }

// chance is true with probability of roughly 1/n. rapid's integer draws are biased towards the
// ends of the range (0 comes up four to five times more often than 1/n for n = 40), so the
// test is against the middle of the range; shrinking (towards 0) then switches features off.
func (g *gen) chance(n int, label string) bool {
	if n <= 1 {
		return true
	}
	return rapid.IntRange(0, n-1).Draw(g.t, label) == n/2
}

// risk decides whether to enter a class that is recorded as a known finding: rarely while the
// finding is listed as known (so the search continues behind it), often otherwise.
func (g *gen) risk(id, label string) bool {
	n := 5
	if pbt.IsKnown(id) {
		n = 40
	}
	return g.chance(n, label)
}

var seps = []string{" ", "\n", "  ", ",", ", ", "\t", "\r\n", " #c\n", "\n\n", " # \"x\" { } é\n", "\r", ",,"}

func (g *gen) sep(mandatory bool) {
	if !g.o.wild {
		if mandatory || g.prev != tkStart && g.chance(2, "sp") {
			g.b.WriteByte(' ')
		}
		return
	}
	if !mandatory && g.chance(2, "nosep") {
		return
	}
	s := rapid.SampledFrom(seps).Draw(g.t, "sep")
	if strings.Contains(s, "#") {
		g.flag("comment")
	}
	g.b.WriteString(s)
}

func (g *gen) emit(k tk, s string) {
	mandatory := g.prev == tkWord && k == tkWord || g.prev == tkString && k == tkString
	g.sep(mandatory)
	g.b.WriteString(s)
	g.prev = k
}

func (g *gen) p(s string) { g.emit(tkPunct, s) }
func (g *gen) w(s string) { g.emit(tkWord, s) }

var plainNames = []string{"a", "b", "c", "id", "name", "x1", "_y", "__typename", "Foo", "T", "U", "Int", "String", "Query", "node", "edges", "aB_9", "I", "E"}
var kwNames = []string{"query", "mutation", "subscription", "fragment", "on", "type", "interface", "union", "enum", "input", "scalar", "schema",
	"extend", "directive", "implements", "repeatable", "true", "false", "null"}
var limitKeywords = map[string]bool{"query": true, "mutation": true, "subscription": true, "fragment": true}

// name draws a Name; inSelection marks positions that are IDENT tokens inside a selection set
// (relevant to the recorded limits finding).
func (g *gen) name(label string, inSelection bool, forbid ...string) string {
	for try := 0; ; try++ {
		var n string
		if try < 4 && g.chance(6, label+"-kw") {
			n = rapid.SampledFrom(kwNames).Draw(g.t, label+"-k")
			if g.o.limitsMode && limitKeywords[n] && !g.risk("C05-limits-keyword-in-selection", "kwsel") {
				continue
			}
			g.flag("keyword-as-name")
		} else {
			n = rapid.SampledFrom(plainNames).Draw(g.t, label)
		}
		bad := false
		for _, f := range forbid {
			if f == n {
				bad = true
			}
		}
		if !bad {
			if inSelection && limitKeywords[n] {
				g.flag("kw-in-selection")
			}
			return n
		}
	}
}

// ---- strings ----

var strPieces = []string{"a", "b", "Z", "0", " ", "  ", "\t", "{", "}", "(", ")", "[", "]", "#", ",", ":", "!", "$", "@", "&", "|", "=", ".", "...", "-", "'",
	"é", "世", "\U0001F600", `\n`, `\t`, `\"`, `\\`, `\/`, `\b`, `\f`, `\r`, `\u0041`, `\u00e9`, `\u4E16`, `\uD83D\uDE00`, `\"\"\"`, "query", "1e5", "\"\""}

func (g *gen) stringRaw() string {
	n := rapid.IntRange(0, 6).Draw(g.t, "strlen")
	var b strings.Builder
	for i := 0; i < n; i++ {
		pc := rapid.SampledFrom(strPieces).Draw(g.t, "strpiece")
		if pc == "\"\"" { // never a bare quote inside a regular string
			pc = `\"`
		}
		if strings.HasPrefix(pc, `\`) {
			g.flag("string-escape")
		}
		if strings.HasPrefix(pc, `\uD8`) {
			g.flag("string-surrogate-pair")
		}
		b.WriteString(pc)
	}
	return b.String()
}

var blockPieces = []string{"a", "b", "Z", "0", " ", "{", "}", "#", ",", ":", "\\", "'", "é", "\U0001F600", "word", "x y", `"`, `""`, `\n`, "\\\\", "q\"q", "\\\"", `\"""`}

// blockTrimmed mirrors what survives of a block string in the astparser document: the raw text
// with surrounding white space removed.
func blockTrimmed(raw string) string { return strings.Trim(raw, " \t\r\n") }

// blockQuoteClass: raw text whose trimmed form ends in a quote (the printer would merge it
// with the closing delimiter; the lexer also loses quotes that precede trailing white space)
// or in a backslash (the printed text then ends in the escape \"""),
// starts with a quote (the lexer drops leading quotes that are followed by white space), or
// that has a quote directly after the escape \""" (the lexer only skips one quote after a
// backslash) — recorded finding C05-block-string-quotes.
func blockQuoteClass(raw string) bool {
	t := blockTrimmed(raw)
	return strings.HasSuffix(t, `"`) || strings.HasSuffix(t, `\`) || strings.HasPrefix(t, `"`) || strings.Contains(raw, `\""""`)
}

// blockLoneCRClass: a carriage return that is not part of CRLF inside the text (a line
// terminator of the grammar that the description printer does not treat as one) — recorded
// finding C05-description-lone-cr.
func blockLoneCRClass(raw string) bool {
	t := blockTrimmed(raw)
	for i := 0; i < len(t); i++ {
		if t[i] == '\r' && (i+1 >= len(t) || t[i+1] != '\n') {
			return true
		}
	}
	return false
}

// blockBackslashClass: a backslash comes before the first character that is neither white
// space nor a quote (the lexer then does not trim the leading white space) — recorded finding C05-block-string-leading-backslash.
func blockBackslashClass(raw string) bool {
	return strings.HasPrefix(strings.TrimLeft(blockTrimmed(raw), `"`), `\`)
}

// blockTrimClass: the BlockStringValue changes when the surrounding white space is trimmed —
// recorded finding C05-block-string-trim.
func blockTrimClass(raw string) bool {
	return blockStringValue(blockTrimmed(raw)) != blockStringValue(raw)
}

// blockRawText draws the raw text between the triple quotes. Mostly from the class whose value
// survives the lexer's white-space trimming and that has no quote next to the closing
// delimiter; the recorded classes are entered with g.risk. The result is always a valid
// block-string body: no bare """, no backslash or quote directly before the closing delimiter.
func (g *gen) blockRawText() string {
	nl := func() string {
		if g.o.wild && g.chance(4, "crlf") {
			g.flag("block-string-crlf")
			return "\r\n"
		}
		if g.o.wild && g.risk("C05-description-lone-cr", "lonecr") {
			return "\r"
		}
		return "\n"
	}
	nlines := rapid.IntRange(1, 4).Draw(g.t, "blocklines")
	common := rapid.SampledFrom([]string{"", "  ", "    ", "\t"}).Draw(g.t, "blockindent")
	free := g.risk("C05-block-string-trim", "blockfree")
	var lines []string
	for i := 0; i < nlines; i++ {
		if i > 0 && i < nlines-1 && g.chance(5, "blankline") {
			lines = append(lines, "")
			continue
		}
		n := rapid.IntRange(1, 4).Draw(g.t, "blockline")
		var lb strings.Builder
		for j := 0; j < n; j++ {
			lb.WriteString(rapid.SampledFrom(blockPieces).Draw(g.t, "blockpiece"))
		}
		l := strings.Trim(lb.String(), " ")
		l = strings.ReplaceAll(l, `\"""`, "\x01") // keep the escape
		for strings.Contains(l, `"""`) {          // never a bare delimiter
			l = strings.ReplaceAll(l, `"""`, `""x"`)
		}
		l = strings.ReplaceAll(l, "\x01\"", "\x01x\"") // no quote directly after the escape (recorded class)
		l = strings.ReplaceAll(l, "\\\x01", "\\x\x01") // no backslash directly before the escape (stated exclusion, NOTES.md)
		l = strings.ReplaceAll(l, "\x01", `\"""`)
		if l == "" || strings.HasSuffix(l, `"`) || strings.HasSuffix(l, `\`) {
			l += "x"
		}
		if i == 0 && strings.HasPrefix(l, `"`) {
			l = "x" + l // a quote next to the opening delimiter: recorded class, entered below
		}
		if i == 0 && blockBackslashClass(l) && !g.risk("C05-block-string-leading-backslash", "blockbackslash") {
			l = "x" + l
		}
		extra := ""
		if free || i > 0 && i < nlines-1 {
			extra = rapid.SampledFrom([]string{"", "", "  ", " "}).Draw(g.t, "lineindent")
		}
		lines = append(lines, extra+l)
	}
	if free && g.chance(2, "trailws") {
		lines[len(lines)-1] += " "
	}
	var b strings.Builder
	layout := rapid.IntRange(0, 2).Draw(g.t, "blocklayout")
	switch layout {
	case 0: // """first\n<common>rest"""
		for i, l := range lines {
			if i > 0 {
				b.WriteString(nl())
				if l != "" {
					b.WriteString(common)
				}
			}
			b.WriteString(l)
		}
	default: // """\n<common>first\n<common>rest\n<common>"""
		b.WriteString(nl())
		for _, l := range lines {
			if l != "" {
				b.WriteString(common)
			}
			b.WriteString(l)
			b.WriteString(nl())
		}
		if layout == 2 {
			b.WriteString(common)
		}
	}
	raw := b.String()
	if g.risk("C05-block-string-quotes", "blockquote") {
		// a quote separated from the closing delimiter by white space only, or the escape
		if g.chance(3, "blockquotehead") {
			raw = rapid.SampledFrom([]string{`"" `, `" `, "\"\n", `"`}).Draw(g.t, "blockquotehead") + raw
		} else {
			// (line breaks rather than spaces behind the quote: trailing spaces would also put
			// the literal into the C05-block-string-trim class)
			raw += rapid.SampledFrom([]string{"\"\n", " \"\"\n", "\"\n\n", `\"""`, "x\\\"\"\"\n", "\\\n"}).Draw(g.t, "blockquotetail")
		}
	}
	return raw
}

// stringLit writes a string or block-string literal and returns the node (kinds kStr/kBlock).
func (g *gen) stringLit(kStr, kBlock string) *sn {
	if g.chance(3, "isblock") {
		raw := g.blockRawText()
		g.flag("block-string")
		if blockQuoteClass(raw) {
			g.flag("block-quote-class")
		}
		if blockTrimClass(raw) {
			g.flag("block-trim-class")
		}
		if blockBackslashClass(raw) {
			g.flag("block-backslash-class")
		}
		if blockLoneCRClass(raw) {
			g.flag("block-lone-cr-class")
		}
		if strings.Contains(raw, `\"""`) {
			g.flag("block-string-escaped-delimiter")
		}
		if strings.ContainsAny(raw, "\r\n") {
			g.flag("block-string-multiline")
		}
		g.emit(tkString, `"""`+raw+`"""`)
		return mk(kBlock, blockStringValue(raw))
	}
	raw := g.stringRaw()
	g.emit(tkString, `"`+raw+`"`)
	return mk(kStr, raw)
}

func (g *gen) description(rate int) *sn {
	if !g.chance(rate, "hasdesc") {
		return nil
	}
	g.flag("description")
	return g.stringLit("desc", "descblock")
}

// ---- values ----

var ints = []string{"0", "1", "7", "42", "123", "-1", "-0", "-45", "2147483648", "9007199254740993", "-9223372036854775808", "100000000000000000000"}
var floats = []string{"1.5", "-0.0", "0.001", "1e5", "1E5", "1.5e10", "1.5e+3", "1.5E-3", "-2.25e-7", "10.0", "6.02E23"}
var floatsSigned = []string{"1e+5", "1e-5", "1E+5", "-3E-2", "0e-0"}

func (g *gen) value(depth int, allowVar bool) *sn {
	max := 9
	if depth >= 3 {
		max = 7 // no list/object below depth 3
	}
	switch rapid.IntRange(0, max).Draw(g.t, "valuekind") {
	case 0:
		g.flag("value:int")
		v := rapid.SampledFrom(ints).Draw(g.t, "int")
		g.w(v)
		return mk("int", v)
	case 1:
		g.flag("value:float")
		var v string
		if g.risk("C05-float-exponent-sign", "floatsign") {
			v = rapid.SampledFrom(floatsSigned).Draw(g.t, "floatsigned")
			g.flag("float-exp-sign")
		} else {
			v = rapid.SampledFrom(floats).Draw(g.t, "float")
		}
		g.w(v)
		return mk("float", v)
	case 2:
		g.flag("value:string")
		return g.stringLit("string", "blockstring")
	case 3:
		g.flag("value:bool")
		v := rapid.SampledFrom([]string{"true", "false"}).Draw(g.t, "bool")
		g.w(v)
		return mk("bool", v)
	case 4:
		g.flag("value:null")
		g.w("null")
		return mk("null", "")
	case 5:
		g.flag("value:enum")
		v := g.name("enumvalue", false, "true", "false", "null")
		g.w(v)
		return mk("enum", v)
	case 6, 7:
		if !allowVar {
			g.flag("value:int")
			v := rapid.SampledFrom(ints).Draw(g.t, "int")
			g.w(v)
			return mk("int", v)
		}
		g.flag("value:variable")
		v := g.name("varname", false)
		g.emit(tkWord, "$"+v)
		return mk("var", v)
	case 8:
		g.flag("value:list")
		n := rapid.IntRange(0, 3).Draw(g.t, "listlen")
		g.p("[")
		l := mk("list", "")
		for i := 0; i < n; i++ {
			l.add(g.value(depth+1, allowVar))
		}
		g.p("]")
		if depth >= 1 {
			g.flag("value:nested")
		}
		return l
	default:
		g.flag("value:object")
		n := rapid.IntRange(0, 3).Draw(g.t, "objlen")
		g.p("{")
		o := mk("object", "")
		for i := 0; i < n; i++ {
			name := g.name("objfield", false)
			g.w(name)
			g.p(":")
			o.add(mk("ofield", name, g.value(depth+1, allowVar)))
		}
		g.p("}")
		if depth >= 1 {
			g.flag("value:nested")
		}
		return o
	}
}

func (g *gen) arguments(rate int, allowVar, inSelection bool) []*sn {
	if !g.chance(rate, "hasargs") {
		return nil
	}
	n := rapid.IntRange(1, 3).Draw(g.t, "nargs")
	g.p("(")
	var out []*sn
	for i := 0; i < n; i++ {
		name := g.name("argname", inSelection)
		g.w(name)
		g.p(":")
		out = append(out, mk("arg", name, g.value(0, allowVar)))
	}
	g.p(")")
	return out
}

func (g *gen) directives(rate int, allowVar, inSelection bool, where string) []*sn {
	if !g.chance(rate, "hasdirs") {
		return nil
	}
	n := rapid.IntRange(1, 2).Draw(g.t, "ndirs")
	var out []*sn
	for i := 0; i < n; i++ {
		name := g.name("dirname", inSelection)
		g.p("@")
		g.emit(tkWord, name) // '@' and the name are separate tokens; ignored tokens may sit between
		out = append(out, mk("dir", name, g.arguments(2, allowVar, inSelection)...))
	}
	g.flag("directive-on:" + where)
	if n > 1 {
		g.flag("directive:multiple")
	}
	return out
}

func (g *gen) typeRef(depth int) *sn {
	var n *sn
	if depth < 2 && g.chance(3, "listtype") {
		g.p("[")
		n = mk("listtype", "", g.typeRef(depth+1))
		g.p("]")
	} else {
		name := g.name("typename", false)
		g.w(name)
		n = mk("named", name)
	}
	if g.chance(3, "nonnull") {
		g.p("!")
		n = mk("nonnull", "", n)
	}
	return n
}

// ---- executable definitions ----

func (g *gen) selectionSet(depth int) *sn {
	g.p("{")
	n := rapid.IntRange(1, g.o.maxSel).Draw(g.t, "nsel")
	set := mk("sel", "")
	for i := 0; i < n; i++ {
		kind := rapid.IntRange(0, 9).Draw(g.t, "selkind")
		switch {
		case kind <= 6:
			f := mk("field", "")
			if g.chance(5, "alias") {
				alias := g.name("alias", true)
				g.w(alias)
				g.p(":")
				f.add(mk("alias", alias))
				g.flag("alias")
			}
			f.V = g.name("fieldname", true)
			g.w(f.V)
			f.add(g.arguments(4, true, true)...)
			f.add(g.directives(6, true, true, "field")...)
			if depth < g.o.maxSelDepth && g.chance(3, "subsel") {
				f.add(g.selectionSet(depth + 1))
			}
			set.add(f)
		case kind == 7:
			name := g.name("spreadname", true, "on")
			g.p("...")
			g.w(name)
			set.add(mk("spread", name, g.directives(5, true, true, "fragment-spread")...))
			g.flag("fragment-spread")
		default:
			if depth >= g.o.maxSelDepth {
				name := g.name("fieldname", true)
				g.w(name)
				set.add(mk("field", name))
				continue
			}
			g.p("...")
			in := mk("inline", "")
			if g.chance(2, "typecond") {
				g.w("on")
				t := g.name("typecond", true)
				g.w(t)
				in.add(mk("typecond", "", mk("named", t)))
			} else {
				g.flag("inline-fragment-without-type")
			}
			in.add(g.directives(4, true, true, "inline-fragment")...)
			in.add(g.selectionSet(depth + 1))
			set.add(in)
			g.flag("inline-fragment")
		}
	}
	g.p("}")
	return set
}

func (g *gen) operation(shorthandOK bool) *sn {
	if shorthandOK && g.chance(4, "shorthand") {
		g.flag("op:shorthand")
		return mk("op", "query", g.selectionSet(1))
	}
	var desc *sn
	if !g.o.limitsMode && g.chance(12, "execdesc") {
		g.flag("exec-description")
		desc = g.stringLit("desc", "descblock")
	}
	ot := rapid.SampledFrom([]string{"query", "query", "mutation", "subscription"}).Draw(g.t, "optype")
	g.w(ot)
	op := mk("op", ot, desc)
	g.flag("op:" + ot)
	named := g.chance(2, "opname")
	hasVars := g.chance(3, "hasvars")
	// `query` without name and variables but with a description or directives: the printer
	// omits the keyword (recorded finding) — enter that class only with g.risk
	bare := ot == "query" && !named && !hasVars
	if bare && (desc != nil || !shorthandOK) && !g.risk("C05-query-keyword-omitted", "baredesc") {
		named, bare = true, false
	}
	if bare && !shorthandOK {
		g.flag("query-keyword-needed")
	}
	if named {
		n := g.name("opname", false)
		g.w(n)
		op.add(mk("name", n))
	}
	if hasVars {
		g.flag("variable-definitions")
		nv := rapid.IntRange(1, 3).Draw(g.t, "nvars")
		g.p("(")
		for i := 0; i < nv; i++ {
			var vdesc *sn
			if !g.o.limitsMode && g.chance(12, "vardesc") {
				g.flag("exec-description")
				vdesc = g.stringLit("desc", "descblock")
			}
			vname := g.name("vardef", false)
			g.emit(tkWord, "$"+vname)
			g.p(":")
			v := mk("vardef", vname, vdesc, g.typeRef(0))
			if g.chance(3, "vardefault") {
				g.p("=")
				v.add(mk("default", "", g.value(0, false)))
				g.flag("default-value:variable")
			}
			v.add(g.directives(4, false, false, "variable-definition")...)
			op.add(v)
		}
		g.p(")")
	}
	var dirs []*sn
	if !bare || desc != nil {
		dirs = g.directives(5, true, false, "operation")
	} else if g.risk("C05-query-keyword-omitted", "baredirs") {
		dirs = g.directives(1, true, false, "operation")
	}
	if bare && (len(dirs) > 0 || desc != nil) {
		g.flag("query-keyword-needed")
	}
	op.add(dirs...)
	op.add(g.selectionSet(1))
	return op
}

func (g *gen) fragmentDef() *sn {
	var desc *sn
	if !g.o.limitsMode && g.chance(12, "execdesc") {
		g.flag("exec-description")
		desc = g.stringLit("desc", "descblock")
	}
	g.w("fragment")
	name := g.name("fragname", false, "on")
	g.w(name)
	g.w("on")
	t := g.name("typecond", false)
	g.w(t)
	f := mk("fragment", name, desc, mk("typecond", "", mk("named", t)))
	f.add(g.directives(5, true, false, "fragment-definition")...)
	f.add(g.selectionSet(1))
	g.flag("fragment-definition")
	return f
}

// ---- type-system definitions ----

func (g *gen) inputValueDefs(open, close string, where string) []*sn {
	n := rapid.IntRange(1, 3).Draw(g.t, "ninputvals")
	g.p(open)
	var out []*sn
	for i := 0; i < n; i++ {
		d := g.description(5)
		name := g.name("inputvalname", false)
		g.w(name)
		g.p(":")
		iv := mk("inputval", name, d, g.typeRef(0))
		if g.chance(3, "ivdefault") {
			g.p("=")
			iv.add(mk("default", "", g.value(0, false)))
			g.flag("default-value:" + where)
		}
		iv.add(g.directives(5, false, false, where)...)
		out = append(out, iv)
	}
	g.p(close)
	return out
}

func (g *gen) fieldDefs() []*sn {
	n := rapid.IntRange(1, 3).Draw(g.t, "nfielddefs")
	g.p("{")
	var out []*sn
	for i := 0; i < n; i++ {
		d := g.description(5)
		name := g.name("fielddefname", false)
		g.w(name)
		fd := mk("fielddef", name, d)
		if g.chance(3, "fieldargs") {
			fd.add(g.inputValueDefs("(", ")", "argument-definition")...)
			g.flag("field-arguments-definition")
		}
		g.p(":")
		fd.add(g.typeRef(0))
		fd.add(g.directives(4, false, false, "field-definition")...)
		out = append(out, fd)
	}
	g.p("}")
	return out
}

func (g *gen) implementsList() *sn {
	g.w("implements")
	n := rapid.IntRange(1, 3).Draw(g.t, "nimplements")
	im := mk("implements", "")
	if g.chance(6, "leadingamp") {
		g.p("&")
		g.flag("implements:leading-amp")
	}
	for i := 0; i < n; i++ {
		if i > 0 {
			g.p("&")
			g.flag("implements:multiple")
		}
		t := g.name("ifacename", false)
		g.w(t)
		im.add(mk("named", t))
	}
	return im
}

var dirLocations = []string{"QUERY", "MUTATION", "SUBSCRIPTION", "FIELD", "FRAGMENT_DEFINITION", "FRAGMENT_SPREAD", "INLINE_FRAGMENT", "VARIABLE_DEFINITION",
	"SCHEMA", "SCALAR", "OBJECT", "FIELD_DEFINITION", "ARGUMENT_DEFINITION", "INTERFACE", "UNION", "ENUM", "ENUM_VALUE", "INPUT_OBJECT", "INPUT_FIELD_DEFINITION"}

// typeSystemDef writes one type-system definition or extension. bodyless reports that the
// definition ended without a closing brace/paren-delimited body (relevant for what may follow).
func (g *gen) typeSystemDef() *sn {
	ext := g.chance(4, "isextension")
	prefix := ""
	var desc *sn
	kind := rapid.SampledFrom([]string{"schema", "scalar", "type", "type", "interface", "union", "enum", "input", "directive"}).Draw(g.t, "tskind")
	if ext && kind == "directive" {
		kind = "type"
	}
	if ext {
		prefix = "extend-"
		g.flag("extension:" + kind)
	} else if kind != "schema" {
		desc = g.description(3)
	} else if g.risk("C05-schema-description-dropped", "schemadesc") {
		desc = g.stringLit("desc", "descblock")
		g.flag("schema-description")
	}
	if ext {
		g.w("extend")
	}
	g.flag("def:" + prefix + kind)
	switch kind {
	case "schema":
		g.w("schema")
		n := mk(prefix+"schema", "", desc)
		dirs := g.directives(3, false, false, "schema")
		n.add(dirs...)
		if !ext || len(dirs) == 0 || g.chance(2, "extschemaops") {
			g.p("{")
			k := rapid.IntRange(1, 3).Draw(g.t, "nrootops")
			for i := 0; i < k; i++ {
				ot := []string{"query", "mutation", "subscription"}[i]
				g.w(ot)
				g.p(":")
				t := g.name("roottype", false)
				g.w(t)
				n.add(mk("rootop", ot, mk("named", t)))
			}
			g.p("}")
		}
		return n
	case "scalar":
		g.w("scalar")
		name := g.name("scalarname", false)
		g.w(name)
		n := mk(prefix+"scalar", name, desc)
		rate := 3
		if ext {
			rate = 1
		}
		return n.add(g.directives(rate, false, false, "scalar")...)
	case "type", "interface":
		g.w(kind)
		name := g.name("typedefname", false)
		g.w(name)
		n := mk(prefix+kind, name, desc)
		parts := 0
		if g.chance(3, "hasimplements") && (!ext || g.risk("C05-extension-implements-dropped", "extimpl")) {
			n.add(g.implementsList())
			parts++
			g.flag("implements:" + prefix + kind)
		}
		dirs := g.directives(3, false, false, map[string]string{"type": "object", "interface": "interface"}[kind])
		n.add(dirs...)
		parts += len(dirs)
		// a definition may omit the fields; an extension must have at least one part. A
		// definition that ends with its implements list is a recorded class (rejected when
		// another definition follows).
		bodyless := !(ext && parts == 0) && g.chance(8, "nofields")
		if bodyless && parts > 0 && len(dirs) == 0 && !g.risk("C05-implements-followed-by-definition", "implbodyless") {
			bodyless = false
		}
		if !bodyless {
			n.add(g.fieldDefs()...)
		} else {
			g.flag("bodyless:" + kind)
			if parts > 0 && len(dirs) == 0 {
				g.flag("implements-without-body")
			}
		}
		return n
	case "union":
		g.w("union")
		name := g.name("unionname", false)
		g.w(name)
		n := mk(prefix+"union", name, desc)
		dirs := g.directives(3, false, false, "union")
		n.add(dirs...)
		if (ext && len(dirs) == 0) || !g.chance(8, "nomembers") {
			g.p("=")
			if g.chance(5, "leadingpipe") {
				g.p("|")
				g.flag("union:leading-pipe")
			}
			k := rapid.IntRange(1, 3).Draw(g.t, "nmembers")
			for i := 0; i < k; i++ {
				if i > 0 {
					g.p("|")
				}
				t := g.name("membername", false)
				g.w(t)
				n.add(mk("member", t))
			}
		}
		return n
	case "enum":
		g.w("enum")
		name := g.name("enumname", false)
		g.w(name)
		n := mk(prefix+"enum", name, desc)
		dirs := g.directives(3, false, false, "enum")
		n.add(dirs...)
		if (ext && len(dirs) == 0) || !g.chance(8, "novalues") {
			g.p("{")
			k := rapid.IntRange(1, 3).Draw(g.t, "nenumvals")
			for i := 0; i < k; i++ {
				d := g.description(5)
				v := g.name("enumvaldef", false, "true", "false", "null")
				g.w(v)
				n.add(mk("enumval", v, d).add(g.directives(4, false, false, "enum-value")...))
			}
			g.p("}")
		}
		return n
	case "input":
		g.w("input")
		name := g.name("inputname", false)
		g.w(name)
		n := mk(prefix+"input", name, desc)
		dirs := g.directives(3, false, false, "input-object")
		n.add(dirs...)
		if (ext && len(dirs) == 0) || !g.chance(8, "noinputfields") {
			n.add(g.inputValueDefs("{", "}", "input-field-definition")...)
		}
		return n
	default: // directive definition
		g.w("directive")
		g.p("@")
		name := g.name("dirdefname", false)
		g.emit(tkWord, name)
		n := mk("directivedef", name, desc)
		if g.chance(2, "dirdefargs") {
			n.add(g.inputValueDefs("(", ")", "argument-definition")...)
		}
		if g.chance(3, "repeatable") {
			g.w("repeatable")
			n.add(mk("repeatable", ""))
			g.flag("repeatable")
		}
		g.w("on")
		if g.chance(5, "leadingpipe") {
			g.p("|")
		}
		k := rapid.IntRange(1, 3).Draw(g.t, "nlocs")
		start := rapid.IntRange(0, len(dirLocations)-1).Draw(g.t, "locstart")
		var locs []string
		for i := 0; i < k; i++ {
			if i > 0 {
				g.p("|")
			}
			l := dirLocations[(start+i*7)%len(dirLocations)]
			g.w(l)
			locs = append(locs, l)
		}
		sort.Strings(locs)
		for _, l := range locs {
			n.add(mk("loc", l))
		}
		return n
	}
}

// ---- a definition without body directly followed by an anonymous query (mixed documents) ----

var bodylessVariants = []string{"extend-schema", "type", "extend-type", "interface", "extend-interface", "enum", "extend-enum", "input", "extend-input",
	"scalar", "extend-scalar", "union", "extend-union", "union-members", "directive", "schema-with-body", "type-with-body"}

// bodylessDef writes a type-system definition or extension that ends without a brace-delimited
// body (plus two control variants that end with one) and reports whether a '{' directly behind
// it would be read as its body: then the following anonymous query needs the `query` keyword,
// in the source and in every print.
func (g *gen) bodylessDef() (n *sn, braceWouldBeBody bool) {
	v := rapid.SampledFrom(bodylessVariants).Draw(g.t, "bodyless")
	g.flag("adjacent:" + v)
	ext := strings.HasPrefix(v, "extend-")
	var desc *sn
	if !ext && v != "schema-with-body" {
		desc = g.description(4)
	}
	// parts writes `[implements …] [@dirs]`; an extension needs at least one of them
	parts := func(n *sn, where string, canImplement bool) {
		got := false
		if canImplement && g.chance(3, "hasimplements") {
			n.add(g.implementsList())
			got = true
		}
		rate := 2
		if ext && !got {
			rate = 1
		}
		n.add(g.directives(rate, false, false, where)...)
	}
	switch v {
	case "extend-schema":
		g.w("extend")
		g.w("schema")
		return mk("extend-schema", "").add(g.directives(1, false, false, "schema")...), true
	case "type", "extend-type", "interface", "extend-interface":
		kind := strings.TrimPrefix(v, "extend-")
		if ext {
			g.w("extend")
		}
		g.w(kind)
		name := g.name("typedefname", false)
		g.w(name)
		n = mk(v, name, desc)
		parts(n, map[string]string{"type": "object", "interface": "interface"}[kind], true)
		return n, true
	case "enum", "extend-enum", "input", "extend-input":
		kind := strings.TrimPrefix(v, "extend-")
		if ext {
			g.w("extend")
		}
		g.w(kind)
		name := g.name(kind+"name", false)
		g.w(name)
		n = mk(v, name, desc)
		parts(n, map[string]string{"enum": "enum", "input": "input-object"}[kind], false)
		return n, true
	case "scalar", "extend-scalar", "union", "extend-union":
		kind := strings.TrimPrefix(v, "extend-")
		if ext {
			g.w("extend")
		}
		g.w(kind)
		name := g.name(kind+"name", false)
		g.w(name)
		n = mk(v, name, desc)
		parts(n, kind, false)
		return n, false
	case "union-members":
		g.w("union")
		name := g.name("unionname", false)
		g.w(name)
		n = mk("union", name, desc)
		g.p("=")
		k := rapid.IntRange(1, 2).Draw(g.t, "nmembers")
		for i := 0; i < k; i++ {
			if i > 0 {
				g.p("|")
			}
			t := g.name("membername", false)
			g.w(t)
			n.add(mk("member", t))
		}
		return n, false
	case "directive":
		g.w("directive")
		g.p("@")
		name := g.name("dirdefname", false)
		g.emit(tkWord, name)
		g.w("on")
		l := rapid.SampledFrom(dirLocations).Draw(g.t, "loc")
		g.w(l)
		return mk("directivedef", name, desc, mk("loc", l)), false
	case "schema-with-body":
		g.w("schema")
		n = mk("schema", "").add(g.directives(2, false, false, "schema")...)
		g.p("{")
		g.w("query")
		g.p(":")
		t := g.name("roottype", false)
		g.w(t)
		g.p("}")
		return n.add(mk("rootop", "query", mk("named", t))), false
	default: // type-with-body
		g.w("type")
		name := g.name("typedefname", false)
		g.w(name)
		n = mk("type", name, desc)
		n.add(g.fieldDefs()...)
		return n, false
	}
}

// lookalikeSelection writes a selection set whose tokens could also be read as the body the
// preceding definition did not have: root operation types (`{ query: Query }`), field or
// input field definitions (`{ a: Int b: String }`), enum values (`{ A B C }`).
func (g *gen) lookalikeSelection() *sn {
	set := mk("sel", "")
	field := func(alias, name string) *sn {
		f := mk("field", name)
		if alias != "" {
			g.w(alias)
			g.p(":")
			f.add(mk("alias", alias))
		}
		g.w(name)
		set.add(f)
		return f
	}
	g.p("{")
	switch rapid.IntRange(0, 4).Draw(g.t, "lookalike") {
	case 0:
		g.flag("adjacent:lookalike-root-operation-types")
		k := rapid.IntRange(1, 3).Draw(g.t, "nrootops")
		for i := 0; i < k; i++ {
			field([]string{"query", "mutation", "subscription"}[i], rapid.SampledFrom([]string{"Query", "Mutation", "Subscription", "Q", "query"}).Draw(g.t, "roottype"))
		}
	case 1:
		g.flag("adjacent:lookalike-field-definitions")
		k := rapid.IntRange(1, 3).Draw(g.t, "nfields")
		for i := 0; i < k; i++ {
			f := field(g.name("alias", true), rapid.SampledFrom([]string{"Int", "String", "ID", "T", "Boolean"}).Draw(g.t, "typelike"))
			if g.chance(3, "fielddir") {
				f.add(g.directives(1, false, true, "field")...)
			}
		}
	case 2:
		g.flag("adjacent:lookalike-enum-values")
		k := rapid.IntRange(1, 3).Draw(g.t, "nvalues")
		for i := 0; i < k; i++ {
			f := field("", rapid.SampledFrom([]string{"A", "B", "NORTH", "RED", "on"}).Draw(g.t, "enumlike"))
			if g.chance(3, "fielddir") {
				f.add(g.directives(1, false, true, "field")...)
			}
		}
	case 3:
		g.flag("adjacent:lookalike-root-operation-types")
		f := field("query", "Query")
		f.add(g.selectionSet(2))
	default:
		g.flag("adjacent:lookalike-field-definitions")
		f := field(g.name("alias", true), "Int")
		f.add(g.arguments(1, false, true)...)
	}
	g.p("}")
	return set
}

// adjacentPair writes a body-less definition directly followed by an anonymous query: with the
// `query` keyword wherever a bare '{' would become the definition's body, as the shorthand
// otherwise (half of the time).
func (g *gen) adjacentPair(doc *sn) {
	def, braceWouldBeBody := g.bodylessDef()
	doc.add(def)
	if braceWouldBeBody || g.chance(2, "keywordform") {
		g.w("query")
		g.flag("adjacent:query-keyword")
		if braceWouldBeBody {
			g.flag("adjacent:query-keyword-required")
		}
	} else {
		g.flag("adjacent:shorthand")
	}
	var sel *sn
	if g.chance(2, "lookalike") {
		sel = g.lookalikeSelection()
	} else {
		sel = g.selectionSet(1)
	}
	doc.add(mk("op", "query", sel))
	g.flag("adjacent:definition-then-anonymous-query")
}

// docCase is the replayable case of the docs part.
type docCase struct {
	Src  string   `json:"src"`
	Exp  *sn      `json:"exp"`
	Kind string   `json:"kind"` // exec | schema | mixed
	Feat []string `json:"feat"`
}

func (g *gen) features() []string {
	out := make([]string, 0, len(g.feat))
	for f := range g.feat {
		out = append(out, f)
	}
	sort.Strings(out)
	return out
}

func genDocWith(t *rapid.T, o genOpts, kind string) docCase {
	g := &gen{t: t, o: o, feat: map[string]bool{}}
	doc := mk("doc", "")
	if !o.limitsMode && g.risk("C05-bom-rejected", "bom") {
		g.b.WriteString("\ufeff")
		g.flag("bom")
	}
	n := rapid.IntRange(1, o.maxDefs).Draw(t, "ndefs")
	lastExec := true // an anonymous operation may only follow an executable definition
	for i := 0; i < n; i++ {
		if kind == "mixed" && !pbt.IsKnown("C05-query-keyword-omitted") && g.chance(2, "adjacentpair") {
			g.adjacentPair(doc)
			lastExec = true
			continue
		}
		exec := kind == "exec" || kind == "mixed" && g.chance(2, "mixedexec")
		if exec {
			if g.chance(3, "isfragment") {
				doc.add(g.fragmentDef())
			} else {
				doc.add(g.operation(lastExec))
			}
		} else {
			doc.add(g.typeSystemDef())
		}
		lastExec = exec
	}
	if o.wild && g.chance(3, "trailing") {
		g.sep(true)
	}
	if o.wild {
		g.flag("wild-separators")
	}
	return docCase{Src: g.b.String(), Exp: doc, Kind: kind, Feat: g.features()}
}

func genDoc(t *rapid.T) docCase {
	kind := rapid.SampledFrom([]string{"exec", "exec", "exec", "schema", "schema", "schema", "mixed", "mixed"}).Draw(t, "dockind")
	o := genOpts{maxSelDepth: 4, maxSel: 4, maxDefs: 4, wild: rapid.IntRange(0, 2).Draw(t, "wild") == 0}
	return genDocWith(t, o, kind)
}
