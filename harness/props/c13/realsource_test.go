//go:build verif

package c13

// Part "real-source": the machine part drives the resolver with fake sources, whose
// HashTriggerInput writes the whole input. This part puts the REAL
// graphql_datasource.SubscriptionSource behind the resolver: the subscription plan is produced by
// the real planner (graphql_datasource.NewFactory -> plan.NewPlanner -> Plan -> postprocess) from a
// subscription operation, with a recording GraphQLSubscriptionClient injected through NewFactory.
// The plan's trigger.Source (the real *SubscriptionSource; there is no exported constructor that
// takes a client, the planner is the only way to get one with a client inside) is wrapped by a spy
// that records the raw trigger input the resolver hashes and delegates HashTriggerInput and Start
// to the real source.
//
// Two subscribers A and B that differ in at most one component are registered on one resolver.
// Oracle: when the trigger inputs (as JSON values) or the forwarded headers differ, they must get
// two triggers and two upstream Subscribe calls, each carrying its own subscriber's url, variables,
// extensions, initial payload and headers; when input bytes and headers are equal they share one.
// A generated difference in a component that is forwarded upstream must show in the trigger input.
// Then, directly on the real source: every generated single-component mutation of the recorded raw
// input (url, query, operationName, a variable value also nested, extensions also nested, initial
// payload, transport flags) must change the hash; the same bytes hash equal.

import (
	"bytes"
	"context"
	"encoding/json"
	"fmt"
	"io"
	"net/http"
	"reflect"
	"sort"
	"strings"
	"sync"
	"time"

	"github.com/cespare/xxhash/v2"
	"github.com/wundergraph/astjson"
	"pgregory.net/rapid"

	"github.com/wundergraph/graphql-go-tools/v2/pkg/astnormalization"
	"github.com/wundergraph/graphql-go-tools/v2/pkg/astparser"
	"github.com/wundergraph/graphql-go-tools/v2/pkg/asttransform"
	"github.com/wundergraph/graphql-go-tools/v2/pkg/astvalidation"
	"github.com/wundergraph/graphql-go-tools/v2/pkg/engine/datasource/graphql_datasource"
	"github.com/wundergraph/graphql-go-tools/v2/pkg/engine/plan"
	"github.com/wundergraph/graphql-go-tools/v2/pkg/engine/postprocess"
	"github.com/wundergraph/graphql-go-tools/v2/pkg/engine/resolve"
	"github.com/wundergraph/graphql-go-tools/v2/pkg/operationreport"

	"verif/harness/pbt"
)

const realSDL = `schema { query: Query subscription: Subscription }
type Query { hello: String }
type Subscription { counter(step: Int, tag: String, in: In): Counter }
input In { a: InA }
input InA { b: Int }
type Counter { value: Int tag: String }`

var realQueries = []struct{ name, text string }{
	{"Sub", `subscription Sub($step: Int, $tag: String, $in: In) { counter(step: $step, tag: $tag, in: $in) { value tag } }`},
	{"Sub", `subscription Sub($step: Int, $tag: String, $in: In) { counter(step: $step, tag: $tag, in: $in) { value } }`},
	{"Other", `subscription Other($step: Int, $tag: String, $in: In) { counter(step: $step, tag: $tag, in: $in) { value tag } }`},
}

// realSide is what one subscriber brings: the data source configuration and operation its plan is
// made from, and its request.
type realSide struct {
	URL      string `json:"url"`
	UseSSE   bool   `json:"useSSE,omitempty"`
	SSEPost  bool   `json:"ssePost,omitempty"`
	WsProto  string `json:"wsProto,omitempty"`
	Query    int    `json:"query"`
	Step     int    `json:"step"`
	Tag      string `json:"tag"`
	Nested   int    `json:"nested"`             // variables.in.a.b
	Ext      string `json:"ext,omitempty"`      // request extensions (JSON object) or ""
	Initial  string `json:"initial,omitempty"`  // initial payload (JSON object) or ""
	Header   string `json:"header,omitempty"`   // forwarded header value ("" = no headers builder)
	KeyOrder bool   `json:"keyOrder,omitempty"` // variables given with keys in the other order
}

// mutation is one single-component change applied directly to a recorded raw trigger input.
type mutation struct {
	Path  string `json:"path"`  // dotted path into the input object
	Value string `json:"value"` // JSON of the new value
}

type realCase struct {
	A    realSide   `json:"a"`
	B    realSide   `json:"b"`
	Diff string     `json:"diff"` // the component B was made to differ in ("none": identical)
	Muts []mutation `json:"muts"`
}

var realDiffs = []string{"none", "variables", "variables.nested", "extensions", "extensions.nested", "extensions.added", "initial_payload",
	"initial_payload.added", "header", "header.added", "url", "query", "operationName", "use_sse", "sse_method_post", "ws_sub_protocol", "variables.keyorder"}

var wsProtos = []string{"", "graphql-ws", "graphql-transport-ws"}

func genRealCase(t *rapid.T) realCase {
	pick := func(n int, label string) int { // (rapid's small-value bias is fine here)
		return rapid.IntRange(0, n-1).Draw(t, label)
	}
	a := realSide{
		URL:     []string{"ws://sub-a.example/graphql", "ws://sub-b.example/graphql", "https://sub-a.example/sse"}[pick(3, "url")],
		Query:   0,
		Step:    pick(5, "step"),
		Tag:     []string{"x", "y", ""}[pick(3, "tag")],
		Nested:  pick(4, "nested"),
		WsProto: wsProtos[pick(3, "wsProto")],
	}
	if pick(3, "sse") == 2 {
		a.UseSSE = true
		a.SSEPost = pick(2, "ssePost") == 1
		a.WsProto = ""
	}
	if pick(2, "hasExt") == 1 {
		a.Ext = fmt.Sprintf(`{"persistedQuery":{"version":1,"sha256Hash":"h%d"},"token":"t%d"}`, pick(3, "extHash"), pick(3, "extTok"))
	}
	if pick(2, "hasInit") == 1 {
		a.Initial = fmt.Sprintf(`{"authorization":"Bearer %d"}`, pick(4, "initTok"))
	}
	if pick(2, "hasHeader") == 1 {
		a.Header = fmt.Sprintf("tenant-%d", pick(3, "hdr"))
	}
	b := a
	diff := realDiffs[rapid.IntRange(0, len(realDiffs)-1).Draw(t, "diff")]
	switch diff {
	case "variables":
		b.Step = a.Step + 1
	case "variables.nested":
		b.Nested = a.Nested + 1
	case "variables.keyorder":
		b.KeyOrder = true
	case "extensions":
		if a.Ext == "" {
			a.Ext = `{"token":"t0"}`
		}
		b.Ext = strings.Replace(a.Ext, `"token":"t`, `"token":"u`, 1)
	case "extensions.nested":
		a.Ext = `{"persistedQuery":{"version":1,"sha256Hash":"h0"},"token":"t0"}`
		b.Ext = `{"persistedQuery":{"version":1,"sha256Hash":"h9"},"token":"t0"}`
	case "extensions.added":
		a.Ext = ""
		b.Ext = `{"token":"t1"}`
	case "initial_payload":
		a.Initial = `{"authorization":"Bearer 1"}`
		b.Initial = `{"authorization":"Bearer 2"}`
	case "initial_payload.added":
		a.Initial = ""
		b.Initial = `{"authorization":"Bearer 1"}`
	case "header":
		a.Header = "tenant-0"
		b.Header = "tenant-1"
	case "header.added":
		a.Header = ""
		b.Header = "tenant-1"
	case "url":
		b.URL = a.URL + "/v2"
	case "query":
		b.Query = 1
	case "operationName":
		b.Query = 2
	case "use_sse":
		b.UseSSE = !a.UseSSE
		b.SSEPost = false
		a.SSEPost = false
	case "sse_method_post":
		a.UseSSE, b.UseSSE = true, true
		a.WsProto, b.WsProto = "", ""
		b.SSEPost = !a.SSEPost
	case "ws_sub_protocol":
		a.UseSSE, b.UseSSE, a.SSEPost, b.SSEPost = false, false, false, false
		b.WsProto = wsProtos[(indexOf(wsProtos, a.WsProto)+1+pick(2, "protoStep"))%3]
	}
	c := realCase{A: a, B: b, Diff: diff}
	// direct mutations of A's recorded input
	paths := []string{"url", "body.query", "body.operationName", "body.variables.step", "body.variables.tag", "body.variables.in.a.b", "body.variables.extra",
		"body.extensions", "body.extensions.token", "body.extensions.persistedQuery.sha256Hash", "body.extensions.persistedQuery.version",
		"initial_payload", "initial_payload.authorization", "use_sse", "sse_method_post", "ws_sub_protocol"}
	n := rapid.IntRange(3, 8).Draw(t, "nMuts")
	for i := 0; i < n; i++ {
		p := paths[rapid.IntRange(0, len(paths)-1).Draw(t, "mutPath")]
		v := []string{`"mutated"`, `12345`, `{"k":"v"}`, `true`, `null`, `[1]`}[pick(6, "mutValue")]
		c.Muts = append(c.Muts, mutation{Path: p, Value: v})
	}
	return c
}

func indexOf(xs []string, x string) int {
	for i, y := range xs {
		if y == x {
			return i
		}
	}
	return 0
}

// ---- recording upstream client, spy source ----------------------------------------------------

type realSubKey struct{}

type upstreamCall struct {
	Sub     int
	Options graphql_datasource.GraphQLSubscriptionOptions
}

type recClient struct {
	mu    sync.Mutex
	calls []upstreamCall
	ch    chan struct{}
}

func (c *recClient) Subscribe(ctx *resolve.Context, options graphql_datasource.GraphQLSubscriptionOptions, updater resolve.SubscriptionUpdater) error {
	sub, _ := ctx.Context().Value(realSubKey{}).(int)
	c.mu.Lock()
	c.calls = append(c.calls, upstreamCall{Sub: sub, Options: options})
	ch := c.ch
	c.mu.Unlock()
	if ch != nil {
		select {
		case ch <- struct{}{}:
		default:
		}
	}
	return nil
}

func (c *recClient) reset() {
	c.mu.Lock()
	c.calls = nil
	c.ch = make(chan struct{}, 16)
	c.mu.Unlock()
}

func (c *recClient) snapshot() []upstreamCall {
	c.mu.Lock()
	defer c.mu.Unlock()
	return append([]upstreamCall(nil), c.calls...)
}

// one recording client per process: the plans are cached and hold it (cases run one at a time)
var theClient = &recClient{}

type spySource struct {
	real   resolve.SubscriptionDataSource
	mu     sync.Mutex
	inputs [][]byte
}

func (s *spySource) HashTriggerInput(input []byte, xxh *xxhash.Digest) error {
	s.mu.Lock()
	s.inputs = append(s.inputs, append([]byte(nil), input...))
	s.mu.Unlock()
	return s.real.HashTriggerInput(input, xxh)
}

func (s *spySource) Start(ctx *resolve.Context, headers http.Header, input []byte, updater resolve.SubscriptionUpdater) error {
	return s.real.Start(ctx, headers, input, updater)
}

// ---- planning -----------------------------------------------------------------------------------

type realPlanKey struct {
	url     string
	sse     bool
	post    bool
	proto   string
	queryIx int
}

var (
	realPlanMu sync.Mutex
	realPlans  = map[realPlanKey]*resolve.GraphQLSubscription{}
)

func realPlan(k realPlanKey) (*resolve.GraphQLSubscription, error) {
	realPlanMu.Lock()
	defer realPlanMu.Unlock()
	if p, ok := realPlans[k]; ok {
		return p, nil
	}
	factory, err := graphql_datasource.NewFactory(context.Background(), http.DefaultClient, theClient)
	if err != nil {
		return nil, err
	}
	sc, err := graphql_datasource.NewSchemaConfiguration(realSDL, nil)
	if err != nil {
		return nil, err
	}
	cfg, err := graphql_datasource.NewConfiguration(graphql_datasource.ConfigurationInput{
		Fetch:               &graphql_datasource.FetchConfiguration{URL: "http://sub.example/graphql", Method: "POST"},
		Subscription:        &graphql_datasource.SubscriptionConfiguration{URL: k.url, UseSSE: k.sse, SSEMethodPost: k.post, WsSubProtocol: k.proto},
		SchemaConfiguration: sc,
	})
	if err != nil {
		return nil, err
	}
	ds, err := plan.NewDataSourceConfiguration[graphql_datasource.Configuration]("sub", factory, &plan.DataSourceMetadata{
		RootNodes:  []plan.TypeField{{TypeName: "Query", FieldNames: []string{"hello"}}, {TypeName: "Subscription", FieldNames: []string{"counter"}}},
		ChildNodes: []plan.TypeField{{TypeName: "Counter", FieldNames: []string{"value", "tag"}}},
	}, cfg)
	if err != nil {
		return nil, err
	}
	conf := plan.Configuration{
		DataSources: []plan.DataSource{ds},
		Fields: plan.FieldConfigurations{{TypeName: "Subscription", FieldName: "counter", Arguments: plan.ArgumentsConfigurations{
			{Name: "step", SourceType: plan.FieldArgumentSource}, {Name: "tag", SourceType: plan.FieldArgumentSource}, {Name: "in", SourceType: plan.FieldArgumentSource}}}},
		DisableResolveFieldPositions: true,
		DisableIncludeInfo:           true,
	}
	def, rep := astparser.ParseGraphqlDocumentString(realSDL)
	if rep.HasErrors() {
		return nil, rep
	}
	if err := asttransform.MergeDefinitionWithBaseSchema(&def); err != nil {
		return nil, err
	}
	q := realQueries[k.queryIx]
	op, rep := astparser.ParseGraphqlDocumentString(q.text)
	if rep.HasErrors() {
		return nil, rep
	}
	var report operationreport.Report
	astnormalization.NewWithOpts(astnormalization.WithExtractVariables(), astnormalization.WithInlineFragmentSpreads(),
		astnormalization.WithRemoveFragmentDefinitions(), astnormalization.WithRemoveUnusedVariables()).NormalizeOperation(&op, &def, &report)
	astvalidation.DefaultOperationValidator().Validate(&op, &def, &report)
	if report.HasErrors() {
		return nil, report
	}
	planner, err := plan.NewPlanner(conf)
	if err != nil {
		return nil, err
	}
	p := planner.Plan(&op, &def, q.name, &report)
	if report.HasErrors() {
		return nil, report
	}
	postprocess.NewProcessor().Process(p)
	sp, ok := p.(*plan.SubscriptionResponsePlan)
	if !ok {
		return nil, fmt.Errorf("planner returned %T, not a subscription plan", p)
	}
	if _, ok := sp.Response.Trigger.Source.(*graphql_datasource.SubscriptionSource); !ok {
		return nil, fmt.Errorf("trigger source is %T, not the graphql_datasource SubscriptionSource", sp.Response.Trigger.Source)
	}
	realPlans[k] = sp.Response
	return sp.Response, nil
}

// ---- headers ------------------------------------------------------------------------------------

type realHeaders struct{ v string }

func (h realHeaders) HeadersForSubgraph(string) (http.Header, uint64) {
	return http.Header{"X-Tenant": []string{h.v}}, xxhash.Sum64String("tenant:" + h.v)
}
func (h realHeaders) HashAll() uint64 { return xxhash.Sum64String("tenant:" + h.v) }

// ---- reporter -----------------------------------------------------------------------------------

type realReporter struct {
	mu               sync.Mutex
	subInc, trigInc  int
	ch               chan struct{}
	subDec, trigDecs int
}

func (r *realReporter) note() {
	select {
	case r.ch <- struct{}{}:
	default:
	}
}
func (r *realReporter) SubscriptionUpdateSent() {}
func (r *realReporter) SubscriptionCountInc(n int) {
	r.mu.Lock()
	r.subInc += n
	r.mu.Unlock()
	r.note()
}
func (r *realReporter) SubscriptionCountDec(n int) { r.mu.Lock(); r.subDec += n; r.mu.Unlock() }
func (r *realReporter) TriggerCountInc(n int) {
	r.mu.Lock()
	r.trigInc += n
	r.mu.Unlock()
	r.note()
}
func (r *realReporter) TriggerCountDec(n int) { r.mu.Lock(); r.trigDecs += n; r.mu.Unlock() }
func (r *realReporter) triggers() int         { r.mu.Lock(); defer r.mu.Unlock(); return r.trigInc }

type nopWriter struct{}

func (nopWriter) Write(p []byte) (int, error) { return len(p), nil }
func (nopWriter) Flush() error                { return nil }
func (nopWriter) Complete()                   {}
func (nopWriter) Heartbeat() error            { return nil }
func (nopWriter) Error([]byte)                {}

type nopErrWriter struct{}

func (nopErrWriter) WriteError(*resolve.Context, error, *resolve.GraphQLResponse, io.Writer) {}

// ---- the check ----------------------------------------------------------------------------------

func variablesJSON(s realSide) string {
	tag := "null"
	if s.Tag != "" {
		tag = fmt.Sprintf("%q", s.Tag)
	}
	if s.KeyOrder {
		return fmt.Sprintf(`{"in":{"a":{"b":%d}},"tag":%s,"step":%d}`, s.Nested, tag, s.Step)
	}
	return fmt.Sprintf(`{"step":%d,"tag":%s,"in":{"a":{"b":%d}}}`, s.Step, tag, s.Nested)
}

func jsonEqual(a, b []byte) bool {
	var x, y any
	if json.Unmarshal(a, &x) != nil || json.Unmarshal(b, &y) != nil {
		return bytes.Equal(a, b)
	}
	return reflect.DeepEqual(x, y)
}

func realHash(src resolve.SubscriptionDataSource, input []byte) (uint64, error) {
	d := xxhash.New()
	if err := src.HashTriggerInput(input, d); err != nil {
		return 0, err
	}
	return d.Sum64(), nil
}

func checkRealSource(c realCase, o *pbt.Rec) pbt.Verdict {
	o.Label("real:diff:" + c.Diff)
	sides := []realSide{c.A, c.B}
	theClient.reset()
	rep := &realReporter{ch: make(chan struct{}, 64)}
	ctx, cancel := context.WithCancel(context.Background())
	defer cancel()
	r := resolve.New(ctx, resolve.ResolverOptions{MaxConcurrency: 4, Reporter: rep, AsyncErrorWriter: nopErrWriter{}, SubscriptionHeartbeatInterval: time.Hour})
	var spies [2]*spySource
	var ids [2]resolve.SubscriptionIdentifier
	wantTriggers := 0
	for i, s := range sides {
		base, err := realPlan(realPlanKey{s.URL, s.UseSSE, s.SSEPost, s.WsProto, s.Query})
		if err != nil {
			return pbt.Bad("planning the subscription of side %d fails: %v", i, err)
		}
		cp := *base
		spies[i] = &spySource{real: base.Trigger.Source}
		cp.Trigger.Source = spies[i]
		rc := resolve.NewContext(context.WithValue(context.Background(), realSubKey{}, i))
		rc.Variables = astjson.MustParseBytes([]byte(variablesJSON(s)))
		if s.Ext != "" {
			rc.Extensions = []byte(s.Ext)
		}
		if s.Initial != "" {
			rc.InitialPayload = []byte(s.Initial)
		}
		if s.Header != "" {
			rc.SubgraphHeadersBuilder = realHeaders{s.Header}
		}
		ids[i] = resolve.SubscriptionIdentifier{ConnectionID: resolve.NewConnectionID(), SubscriptionID: int64(i + 1)}
		if err := r.AsyncResolveGraphQLSubscription(rc, &cp, nopWriter{}, ids[i]); err != nil {
			return pbt.Bad("AsyncResolveGraphQLSubscription of side %d fails: %v", i, err)
		}
		// registration is synchronous; the start goroutine of a new trigger is awaited so that the
		// upstream call of A is recorded before B arrives (liveness watchdog only)
		trigs, _, _ := r.VerifRegistrySizes()
		if trigs > wantTriggers {
			wantTriggers = trigs
			deadline := time.After(10 * time.Second)
			for rep.triggers() < wantTriggers {
				select {
				case <-rep.ch:
				case <-deadline:
					o.Discard("watchdog")
					return pbt.OK
				}
			}
		}
	}
	trigs, subs, _ := r.VerifRegistrySizes()
	calls := theClient.snapshot()
	defer func() {
		_ = r.UnsubscribeSubscription(ids[0])
		_ = r.UnsubscribeSubscription(ids[1])
	}()
	if len(spies[0].inputs) != 1 || len(spies[1].inputs) != 1 {
		return pbt.Bad("HashTriggerInput called %d and %d times for the two subscribers, expected once each", len(spies[0].inputs), len(spies[1].inputs))
	}
	inA, inB := spies[0].inputs[0], spies[1].inputs[0]
	headersDiffer := c.A.Header != c.B.Header
	inputsDiffer := !jsonEqual(inA, inB)
	desc := fmt.Sprintf("A %+v\nB %+v (made to differ in: %s)\ntrigger input A: %s\ntrigger input B: %s", c.A, c.B, c.Diff, inA, inB)

	// a difference in a forwarded component must be in the trigger input (or the headers)
	switch c.Diff {
	case "none":
		if !bytes.Equal(inA, inB) || headersDiffer {
			return pbt.Bad("identical subscribers render different trigger inputs\n%s", desc)
		}
	case "variables.keyorder", "operationName":
		// no demand either way: what matters is what the planner forwards
	case "header", "header.added":
		if !headersDiffer {
			return pbt.Bad("generator: headers do not differ\n%s", desc)
		}
	default:
		if !inputsDiffer {
			return pbt.Bad("the subscribers differ in %s, which is forwarded upstream, but their trigger inputs are equal\n%s", c.Diff, desc)
		}
	}
	if subs != 2 {
		return pbt.Bad("registry has %d subscriptions after two subscribes\n%s", subs, desc)
	}
	switch {
	case inputsDiffer || headersDiffer:
		o.NonTrivial(fmt.Sprintf("%+v", c))
		o.Label("real:pair-must-not-share")
		if trigs != 2 {
			return pbt.Bad("two subscribers whose upstream requests differ (%s) share one trigger: VerifRegistrySizes triggers=%d; the second client is attached to the upstream opened for the first\n%s", c.Diff, trigs, desc)
		}
	case bytes.Equal(inA, inB):
		o.Label("real:pair-must-share")
		if trigs != 1 {
			return pbt.Bad("two subscribers with byte-identical trigger input and equal headers got %d triggers\n%s", trigs, desc)
		}
	default:
		o.Label("real:pair-equal-up-to-key-order")
	}
	if len(calls) != trigs {
		return pbt.Bad("%d upstream Subscribe calls for %d triggers\n%s", len(calls), trigs, desc)
	}
	// every upstream call carries its own subscriber's request
	for _, call := range calls {
		s := sides[call.Sub]
		op := call.Options
		if op.URL != s.URL {
			return pbt.Bad("upstream call of side %d has url %q, want %q\n%s", call.Sub, op.URL, s.URL, desc)
		}
		if s.Ext == "" && len(op.Body.Extensions) != 0 || s.Ext != "" && !jsonEqual(op.Body.Extensions, []byte(s.Ext)) {
			return pbt.Bad("upstream call of side %d carries extensions %s, the client sent %q\n%s", call.Sub, op.Body.Extensions, s.Ext, desc)
		}
		if s.Initial == "" && len(op.InitialPayload) != 0 || s.Initial != "" && !jsonEqual(op.InitialPayload, []byte(s.Initial)) {
			return pbt.Bad("upstream call of side %d carries initial payload %s, the client sent %q\n%s", call.Sub, op.InitialPayload, s.Initial, desc)
		}
		if got := op.Header.Get("X-Tenant"); got != s.Header {
			return pbt.Bad("upstream call of side %d carries header %q, want %q\n%s", call.Sub, got, s.Header, desc)
		}
		if op.UseSSE != s.UseSSE || op.SSEMethodPost != (s.UseSSE && s.SSEPost) || op.WsSubProtocol != s.WsProto {
			return pbt.Bad("upstream call of side %d has transport sse=%v post=%v proto=%q, want %v %v %q\n%s", call.Sub, op.UseSSE, op.SSEMethodPost, op.WsSubProtocol, s.UseSSE, s.SSEPost, s.WsProto, desc)
		}
		var vars map[string]any
		_ = json.Unmarshal(op.Body.Variables, &vars)
		flat, _ := json.Marshal(vars)
		if !strings.Contains(string(flat), fmt.Sprintf(`{"b":%d}`, s.Nested)) || !containsNumber(vars, float64(s.Step)) {
			return pbt.Bad("upstream call of side %d carries variables %s, the client sent %s\n%s", call.Sub, op.Body.Variables, variablesJSON(s), desc)
		}
	}

	// ---- directly on the real source: single-component mutations of the recorded input ---------
	real := spies[0].real
	h1, err1 := realHash(real, inA)
	h2, err2 := realHash(real, inA)
	if err1 != nil || err2 != nil || h1 != h2 {
		return pbt.Bad("HashTriggerInput is not a function of the input bytes: %x/%v vs %x/%v for %s", h1, err1, h2, err2, inA)
	}
	var baseObj map[string]any
	if err := json.Unmarshal(inA, &baseObj); err != nil {
		return pbt.Bad("the trigger input is not a JSON object: %s", inA)
	}
	baseBytes, _ := json.Marshal(baseObj)
	baseHash, err := realHash(real, baseBytes)
	if err != nil {
		return pbt.Bad("HashTriggerInput fails on %s: %v", baseBytes, err)
	}
	for _, mu := range c.Muts {
		var mutObj map[string]any
		_ = json.Unmarshal(inA, &mutObj)
		var nv any
		_ = json.Unmarshal([]byte(mu.Value), &nv)
		nv = typedValue(mu.Path, nv, baseObj)
		old, existed := setPath(mutObj, strings.Split(mu.Path, "."), nv)
		if existed && reflect.DeepEqual(old, nv) || !existed && nv == nil {
			continue // no change, or "absent" against "null": no demand
		}
		if !forwardedChange(mu.Path, mutObj) {
			o.Label("real:mutation-not-forwarded")
			continue
		}
		mutBytes, _ := json.Marshal(mutObj)
		mh, err := realHash(real, mutBytes)
		if err != nil {
			return pbt.Bad("HashTriggerInput fails on %s: %v", mutBytes, err)
		}
		o.Label("real:mutation:" + mu.Path)
		if mh == baseHash {
			return pbt.Bad("HashTriggerInput gives the same hash %x for two trigger inputs that differ in %s, which is forwarded upstream:\n  %s\n  %s", mh, mu.Path, baseBytes, mutBytes)
		}
	}
	return pbt.OK
}

// forwardedChange tells whether the component at path reaches the upstream in this configuration
// (SubscriptionSource.Start -> convertToClientOptions): sse_method_post only matters with use_sse,
// ws_sub_protocol only without.
func forwardedChange(path string, obj map[string]any) bool {
	sse, _ := obj["use_sse"].(bool)
	switch path {
	case "sse_method_post":
		return sse
	case "ws_sub_protocol":
		return !sse
	}
	return true
}

// typedValue turns the drawn JSON value into one that fits the component at path: the transport
// flags are booleans, the sub-protocol one of the known names, url / query / operationName strings,
// the initial payload an object; variables and extensions take any JSON.
func typedValue(path string, v any, base map[string]any) any {
	switch path {
	case "use_sse", "sse_method_post":
		cur, _ := base[path].(bool)
		return !cur
	case "ws_sub_protocol":
		cur, _ := base[path].(string)
		return wsProtos[(indexOf(wsProtos, cur)+1)%len(wsProtos)]
	case "url", "body.query", "body.operationName":
		if s, ok := v.(string); ok {
			return s
		}
		b, _ := json.Marshal(v)
		return "m-" + string(b)
	case "initial_payload":
		if _, ok := v.(map[string]any); !ok {
			return map[string]any{"m": v}
		}
	}
	return v
}

// setPath sets obj[path...] = v creating objects on the way (a non-object on the way is replaced);
// it returns the previous value.
func setPath(obj map[string]any, path []string, v any) (old any, existed bool) {
	for len(path) > 1 {
		next, ok := obj[path[0]].(map[string]any)
		if !ok {
			next = map[string]any{}
			obj[path[0]] = next
		}
		obj, path = next, path[1:]
	}
	old, existed = obj[path[0]]
	obj[path[0]] = v
	return
}

func containsNumber(v any, n float64) bool {
	switch x := v.(type) {
	case float64:
		return x == n
	case map[string]any:
		keys := make([]string, 0, len(x))
		for k := range x {
			keys = append(keys, k)
		}
		sort.Strings(keys)
		for _, k := range keys {
			if containsNumber(x[k], n) {
				return true
			}
		}
	case []any:
		for _, e := range x {
			if containsNumber(e, n) {
				return true
			}
		}
	}
	return false
}

var realSourcePart = pbt.Part[realCase]{Name: "real-source", Quick: 48000, Thorough: 480000, Gen: genRealCase, Check: checkRealSource}
