//go:build verif

package subrig

// The enumeration part: on one fixed scenario (two subscribers sharing trigger key0, one on
// key1) every window of every kind of call is opened once, and while it is open every ordered
// pair (and every single one) of a fixed list of other actions is run. It complements the random
// search with a complete sweep of "action A parked at window W while B then C run".

type stepMaker func(nextSub int) (Step, bool)

func fixed(st Step) stepMaker { return func(int) (Step, bool) { return st, true } }

func subscribeMaker(st Step) stepMaker {
	return func(next int) (Step, bool) { st.Op = OpSubscribe; st.Sub = next; return st, true }
}

// needsSub makes a step that refers to subscriber i only applicable once it exists.
func needsSub(i int, st Step) stepMaker {
	return func(next int) (Step, bool) { return st, next > i }
}

// EnumHistories returns the enumerated histories.
func EnumHistories() []History {
	prefix := []Step{
		{Op: OpSubscribe, Sub: 0, Conn: 1, Key: 0, HB: true},
		{Op: OpSubscribe, Sub: 1, Conn: 2, Key: 0, Filter: FIn0, Shape: 1},
		{Op: OpSubscribe, Sub: 2, Conn: 1, Key: 1},
		{Op: OpEvent, Period: 0, N: 1, K: 0},
	}
	suffix := []Step{
		{Op: OpEvent, Period: 0, N: 90, K: 0},
		{Op: OpEvent, Period: 1, N: 91, K: 1},
		{Op: OpUnsubscribe, Sub: 1},
		{Op: OpEvent, Period: 0, N: 92, K: 0},
	}
	// for the heartbeat windows: s1 wants heartbeats and has had no data yet (the event is filtered out)
	prefixHB := func(hbFail bool) []Step {
		return []Step{
			{Op: OpSubscribe, Sub: 0, Conn: 1, Key: 0, HB: true},
			{Op: OpSubscribe, Sub: 1, Conn: 2, Key: 0, Filter: FIn0, Shape: 1, HB: true, HBFail: hbFail},
			{Op: OpSubscribe, Sub: 2, Conn: 1, Key: 1},
			{Op: OpEvent, Period: 0, N: 1, K: 1},
		}
	}
	// for the start-failure broadcast with two subscribers on the failing trigger
	prefixBlocked := append(append([]Step(nil), prefix...),
		Step{Op: OpSubscribe, Sub: 3, Conn: 3, Key: 2, StartMode: StartBlock},
		Step{Op: OpSubscribe, Sub: 4, Conn: 2, Key: 2, Filter: FIn0})
	type parent struct {
		st     Step
		period int    // period created by the parent (subscribe parents), else -1
		prefix []Step // replaces the standard prefix
	}
	parents := []parent{
		{Step{Op: OpEvent, Period: 0, N: 2, K: 0, Split: &Split{Point: PtUpdate, Target: 0}}, -1, nil},
		{Step{Op: OpEvent, Period: 0, N: 2, K: 0, Split: &Split{Point: PtUpdate, Target: 1}}, -1, nil},
		{Step{Op: OpUpdateSub, Period: 0, Sub: 1, N: 2, K: 0, Split: &Split{Point: PtUpdate, Target: 1}}, -1, nil},
		{Step{Op: OpComplete, Period: 0, Split: &Split{Point: PtComplete, Target: 0}}, -1, nil},
		{Step{Op: OpError, Period: 0, Split: &Split{Point: PtError, Target: 1}}, -1, nil},
		{Step{Op: OpEvent, Period: 0, N: 2, K: 0, Split: &Split{Point: PtWFlush, Target: 0}}, -1, nil},
		{Step{Op: OpEvent, Period: 0, N: 2, K: 0, Split: &Split{Point: PtWFlush, Target: 1}}, -1, nil},
		{Step{Op: OpComplete, Period: 0, Split: &Split{Point: PtWComplete, Target: 1}}, -1, nil},
		{Step{Op: OpError, Period: 0, Split: &Split{Point: PtWError, Target: 0}}, -1, nil},
		{Step{Op: OpHeartbeat, Period: 0, Split: &Split{Point: PtHeartbeat, Target: 1}}, -1, prefixHB(false)},
		{Step{Op: OpHeartbeat, Period: 0, Split: &Split{Point: PtHeartbeat, Target: 1}}, -1, prefixHB(true)},
		{Step{Op: OpHeartbeat, Period: 0, Split: &Split{Point: PtWHeartbeat, Target: 1}}, -1, prefixHB(false)},
		{Step{Op: OpSubscribe, Sub: 3, Conn: 3, Key: 2, StartMode: StartErr, Split: &Split{Point: PtWFlush, Target: 3}}, 2, nil},
		{Step{Op: OpSubscribe, Sub: 3, Conn: 3, Key: 2, Hook: HookFail, Split: &Split{Point: PtWFlush, Target: 3}}, 2, nil},
		{Step{Op: OpReleaseStart, Period: 2, Err: true, Split: &Split{Point: PtWFlush, Target: 3}}, 2, prefixBlocked},
		{Step{Op: OpReleaseStart, Period: 2, Err: true, Split: &Split{Point: PtWFlush, Target: 4}}, 2, prefixBlocked},
		{Step{Op: OpSubscribe, Sub: 3, Conn: 3, Key: 2, Split: &Split{Point: PtStart}}, 2, nil},
		{Step{Op: OpSubscribe, Sub: 3, Conn: 3, Key: 2, Split: &Split{Point: PtInit}}, 2, nil},
		{Step{Op: OpSubscribe, Sub: 3, Conn: 3, Key: 2, Hook: HookEmit, StartMode: StartBlock, Split: &Split{Point: PtStart}}, 2, nil},
		{Step{Op: OpSubscribe, Sub: 3, Conn: 3, Key: 2, Sync: true, HB: true, Split: &Split{Point: PtInit}}, 2, nil},
	}
	var out []History
	for _, p := range parents {
		nextSub := 0
		pre := prefix
		if p.prefix != nil {
			pre = p.prefix
		}
		for _, st := range pre {
			if st.Op == OpSubscribe {
				nextSub++
			}
		}
		if p.st.Op == OpSubscribe {
			nextSub++
		}
		nested := []stepMaker{
			fixed(Step{Op: OpUnsubscribe, Sub: 0}),
			fixed(Step{Op: OpUnsubscribe, Sub: 1}),
			fixed(Step{Op: OpUnsubscribe, Sub: 2}),
			needsSub(3, Step{Op: OpUnsubscribe, Sub: 3}),
			needsSub(4, Step{Op: OpUnsubscribe, Sub: 4}),
			fixed(Step{Op: OpRemoveClient, Conn: 1}),
			fixed(Step{Op: OpRemoveClient, Conn: 2}),
			fixed(Step{Op: OpRemoveClient, Conn: 3}),
			fixed(Step{Op: OpEvent, Period: 0, N: 3, K: 0}),
			fixed(Step{Op: OpEvent, Period: 0, N: 4, K: 1, Kind: EvErrors}),
			fixed(Step{Op: OpEvent, Period: 1, N: 5, K: 0}),
			fixed(Step{Op: OpUpdateSub, Period: 0, Sub: 0, N: 6, K: 0}),
			fixed(Step{Op: OpComplete, Period: 0}),
			fixed(Step{Op: OpError, Period: 0}),
			fixed(Step{Op: OpDone, Period: 0}),
			fixed(Step{Op: OpDone, Period: 1}),
			fixed(Step{Op: OpCloseSub, Period: 0, Sub: 0}),
			fixed(Step{Op: OpCloseSub, Period: 0, Sub: 1}),
			fixed(Step{Op: OpHeartbeat, Period: 0}),
			fixed(Step{Op: OpShutdown}),
			subscribeMaker(Step{Conn: 2, Key: 0, HB: true}),
			subscribeMaker(Step{Conn: 3, Key: 0, Hook: HookFail}),
			subscribeMaker(Step{Conn: 2, Key: 2, Filter: FNot0}),
			subscribeMaker(Step{Conn: 2, Key: 3, Sync: true}),
		}
		if p.period >= 0 {
			nested = append(nested,
				fixed(Step{Op: OpEvent, Period: p.period, N: 7, K: 1}),
				fixed(Step{Op: OpComplete, Period: p.period}),
				fixed(Step{Op: OpDone, Period: p.period}),
				fixed(Step{Op: OpReleaseStart, Period: p.period}),
				fixed(Step{Op: OpReleaseStart, Period: p.period, Err: true}),
			)
		}
		build := func(ms ...stepMaker) {
			st := p.st
			sp := *p.st.Split
			sp.Nested = nil
			st.Split = &sp
			next := nextSub
			for _, mk := range ms {
				n, ok := mk(next)
				if !ok {
					return
				}
				if n.Op == OpSubscribe {
					next++
				}
				sp.Nested = append(sp.Nested, n)
			}
			h := History{}
			if p.prefix != nil {
				h.Steps = append(h.Steps, p.prefix...)
			} else {
				h.Steps = append(h.Steps, prefix...)
			}
			h.Steps = append(h.Steps, st)
			if p.period >= 0 {
				// whatever happened to the parent's trigger: a later subscriber of its key is served
				h.Steps = append(h.Steps, Step{Op: OpSubscribe, Sub: next, Conn: 3, Key: 2, Filter: FIn1})
			}
			h.Steps = append(h.Steps, suffix...)
			out = append(out, h)
		}
		build()
		for i, a := range nested {
			build(a)
			for j, b := range nested {
				if i != j {
					build(a, b)
				}
			}
		}
	}
	return out
}

// EnumAdmissible tells whether the executor can run an enumerated history deterministically
// (at most one nested call blocked on the parked call's updater; updater calls only on periods
// whose source has the updater; source discipline: nothing but Done after Complete/Error) and
// which recorded findings' shapes it contains. Unsplit top-level steps that do not apply are
// dropped from the returned history.
func EnumAdmissible(in History) (h History, ok bool, shapes []string) {
	m := NewModel()
	for _, st := range in.Steps {
		m.StepNo = len(h.Steps)
		if !stepAdmissible(m, st, nil) {
			if st.Split == nil {
				continue // a step of the fixed suffix that does not apply any more is dropped
			}
			return h, false, nil
		}
		if st.Split != nil {
			// check the nested steps in the state they run in
			c := m.Clone()
			reached := c.PredictReach(st)
			if !reached {
				return h, false, nil
			}
			c.Open()
			c.Begin(st, true)
			blocked, writerBlocked := 0, false
			for _, n := range st.Split.Nested {
				if !stepAdmissible(c, n, &st) || !c.NestedAdmissible(st, n, blocked, writerBlocked) {
					return h, false, nil
				}
				if c.Blocks(st, n) {
					blocked++
					writerBlocked = writerBlocked || c.BlocksOnWriter(st, n)
					continue
				}
				c.Open()
				c.Begin(n, false)
				c.End(n, false)
			}
		}
		m.ApplyFull(st)
		h.Steps = append(h.Steps, st)
	}
	for _, sh := range m.Shapes {
		shapes = append(shapes, sh.Finding)
	}
	return h, true, shapes
}

func stepAdmissible(m *Model, st Step, parent *Step) bool {
	switch st.Op {
	case OpSubscribe:
		if st.Sub != len(m.Subs) {
			return false
		}
	case OpEvent, OpUpdateSub, OpComplete, OpError, OpCloseSub, OpHeartbeat:
		if st.Period >= len(m.Periods) {
			return false
		}
		p := m.Periods[st.Period]
		if !p.HasUpdater || p.Terminal {
			return false
		}
		if (st.Op == OpUpdateSub || st.Op == OpCloseSub) && st.Sub >= len(m.Subs) {
			return false
		}
	case OpDone:
		if st.Period >= len(m.Periods) || !m.Periods[st.Period].HasUpdater {
			return false
		}
	case OpReleaseStart:
		if st.Period >= len(m.Periods) || m.Periods[st.Period].Pending != PendBlocked {
			return false
		}
	case OpUnsubscribe:
		if st.Sub >= len(m.Subs) {
			return false
		}
	}
	return true
}
