//go:build verif

package subrig

import (
	"fmt"
	"sort"
	"strings"

	"verif/harness/pbt"
)

// Check executes a history and turns the result into a verdict. prop names the property whose
// non-triviality rule is applied ("C12" or "C13"); every oracle clause of both properties is
// evaluated in both (the machine is one), each violation says which property's clause it is.
func Check(prop string, h History, o *pbt.Rec) pbt.Verdict {
	o.Journal() // a panic in a resolver goroutine kills the process: leave the case behind first
	res := Execute(h)
	seenEx := map[string]bool{}
	for _, id := range h.Excluded {
		o.Label("excluded:" + id)
		if !seenEx[id] {
			seenEx[id] = true
			o.Known(id) // evidence.known_finding_exclusions counts the cases steered around a finding
		}
	}
	keys := make([]string, 0, len(res.Labels))
	for k := range res.Labels {
		keys = append(keys, k)
	}
	sort.Strings(keys)
	for _, k := range keys {
		o.Label(k)
	}
	if len(h.Steps) >= 8 {
		o.Label("history>=8-steps")
	}
	nSplit := 0
	for _, st := range h.Steps {
		if st.Split != nil {
			nSplit++
		}
	}
	if nSplit >= 2 {
		o.Label("history-with-2+-splits")
	}
	if res.RacedRemoval {
		o.Label("removal-raced-with-delivery-on-shared-trigger")
	}
	c13nt := res.Labels["trigger-removed-while-starting"] > 0 || res.Labels["shutdown-with-2+-live-triggers"] > 0
	if len(res.Violations) > 0 {
		var msgs []string
		for i, v := range res.Violations {
			if i == 6 {
				msgs = append(msgs, fmt.Sprintf("… and %d more", len(res.Violations)-6))
				break
			}
			msgs = append(msgs, v.String())
		}
		text := fmt.Sprintf("history: %s\n%s\ntrace:\n%s", h, strings.Join(msgs, "\n"), strings.Join(res.Trace, "\n"))
		if id := Attribute(res); id != "" {
			return pbt.BadKnown(id, "%s", text)
		}
		return pbt.Bad("%s", text)
	}
	if res.Inconclusive != "" {
		o.Discard("watchdog")
		return pbt.OK
	}
	if prop == "C12" && res.RacedRemoval || prop == "C13" && c13nt {
		o.NonTrivial(h.JSON())
	}
	return pbt.OK
}

// SoloSanity compares the "alone" oracle with an independent reading of the plans for the
// inputs where one exists: well-formed events, shapes 0 and 1, every filter kind but the
// broken one. It returns a description of the first disagreement.
func SoloSanity() string {
	for _, f := range Filters {
		for k := 0; k <= 2; k++ {
			for shape := 0; shape <= 1; shape++ {
				for _, kind := range []string{EvPlain, EvNoTag} {
					pass, ok := FilterPasses(f, k)
					if !ok {
						continue
					}
					n := 40 + k
					var want []Item
					if pass {
						switch {
						case shape == 0:
							want = []Item{{IMsg, fmt.Sprintf(`{"data":{"counter":%d}}`, n)}}
						case kind == EvPlain:
							want = []Item{{IMsg, fmt.Sprintf(`{"data":{"counter":%d,"tag":"t%d"}}`, n, n)}}
						default:
							want = []Item{{IMsg, fmt.Sprintf(`{"data":{"counter":%d,"tag":null}}`, n)}}
						}
					}
					got := Solo(shape, f, EventPayload(n, k, kind))
					if fmt.Sprint(got) != fmt.Sprint(want) {
						return fmt.Sprintf("a lone subscriber (shape %d, filter %q) gets %v for event %s, expected %v", shape, f, got, EventPayload(n, k, kind), want)
					}
				}
			}
		}
	}
	return ""
}
