package c01

import (
	"encoding/json"
	"fmt"
	"os"
	"testing"

	"verif/harness/internal/kit"
	"verif/harness/internal/opgen"
	"verif/harness/internal/ref"
	"verif/harness/pbt"
)

// TestScratch is a debugging aid: VERIF_REPLAY=<file> Q='<query>' [VARS='{}'] go test -run TestScratch
func TestScratch(t *testing.T) {
	p := os.Getenv("VERIF_REPLAY")
	q := os.Getenv("Q")
	if p == "" || q == "" {
		t.Skip("debug only")
	}
	rf, err := pbt.LoadReplay(p)
	if err != nil {
		t.Fatal(err)
	}
	var c fedCase
	if err := json.Unmarshal(rf.Case, &c); err != nil {
		t.Fatal(err)
	}
	if os.Getenv("SHOW") != "" {
		fmt.Println(c.Layout.Super)
		for _, s := range c.Layout.Subs {
			fmt.Println("---", s.Name)
			fmt.Println(s.SDL)
			fmt.Println(ref.JSON(s.Meta))
		}
	}
	gw, err := kit.New(c.Layout, c.Seed, kit.EngineOptions{})
	if err != nil {
		t.Fatal(err)
	}
	defer gw.Close()
	op := opgen.Op{Query: q, OperationName: os.Getenv("OPNAME")}
	if v := os.Getenv("VARS"); v != "" {
		_ = json.Unmarshal([]byte(v), &op.Variables)
	}
	rr, err := gw.World.Reference(op)
	if err != nil {
		fmt.Println("REFERENCE REJECTS:", err)
	} else {
		fmt.Println("WANT", ref.JSON(rr.Data), ref.JSON(rr.Errors))
	}
	res := gw.Execute(op)
	fmt.Println("GOT ", res.Body, "ERR", res.Err, res.Panic)
	for _, r := range res.Requests {
		fmt.Printf("  -> %s %s\n     <- %s %v\n", r.Subgraph, r.Body, r.ResponseBody, r.Complaints)
	}
}
