package inputref

import (
	"fmt"
	"strings"
	"unicode/utf8"
)

// This file is a lexer for GraphQL source text and a parser for Value literals, written
// from the specification (October 2021 §2.1–§2.9, plus the variable-width \u{…} escape of
// the September 2025 edition). String values are decoded here, independently of the code
// under test and of gqlparser.

// TokKind is a lexical token kind.
type TokKind int

// Token kinds.
const (
	TEOF TokKind = iota
	TPunct
	TName
	TInt
	TFloat
	TString
	TBlockString
)

// Token is one lexical token.
type Token struct {
	Kind  TokKind
	Text  string // source text of the token
	Value string // decoded value for strings
	Pos   int
}

// LexOpts selects the specification edition for the points where editions differ.
type LexOpts struct {
	// Oct2021SourceChars restricts SourceCharacter to U+0009, U+000A, U+000D, U+0020–U+FFFF
	// (October 2021). When false every Unicode scalar value is a SourceCharacter (2025).
	Oct2021SourceChars bool
	// NoBraceEscape rejects \u{…} (not part of October 2021).
	NoBraceEscape bool
}

// Lexer tokenises GraphQL source text.
type Lexer struct {
	s    string
	i    int
	opts LexOpts
}

// NewLexer returns a lexer over s.
func NewLexer(s string, opts LexOpts) *Lexer { return &Lexer{s: s, opts: opts} }

func isNameStart(c byte) bool { return c == '_' || c >= 'a' && c <= 'z' || c >= 'A' && c <= 'Z' }
func isDigit(c byte) bool     { return c >= '0' && c <= '9' }
func isNameCont(c byte) bool  { return isNameStart(c) || isDigit(c) }

func (l *Lexer) errf(f string, a ...any) error {
	return fmt.Errorf("graphql: offset %d: %s", l.i, fmt.Sprintf(f, a...))
}

func (l *Lexer) sourceCharOK(r rune) bool {
	if l.opts.Oct2021SourceChars {
		return r == 0x9 || r == 0xA || r == 0xD || r >= 0x20 && r <= 0xFFFF
	}
	return true
}

// Next returns the next token.
func (l *Lexer) Next() (Token, error) {
	// Ignored tokens: BOM, whitespace, line terminators, comments, commas.
	for l.i < len(l.s) {
		c := l.s[l.i]
		switch {
		case c == ' ' || c == '\t' || c == '\n' || c == '\r' || c == ',':
			l.i++
		case c == '#':
			for l.i < len(l.s) && l.s[l.i] != '\n' && l.s[l.i] != '\r' {
				l.i++
			}
		case strings.HasPrefix(l.s[l.i:], "\ufeff"):
			l.i += 3
		default:
			goto tok
		}
	}
	return Token{Kind: TEOF, Pos: l.i}, nil
tok:
	st := l.i
	c := l.s[l.i]
	switch {
	case strings.ContainsRune("!$&():=@[]{|}", rune(c)):
		l.i++
		return Token{Kind: TPunct, Text: l.s[st:l.i], Pos: st}, nil
	case c == '.':
		if strings.HasPrefix(l.s[l.i:], "...") {
			l.i += 3
			return Token{Kind: TPunct, Text: "...", Pos: st}, nil
		}
		return Token{}, l.errf("unexpected '.'")
	case isNameStart(c):
		for l.i < len(l.s) && isNameCont(l.s[l.i]) {
			l.i++
		}
		return Token{Kind: TName, Text: l.s[st:l.i], Pos: st}, nil
	case c == '-' || isDigit(c):
		return l.number()
	case c == '"':
		if strings.HasPrefix(l.s[l.i:], `"""`) {
			return l.blockString()
		}
		return l.quotedString()
	}
	return Token{}, l.errf("unexpected character %q", c)
}

func (l *Lexer) number() (Token, error) {
	st := l.i
	if l.s[l.i] == '-' {
		l.i++
	}
	if l.i >= len(l.s) || !isDigit(l.s[l.i]) {
		return Token{}, l.errf("bad number")
	}
	if l.s[l.i] == '0' {
		l.i++
		if l.i < len(l.s) && isDigit(l.s[l.i]) {
			return Token{}, l.errf("leading zero")
		}
	} else {
		for l.i < len(l.s) && isDigit(l.s[l.i]) {
			l.i++
		}
	}
	kind := TInt
	if l.i < len(l.s) && l.s[l.i] == '.' {
		kind = TFloat
		l.i++
		n := 0
		for l.i < len(l.s) && isDigit(l.s[l.i]) {
			l.i++
			n++
		}
		if n == 0 {
			return Token{}, l.errf("bad fraction")
		}
	}
	if l.i < len(l.s) && (l.s[l.i] == 'e' || l.s[l.i] == 'E') {
		kind = TFloat
		l.i++
		if l.i < len(l.s) && (l.s[l.i] == '+' || l.s[l.i] == '-') {
			l.i++
		}
		n := 0
		for l.i < len(l.s) && isDigit(l.s[l.i]) {
			l.i++
			n++
		}
		if n == 0 {
			return Token{}, l.errf("bad exponent")
		}
	}
	// A numeric literal must not be followed by a digit, '.', or NameStart.
	if l.i < len(l.s) && (l.s[l.i] == '.' || isNameStart(l.s[l.i]) || isDigit(l.s[l.i])) {
		return Token{}, l.errf("number followed by %q", l.s[l.i])
	}
	return Token{Kind: kind, Text: l.s[st:l.i], Pos: st}, nil
}

func (l *Lexer) quotedString() (Token, error) {
	st := l.i
	l.i++
	var b strings.Builder
	for {
		if l.i >= len(l.s) {
			return Token{}, l.errf("unterminated string")
		}
		c := l.s[l.i]
		switch {
		case c == '"':
			l.i++
			return Token{Kind: TString, Text: l.s[st:l.i], Value: b.String(), Pos: st}, nil
		case c == '\n' || c == '\r':
			return Token{}, l.errf("line terminator in string")
		case c == '\\':
			if l.i+1 >= len(l.s) {
				return Token{}, l.errf("unterminated escape")
			}
			e := l.s[l.i+1]
			l.i += 2
			switch e {
			case '"', '\\', '/':
				b.WriteByte(e)
			case 'b':
				b.WriteByte('\b')
			case 'f':
				b.WriteByte('\f')
			case 'n':
				b.WriteByte('\n')
			case 'r':
				b.WriteByte('\r')
			case 't':
				b.WriteByte('\t')
			case 'u':
				r, err := l.unicodeEscape()
				if err != nil {
					return Token{}, err
				}
				b.WriteRune(r)
			default:
				return Token{}, l.errf("bad escape \\%c", e)
			}
		default:
			r, n := utf8.DecodeRuneInString(l.s[l.i:])
			if r == utf8.RuneError && n <= 1 {
				return Token{}, l.errf("invalid UTF-8")
			}
			if !l.sourceCharOK(r) {
				return Token{}, l.errf("character U+%04X is not a SourceCharacter", r)
			}
			b.WriteString(l.s[l.i : l.i+n])
			l.i += n
		}
	}
}

// unicodeEscape decodes what follows "\u": {hex+} or XXXX, combining a surrogate pair
// written as two fixed-width escapes; lone surrogates are errors.
func (l *Lexer) unicodeEscape() (rune, error) {
	if l.i < len(l.s) && l.s[l.i] == '{' {
		if l.opts.NoBraceEscape {
			return 0, l.errf("\\u{…} escape not available in this edition")
		}
		j := l.i + 1
		var r rune
		n := 0
		for j < len(l.s) && l.s[j] != '}' {
			h, ok := hex4("000" + l.s[j:j+1])
			if !ok {
				return 0, l.errf("bad \\u{…} escape")
			}
			r = r<<4 | h
			n++
			if r > 0x10FFFF {
				return 0, l.errf("\\u{…} escape out of range")
			}
			j++
		}
		if j >= len(l.s) || n == 0 {
			return 0, l.errf("bad \\u{…} escape")
		}
		if r >= 0xD800 && r <= 0xDFFF {
			return 0, l.errf("\\u{…} escape is a surrogate")
		}
		l.i = j + 1
		return r, nil
	}
	r, ok := hex4(l.s[l.i:])
	if !ok {
		return 0, l.errf("bad \\u escape")
	}
	l.i += 4
	if r >= 0xD800 && r <= 0xDBFF {
		if strings.HasPrefix(l.s[l.i:], "\\u") {
			if lo, ok := hex4(l.s[l.i+2:]); ok && lo >= 0xDC00 && lo <= 0xDFFF {
				l.i += 6
				return 0x10000 + (r-0xD800)<<10 + (lo - 0xDC00), nil
			}
		}
		return 0, l.errf("lone leading surrogate escape")
	}
	if r >= 0xDC00 && r <= 0xDFFF {
		return 0, l.errf("lone trailing surrogate escape")
	}
	return r, nil
}

func (l *Lexer) blockString() (Token, error) {
	st := l.i
	l.i += 3
	var raw strings.Builder
	for {
		if l.i >= len(l.s) {
			return Token{}, l.errf("unterminated block string")
		}
		if strings.HasPrefix(l.s[l.i:], `"""`) {
			l.i += 3
			return Token{Kind: TBlockString, Text: l.s[st:l.i], Value: BlockStringValue(raw.String()), Pos: st}, nil
		}
		if strings.HasPrefix(l.s[l.i:], `\"""`) {
			raw.WriteString(`"""`)
			l.i += 4
			continue
		}
		r, n := utf8.DecodeRuneInString(l.s[l.i:])
		if r == utf8.RuneError && n <= 1 {
			return Token{}, l.errf("invalid UTF-8")
		}
		if !l.sourceCharOK(r) {
			return Token{}, l.errf("character U+%04X is not a SourceCharacter", r)
		}
		raw.WriteString(l.s[l.i : l.i+n])
		l.i += n
	}
}

// BlockStringValue is the algorithm of spec §2.9.4, step by step.
func BlockStringValue(rawValue string) string {
	// 1. Let lines be the result of splitting rawValue by LineTerminator.
	var lines []string
	cur := 0
	for i := 0; i < len(rawValue); i++ {
		switch rawValue[i] {
		case '\n':
			lines = append(lines, rawValue[cur:i])
			cur = i + 1
		case '\r':
			lines = append(lines, rawValue[cur:i])
			if i+1 < len(rawValue) && rawValue[i+1] == '\n' {
				i++
			}
			cur = i + 1
		}
	}
	lines = append(lines, rawValue[cur:])
	indentOf := func(line string) int {
		n := 0
		for n < len(line) && (line[n] == ' ' || line[n] == '\t') {
			n++
		}
		return n
	}
	// 2–3. commonIndent over all lines but the first that are not whitespace-only.
	commonIndent := -1
	for i, line := range lines {
		if i == 0 {
			continue
		}
		indent := indentOf(line)
		if indent < len(line) {
			if commonIndent == -1 || indent < commonIndent {
				commonIndent = indent
			}
		}
	}
	// 4. Remove commonIndent characters from the beginning of every line but the first.
	if commonIndent != -1 {
		for i := range lines {
			if i == 0 {
				continue
			}
			n := commonIndent
			if n > len(lines[i]) {
				n = len(lines[i])
			}
			lines[i] = lines[i][n:]
		}
	}
	// 5. While the first line contains only WhiteSpace, remove it.
	for len(lines) > 0 && indentOf(lines[0]) == len(lines[0]) {
		lines = lines[1:]
	}
	// 6. While the last line contains only WhiteSpace, remove it.
	for len(lines) > 0 && indentOf(lines[len(lines)-1]) == len(lines[len(lines)-1]) {
		lines = lines[:len(lines)-1]
	}
	// 7–9. Join with U+000A.
	return strings.Join(lines, "\n")
}

// ---- value parser --------------------------------------------------------------------------

// Parser is a recursive-descent parser over the token stream.
type Parser struct {
	lx  *Lexer
	tok Token
	err error
}

// NewParser starts parsing s.
func NewParser(s string, opts LexOpts) *Parser {
	p := &Parser{lx: NewLexer(s, opts)}
	p.advance()
	return p
}

func (p *Parser) advance() {
	if p.err != nil {
		return
	}
	p.tok, p.err = p.lx.Next()
	if p.err != nil {
		p.tok = Token{Kind: TEOF}
	}
}

func (p *Parser) fail(f string, a ...any) {
	if p.err == nil {
		p.err = fmt.Errorf("graphql: offset %d: %s", p.tok.Pos, fmt.Sprintf(f, a...))
	}
}

func (p *Parser) isPunct(s string) bool {
	return p.err == nil && p.tok.Kind == TPunct && p.tok.Text == s
}

func (p *Parser) expectPunct(s string) {
	if !p.isPunct(s) {
		p.fail("expected %q, found %q", s, p.tok.Text)
		return
	}
	p.advance()
}

func (p *Parser) name() string {
	if p.err != nil || p.tok.Kind != TName {
		p.fail("expected name, found %q", p.tok.Text)
		return ""
	}
	n := p.tok.Text
	p.advance()
	return n
}

// Value parses one Value; constOnly forbids variables.
func (p *Parser) Value(constOnly bool, depth int) *Value {
	if p.err != nil {
		return nil
	}
	if depth > 100 {
		p.fail("too deep")
		return nil
	}
	t := p.tok
	switch t.Kind {
	case TInt:
		p.advance()
		return &Value{K: VNum, N: t.Text}
	case TFloat:
		p.advance()
		return &Value{K: VNum, N: t.Text, FloatLit: true}
	case TString:
		p.advance()
		return &Value{K: VStr, S: t.Value}
	case TBlockString:
		p.advance()
		return &Value{K: VStr, S: t.Value, Block: true}
	case TName:
		p.advance()
		switch t.Text {
		case "true":
			return Bool(true)
		case "false":
			return Bool(false)
		case "null":
			return Null()
		}
		return &Value{K: VEnum, S: t.Text}
	case TPunct:
		switch t.Text {
		case "$":
			if constOnly {
				p.fail("variable in constant value")
				return nil
			}
			p.advance()
			return &Value{K: VVar, S: p.name()}
		case "[":
			p.advance()
			v := &Value{K: VList, L: []*Value{}}
			for p.err == nil && !p.isPunct("]") {
				if p.tok.Kind == TEOF {
					p.fail("unterminated list")
					return nil
				}
				v.L = append(v.L, p.Value(constOnly, depth+1))
			}
			p.expectPunct("]")
			return v
		case "{":
			p.advance()
			v := &Value{K: VObj, O: []Member{}}
			for p.err == nil && !p.isPunct("}") {
				if p.tok.Kind == TEOF {
					p.fail("unterminated object")
					return nil
				}
				k := p.name()
				p.expectPunct(":")
				v.O = append(v.O, Member{k, p.Value(constOnly, depth+1)})
			}
			p.expectPunct("}")
			return v
		}
	}
	p.fail("unexpected token %q in value", t.Text)
	return nil
}

// ParseLiteral parses text as exactly one Value literal.
func ParseLiteral(text string, opts LexOpts) (*Value, error) {
	p := NewParser(text, opts)
	v := p.Value(false, 0)
	if p.err == nil && p.tok.Kind != TEOF {
		p.fail("trailing tokens after value")
	}
	if p.err != nil {
		return nil, p.err
	}
	return v, nil
}

// ---- executable documents (enough to read what a gateway sends upstream) --------------------

// VarDef is one variable definition of an operation.
type VarDef struct {
	Name    string
	Type    *Type
	Default *Value // nil when none
}

// Arg is one argument.
type Arg struct {
	Name  string
	Value *Value
}

// Sel is a field selection (fragments are kept only structurally).
type Sel struct {
	Alias    string
	Name     string
	Args     []Arg
	Sels     []*Sel
	Fragment bool // inline fragment or spread: Name is the type condition / fragment name
}

// Key is the response key.
func (s *Sel) Key() string {
	if s.Alias != "" {
		return s.Alias
	}
	return s.Name
}

// Arg finds an argument.
func (s *Sel) Arg(name string) *Arg {
	for i := range s.Args {
		if s.Args[i].Name == name {
			return &s.Args[i]
		}
	}
	return nil
}

// Op is one operation definition.
type Op struct {
	Type string // query | mutation | subscription
	Name string
	Vars []VarDef
	Sels []*Sel
}

// Var finds a variable definition.
func (o *Op) Var(name string) *VarDef {
	for i := range o.Vars {
		if o.Vars[i].Name == name {
			return &o.Vars[i]
		}
	}
	return nil
}

func (p *Parser) typeRef() *Type {
	var t *Type
	if p.isPunct("[") {
		p.advance()
		el := p.typeRef()
		p.expectPunct("]")
		t = &Type{Elem: el}
	} else {
		t = &Type{Name: p.name()}
	}
	if p.isPunct("!") {
		p.advance()
		t.NonNull = true
	}
	return t
}

func (p *Parser) arguments(constOnly bool) []Arg {
	var out []Arg
	if !p.isPunct("(") {
		return nil
	}
	p.advance()
	for p.err == nil && !p.isPunct(")") {
		n := p.name()
		p.expectPunct(":")
		out = append(out, Arg{n, p.Value(constOnly, 0)})
	}
	p.expectPunct(")")
	return out
}

func (p *Parser) directives(constOnly bool) {
	for p.isPunct("@") {
		p.advance()
		p.name()
		p.arguments(constOnly)
	}
}

func (p *Parser) selectionSet(depth int) []*Sel {
	var out []*Sel
	if depth > 50 {
		p.fail("too deep")
		return nil
	}
	p.expectPunct("{")
	for p.err == nil && !p.isPunct("}") {
		if p.isPunct("...") {
			p.advance()
			s := &Sel{Fragment: true}
			if p.tok.Kind == TName && p.tok.Text != "on" {
				s.Name = p.name()
				p.directives(false)
			} else {
				if p.tok.Kind == TName && p.tok.Text == "on" {
					p.advance()
					s.Name = p.name()
				}
				p.directives(false)
				s.Sels = p.selectionSet(depth + 1)
			}
			out = append(out, s)
			continue
		}
		s := &Sel{Name: p.name()}
		if p.isPunct(":") {
			p.advance()
			s.Alias, s.Name = s.Name, p.name()
		}
		s.Args = p.arguments(false)
		p.directives(false)
		if p.isPunct("{") {
			s.Sels = p.selectionSet(depth + 1)
		}
		out = append(out, s)
	}
	p.expectPunct("}")
	return out
}

// ParseOperations parses an executable document and returns its operations (fragment
// definitions are parsed and dropped).
func ParseOperations(text string, opts LexOpts) ([]*Op, error) {
	p := NewParser(text, opts)
	var ops []*Op
	for p.err == nil && p.tok.Kind != TEOF {
		if p.isPunct("{") {
			ops = append(ops, &Op{Type: "query", Sels: p.selectionSet(0)})
			continue
		}
		kw := p.name()
		switch kw {
		case "query", "mutation", "subscription":
			op := &Op{Type: kw}
			if p.err == nil && p.tok.Kind == TName {
				op.Name = p.name()
			}
			if p.isPunct("(") {
				p.advance()
				for p.err == nil && !p.isPunct(")") {
					p.expectPunct("$")
					vd := VarDef{Name: p.name()}
					p.expectPunct(":")
					vd.Type = p.typeRef()
					if p.isPunct("=") {
						p.advance()
						vd.Default = p.Value(true, 0)
					}
					p.directives(true)
					op.Vars = append(op.Vars, vd)
				}
				p.expectPunct(")")
			}
			p.directives(false)
			op.Sels = p.selectionSet(0)
			ops = append(ops, op)
		case "fragment":
			p.name()
			if p.name() != "on" {
				p.fail("expected 'on'")
			}
			p.name()
			p.directives(false)
			p.selectionSet(0)
		default:
			p.fail("unexpected %q at document level", kw)
		}
	}
	if p.err != nil {
		return nil, p.err
	}
	return ops, nil
}
