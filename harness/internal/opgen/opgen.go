// Package opgen generates GraphQL operations that are valid by construction against a
// gqlparser schema (DESIGN.md §3.4), together with type-directed variables.
package opgen

import (
	"encoding/json"
	"fmt"
	"sort"
	"strconv"
	"strings"

	"github.com/vektah/gqlparser/v2/ast"
	"pgregory.net/rapid"
)

// Op is a generated request.
type Op struct {
	Query         string         `json:"query"`
	Variables     map[string]any `json:"variables,omitempty"`
	OperationName string         `json:"operationName,omitempty"`
	Features      []string       `json:"features,omitempty"`
	// Alt holds alternative assignments for the same variable definitions (Options.AltVars).
	Alt []map[string]any `json:"alt,omitempty"`
}

// VarsJSON renders the variables object ("" when there are none).
func (o Op) VarsJSON() string {
	if len(o.Variables) == 0 {
		return ""
	}
	b, _ := json.Marshal(o.Variables)
	return string(b)
}

// Options tunes the generator.
type Options struct {
	MaxDepth      int
	Budget        int  // total number of field selections
	Mutations     bool // allow mutation operations
	ForceName     bool // always name the operation
	Defer         bool // add @defer to fragments
	NoDeferLabels bool // never give @defer a label
	NoOmittedVars bool // every declared variable is present in the variables object
	UniqueKeys    bool // every response key at most once per response-object level
	NoVariables   bool
	Simple        bool // no duplicate/overlapping selections, fragments only on the enclosing object type
	NoVarInObject bool
	NoDirectives  bool
	SecondOp      bool            // allow a second operation in the document
	SkipFields    []string        // field name prefixes never selected
	NoSingle      map[string]bool // single-value list coercion placements to exclude ("single@arg", "single@var-nested", …)
	// Allow re-enables generator classes that are excluded by default because they hit a
	// recorded finding: "default-omitted-nested", "single@default-nested",
	// "null-default-list", "int-min", "union-spread-on-non-union".
	Allow         map[string]bool
	AltVars       int  // number of alternative variable assignments to draw (Op.Alt)
	OwnFieldAlias bool // allow aliases drawn from the enclosing type's own field names (known finding C01-alias-collides-with-planner-field)
	NoShortVars   bool // never name client variables a, b, c, … (the names variable extraction and canonicalisation generate)
	NoMirrored    bool // never select the same composite key in fragments on different object types of one level
}

type gen struct {
	t       *rapid.T
	s       *ast.Schema
	o       Options
	frags   []string
	counter int
	budget  int
	vars    []varDef
	argText map[string]string // field name → argument text used when unaliased
	feat    map[string]bool
	deferN  int
	// underRefinement > 0 while generating below a type-refining fragment of an abstract-typed
	// position (at any depth)
	underRefinement int
	// shortNames: remaining client variable names drawn from the alphabet the engine itself
	// generates (a, b, c, …), in a drawn order; nil = v<N> names only
	shortNames []string
}

type varDef struct {
	name    string
	typ     string
	def     string // default literal or ""
	value   any
	present bool
	alts    []any // alternative values (present in every alternative assignment)
}

// Gen draws an operation over schema s.
func Gen(t *rapid.T, s *ast.Schema, o Options) Op {
	if o.MaxDepth == 0 {
		o.MaxDepth = 5
	}
	if o.Budget == 0 {
		o.Budget = 24
	}
	g := &gen{t: t, s: s, o: o, budget: o.Budget, argText: map[string]string{}, feat: map[string]bool{}}
	kind := "query"
	root := s.Query
	if o.Mutations && s.Mutation != nil && rapid.IntRange(0, 5).Draw(t, "opkind") == 0 {
		kind, root = "mutation", s.Mutation
		g.feat["mutation"] = true
	}
	if !o.NoShortVars && !o.NoVariables && rapid.IntRange(0, 3).Draw(t, "shortvars") == 0 {
		g.shortNames = rapid.Permutation([]string{"a", "b", "c", "d"}).Draw(t, "shortnames")
	}
	body := g.selSet(root, 0, "r")
	name := ""
	if o.ForceName || rapid.IntRange(0, 2).Draw(t, "named") > 0 {
		name = "Op" + strconv.Itoa(rapid.IntRange(0, 9).Draw(t, "opname"))
	}
	var sb strings.Builder
	if name == "" && len(g.vars) == 0 && kind == "query" && rapid.Bool().Draw(t, "shorthand") {
		sb.WriteString(body)
	} else {
		sb.WriteString(kind)
		if name != "" {
			sb.WriteString(" " + name)
		}
		if len(g.vars) > 0 {
			sb.WriteString("(")
			for i, v := range g.vars {
				if i > 0 {
					sb.WriteString(", ")
				}
				fmt.Fprintf(&sb, "$%s: %s", v.name, v.typ)
				if v.def != "" {
					sb.WriteString(" = " + v.def)
				}
			}
			sb.WriteString(")")
		}
		sb.WriteString(" " + body)
	}
	for _, f := range g.frags {
		sb.WriteString(" " + f)
	}
	op := Op{Query: sb.String(), OperationName: ""}
	if o.SecondOp && name != "" && rapid.IntRange(0, 5).Draw(t, "second") == 0 {
		op.Query += " query Other { __typename }"
		op.OperationName = name
		g.feat["second-operation"] = true
	} else if name != "" && rapid.Bool().Draw(t, "sendname") {
		op.OperationName = name
	}
	if len(g.vars) > 0 {
		op.Variables = map[string]any{}
		for _, v := range g.vars {
			if v.present {
				op.Variables[v.name] = v.value
			}
		}
		g.feat["variables"] = true
		for i := 0; i < o.AltVars; i++ {
			alt := map[string]any{}
			for _, v := range g.vars {
				if i < len(v.alts) {
					alt[v.name] = v.alts[i]
				} else if v.present {
					alt[v.name] = v.value
				}
			}
			op.Alt = append(op.Alt, alt)
		}
	}
	for f := range g.feat {
		op.Features = append(op.Features, f)
	}
	sort.Strings(op.Features)
	return op
}

// repaired lists generator classes whose finding was repaired in /repo by a fix: commit: they
// are generated at full rate again (their saved probe cases guard the repair).
var repaired = map[string]bool{"int-min": true, "null-default-list": true, "typename-alias": true}

func (g *gen) allow(class string) bool {
	if g.o.Allow[class] || repaired[class] {
		return true
	}
	g.feat["excluded:"+class] = true
	return false
}

// varName names a fresh client variable: v<N>, or one of the short names while they last.
func (g *gen) varName(nested bool) string {
	if nested && len(g.shortNames) > 0 && !g.allow("short-var-in-literal") {
		// a variable inside an input literal keeps its definition after extraction (recorded
		// finding C03-variable-in-input-object); named like a canonical name it then collides
		// with the canonicalised variables (C01-short-variable-name-inside-literal)
		g.feat["excluded:short-var-in-literal"] = true
		return g.next("v")
	}
	if len(g.shortNames) > 0 {
		n := g.shortNames[0]
		g.shortNames = g.shortNames[1:]
		g.feat["short-var-names"] = true
		return n
	}
	return g.next("v")
}

func (g *gen) next(prefix string) string {
	g.counter++
	return prefix + strconv.Itoa(g.counter)
}

func (g *gen) selectable(def *ast.Definition) []*ast.FieldDefinition {
	var out []*ast.FieldDefinition
outer:
	for _, f := range def.Fields {
		if strings.HasPrefix(f.Name, "__") || strings.HasPrefix(f.Name, "_") {
			continue
		}
		for _, p := range g.o.SkipFields {
			if strings.HasPrefix(f.Name, p) {
				continue outer
			}
		}
		out = append(out, f)
	}
	return out
}

func (g *gen) possible(def *ast.Definition) []*ast.Definition {
	pts := append([]*ast.Definition(nil), g.s.GetPossibleTypes(def)...)
	sort.Slice(pts, func(i, j int) bool { return pts[i].Name < pts[j].Name })
	return pts
}

// spreadTargets lists type conditions that may be spread inside def.
func (g *gen) spreadTargets(def *ast.Definition) []*ast.Definition {
	if g.o.Simple {
		if def.Kind == ast.Object {
			return []*ast.Definition{def}
		}
		return g.possible(def)
	}
	poss := map[string]bool{}
	for _, p := range g.possible(def) {
		poss[p.Name] = true
	}
	if def.Kind == ast.Object {
		poss[def.Name] = true
	}
	var out []*ast.Definition
	var names []string
	for n := range g.s.Types {
		names = append(names, n)
	}
	sort.Strings(names)
	for _, n := range names {
		c := g.s.Types[n]
		if strings.HasPrefix(n, "__") || c == g.s.Query || c == g.s.Mutation || c == g.s.Subscription {
			continue
		}
		switch c.Kind {
		case ast.Object:
			if poss[c.Name] {
				out = append(out, c)
			}
		case ast.Interface, ast.Union:
			if c.Kind == ast.Union && def != c && !g.o.Allow["union-spread-on-non-union"] {
				g.feat["excluded:union-spread-on-non-union"] = true
				continue
			}
			if def.Kind != ast.Object && def != c && !g.o.Allow["abstract-in-abstract"] {
				g.feat["excluded:abstract-in-abstract"] = true
				continue
			}
			for _, p := range g.possible(c) {
				if poss[p.Name] {
					out = append(out, c)
					break
				}
			}
		}
	}
	return out
}

func (g *gen) directive(label string) string {
	if g.o.NoDirectives || rapid.IntRange(0, 5).Draw(g.t, label+"dir") != 0 {
		return ""
	}
	name := "skip"
	if rapid.Bool().Draw(g.t, label+"dirn") {
		name = "include"
	}
	first := g.oneDirective(label, name)
	// @skip and @include together on one node (each at most once: they are not repeatable)
	// (not next to @defer: a third directive on the node makes normalization miss the use of a
	// variable in the later @skip/@include - finding C10-variable-unused-with-three-directives)
	if rapid.IntRange(0, 2).Draw(g.t, label+"dir2") == 0 && (!g.o.Defer || g.allow("three-directives-with-defer")) {
		other := "include"
		if name == "include" {
			other = "skip"
		}
		g.feat["two-directives-on-one-node"] = true
		return first + g.oneDirective(label+"2", other)
	}
	return first
}

func (g *gen) oneDirective(label, name string) string {
	if !g.o.NoVariables && rapid.IntRange(0, 2).Draw(g.t, label+"dirvar") == 0 {
		v := varDef{name: g.next("b"), typ: "Boolean!", present: true}
		b := rapid.Bool().Draw(g.t, label+"dirval")
		v.value = b
		if rapid.IntRange(0, 3).Draw(g.t, label+"dirdef") == 0 {
			v.typ = "Boolean"
			v.def = strconv.FormatBool(b)
			v.present = rapid.Bool().Draw(g.t, label+"dirpresent")
			g.feat["directive-var-default"] = true
		}
		for i := 0; i < g.o.AltVars; i++ {
			v.alts = append(v.alts, rapid.Bool().Draw(g.t, label+"diralt"+strconv.Itoa(i)))
		}
		g.vars = append(g.vars, v)
		g.feat["directive-variable"] = true
		return fmt.Sprintf(" @%s(if: $%s)", name, v.name)
	}
	g.feat["directive-literal"] = true
	return fmt.Sprintf(" @%s(if: %v)", name, rapid.Bool().Draw(g.t, label+"dirlit"))
}

func (g *gen) deferDir(label string) string {
	if !g.o.Defer || rapid.IntRange(0, 2).Draw(g.t, label+"defer") != 0 {
		return ""
	}
	if g.underRefinement > 0 && !g.allow("defer-under-abstract-refinement") {
		return ""
	}
	g.deferN++
	g.feat["defer"] = true
	switch rapid.IntRange(0, 6).Draw(g.t, label+"deferk") {
	case 0:
		if g.o.NoDeferLabels {
			break
		}
		g.feat["defer-label"] = true
		return fmt.Sprintf(" @defer(label: \"d%d\")", g.deferN)
	case 1:
		g.feat["defer-if-false"] = true
		return " @defer(if: false)"
	case 2:
		if g.o.NoDeferLabels {
			return " @defer(if: true)"
		}
		g.feat["defer-label"] = true
		return fmt.Sprintf(" @defer(if: true, label: \"d%d\")", g.deferN)
	case 3:
		if g.o.NoVariables {
			break
		}
		v := varDef{name: g.next("d"), typ: "Boolean!", present: true, value: rapid.Bool().Draw(g.t, label+"deferv")}
		g.vars = append(g.vars, v)
		g.feat["defer-if-variable"] = true
		return fmt.Sprintf(" @defer(if: $%s)", v.name)
	}
	return " @defer"
}

func (g *gen) selSet(def *ast.Definition, depth int, label string) string {
	return g.selSetX(def, depth, label, false)
}

// selSetX: inAbstractFragment is true for the body of a fragment whose type condition is an
// interface or union.
func (g *gen) selSetX(def *ast.Definition, depth int, label string, inAbstractFragment bool) string {
	return g.selSetL(def, depth, label, inAbstractFragment, nil)
}

// level tracks one response-object level (a field's selection set including all fragments
// spread into it): which composite response keys were already selected there.
type level struct {
	keys      map[string]bool     // Simple mode: response keys used at this level
	composite map[string][]string // composite response key → type contexts it was selected in (object type name, "*" for an abstract context)
	rootKind  ast.DefinitionKind
}

func (g *gen) selSetL(def *ast.Definition, depth int, label string, inAbstractFragment bool, lv *level) string {
	if lv == nil {
		lv = &level{composite: map[string][]string{}, keys: map[string]bool{}, rootKind: def.Kind}
	}
	var parts []string
	n := rapid.IntRange(1, 4).Draw(g.t, label+"n")
	fields := g.selectable(def)
	abstract := def.Kind == ast.Interface || def.Kind == ast.Union
	isRoot := def == g.s.Query || def == g.s.Mutation
	for i := 0; i < n; i++ {
		kind := rapid.IntRange(0, 11).Draw(g.t, label+"k")
		switch {
		case kind == 0 && !(isRoot && def == g.s.Mutation):
			s := "__typename"
			if rapid.IntRange(0, 5).Draw(g.t, label+"tal") == 0 && g.allow("typename-alias") {
				s = g.next("t") + ": __typename"
			}
			if (g.o.Simple || g.o.UniqueKeys) && s == "__typename" {
				if lv.keys[s] {
					continue
				}
				lv.keys[s] = true
			}
			parts = append(parts, s)
			g.feat["typename"] = true
		case (kind <= 3 && abstract || kind <= 2 && !isRoot) && depth < g.o.MaxDepth && g.budget > 0:
			if inAbstractFragment && !g.allow("fragment-in-abstract-fragment") {
				continue
			}
			targets := g.spreadTargets(def)
			if len(targets) == 0 {
				continue
			}
			target := targets[rapid.IntRange(0, len(targets)-1).Draw(g.t, label+"pt")]
			if target.Kind != ast.Object {
				g.feat["fragment-on-abstract"] = true
			}
			// dynamic scope: inside a type-refining fragment of an abstract-typed position
			refines := def.Kind != ast.Object && target != def
			if refines {
				g.underRefinement++
			}
			body := g.selSetL(target, depth+1, label+"f", target.Kind != ast.Object, lv)
			if refines {
				g.underRefinement--
			}
			switch rapid.IntRange(0, 3).Draw(g.t, label+"fragk") {
			case 0:
				name := g.next("F")
				g.frags = append(g.frags, fmt.Sprintf("fragment %s on %s %s", name, target.Name, body))
				parts = append(parts, "..."+name+g.directive(label+"fs")+g.deferDir(label+"fs"))
				g.feat["named-fragment"] = true
			case 1:
				if target == def {
					parts = append(parts, "..."+g.directive(label+"if")+g.deferDir(label+"if")+" "+body)
					g.feat["inline-no-condition"] = true
					continue
				}
				fallthrough
			default:
				parts = append(parts, fmt.Sprintf("... on %s%s%s %s", target.Name, g.directive(label+"if"), g.deferDir(label+"if"), body))
				g.feat["inline-fragment"] = true
			}
		default:
			if abstract && !inAbstractFragment && !g.o.Simple && !g.o.UniqueKeys && !g.o.Defer && !g.o.NoMirrored && depth+1 < g.o.MaxDepth && g.budget >= 3 &&
				rapid.IntRange(0, 3).Draw(g.t, label+"mir") == 0 {
				if m, ok := g.mirrored(def, depth, label, lv); ok {
					parts = append(parts, m)
					continue
				}
			}
			if len(fields) == 0 || g.budget <= 0 {
				if def != g.s.Mutation {
					parts = append(parts, "__typename")
				}
				continue
			}
			f := fields[rapid.IntRange(0, len(fields)-1).Draw(g.t, label+"fi")]
			ft := g.s.Types[f.Type.Name()]
			composite := ft.Kind == ast.Object || ft.Kind == ast.Interface || ft.Kind == ast.Union
			if composite && depth >= g.o.MaxDepth {
				continue
			}
			alias := ""
			if rapid.IntRange(0, 4).Draw(g.t, label+"al") == 0 {
				alias = g.next("a")
				g.feat["alias"] = true
			}
			if (g.o.Simple || g.o.UniqueKeys) && alias == "" {
				if lv.keys[f.Name] {
					continue
				}
				lv.keys[f.Name] = true
			}
			if composite && alias == "" {
				// a composite response key is selected at most once per response-object level
				// (across all fragments spread into it)
				// (across all fragments spread into it), except in fragments on different object
				// types of an abstract level, which can never apply to the same object
				ctxName := "*"
				if def.Kind == ast.Object && lv.rootKind != ast.Object {
					ctxName = def.Name
				}
				if prev := lv.composite[f.Name]; len(prev) > 0 && !g.allow("composite-key-in-multiple-fragments") {
					// also in fragments on different object types: with different sub-selections a
					// fetch planned below one branch runs for objects of the other (recorded finding
					// C01-composite-key-in-multiple-fragments, visible through err_ fields); only the
					// mirrored form (equal sub-selections, see mirrored) is generated
					continue
				}
				lv.composite[f.Name] = append(lv.composite[f.Name], ctxName)
			}
			g.budget--
			s := f.Name
			if len(f.Arguments) > 0 {
				if alias == "" {
					if txt, ok := g.argText[f.Name]; ok {
						s += txt
					} else {
						txt := g.args(f, label+"ar")
						g.argText[f.Name] = txt
						s += txt
					}
				} else {
					s += g.args(f, label+"ar")
				}
				g.feat["arguments"] = true
			}
			if alias != "" {
				s = alias + ": " + s
			}
			s += g.directive(label + "fd")
			if composite {
				s += " " + g.selSet(ft, depth+1, label+"s")
			}
			parts = append(parts, s)
			// duplicate / overlapping occurrence of the same response key
			if rapid.IntRange(0, 7).Draw(g.t, label+"dup") == 0 && !g.o.Simple && !g.o.UniqueKeys {
				if composite && alias == "" && g.budget > 0 && lv.rootKind == ast.Object && !inAbstractFragment && (ft.Kind == ast.Object || g.allow("overlapping-abstract-field")) {
					base := f.Name
					if len(f.Arguments) > 0 {
						base += g.argText[f.Name]
					}
					parts = append(parts, base+" "+g.selSet(ft, depth+1, label+"o"))
					g.feat["overlapping-field"] = true
				} else if !composite {
					parts = append(parts, s)
					g.feat["duplicate-field"] = true
				}
			}
		}
	}
	if len(parts) == 0 {
		if def == g.s.Mutation {
			f := fields[0]
			s := f.Name
			if len(f.Arguments) > 0 {
				s += g.args(f, label+"ar")
			}
			ft := g.s.Types[f.Type.Name()]
			if ft.Kind == ast.Object || ft.Kind == ast.Interface || ft.Kind == ast.Union {
				s += " { __typename }"
			}
			parts = append(parts, s)
		} else {
			parts = append(parts, "__typename")
		}
	}
	return "{ " + strings.Join(parts, " ") + " }"
}

// mirrored renders the same composite field with the same sub-selection inside fragments on
// two different object types of an abstract level: '... on A { f {…} } ... on B { f {…} }'.
// The two occurrences can never apply to the same object; below them the planner has equal
// fetches that differ only in the type condition of an enclosing path element.
func (g *gen) mirrored(def *ast.Definition, depth int, label string, lv *level) (string, bool) {
	var objs []*ast.Definition
	for _, o := range g.s.GetPossibleTypes(def) {
		if o.Kind == ast.Object {
			objs = append(objs, o)
		}
	}
	if len(objs) < 2 {
		return "", false
	}
	sort.Slice(objs, func(i, j int) bool { return objs[i].Name < objs[j].Name })
	i := rapid.IntRange(0, len(objs)-1).Draw(g.t, label+"ma")
	j := rapid.IntRange(0, len(objs)-2).Draw(g.t, label+"mb")
	if j >= i {
		j++
	}
	a, b := objs[i], objs[j]
	inB := map[string]*ast.FieldDefinition{}
	for _, f := range g.selectable(b) {
		inB[f.Name] = f
	}
	var common []*ast.FieldDefinition
	for _, fa := range g.selectable(a) {
		fb := inB[fa.Name]
		ft := g.s.Types[fa.Type.Name()]
		if fb == nil || ft == nil || fb.Type.String() != fa.Type.String() || len(fa.Arguments) > 0 || len(fb.Arguments) > 0 || len(lv.composite[fa.Name]) > 0 {
			continue
		}
		if ft.Kind == ast.Object || ft.Kind == ast.Interface || ft.Kind == ast.Union {
			common = append(common, fa)
		}
	}
	if len(common) == 0 {
		return "", false
	}
	f := common[rapid.IntRange(0, len(common)-1).Draw(g.t, label+"mf")]
	g.budget -= 2
	g.underRefinement++
	sub := g.selSet(g.s.Types[f.Type.Name()], depth+2, label+"ms")
	g.underRefinement--
	lv.composite[f.Name] = append(lv.composite[f.Name], a.Name, b.Name)
	g.feat["mirrored-fragments"] = true
	return fmt.Sprintf("... on %s { %s %s } ... on %s { %s %s }", a.Name, f.Name, sub, b.Name, f.Name, sub), true
}

// args renders an argument list for field f: each argument literal, variable or omitted.
func (g *gen) args(f *ast.FieldDefinition, label string) string {
	var parts []string
	for _, a := range f.Arguments {
		required := a.Type.NonNull && a.DefaultValue == nil
		if !required && rapid.IntRange(0, 2).Draw(g.t, label+"omit") == 0 {
			continue
		}
		parts = append(parts, a.Name+": "+g.argValue(a.Type, a.DefaultValue != nil, label+a.Name))
	}
	if len(parts) == 0 {
		return ""
	}
	return "(" + strings.Join(parts, ", ") + ")"
}

// argValue renders a value for a position of type t: a literal or a fresh variable.
func (g *gen) argValue(t *ast.Type, locationHasDefault bool, label string) string {
	if !g.o.NoVariables && rapid.IntRange(0, 2).Draw(g.t, label+"asvar") == 0 {
		return "$" + g.variable(t, false, label)
	}
	lit, _ := g.value(t, 0, label, true, "arg")
	return lit
}

// variable declares a fresh variable usable in a position of type t and returns its name.
func (g *gen) variable(t *ast.Type, nested bool, label string) string {
	v := varDef{name: g.varName(nested), present: true}
	vt := *t
	// a nullable position also accepts a non-null variable
	if !vt.NonNull && rapid.IntRange(0, 3).Draw(g.t, label+"vnn") == 0 {
		vt.NonNull = true
	}
	v.typ = vt.String()
	lit, val := g.value(&vt, 0, label+"vv", false, "var")
	v.value = val
	switch {
	case !vt.NonNull && rapid.IntRange(0, 3).Draw(g.t, label+"vdef") == 0:
		// default value; the variable itself may then be omitted
		v.def, _ = g.value(&vt, 0, label+"vd", false, "default")
		_ = lit
		g.feat["variable-default"] = true
		if rapid.Bool().Draw(g.t, label+"vomit") && (!nested || g.allow("default-omitted-nested")) && !g.o.NoOmittedVars {
			v.present = false
			g.feat["variable-omitted-with-default"] = true
			if nested {
				g.feat["default-omitted-nested"] = true
			}
		} else {
			_, v.value = g.value(&vt, 0, label+"vv2", false, "var")
		}
	case !vt.NonNull && rapid.IntRange(0, 5).Draw(g.t, label+"vabs") == 0 && !g.o.NoOmittedVars:
		v.present = false
		g.feat["variable-omitted"] = true
	}
	for i := 0; i < g.o.AltVars; i++ {
		_, av := g.value(&vt, 0, label+"alt"+strconv.Itoa(i), false, "var")
		v.alts = append(v.alts, av)
	}
	g.vars = append(g.vars, v)
	return v.name
}

var strPool = []string{"", "a", "hello world", "é😀", "q\"uote", "back\\slash", "line\nbreak", "tab\t", "x y z", "{}", "null", "$v", "1"}

func quote(s string) string {
	var sb strings.Builder
	sb.WriteByte('"')
	for _, r := range s {
		switch r {
		case '"':
			sb.WriteString(`\"`)
		case '\\':
			sb.WriteString(`\\`)
		case '\n':
			sb.WriteString(`\n`)
		case '\t':
			sb.WriteString(`\t`)
		default:
			sb.WriteRune(r)
		}
	}
	sb.WriteByte('"')
	return sb.String()
}

// value draws a value of input type t: its literal spelling and the JSON value it denotes
// (as Go data for json.Marshal). allowVars lets input-object fields be variables.
func (g *gen) value(t *ast.Type, depth int, label string, allowVars bool, place string) (string, any) {
	if !t.NonNull && rapid.IntRange(0, 7).Draw(g.t, label+"null") == 0 && (place != "default" || t.Elem == nil || g.allow("null-default-list")) {
		g.feat["null-input"] = true
		return "null", nil
	}
	if t.Elem != nil {
		if rapid.IntRange(0, 9).Draw(g.t, label+"single") == 0 && t.Elem.Elem == nil && !strings.HasSuffix(place, "/item") {
			// list coercion of a single non-list value (spec §3.11 input coercion); only for
			// flat lists that are not themselves list items (the spec editions disagree there)
			// a field of an input object that is itself a list item counts as nested
			cls := "single@" + strings.Replace(place, "/item-nested", "-nested", 1)
			if !g.o.NoSingle[cls] && (cls != "single@default-nested" || g.allow(cls)) {
				et := *t.Elem
				et.NonNull = true
				lit, v := g.value(&et, depth+1, label+"e", allowVars, place+"/item")
				g.feat[cls] = true
				return lit, v
			}
			g.feat["excluded:"+cls] = true
		}
		n := rapid.IntRange(0, 3).Draw(g.t, label+"len")
		lits := make([]string, 0, n)
		vals := make([]any, 0, n)
		for i := 0; i < n; i++ {
			lit, v := g.value(t.Elem, depth+1, label+"e", false, place+"/item")
			lits = append(lits, lit)
			vals = append(vals, v)
		}
		return "[" + strings.Join(lits, ", ") + "]", vals
	}
	def := g.s.Types[t.NamedType]
	switch def.Kind {
	case ast.Enum:
		ev := def.EnumValues[rapid.IntRange(0, len(def.EnumValues)-1).Draw(g.t, label+"enum")].Name
		return ev, ev
	case ast.InputObject:
		g.feat["input-object"] = true
		var lits []string
		m := map[string]any{}
		for _, f := range def.Fields {
			required := f.Type.NonNull && f.DefaultValue == nil
			if !required && (depth >= 2 || rapid.IntRange(0, 1).Draw(g.t, label+"fomit") == 0) {
				continue
			}
			if allowVars && !g.o.NoVariables && rapid.IntRange(0, 4).Draw(g.t, label+"fvar") == 0 && (!g.o.NoVarInObject || g.allow("variable-in-input-object")) {
				name := g.variable(f.Type, true, label+f.Name)
				lits = append(lits, f.Name+": $"+name)
				m[f.Name] = "$" + name // only the literal is used when variables are mixed in
				g.feat["variable-in-input-object"] = true
				continue
			}
			fplace := place
			if !strings.HasSuffix(fplace, "-nested") {
				fplace += "-nested"
			}
			lit, v := g.value(f.Type, depth+1, label+f.Name, allowVars, fplace)
			lits = append(lits, f.Name+": "+lit)
			m[f.Name] = v
		}
		return "{" + strings.Join(lits, ", ") + "}", m
	}
	switch def.Name {
	case "Int":
		n := rapid.SampledFrom([]int{0, 1, -1, 3, 7, 42, -50, 2147483647, -2147483647, -2147483648}).Draw(g.t, label+"int")
		if n == -2147483648 && !g.allow("int-min") {
			n = -2147483647
		}
		return strconv.Itoa(n), n
	case "Float":
		f := rapid.SampledFrom([]string{"0.5", "-1.25", "3", "100.125", "0", "-7"}).Draw(g.t, label+"float")
		return f, json.Number(f)
	case "String":
		s := rapid.SampledFrom(strPool).Draw(g.t, label+"str")
		return quote(s), s
	case "ID":
		if rapid.IntRange(0, 3).Draw(g.t, label+"idint") == 0 {
			n := rapid.IntRange(0, 99).Draw(g.t, label+"idn")
			return strconv.Itoa(n), strconv.Itoa(n)
		}
		s := "id" + strconv.Itoa(rapid.IntRange(0, 9).Draw(g.t, label+"ids"))
		return quote(s), s
	case "Boolean":
		b := rapid.Bool().Draw(g.t, label+"bool")
		return strconv.FormatBool(b), b
	default: // custom scalar: any JSON
		switch rapid.IntRange(0, 4).Draw(g.t, label+"custom") {
		case 0:
			return `"cs"`, "cs"
		case 1:
			return "12", 12
		case 2:
			return `{k: [1, "v"], n: null}`, map[string]any{"k": []any{1, "v"}, "n": nil}
		case 3:
			return `[true, 1.5]`, []any{true, json.Number("1.5")}
		}
		return "true", true
	}
}
