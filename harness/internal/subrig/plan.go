//go:build verif

package subrig

import (
	"context"
	"fmt"
	"sync"
	"time"

	"github.com/wundergraph/graphql-go-tools/v2/pkg/engine/resolve"
)

func static(s string) resolve.InputTemplate {
	return resolve.InputTemplate{Segments: []resolve.TemplateSegment{{SegmentType: resolve.StaticSegmentType, Data: []byte(s)}}}
}

func inK(vals ...string) resolve.SubscriptionFilter {
	f := &resolve.SubscriptionFieldFilter{FieldPath: []string{"data", "k"}}
	for _, v := range vals {
		f.Values = append(f.Values, static(v))
	}
	return resolve.SubscriptionFilter{In: f}
}

// BuildFilter returns the resolve filter of a filter kind.
func BuildFilter(kind string) *resolve.SubscriptionFilter {
	switch kind {
	case FIn0:
		f := inK("0")
		return &f
	case FIn1:
		f := inK("1")
		return &f
	case FIn01:
		f := inK("0", "1")
		return &f
	case FArr01:
		f := inK("[0,1]")
		return &f
	case FNot0:
		f := inK("0")
		return &resolve.SubscriptionFilter{Not: &f}
	case FAndOr:
		one := inK("1")
		return &resolve.SubscriptionFilter{And: []resolve.SubscriptionFilter{
			{Or: []resolve.SubscriptionFilter{inK("0"), inK("1")}},
			{Not: &one},
		}}
	case FBroken:
		f := inK("[0][1]")
		return &f
	}
	return nil
}

// FilterPasses is the independent reading of the filter kinds for a well-formed event with
// data.k == k. ok is false where the rig has no independent opinion (FBroken).
func FilterPasses(kind string, k int) (pass, ok bool) {
	switch kind {
	case FNone:
		return true, true
	case FIn0, FAndOr:
		return k == 0, true
	case FIn1:
		return k == 1, true
	case FIn01, FArr01:
		return k == 0 || k == 1, true
	case FNot0:
		return k != 0, true
	}
	return false, false
}

// InputOf is the trigger input rendered for a key.
func InputOf(key int) string { return fmt.Sprintf(`{"q":%q}`, Keys[key].Input) }

// BuildPlan builds the subscription plan of a subscriber.
func BuildPlan(src resolve.SubscriptionDataSource, key int, shape int, filter string) *resolve.GraphQLSubscription {
	var fields []*resolve.Field
	switch shape {
	case 1:
		fields = []*resolve.Field{
			{Name: []byte("counter"), Value: &resolve.Integer{Path: []string{"counter"}}},
			{Name: []byte("tag"), Value: &resolve.String{Path: []string{"tag"}, Nullable: true}},
		}
	case 2:
		fields = []*resolve.Field{
			{Name: []byte("tag"), Value: &resolve.String{Path: []string{"tag"}}},
		}
	default:
		fields = []*resolve.Field{
			{Name: []byte("counter"), Value: &resolve.Integer{Path: []string{"counter"}}},
		}
	}
	return &resolve.GraphQLSubscription{
		Trigger: resolve.GraphQLSubscriptionTrigger{
			Source:         src,
			SourceName:     "src",
			InputTemplate:  static(InputOf(key)),
			PostProcessing: resolve.PostProcessingConfiguration{SelectResponseDataPath: []string{"data"}, SelectResponseErrorsPath: []string{"errors"}},
		},
		Response: &resolve.GraphQLResponse{
			Data:    &resolve.Object{Fields: fields},
			Fetches: resolve.Sequence(),
		},
		Filter: BuildFilter(filter),
	}
}

// Shapes is the number of response shapes BuildPlan knows.
const Shapes = 3

// Item is one finished writer item of a subscriber, as the oracle compares it.
type Item struct {
	Kind string // "msg" (Write*+Flush by the resolver), "errmsg" (Write+Flush by the AsyncErrorWriter), complete, error, heartbeat
	Data string
}

const (
	IMsg    = "msg"
	IErrMsg = "errmsg"
)

func (i Item) String() string {
	if i.Data == "" {
		return i.Kind
	}
	return i.Kind + ":" + i.Data
}

// ---- the "alone" oracle ---------------------------------------------------------------

type soloKey struct {
	shape   int
	filter  string
	payload string
}

var (
	soloMu    sync.Mutex
	soloCache = map[soloKey][]Item{}
	// SoloRuns counts the solo renders actually executed (cache misses).
	SoloRuns int
)

// Solo returns what one upstream message produces for a subscriber with this shape and filter
// when it is the only subscriber of a fresh resolver: the statement's "the response the same
// event would produce for that subscriber alone". Results are cached per process (they are a
// pure function of the arguments).
func Solo(shape int, filter, payload string) []Item {
	k := soloKey{shape, filter, payload}
	soloMu.Lock()
	if v, ok := soloCache[k]; ok {
		soloMu.Unlock()
		return v
	}
	soloMu.Unlock()
	v := soloRun(shape, filter, payload)
	soloMu.Lock()
	soloCache[k] = v
	SoloRuns++
	soloMu.Unlock()
	return v
}

func soloRun(shape int, filter, payload string) []Item {
	// the yield handler of a rig that may be active ignores everything while this resolver runs
	soloBusy.Store(true)
	defer soloBusy.Store(false)
	bus := newBus()
	clock := &Clock{}
	rep := &Reporter{bus: bus}
	src := &Source{bus: bus, clock: clock, startMode: func(int) string { return StartOK }, hookMode: func(int) string { return HookNone }}
	ctx, cancel := context.WithCancel(context.Background())
	defer cancel()
	r := resolve.New(ctx, resolve.ResolverOptions{MaxConcurrency: 4, Reporter: rep, AsyncErrorWriter: errorWriter{}, SubscriptionHeartbeatInterval: time.Hour})
	w := &Writer{Sub: 0, clock: clock, bus: bus}
	rc := resolve.NewContext(context.WithValue(context.Background(), subKey{}, 0))
	id := resolve.SubscriptionIdentifier{ConnectionID: resolve.NewConnectionID(), SubscriptionID: 1}
	if err := r.AsyncResolveGraphQLSubscription(rc, BuildPlan(src, 0, shape, filter), w, id); err != nil {
		panic("solo subscribe: " + err.Error())
	}
	if !bus.Wait(30*time.Second, func() bool { return rep.TrigInc.Load() == 1 }) {
		panic("solo: trigger never initialised")
	}
	up := src.Starts()[0].Updater
	up.Update([]byte(payload))
	_ = r.UnsubscribeSubscription(id)
	up.Done()
	calls, _ := w.Snapshot()
	return ItemsOf(calls)
}

// ItemsOf condenses a writer log to its items.
func ItemsOf(calls []Call) []Item {
	var out []Item
	for _, c := range calls {
		switch c.Kind {
		case CWrite:
		case CFlush:
			k := IMsg
			if c.ViaErr {
				k = IErrMsg
			}
			out = append(out, Item{Kind: k, Data: c.Data})
		default:
			out = append(out, Item{Kind: c.Kind, Data: c.Data})
		}
	}
	return out
}
