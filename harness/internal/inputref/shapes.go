package inputref

// Shape predicates over (type, value) pairs used by the recognisers of recorded findings in
// the C06 and C15 checks. They describe inputs, never outcomes.

// ScalarAtInputPosition: inside v (typed t) a position of input object type holds a number,
// boolean or string. Default injection fails on such a position with an internal error,
// which the list walker swallows while skipping the element.
func ScalarAtInputPosition(s *Schema, t *Type, v *Value, depth int) bool {
	if v == nil || v.K == VNull || depth > 12 {
		return false
	}
	if t.Elem != nil {
		if v.K != VList {
			return ScalarAtInputPosition(s, t.Elem, v, depth+1)
		}
		for _, x := range v.L {
			if ScalarAtInputPosition(s, t.Elem, x, depth+1) {
				return true
			}
		}
		return false
	}
	if s.KindOf(t.Name) != KindInput {
		return false
	}
	if v.K == VNum || v.K == VBool || v.K == VStr {
		return true
	}
	if v.K == VObj {
		for _, f := range s.Input(t.Name).Fields {
			if ScalarAtInputPosition(s, f.T(), v.Get(f.Name), depth+1) {
				return true
			}
		}
	}
	return false
}

// ShiftShape: somewhere in the value (including schema defaults that get injected) there is a
// list whose innermost type is an input object and that has an element the default-injection
// walker skips (a non-object, null in a list of lists, or an element on which injection fails)
// before an element it rewrites.
func ShiftShape(s *Schema, t *Type, v *Value, depth int) bool {
	if v == nil || v.K == VNull || depth > 12 {
		return false
	}
	if t.Elem != nil {
		if v.K != VList {
			return ShiftShape(s, t.Elem, v, depth+1)
		}
		if s.KindOf(t.Base()) == KindInput {
			skipped := false
			for _, x := range v.L {
				match := x.K == VObj
				if t.Elem.Elem != nil {
					match = x.K != VNull
				}
				if match && skipped {
					return true
				}
				if !match || ScalarAtInputPosition(s, t.Elem, x, depth+1) {
					skipped = true
				}
			}
		}
		for _, x := range v.L {
			if ShiftShape(s, t.Elem, x, depth+1) {
				return true
			}
		}
		return false
	}
	if s.KindOf(t.Name) == KindInput && v.K == VObj {
		for _, f := range s.Input(t.Name).Fields {
			fv := v.Get(f.Name)
			if fv == nil && f.HasDefault() {
				fv, _ = ParseLiteral(f.Default, LexOpts{})
			}
			if fv != nil && ShiftShape(s, f.T(), fv, depth+1) {
				return true
			}
		}
	}
	return false
}

// LiteralNeedsListCoercion: the literal has, at some level, a single non-null value where the type
// is a list.
func LiteralNeedsListCoercion(s *Schema, t *Type, lit *Value, depth int) bool {
	if lit == nil || lit.K == VNull || lit.K == VVar || depth > 12 {
		return false
	}
	if t.Elem != nil {
		if lit.K != VList {
			return true
		}
		for _, x := range lit.L {
			if LiteralNeedsListCoercion(s, t.Elem, x, depth+1) {
				return true
			}
		}
		return false
	}
	if s.KindOf(t.Name) == KindInput && lit.K == VObj {
		for _, f := range s.Input(t.Name).Fields {
			if LiteralNeedsListCoercion(s, f.T(), lit.Get(f.Name), depth+1) {
				return true
			}
		}
	}
	return false
}

// ObjectInEnumList: a list whose innermost type is an enum has (after list coercion) an
// object element.
func ObjectInEnumList(s *Schema, t *Type, v *Value, inEnumList bool, depth int) bool {
	if v == nil || v.K == VNull || depth > 12 {
		return false
	}
	if t.Elem != nil {
		enumList := s.KindOf(t.Base()) == KindEnum
		if v.K != VList {
			return ObjectInEnumList(s, t.Elem, v, enumList, depth+1)
		}
		for _, x := range v.L {
			if ObjectInEnumList(s, t.Elem, x, enumList, depth+1) {
				return true
			}
		}
		return false
	}
	switch s.KindOf(t.Name) {
	case KindEnum:
		return inEnumList && v.K == VObj
	case KindInput:
		if v.K == VObj {
			for _, f := range s.Input(t.Name).Fields {
				if ObjectInEnumList(s, f.T(), v.Get(f.Name), false, depth+1) {
					return true
				}
			}
		}
	}
	return false
}

// JSONNeedsListCoercion: the JSON value has a single non-null value where the type is a list.
func JSONNeedsListCoercion(s *Schema, t *Type, v *Value, depth int) bool {
	if v == nil || v.K == VNull || depth > 12 {
		return false
	}
	if t.Elem != nil {
		if v.K != VList {
			return true
		}
		for _, x := range v.L {
			if JSONNeedsListCoercion(s, t.Elem, x, depth+1) {
				return true
			}
		}
		return false
	}
	if s.KindOf(t.Name) == KindInput && v.K == VObj {
		for _, f := range s.Input(t.Name).Fields {
			if JSONNeedsListCoercion(s, f.T(), v.Get(f.Name), depth+1) {
				return true
			}
		}
	}
	return false
}

// ReachableInputs returns the input object types reachable from the given types.
func ReachableInputs(s *Schema, roots []*Type) map[string]bool {
	seen := map[string]bool{}
	var visit func(name string)
	visit = func(name string) {
		if seen[name] || s.KindOf(name) != KindInput {
			return
		}
		seen[name] = true
		for _, f := range s.Input(name).Fields {
			visit(f.T().Base())
		}
	}
	for _, t := range roots {
		visit(t.Base())
	}
	return seen
}

// FieldDefaultNeedsListCoercion: an input field default of one of the given input types
// relies on list coercion (single value where the type is a list).
func FieldDefaultNeedsListCoercion(s *Schema, inputs map[string]bool) bool {
	for _, in := range s.Inputs {
		if !inputs[in.Name] {
			continue
		}
		for _, f := range in.Fields {
			if f.HasDefault() {
				if lit, err := ParseLiteral(f.Default, LexOpts{}); err == nil && LiteralNeedsListCoercion(s, f.T(), lit, 0) {
					return true
				}
			}
		}
	}
	return false
}
