package c04

import (
	"fmt"
	"os"
	"runtime/debug"
	"strings"

	"github.com/vektah/gqlparser/v2/ast"
	"github.com/vektah/gqlparser/v2/gqlerror"
	"github.com/vektah/gqlparser/v2/parser"
	"github.com/vektah/gqlparser/v2/validator"
	vrules "github.com/vektah/gqlparser/v2/validator/rules"

	"github.com/wundergraph/graphql-go-tools/execution/graphql"
	"github.com/wundergraph/graphql-go-tools/v2/pkg/astnormalization"
	"github.com/wundergraph/graphql-go-tools/v2/pkg/astvalidation"

	"verif/harness/internal/opgen"
)

// subscriptionSDL is appended to every generated schema so the subscription rule is reachable.
const subscriptionSDL = "\ntype Subscription { subA: Int subB(first: Int = 3): String subE: Node }\n"

// admitted runs the documented admission sequence: Normalize with the Execute option set,
// then ValidateForSchema. It reports accept/reject and the rejection (or a panic).
func admitted(schema *graphql.Schema, op opgen.Op) (ok bool, why string, panicked string) {
	defer func() {
		if p := recover(); p != nil {
			ok, panicked = false, fmt.Sprintf("%v\n%s", p, debug.Stack())
		}
	}()
	req := graphql.Request{Query: op.Query, OperationName: op.OperationName}
	if v := op.VarsJSON(); v != "" {
		req.Variables = []byte(v)
	}
	res, err := req.Normalize(schema,
		astnormalization.WithRemoveFragmentDefinitions(),
		astnormalization.WithRemoveUnusedVariables(),
		astnormalization.WithInlineFragmentSpreads(),
		astnormalization.WithEnableDefer(),
		astnormalization.WithPrevalidationRules(
			astvalidation.DeferStreamOnValidOperations(),
			astvalidation.DeferStreamHaveUniqueLabels(),
			astvalidation.DirectivesAreInValidLocations(),
			astvalidation.StreamAppliedToListFieldsOnly()),
	)
	if err != nil {
		return false, "normalize: " + err.Error(), ""
	}
	if !res.Successful {
		return false, "normalize: " + res.Errors.Error(), ""
	}
	vr, err := req.ValidateForSchema(schema)
	if err != nil {
		return false, "validate: " + err.Error(), ""
	}
	if !vr.Valid {
		return false, "validate: " + vr.Errors.Error(), ""
	}
	return true, "", ""
}

var (
	rulesReachable = func() *vrules.Rules {
		r := vrules.NewDefaultRules()
		r.RemoveRule("NoUnusedFragments")
		r.RemoveRule("MaxIntrospectionDepth")
		return r
	}()
)

// reachable returns the selected operation plus the fragments it reaches (nil when the
// operation cannot be selected).
func reachable(doc *ast.QueryDocument, opName string) *ast.QueryDocument {
	var op *ast.OperationDefinition
	for _, o := range doc.Operations {
		if o.Name == opName || (opName == "" && len(doc.Operations) == 1) {
			op = o
			break
		}
	}
	if op == nil {
		return nil
	}
	out := &ast.QueryDocument{Operations: ast.OperationList{op}}
	seen := map[string]bool{}
	var walk func(set ast.SelectionSet)
	walk = func(set ast.SelectionSet) {
		for _, s := range set {
			switch x := s.(type) {
			case *ast.Field:
				walk(x.SelectionSet)
			case *ast.InlineFragment:
				walk(x.SelectionSet)
			case *ast.FragmentSpread:
				if seen[x.Name] {
					continue
				}
				seen[x.Name] = true
				// every definition of that name is reachable (duplicate names are a reachable error)
				for _, fd := range doc.Fragments {
					if fd.Name == x.Name {
						out.Fragments = append(out.Fragments, fd)
						walk(fd.SelectionSet)
					}
				}
			}
		}
	}
	walk(op.SelectionSet)
	return out
}

type verdict struct {
	parseErr   bool
	selectable bool
	reachValid bool          // the reachable part satisfies every rule
	restValid  bool          // the whole document does (unused fragments allowed)
	errs       gqlerror.List // errors of the reachable part
}

// specVerdict is gqlparser's opinion.
func specVerdict(schema *ast.Schema, op opgen.Op) verdict {
	doc, perr := parser.ParseQuery(&ast.Source{Input: op.Query})
	if perr != nil {
		return verdict{parseErr: true}
	}
	v := verdict{}
	rdoc := reachable(doc, op.OperationName)
	if rdoc == nil {
		return v
	}
	v.selectable = true
	// validation mutates the AST (attaches definitions): validate fresh parses
	full, _ := parser.ParseQuery(&ast.Source{Input: op.Query})
	v.restValid = len(validator.ValidateWithRules(schema, full, rulesReachable)) == 0
	again, _ := parser.ParseQuery(&ast.Source{Input: op.Query})
	rdoc = reachable(again, op.OperationName)
	v.errs = validator.ValidateWithRules(schema, rdoc, rulesReachable)
	v.reachValid = len(v.errs) == 0
	return v
}

func firstLine(s string) string {
	s = strings.SplitN(s, "\n", 2)[0]
	if len(s) > 160 {
		s = s[:160]
	}
	return s
}

func allowEnv() map[string]bool {
	m := map[string]bool{}
	for _, c := range strings.Split(os.Getenv("C04_ALLOW"), ",") {
		if c != "" {
			m[c] = true
		}
	}
	return m
}
