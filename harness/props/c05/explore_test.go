package c05

import (
	"encoding/json"
	"fmt"
	"os"
	"regexp"
	"sort"
	"strconv"
	"testing"

	"pgregory.net/rapid"

	"verif/harness/pbt"
)

var reQuoted = regexp.MustCompile(`"(\\.|[^"\\])*"…?`)
var rePath = regexp.MustCompile(`at /[^: ]*/([a-z-]+):`)
var reNum = regexp.MustCompile(`[0-9]+`)

// TestExplore (development aid, VERIF_EXPLORE=n): runs n examples of each generator through
// its check without stopping at the first failure and tallies the outcomes.
func TestExplore(t *testing.T) {
	n, _ := strconv.Atoi(os.Getenv("VERIF_EXPLORE"))
	if n == 0 {
		t.Skip()
	}
	off, _ := strconv.Atoi(os.Getenv("VERIF_EXPLORE_OFFSET"))
	show, _ := strconv.Atoi(os.Getenv("VERIF_EXPLORE_SHOW"))
	if show == 0 {
		show = 2
	}
	tally := map[string]int{}
	examples := map[string][]string{}
	note := func(part string, v pbt.Verdict) {
		if v.Msg == "" {
			tally[part+" ok"]++
			return
		}
		key := part + " FAIL "
		if v.Finding != "" {
			key += "[" + v.Finding + "] "
		}
		m := reQuoted.ReplaceAllString(v.Msg, "…")
		m = reNum.ReplaceAllString(m, "N")
		m = rePath.ReplaceAllString(m, "at PATH/$1:")
		if len(m) > 110 {
			m = m[:110]
		}
		key += m
		tally[key]++
		if len(examples[key]) < show {
			examples[key] = append(examples[key], v.Msg)
		}
	}
	which := os.Getenv("VERIF_EXPLORE_PART")
	debugDiscard = func(reason, detail string) {
		m := reQuoted.ReplaceAllString(detail, "…")
		m = reNum.ReplaceAllString(m, "N")
		m = rePath.ReplaceAllString(m, "at PATH/$1:")
		if len(m) > 110 {
			m = m[:110]
		}
		key := "docs DISCARD " + reason + " " + m
		tally[key]++
		if len(examples[key]) < show {
			examples[key] = append(examples[key], detail)
		}
	}
	for i := off; i < off+n; i++ {
		if which == "" || which == "docs" {
			c := rapid.Custom(genDoc).Example(i)
			rec := &pbt.Rec{}
			func() {
				defer func() {
					if p := recover(); p != nil {
						note("docs", pbt.Bad("PANIC %v on %q", p, c.Src))
					}
				}()
				note("docs", checkDoc(c, rec))
			}()
		}
		if which == "" || which == "bytes" {
			c := rapid.Custom(genBytes).Example(i)
			rec := &pbt.Rec{}
			func() {
				defer func() {
					if p := recover(); p != nil {
						note("bytes", pbt.Bad("PANIC %v on %q", p, c.In))
					}
				}()
				note("bytes", checkBytes(c, rec))
			}()
		}
		if which == "" || which == "limits" {
			c := rapid.Custom(genLimits).Example(i)
			rec := &pbt.Rec{}
			note("limits", checkLimitsCase(c, rec))
		}
	}
	keys := make([]string, 0, len(tally))
	for k := range tally {
		keys = append(keys, k)
	}
	sort.Strings(keys)
	for _, k := range keys {
		fmt.Printf("%7d  %s\n", tally[k], k)
		for _, e := range examples[k] {
			fmt.Printf("           e.g. %s\n", e)
		}
	}
	fmt.Printf("docs differential cases %d, dropped %d\n", docsChecked.Load(), docsDiscarded.Load())
}

// TestRegressVerdicts (development aid, VERIF_EXPLORE_REGRESS=1): prints the raw verdict of
// every saved regression case (before known-finding suppression).
func TestRegressVerdicts(t *testing.T) {
	if os.Getenv("VERIF_EXPLORE_REGRESS") == "" {
		t.Skip()
	}
	for _, f := range pbt.RegressFiles("C05") {
		rf, err := pbt.LoadReplay(f)
		if err != nil {
			t.Fatal(err)
		}
		var v pbt.Verdict
		switch rf.Part {
		case "bytes-total":
			var c bytesCase
			if err := json.Unmarshal(rf.Case, &c); err != nil {
				t.Fatal(f, err)
			}
			v = checkBytes(c, &pbt.Rec{})
		case "docs-roundtrip":
			var c docCase
			if err := json.Unmarshal(rf.Case, &c); err != nil {
				t.Fatal(f, err)
			}
			v = checkDoc(c, &pbt.Rec{})
		case "limits":
			var c limitsCase
			if err := json.Unmarshal(rf.Case, &c); err != nil {
				t.Fatal(f, err)
			}
			v = checkLimitsCase(c, &pbt.Rec{})
		}
		m := v.Msg
		if len(m) > 160 {
			m = m[:160]
		}
		fmt.Printf("%-45s [%s] %s\n", f[len("/verif/regress/C05/"):], v.Finding, m)
	}
}
