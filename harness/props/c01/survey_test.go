package c01

import (
	"fmt"
	"os"
	"sort"
	"strings"
	"testing"

	"pgregory.net/rapid"

	"verif/harness/internal/kit"
	"verif/harness/pbt"
)

// TestSurvey (SURVEY=1) runs generated cases without stopping at failures and prints the
// failure landscape grouped by first line; a calibration aid, not a check.
func TestSurvey(t *testing.T) {
	if os.Getenv("SURVEY") == "" {
		t.Skip("calibration only")
	}
	groups := map[string][]string{}
	featStats := map[string][2]int{}
	total, bad := 0, 0
	rapid.Check(t, func(rt *rapid.T) {
		c := genFed(rt)
		gw, err := kit.New(c.Layout, c.Seed, kit.EngineOptions{})
		if err != nil {
			groups["engine: "+err.Error()] = append(groups["engine: "+err.Error()], "")
			return
		}
		defer gw.Close()
		for i, op := range c.Ops {
			total++
			v := checkOne(gw, c, i, op, pbt.NewRec())
			for _, f := range append(append([]string{}, op.Features...), prefixAll("L:", c.Layout.Features)...) {
				st := featStats[f]
				st[0]++
				if v.Msg != "" {
					st[1]++
				}
				featStats[f] = st
			}
			if v.Msg != "" {
				bad++
				first := strings.SplitN(v.Msg, "\n", 2)[0]
				if len(first) > 110 {
					first = first[:110]
				}
				if v.Finding != "" {
					first = "[" + v.Finding + "] " + first
				}
				groups[first] = append(groups[first], op.Query+"   VARS "+op.VarsJSON())
				if d := os.Getenv("SURVEY_DIR"); d != "" {
					_ = os.MkdirAll(d, 0o755)
					_ = os.WriteFile(fmt.Sprintf("%s/%03d.txt", d, bad), []byte(v.Msg+"\n\nSUPER:\n"+c.Layout.Super), 0o644)
				}
			}
		}
	})
	var fk []string
	for f := range featStats {
		fk = append(fk, f)
	}
	sort.Slice(fk, func(i, j int) bool {
		a, b := featStats[fk[i]], featStats[fk[j]]
		return float64(a[1])/float64(a[0]) > float64(b[1])/float64(b[0])
	})
	for _, f := range fk {
		fmt.Printf("FEATURE %-40s n=%6d fail=%5d rate=%.4f\n", f, featStats[f][0], featStats[f][1], float64(featStats[f][1])/float64(featStats[f][0]))
	}
	keys := make([]string, 0, len(groups))
	for k := range groups {
		keys = append(keys, k)
	}
	sort.Slice(keys, func(i, j int) bool { return len(groups[keys[i]]) > len(groups[keys[j]]) })
	fmt.Printf("SURVEY total ops %d, failing %d\n", total, bad)
	for _, k := range keys {
		fmt.Printf("== %d × %s\n", len(groups[k]), k)
		ex := groups[k]
		sort.Slice(ex, func(i, j int) bool { return len(ex[i]) < len(ex[j]) })
		for i := 0; i < len(ex) && i < 3; i++ {
			fmt.Printf("     %s\n", ex[i])
		}
	}
}

func prefixAll(p string, in []string) []string {
	out := make([]string, len(in))
	for i, s := range in {
		out[i] = p + s
	}
	return out
}
