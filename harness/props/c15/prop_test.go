package c15

import (
	"fmt"
	"strings"
	"testing"

	ir "verif/harness/internal/inputref"
	"verif/harness/pbt"
)

var forwardPart = pbt.Part[Case]{Name: "forward", Quick: 100000, Thorough: 2000000, Gen: genCase, Check: checkCase}

// TestProp is the entry point the driver runs in every shard.
func TestProp(t *testing.T) {
	r := pbt.Start(t, "C15")
	defer r.Finish()
	r.Rule("forward: generated schema with echo fields x 1-3 selected fields whose argument is a literal (every string escape, raw non-ASCII, block strings, ints, floats in exponent/long forms, enums, nested lists/objects with variables inside), a JSON variable (omitted / explicit null / defaults) or not given; non-trivial when a literal or the variables contain an escape, an indented block string, a number that is not a small int, or nesting depth >= 2; distinct by operation+variables text")
	r.Assume("the value of a literal comes from the spec decoder in harness/internal/inputref (validated on the spec's examples); gqlparser is only a logged second opinion",
		"values are compared after reference input coercion at the argument's type (list coercion, input field defaults, ID as string, numbers as exact decimals)",
		"the upstream request is evaluated by this harness: CoerceVariableValues on the upstream operation's own variable definitions, then CoerceArgumentValues")
	r.RequireLabel("oracle1:ok", "oracle2:ok", "mode:literal", "mode:variable", "expect:absent", "expect:null", "lit:escape-simple", "lit:escape-unicode",
		"lit:escape-surrogate", "lit:block-string", "lit:block-indented", "lit:depth>=2", "num:exponent", "num:big-int", "lit:variable-inside",
		"family:colliding-spellings", "family:invalid-utf8", "lit:del", "lit:c0-control", "lit:astral-nonprintable")
	r.Regress(dispatch())
	r.RunProbes(probes())
	forwardPart.Run(r)
}

func TestReplay(t *testing.T) { pbt.StdReplay(t, "C15", dispatch()) }

func dispatch() pbt.Dispatch {
	return pbt.Dispatch{}.Add(forwardPart.Name, forwardPart.Handler()).WithProbes(probes())
}

// ---- directed probes of the recorded findings ----------------------------------------------------

var probeSchema = ir.Schema{
	Scalars: []string{"JSON"},
	Enums:   []ir.Enum{{Name: "E", Values: []string{"X", "Y"}}},
	Inputs: []ir.Input{
		{Name: "In", Fields: []ir.Field{{Name: "a", Type: "Int!"}, {Name: "d", Type: "E", Default: "X"}}},
		{Name: "L", Fields: []ir.Field{{Name: "l", Type: "[String!]!", Default: `"x"`}}},
	},
	Echoes: []ir.Echo{
		{Name: "fS", Arg: ir.Field{Name: "v", Type: "String"}},
		{Name: "fF", Arg: ir.Field{Name: "v", Type: "Float"}},
		{Name: "fFs", Arg: ir.Field{Name: "v", Type: "[Float]"}},
		{Name: "fI", Arg: ir.Field{Name: "v", Type: "Int"}},
		{Name: "fIs", Arg: ir.Field{Name: "v", Type: "[Int]"}},
		{Name: "fIns", Arg: ir.Field{Name: "v", Type: "[In]"}},
		{Name: "fIn", Arg: ir.Field{Name: "v", Type: "In"}},
		{Name: "fJ", Arg: ir.Field{Name: "v", Type: "JSON"}},
		{Name: "fL", Arg: ir.Field{Name: "v", Type: "L"}},
	},
}

// probeCase: one field `echo(v: arg)`, optional variable declarations, variables text.
func probeCase(echo, arg, vars string, decls ...ir.VarDecl) Case {
	fu := FieldUse{Key: echo, Echo: echo, Arg: arg, Mode: "literal"}
	if strings.HasPrefix(arg, "$") {
		fu.Mode = "variable"
	}
	c := Case{Schema: probeSchema, Decls: decls, Fields: []FieldUse{fu}, VarsForm: "absent"}
	c.Query = "query" + ir.VarDefsText(decls) + "{ " + sel(fu) + " }"
	if vars != "" {
		c.VarsForm, c.Vars = "object", vars
	}
	return c
}

func probeOf(id string, cases ...Case) pbt.ProbeDef {
	return pbt.ProbeDef{Input: cases, Fn: func() string {
		var out []string
		for _, c := range cases {
			v := checkCase(c, &pbt.Rec{})
			m := v.Msg
			for _, cut := range []string{"\nschema:", "\nnormalized operation:", "\nbody:"} {
				if i := strings.Index(m, cut); i >= 0 {
					m = m[:i]
				}
			}
			if v.Msg != "" && v.Finding == id {
				out = append(out, fmt.Sprintf("%q %s => %s", c.Query, c.Vars, m))
			}
		}
		return strings.Join(out, " | ")
	}}
}

func probes() pbt.Probes {
	const bs = "\\"
	q3 := `"""`
	return pbt.Probes{
		fIntMin:   probeOf(fIntMin, probeCase("fI", intMin, "")),
		fExp:      probeOf(fExp, probeCase("fF", "1e-5", ""), probeCase("fF", "1E+5", ""), probeCase("fFs", "[1e-5]", "")),
		fBlockWs:  probeOf(fBlockWs, probeCase("fS", q3+" "+q3, "")),
		fBlockEsc: probeOf(fBlockEsc, probeCase("fS", q3+"a"+bs+q3+"b"+q3, "")),
		fVarDflt: probeOf(fVarDflt, probeCase("fIs", "[$x]", "{}", ir.VarDecl{Name: "x", Type: "Int", Default: "5"}),
			probeCase("fIns", "[{a: $x}]", "{}", ir.VarDecl{Name: "x", Type: "Int!", Default: "5"})),
		fNullDflt: probeOf(fNullDflt, probeCase("fIs", "$x", "{}", ir.VarDecl{Name: "x", Type: "[Int]", Default: "null"})),
		fShift: probeOf(fShift, probeCase("fIns", "[null, {a: 1}]", ""),
			probeCase("fIns", "$x", `{"x":[null,{"a":1}]}`, ir.VarDecl{Name: "x", Type: "[In]"})),
		fSingle:  probeOf(fSingle, probeCase("fL", "$x", `{"x":{}}`, ir.VarDecl{Name: "x", Type: "L"})),
		fBrace:   probeOf(fBrace, probeCase("fS", `"`+bs+`u{1F600}"`, "")),
		fRawTab:  probeOf(fRawTab, probeCase("fJ", "{g: \"\t\"}", ""), probeCase("fS", "\"a\tb\"", "")),
		fBlockQ:  probeOf(fBlockQ, probeCase("fS", q3+`" a`+q3, ""), probeCase("fS", q3+` ""`+"\t"+q3, "")),
		fBlockBs: probeOf(fBlockBs, probeCase("fS", q3+bs+bs+q3+" "+q3, "")),
	}
}
